#!/bin/sh
# run every registered check on /repo (quick by default) and report exit codes
TIER="${1:-quick}"
cd /verif
for c in $(python3 -c "import json;print(' '.join(x['property_id'] for x in json.load(open('MANIFEST.json'))['checks']))"); do
  bin/check $c $TIER > /tmp/run_all_$c.log 2>&1; rc=$?
  echo "$c rc=$rc $(grep -E 'VIOLATION|KNOWN-FINDING|CHECK-ERROR' /tmp/run_all_$c.log | head -2 | cut -c1-150) | $(tail -1 /tmp/run_all_$c.log | cut -c1-120)"
done
