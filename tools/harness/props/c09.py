"""C09 -- sample store (H: Model/Store.v; K: batch histories replayed through the real Sample and
evaluated by vm_compute in Coq; oracle: the property's statement on the implementation)."""
import itertools
import math

import numpy as np

from harness import core

NINF = -math.inf


def _impl():
    import MTfit.sampling as sm
    import MTfit.probability.probability as pr
    from MTfit.algorithms.monte_carlo import IterationSample
    return sm, pr, IterationSample


def gen_history(rng, k=None, exhaustive=None):
    k = k or rng.randint(1, 5)
    events = rng.choice([1, 1, 2, 3])
    rows = rng.choice([1, 1, 2, 3])
    use_scale = rng.random() < 0.4
    nb = rng.randint(1, 6)
    style = rng.choice(['mixed', 'mixed', 'mostly_zero', 'all_zero', 'exact_fill'])
    ops = []
    uid = 1
    used = 0
    for b in range(nb):
        if style == 'exact_fill' and rng.random() < 0.6:
            cap_left = (k - used % k) if used % k else k
            m = rng.choice([cap_left, cap_left - 1, cap_left + 1, 2 * k, 3 * k])
            m = max(0, m)
            pz = 0.0
        else:
            m = rng.randint(0, 3 * k)
            pz = {'mixed': 0.35, 'mostly_zero': 0.85, 'all_zero': 1.0, 'exact_fill': 0.2}[style]
        cands = []
        for j in range(m):
            if rng.random() < pz:
                lnp = [None] * rows
            else:
                lnp = [rng.randint(-40, 5) if rng.random() < 0.8 else None for _ in range(rows)]
                if all(v is None for v in lnp) and rng.random() < 0.7:
                    lnp[rng.randrange(rows)] = rng.randint(-40, 5)
            cands.append({'id': uid, 'lnp': lnp, 'scale': 1000 + uid})
            used += any(v is not None for v in lnp)
            uid += 1
        n = m + rng.choice([0, 0, 3, 50])
        # how an all-zero batch arrives: filtered to an empty result by the forward task, or as explicit -inf columns
        empty_form = rng.random() < 0.5
        ops.append({'cands': cands, 'n': n, 'empty_form': empty_form})
    return {'k': k, 'events': events, 'rows': rows, 'use_scale': use_scale, 'ops': ops, 'style': style, 'reuse_buffers': rng.random() < 0.5}


def drive(sm, case):
    k, e, r = case['k'], case['events'], case['rows']
    s = sm.Sample(initial_sample_size=k, number_events=e)
    for op in case['ops']:
        cands = op['cands']
        if op['empty_form'] and all(all(v is None for v in c['lnp']) for c in cands):
            mts = np.matrix([])
            lnp = sm.LnPDF(np.matrix([]))
            sc = np.array([])
        else:
            m = len(cands)
            mts = np.matrix(np.zeros((6 * e, m)))
            for j, c in enumerate(cands):
                mts[:, j] = np.matrix([[c['id'] * (q + 1)] for q in range(6 * e)])
            lnp = np.matrix([[NINF if c['lnp'][i] is None else float(c['lnp'][i]) for c in cands] for i in range(r)]).reshape(r, m)
            sc = np.array([float(c['scale']) for c in cands])
        with np.errstate(all='ignore'):
            if case['use_scale']:
                s.append(mts, lnp, op['n'], scale_factor=sc)
            else:
                s.append(mts, lnp, op['n'])
        # the caller's buffers are reused for the next batch: what was stored must not be a view of them
        if case.get('reuse_buffers') and isinstance(mts, np.matrix) and mts.size:
            mts[:] = -777.0
            if isinstance(lnp, np.matrix) and lnp.size:
                lnp[:] = -555.0
            if isinstance(sc, np.ndarray) and sc.size:
                sc[:] = -333.0
    return s


def observe(s, case):
    e, r = case['events'], case['rows']
    M = np.asarray(s.moment_tensors)
    ids = M[0, :].tolist()
    for q in range(6 * e):
        if not np.array_equal(M[q, :], (q + 1) * M[0, :]):
            return {'error': 'rows of the stored tensors are no longer aligned (row %d)' % q}
    L = np.asarray(s.ln_pdf._ln_pdf)
    if L.size == 0:
        lnps = []
    else:
        lnps = [[None if L[i, j] == NINF else int(L[i, j]) for i in range(L.shape[0])] for j in range(L.shape[1])]
    scales = [int(x) for x in getattr(s, 'scale_factor', np.array([]))]
    return {'cap': M.shape[1], 'used': int(s._i), 'mts': [int(x) for x in ids], 'lnps': lnps, 'scales': scales, 'tried': int(s.n)}


def coq_lnp(v):
    return core.coq_list(['None' if x is None else '(Some %s)' % core.zlit(x) for x in v])


def coq_case(case, obs):
    ops = []
    for op in case['ops']:
        cs = ['(mkCand %d %s %d)' % (c['id'], coq_lnp(c['lnp']), c['scale'] if case['use_scale'] else 0) for c in op['cands']]
        ops.append('(%s, %d)' % (core.coq_list(cs), op['n']))
    scales = obs['scales'] if case['use_scale'] else [0] * obs['used']
    return '(check_store %d%%nat %s %d%%nat %d%%nat %s %s %s %d)' % (
        case['k'], core.coq_list(ops), obs['cap'], obs['used'], core.zlist(obs['mts']),
        core.coq_list([coq_lnp(v) for v in obs['lnps']]), core.zlist(scales), obs['tried'])


def expected(case):
    ids, lnps, scales, tried = [], [], [], 0
    for op in case['ops']:
        tried += op['n']
        for c in op['cands']:
            if any(v is not None for v in c['lnp']):
                ids.append(c['id'])
                lnps.append(c['lnp'])
                scales.append(c['scale'])
    return ids, lnps, scales, tried


def oracle(case, obs):
    """the property's own statement"""
    if 'error' in obs:
        return obs['error']
    ids, lnps, scales, tried = expected(case)
    if obs['mts'][:obs['used']] != ids:
        return 'stored tensors are not exactly the non-zero candidates in order'
    if obs['used'] != len(ids):
        return 'fill index differs from the number of non-zero candidates'
    if obs['lnps'] != lnps:
        return 'stored log-probabilities are not those of the stored tensors'
    if case['use_scale'] and obs['scales'] != scales:
        return 'scale factors are not those of the stored tensors'
    if obs['tried'] != tried:
        return 'tried-sample count is not the sum of the batch sizes'
    return None


def marg(v):
    fin = [x for x in v if x is not None]
    if not fin:
        return NINF
    m = max(fin)
    return m + math.log(sum(math.exp(x - m) for x in fin))


def output_oracle(R, sm, case):
    """output(): normalised to unit total, discard only below the threshold, explicit empty result -- for no discard, the usual
    settings and discards placed so that the threshold (a fraction of the LARGEST stored probability) falls between stored values"""
    ids, lnps, scales, tried = expected(case)
    n_samples = max(tried, 1)
    discards = [0, 0.5, 10, 1000]
    margs0 = sorted(set(x for x in (marg(v) for v in lnps) if x != NINF), reverse=True)
    for a, b in list(zip(margs0, margs0[1:]))[:3]:
        discards.append(math.exp(margs0[0] - (a + b) / 2.0) / n_samples)
    last = (None, None)
    for discard in discards:
        why, rec = output_oracle_one(R, sm, case, discard)
        if why:
            return why, rec
        if discard == 10:
            last = (why, rec)
    return last


def output_oracle_one(R, sm, case, discard):
    ids, lnps, scales, tried = expected(case)
    s = drive(sm, case)
    n_samples = max(tried, 1)
    try:
        with np.errstate(all='ignore'):
            out, _ = s.output(normalise=True, convert=False, n_samples=n_samples, discard=discard)
    except Exception as e:
        return 'output raised %s: %s' % (type(e).__name__, e), None
    if not ids:
        if list(out.get('probability', [1])) != []:
            return 'an all-zero history does not give the explicit empty result', None
        return None, None
    key = 'moment_tensor_space' if case['events'] == 1 else 'moment_tensor_space_1'
    got_ids = [int(x) for x in np.asarray(out[key])[0, :].flatten()]
    margs = [marg(v) for v in lnps]
    mx = max(margs)
    lse = mx + math.log(sum(math.exp(x - mx) for x in margs))
    thr = NINF if not (discard and n_samples) else mx - math.log(discard * n_samples)
    keep = [x > thr + 1e-9 for x in margs]
    amb = [abs(x - thr) <= 1e-9 for x in margs]
    want_ids = [i for i, kp in zip(ids, keep) if kp]
    if any(amb):
        return None, None
    if got_ids != want_ids:
        return 'output keeps %r, expected %r (discard %r, n %d)' % (got_ids, want_ids, discard, n_samples), None
    prob = np.asarray(out['probability'], dtype=float)
    prob = prob.sum(axis=0).flatten() if prob.ndim > 1 and prob.shape[0] > 1 else prob.flatten()
    want_p = [math.exp(x - lse) for x, kp in zip(margs, keep) if kp]
    if len(prob) != len(want_p) or any(abs(a - b) > 1e-9 for a, b in zip(prob, want_p)):
        return 'output probabilities are not the stored values normalised to unit total', None
    if case['use_scale'] and case['events'] > 1:
        if [int(x) for x in out.get('scale_factors', [])] != [sc for sc, kp in zip(scales, keep) if kp]:
            return 'scale factors in the output are not aligned with the kept samples', None
    t = None
    if discard and n_samples:
        t = math.floor(math.log(discard * n_samples))
    return None, (t, [None if x == NINF else x for x in margs], got_ids)


def run(R):
    sm, pr, IterationSample = _impl()
    proved = R.prove()
    R.assumptions += ['numpy slicing/append semantics of Sample are modelled by hand (Model/Store.v) and tied by the correspondence run',
                      'log-probabilities are small integers in the correspondence run (exact comparison); normalisation is judged '
                      'numerically (1e-9)']
    cases = []
    # bounded-exhaustive: increments 1 and 2, up to 3 batches, every zero pattern of up to 3 candidates per batch
    if R.thorough:
        lim_k, lim_b, lim_m = (1, 2, 3), 3, 4
    else:
        lim_k, lim_b, lim_m = (1, 2), 2, 3
    uid = itertools.count(1)
    for k in lim_k:
        patterns = [p for m in range(0, lim_m + 1) for p in itertools.product([0, 1], repeat=m)]
        for hist in itertools.product(patterns, repeat=lim_b):
            ops = []
            u = 1
            for pat in hist:
                cands = []
                for bit in pat:
                    cands.append({'id': u, 'lnp': [(-u) if bit else None], 'scale': 1000 + u})
                    u += 1
                ops.append({'cands': cands, 'n': len(pat), 'empty_form': False})
            cases.append({'k': k, 'events': 1, 'rows': 1, 'use_scale': False, 'ops': ops, 'style': 'exhaustive'})
    n_exh = len(cases)
    for i in range(R.n(300, 6000)):
        cases.append(gen_history(R.rng))
    exprs, idx, bad = [], [], None
    styles = {}
    for i, case in enumerate(cases):
        styles[case['style']] = styles.get(case['style'], 0) + 1
        try:
            s = drive(sm, case)
            obs = observe(s, case)
        except Exception as e:
            obs = {'error': 'append raised %s: %s' % (type(e).__name__, e)}
        R.count(('hist', i), nontrivial=sum(len(o['cands']) for o in case['ops']) > case['k'])
        if i in (n_exh, n_exh + 1):
            R.sample({'history': case, 'observed': obs})
        why = oracle(case, obs)
        if why and bad is None:
            bad = {'check': why, 'history': case, 'observed': obs}
        if 'error' not in obs:
            idx.append(i)
            exprs.append(coq_case(case, obs))
    failing, errors = core.run_cases('c09', 'From MTV.Model Require Import Store.', exprs)
    for e in errors:
        R.signal('correspondence-infrastructure', e)
    for j in failing:
        case = cases[idx[j]]
        if bad is None:
            R.signal('correspondence', {'history': case, 'why': 'store state differs from Model/Store.v'})
    R.cov['correspondence_cases'] = len(exprs)
    R.cov['correspondence_disagreements'] = len(failing)
    R.cov['exhaustive_histories'] = n_exh
    R.cov['history_styles'] = styles
    # output / discard
    kexprs = []
    for i in range(R.n(150, 3000)):
        case = gen_history(R.rng)
        why, k = output_oracle(R, sm, case)
        R.count(('output', i))
        if why and bad is None:
            bad = {'check': why, 'history': case}
        if k and case['rows'] == 1 and all(v is None or float(v).is_integer() for v in k[1]):
            t, vals, got = k
            ids = expected(case)[0]
            kexprs.append('(list_eqb Z.eqb (select (keep %s %s) %s) %s)' % (
                'None' if t is None else '(Some %s)' % core.zlit(t),
                core.coq_list(['None' if v is None else '(Some %s)' % core.zlit(int(v)) for v in vals]), core.zlist(ids), core.zlist(got)))
    failing, errors = core.run_cases('c09k', 'From MTV.Model Require Import Store.', kexprs)
    for e in errors:
        R.signal('correspondence-infrastructure', e)
    if failing:
        R.signal('correspondence', {'why': 'output selection differs from Model/Store.v keep/select', 'cases': failing[:5]})
    R.cov['discard_cases'] = len(kexprs)
    # sample-count-limited random sampling
    mexprs = []
    for i in range(R.n(40, 600)):
        maxs = R.rng.randint(1, 60)
        b = R.rng.randint(1, 12)
        sizes = [R.rng.choice([b, b, 0, R.rng.randint(0, 2 * b)]) for _ in range(30)]
        alg = IterationSample(max_samples=maxs, number_samples=2)
        alg.pdf_sample = sm.Sample(initial_sample_size=3)
        alg.initialise()
        steps, end = 0, False
        for sz in sizes:
            with np.errstate(all='ignore'):
                _, end = alg.iterate({'moment_tensors': np.matrix(np.zeros((6, sz))), 'ln_pdf': np.matrix(-np.inf * np.ones((1, sz))), 'n': sz})
            steps += 1
            if end:
                break
        R.count(('mc', i))
        tot = 0
        want = None
        for j, sz in enumerate(sizes):
            tot += sz
            if tot >= maxs:
                want = j + 1
                break
        if (steps if end else None) != want and bad is None:
            bad = {'check': 'sample-count-limited sampling does not stop at the first batch reaching the limit',
                   'max_samples': maxs, 'batch_sizes': sizes, 'stopped_after': steps if end else None, 'expected': want}
        mexprs.append('(match mc_stop %d 0 %s with Some n => Nat.eqb n %d | None => %s end)' % (
            maxs, core.zlist(sizes), steps if end else 0, 'false' if end else 'true'))
    failing, errors = core.run_cases('c09m', 'From MTV.Model Require Import Store.', mexprs)
    for e in errors:
        R.signal('correspondence-infrastructure', e)
    if failing:
        R.signal('correspondence', {'why': 'termination differs from Model/Store.v mc_stop', 'cases': failing[:5]})
    if bad:
        R.violation('sample store: %s' % bad['check'], bad)
    R.cov['rule'] = ('all histories of up to %d batches of up to %d candidates with every zero pattern for increments %s (exhaustive), plus '
                     'random histories: increment 1-5, 1-6 batches of 0..3x the increment incl. exact fills, 1-3 events, 1-3 log-PDF rows, '
                     'scale factors, all-zero batches in both forms; non-trivial = forces at least one storage growth' % (lim_b, lim_m, lim_k))
    return proved


def replay(R, body):
    sm, pr, _ = _impl()
    case = body['replay']['history']
    obs = observe(drive(sm, case), case)
    why = oracle(case, obs)
    print('observed', obs)
    print('oracle:', why or 'holds')
    return 1 if why else 0
