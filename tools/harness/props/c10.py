"""C10 -- evidence, model probabilities, divergences (T: ln_bayesian_evidence, model_probabilities,
dkl_estimate -> Gen/Evidence.v; theorems over R; oracle against mpmath)."""
import math

import mpmath
import numpy as np

from harness import gen
from harness.tv import close

mpmath.mp.dps = 40
NINF = -math.inf


def _impl():
    import MTfit.probability.probability as pr
    import MTfit.sampling as sm
    return pr, sm


def gen_lls(rng, k):
    style = rng.choice(['moderate', 'very_negative', 'wide', 'positive'])
    base = {'moderate': rng.uniform(-50, 0), 'very_negative': rng.uniform(-1e5, -1000), 'wide': rng.uniform(-500, 0),
            'positive': rng.uniform(0, 900)}[style]
    spread = {'moderate': 20, 'very_negative': 50, 'wide': 3000, 'positive': 40}[style]
    return [base - rng.random() * spread for _ in range(k)], style


def exact_evidence(ls, n):
    fin = [mpmath.mpf(x) for x in ls if x != NINF]
    m = max(fin)
    return float(m + mpmath.log(mpmath.fsum([mpmath.exp(x - m) for x in fin])) - mpmath.log(n))


def exact_dkl2(ps, qs, dV):
    """sum p ln(p/q) dV for the two PDFs normalised to sum p dV = sum q dV = 1 (40 digits); +inf when q vanishes where p does not"""
    mp = mpmath.mp.clone()
    mp.dps = 40
    mx_p = max(x for x in ps if x != NINF)
    mx_q = max(x for x in qs if x != NINF)
    zp = mp.fsum([mp.exp(mp.mpf(x) - mx_p) for x in ps if x != NINF]) * mp.mpf(dV)
    zq = mp.fsum([mp.exp(mp.mpf(x) - mx_q) for x in qs if x != NINF]) * mp.mpf(dV)
    tot = mp.mpf(0)
    for x, y in zip(ps, qs):
        if x == NINF:
            continue
        if y == NINF:
            return math.inf
        lp = mp.mpf(x) - mx_p - mp.log(zp)
        lq = mp.mpf(y) - mx_q - mp.log(zq)
        tot += mp.exp(lp) * (lp - lq)
    return float(tot * mp.mpf(dV))


def exact_dkl(ls, N):
    fin = [mpmath.mpf(x) for x in ls if x != NINF]
    m = max(fin)
    ws = [mpmath.exp(x - m) for x in fin]
    S = mpmath.fsum(ws)
    ws = [w / S for w in ws]
    return float(mpmath.log(N) + mpmath.fsum([w * mpmath.log(w) for w in ws if w > 0]))


def run(R):
    pr, sm = _impl()
    proved = R.prove()
    R.assumptions += ['the prior factor p is the value returned by the sampling prior (1 for the built-in 6-sphere prior); it '
                      'enters the model as a positive parameter',
                      'lists in the theorems hold the finite log-likelihoods; -inf samples are represented by their absence '
                      'while n_samples counts them (checked on the implementation by the correspondence run)',
                      'the two-PDF divergence dkl(p, q) is not regenerated (two arrays walked element by element): its theorems (non-negative, zero for identical inputs) are about the definition sum p ln(p/q) dV, with which the implementation is compared at 40 digits by the oracle, including +inf where q vanishes and p does not']
    defs = R.defs(gen.gen_evidence)
    bad = None
    n = R.n(400, 15000)
    for i in range(n):
        k = R.rng.randint(1, 12)
        ls, style = gen_lls(R.rng, k)
        nzero = R.rng.choice([0, 0, 1, 5, 100])
        N = k + nzero + R.rng.choice([0, 0, 10, 10000])
        R.count(('ev', i), nontrivial=(style != 'moderate' or nzero > 0))
        # zero-probability samples are filtered out before the evidence is computed (Sample.output); entries equal
        # to -inf that survive must still contribute nothing
        with_inf = ls + [NINF] * R.rng.choice([0, 0, 1, 2])
        R.rng.shuffle(with_inf)
        out = {'g': np.zeros(len(with_inf)), 'd': np.zeros(len(with_inf)), 'ln_pdf': np.matrix([with_inf])}
        with np.errstate(all='ignore'):
            got = float(sm.ln_bayesian_evidence(out, N))
        want = exact_evidence(ls, N)
        case = {'fn': 'ln_bayesian_evidence', 'ln_pdf': with_inf, 'n_samples': N, 'got': got, 'expected': want}
        if i < 2:
            R.sample(case)
        if math.isnan(got) or not close(got, want, 1e-9):
            bad = bad or dict(case, check='log of the mean likelihood over all tried samples')
        if defs:
            try:
                mv = defs['ln_evidence'].evaluate([ls, 1.0, float(N)])
                if not close(got, mv, 1e-9):
                    R.signal('correspondence', {'def': 'ln_evidence', 'ls': ls, 'N': N, 'implementation': got, 'model': mv})
            except OverflowError:
                pass
            except Exception as ex:      # the regenerated definition cannot be evaluated on this input (e.g. log of an underflowed value)
                R.signal('correspondence', {'def': 'ln_evidence', 'ls': ls, 'N': N, 'implementation': got, 'model': 'raised %r' % ex})
        c = R.rng.uniform(-200, 200)
        out2 = {'g': np.zeros(len(with_inf)), 'd': np.zeros(len(with_inf)), 'ln_pdf': np.matrix([[x + c for x in with_inf]])}
        perm = list(with_inf)
        R.rng.shuffle(perm)
        out3 = {'g': np.zeros(len(perm)), 'd': np.zeros(len(perm)), 'ln_pdf': np.matrix([perm])}
        with np.errstate(all='ignore'):
            g2, g3 = float(sm.ln_bayesian_evidence(out2, N)), float(sm.ln_bayesian_evidence(out3, N))
        if not close(g2, got + c, 1e-9):
            bad = bad or dict(case, check='evidence shifts by c', c=c, shifted=g2)
        if not close(g3, got, 1e-9):
            bad = bad or dict(case, check='evidence independent of sample order', permuted=perm, got_permuted=g3)
    for i in range(n):
        m = R.rng.randint(2, 5)
        es = [R.rng.uniform(-1000, 1000) if R.rng.random() < 0.5 else R.rng.uniform(-30, 30) for _ in range(m)]
        if R.rng.random() < 0.3:
            base = es[0]
            es = [base + R.rng.uniform(-25, 25) for _ in range(m)]
        R.rng.shuffle(es)
        R.count(('mp', i), nontrivial=(es.index(max(es)) != 0))
        with np.errstate(all='ignore'):
            ps = [float(x) for x in pr.model_probabilities(*es)]
        case = {'fn': 'model_probabilities', 'ln_evidences': es, 'got': ps}
        if i < 2:
            R.sample(case)
        mx = max(es)
        ws = [mpmath.exp(mpmath.mpf(e) - mx) for e in es]
        S = mpmath.fsum(ws)
        want = [float(w / S) for w in ws]
        if any(math.isnan(p) for p in ps) or abs(sum(ps) - 1) > 1e-12 or not all(close(p, w, 1e-9) or (abs(p - w) < 1e-300) for p, w in zip(ps, want)):
            bad = bad or dict(case, check='positive, sum to one, ratios exp(difference of evidences)', expected=want)
        c = R.rng.uniform(-500, 500)
        with np.errstate(all='ignore'):
            ps2 = [float(x) for x in pr.model_probabilities(*[e + c for e in es])]
        if not all(close(a, b, 1e-9) or abs(a - b) < 1e-14 for a, b in zip(ps, ps2)):
            bad = bad or dict(case, check='unchanged by a common shift', c=c, shifted=ps2)
        if defs:
            mv = defs['model_probs_%d' % m].evaluate(es)
            if not all(close(a, b, 1e-9) or abs(a - b) < 1e-300 for a, b in zip(ps, mv)):
                R.signal('correspondence', {'def': 'model_probs_%d' % m, 'args': es, 'implementation': ps, 'model': list(mv)})
    for i in range(n):
        k = R.rng.randint(1, 10)
        ls, style = gen_lls(R.rng, k)
        nz = R.rng.choice([0, 0, 1, 3])
        full = ls + [NINF] * nz
        R.rng.shuffle(full)
        N = len(full) + R.rng.choice([0, 0, 7, 100000])
        V = R.rng.choice([math.pi ** 3, 2 * math.pi ** 2, 1.0, 17.5])
        R.count(('dkl', i), nontrivial=(nz > 0 or style != 'moderate'))
        with np.errstate(all='ignore'):
            got = float(pr.dkl_estimate(np.array(full), V, N))
            got2 = float(pr.dkl_estimate(pr.LnPDF(np.matrix([full])), V, N))
        want = exact_dkl(ls, N)
        case = {'fn': 'dkl_estimate', 'ln_pdf': full, 'V': V, 'N': N, 'got': got, 'expected': want}
        if i < 1:
            R.sample(case)
        if math.isnan(got) or not close(got, want, 1e-8) and abs(got - want) > 1e-9 or got < -1e-9 or got > math.log(N) + 1e-9 or not close(got, got2, 1e-12):
            bad = bad or dict(case, check='ln N minus entropy of the normalised weights, within [0, ln N]', via_lnpdf=got2)
        if defs and nz == 0:
            try:
                mv = defs['dkl_est'].evaluate([ls, V, float(N)])
                if not close(got, mv, 1e-8) and abs(got - mv) > 1e-9:
                    R.signal('correspondence', {'def': 'dkl_est', 'ls': ls, 'V': V, 'N': N, 'implementation': got, 'model': mv})
            except (OverflowError, ValueError):
                pass
        # two sampled PDFs
        qs = [x + R.rng.uniform(-3, 3) for x in full]
        dV = V / N
        with np.errstate(all='ignore'):
            d_self = float(pr.dkl(np.array(full), np.array(full), dV))
            d_pq = float(pr.dkl(np.array(full), np.array(qs), dV))
        if abs(d_self) > 1e-9 or math.isnan(d_pq) or d_pq < -1e-9:
            bad = bad or {'fn': 'dkl', 'p': full, 'q': qs, 'dV': dV, 'dkl_self': d_self, 'dkl_pq': d_pq,
                          'check': 'divergence zero for identical inputs and non-negative otherwise'}
        # q with its own zero-probability samples (not those of p) and its own spread: against the exact value of the definition,
        # sum p ln(p/q) dV for the normalised PDFs, which is +inf when q vanishes where p has mass
        q2 = [R.rng.choice([x, x, R.rng.uniform(-30, 5)]) if x != NINF else R.rng.choice([NINF, R.rng.uniform(-30, 5)]) for x in full]
        q2 = [x + R.rng.uniform(-3, 3) for x in q2]
        if len(q2) > 1 and R.rng.random() < 0.4:
            q2[R.rng.randrange(len(q2))] = NINF
        if all(x == NINF for x in q2) or all(x == NINF for x in full):
            continue
        want2 = exact_dkl2(full, q2, dV)
        with np.errstate(all='ignore'):
            d2 = float(pr.dkl(np.array(full), np.array(q2), dV))
        R.count(('dkl2', i), nontrivial=want2 == math.inf)
        ok2 = (d2 == math.inf) if want2 == math.inf else (not math.isnan(d2) and d2 >= -1e-9 and (close(d2, want2, 1e-8) or abs(d2 - want2) < 1e-9))
        if not ok2:
            bad = bad or {'fn': 'dkl', 'p': full, 'q': q2, 'dV': dV, 'dkl_pq': d2, 'expected': want2,
                          'check': 'divergence between two sampled PDFs equals sum p ln(p/q) dV of the normalised PDFs (non-negative; +inf when q is zero where p has mass)'}
    if bad:
        R.violation('%s: %s fails' % (bad['fn'], bad['check']), bad)
    R.cov['rule'] = ('random log-likelihood vectors (moderate, very negative, widely spread, positive) with -inf entries and N >= '
                     'number of non-zero samples; 2-5 log evidences spanning +-1e3 in random order; two-PDF divergence with independent zero-probability samples in q against the 40-digit definition; non-trivial = not the plain '
                     'moderate style / maximum not first')
    return proved


def replay(R, body):
    pr, sm = _impl()
    rp = body['replay']
    if rp['fn'] == 'model_probabilities':
        ps = [float(x) for x in pr.model_probabilities(*rp['ln_evidences'])]
        print('got', ps, 'expected', rp.get('expected'))
        return 0 if all(close(a, b, 1e-9) for a, b in zip(ps, rp['expected'])) else 1
    print(rp)
    return 0
