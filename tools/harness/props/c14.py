"""C14 -- eigen-decomposition wrapper and source-type coordinates.

T: E_GD, GD_E, E_tk, tk_uv, GD_basic_cdc, basic_cdc_GD, isotropic_c, c21_cvoigt, c_norm regenerated into Gen/Convert.v;
theorems in Props/C14.v (lune: permutation/scale invariance, range, inverse of GD_E; Hudson: diamond, bounds, special
points, scale invariance; stiffness matrix = tensor contraction; sorted wrapper).  The eigen-solver and the linear solver
are external: their contracts are hypotheses of the theorems and are checked here on the real routines."""
import itertools
import math

import numpy as np

from harness.props import conv

NAMES = ['E_GD', 'GD_E', 'E_tk', 'tk_uv', 'GD_basic_cdc', 'basic_cdc_GD', 'isotropic_c', 'c21_cvoigt', 'c_norm']
SCALES = [1e-12, 1e-9, 1e-6, 1e-3, 0.37, 1.0, 41.0, 1e3, 1e6, 1e12]


def spectra(rng, i):
    k = i % 8
    if k == 0:
        return [rng.uniform(-1, 1) for _ in range(3)], 'generic'
    if k == 1:
        a = rng.uniform(0.1, 1)
        return [a, 0.0, -a], 'double-couple'
    if k == 2:
        a = rng.uniform(0.1, 1) * rng.choice([-1, 1])
        return [2 * a, -a, -a], 'clvd'
    if k == 3:
        a = rng.uniform(0.1, 1) * rng.choice([-1, 1])
        return [a, a, a], 'isotropic'
    if k == 4:
        a, b = rng.uniform(-1, 1), rng.uniform(-1, 1)
        return [a, a, b], 'repeated'
    if k == 5:
        return [rng.uniform(0.1, 1), 0.0, 0.0], 'zero-eigenvalues'
    if k == 6:
        a = rng.uniform(0.5, 1) * rng.choice([-1, 1])
        eps = 10 ** rng.uniform(-9, -3)
        return [a * (1 + eps * rng.uniform(-1, 1)), a, a * (1 + eps * rng.uniform(-1, 1))], 'near-isotropic'
    return [rng.choice([-2.0, -1.0, 0.5, 1.0, 3.0]) for _ in range(3)], 'small-integers'


def gd(C, E):
    g, d = C.E_GD(np.array(E, dtype=float))
    return float(np.squeeze(g)), float(np.squeeze(d))


def tk(C, E):
    t, k = C.E_tk(np.array(E, dtype=float))
    return float(np.squeeze(t)), float(np.squeeze(k))


def uv(C, E):
    u, v = C.E_uv(np.array(E, dtype=float))
    return float(np.squeeze(u)), float(np.squeeze(v))


def full_stiffness(c21):
    """c_ijkl from the 21 Voigt constants (independent of the implementation's Mandel matrix)"""
    V = np.zeros((6, 6))
    k = 0
    for i in range(6):
        for j in range(i, 6):
            V[i, j] = V[j, i] = c21[k]
            k += 1
    vo = {(0, 0): 0, (1, 1): 1, (2, 2): 2, (1, 2): 3, (2, 1): 3, (0, 2): 4, (2, 0): 4, (0, 1): 5, (1, 0): 5}
    c = np.zeros((3, 3, 3, 3))
    for i, j, k_, l in itertools.product(range(3), repeat=4):
        c[i, j, k_, l] = V[vo[(i, j)], vo[(k_, l)]]
    return c


def eig_oracle(R, C, n):
    bad = None
    dist = {}
    for i in range(n):
        e, kind = spectra(R.rng, i)
        dist[kind] = dist.get(kind, 0) + 1
        q = conv.rot(R.rng)
        s = R.rng.choice([1.0, 1.0, 1e-6, 1e5])
        M = q.dot(np.diag(e)).dot(q.T) * s
        M = (M + M.T) / 2
        R.count(('eig', kind, i))
        try:
            T, N, P, E = C.MT33_TNPE(np.matrix(M))
        except Exception as ex:
            bad = bad or {'check': 'eig', 'M': M.tolist(), 'kind': kind, 'error': repr(ex)}
            continue
        why = None
        if np.iscomplexobj(E) or np.iscomplexobj(T) or np.iscomplexobj(N) or np.iscomplexobj(P):
            why = 'complex output for a real symmetric tensor'
        else:
            E = np.asarray(E, dtype=float).flatten()
            L = np.hstack([np.asarray(x, dtype=float).reshape(3, 1) for x in (T, N, P)])
            scale = max(np.abs(M).max(), 1e-300)
            if not (E[0] >= E[1] >= E[2]):
                why = 'eigenvalues not ordered from largest to smallest'
            elif np.abs(L.T.dot(L) - np.eye(3)).max() > 1e-8:
                why = 'axes are not orthonormal'
            elif np.abs(L.dot(np.diag(E)).dot(L.T) - M).max() > 1e-8 * scale:
                why = 'axes and eigenvalues do not rebuild the tensor'
        if why:
            bad = bad or {'check': 'eig', 'M': M.tolist(), 'kind': kind, 'why': why}
    R.cov['eig_case_distribution'] = dist
    return bad


def eig_key(rp):
    return 'eig_repeated_eigenvalues' if rp.get('kind') in ('clvd', 'isotropic', 'repeated', 'zero-eigenvalues', 'small-integers', 'near-isotropic') else None


def sort_wrapper_oracle(R, C, n):
    """the wrapper's own work (descending sort, real part) on a stubbed solver that returns shuffled pairs"""
    bad = None
    real = np.linalg.eig
    for i in range(n):
        e = [R.rng.uniform(-1, 1) for _ in range(3)]
        q = conv.rot(R.rng)
        perm = list(range(3))
        R.rng.shuffle(perm)
        cplx = R.rng.random() < 0.5
        M = q.dot(np.diag(e)).dot(q.T)

        def stub(m, perm=perm, e=e, q=q, cplx=cplx):
            E = np.array([e[j] for j in perm])
            L = np.matrix(q[:, perm])
            if cplx:
                return E.astype(complex), L.astype(complex)
            return E, L
        np.linalg.eig = stub
        try:
            T, N, P, E = C.MT33_TNPE(np.matrix(M))
        finally:
            np.linalg.eig = real
        R.count(('sortwrap', i))
        E = np.asarray(E).flatten()
        order = np.argsort(e)[::-1]
        L = np.hstack([np.asarray(x).reshape(3, 1) for x in (T, N, P)])
        if np.iscomplexobj(E) or np.abs(E - np.array(e)[order]).max() > 0 or np.abs(np.real(L) - q[:, order]).max() > 0:
            bad = bad or {'check': 'sort-wrapper', 'eigenvalues': e, 'solver_order': perm, 'complex_dtype': cplx,
                          'returned': [float(np.real(x)) for x in E]}
    return bad


def lune_oracle(R, C, n):
    bad = None
    for i in range(n):
        e, kind = spectra(R.rng, i)
        R.count(('lune', kind, i))
        try:
            g0, d0 = gd(C, e)
        except Exception as ex:
            bad = bad or {'check': 'lune', 'E': e, 'error': repr(ex)}
            continue
        if not (-math.pi / 6 - 1e-12 <= g0 <= math.pi / 6 + 1e-12 and -math.pi / 2 - 1e-12 <= d0 <= math.pi / 2 + 1e-12):
            bad = bad or {'check': 'lune-range', 'E': e, 'got': [g0, d0]}
        spread = (max(e) - min(e)) / max(abs(x) for x in e)
        tol = 1e-9 + (1e-14 / spread if spread > 0 else 0)
        for p in itertools.permutations(e):
            g, d = gd(C, list(p))
            if abs(g - g0) > tol or abs(d - d0) > 1e-7:
                bad = bad or {'check': 'lune-permutation', 'E': e, 'permuted': list(p), 'got': [g, d], 'expected': [g0, d0]}
        for s in SCALES:
            g, d = gd(C, [s * x for x in e])
            if abs(g - g0) > tol or abs(d - d0) > 1e-7:
                bad = bad or {'check': 'lune-scale', 'E': e, 'scale': s, 'got': [g, d], 'expected': [g0, d0]}
        # lune coordinates invert the eigenvalue map (up to the positive scale that they discard)
        back = np.array(C.GD_E(g0, d0), dtype=float).flatten()
        want = np.sort(np.array(e))[::-1]
        want = want / np.linalg.norm(want)
        if np.abs(back - want).max() > 1e-7:
            bad = bad or {'check': 'lune-inverse', 'E': e, 'GD_E(E_GD(E))': back.tolist(), 'expected': want.tolist()}
    # the other direction on the lune, including its boundary and the neighbourhood of the poles
    for i in range(n):
        k = i % 6
        g = R.rng.uniform(-math.pi / 6, math.pi / 6) if k else R.rng.choice([-math.pi / 6, 0.0, math.pi / 6])
        if k in (0, 1, 2):
            d = R.rng.uniform(-math.pi / 2, math.pi / 2)
        elif k == 3:
            d = R.rng.choice([-1, 1]) * (math.pi / 2 - 10 ** R.rng.uniform(-7, -2))
        elif k == 4:
            d = 0.0
        else:
            d = R.rng.choice([-1, 1]) * math.pi / 2
        R.count(('lune-inv', k, i))
        E = np.array(C.GD_E(g, d), dtype=float).flatten()
        g1, d1 = gd(C, E)
        sb = abs(math.cos(d))
        if abs(abs(d) - math.pi / 2) < 1e-12:
            ok = abs(d1 - d) < 1e-7      # at a pole the longitude is meaningless
        else:
            ok = abs(g1 - g) <= 1e-9 + 4e-15 / sb and abs(d1 - d) <= 1e-7
        if not ok:
            bad = bad or {'check': 'lune-roundtrip', 'gamma': g, 'delta': d, 'got': [g1, d1]}
        if abs(float(np.sum(E * E)) - 1) > 1e-12:
            bad = bad or {'check': 'GD_E-unit', 'gamma': g, 'delta': d, 'E': E.tolist()}
    return bad


def hudson_oracle(R, C, n):
    bad = None
    for i in range(n):
        e, kind = spectra(R.rng, i)
        if kind == 'near-isotropic':
            continue    # T = dev2/dev0 is a ratio of round-off there; the isotropic point itself is covered
        R.count(('hudson', kind, i))
        es = sorted(e, reverse=True)
        try:
            t0, k0 = tk(C, es)
            u0, v0 = uv(C, es)
        except Exception as ex:
            bad = bad or {'check': 'hudson', 'E': e, 'error': repr(ex)}
            continue
        if not (abs(u0) <= 4 / 3 + 1e-9 and abs(v0) <= 1 + 1e-9):
            bad = bad or {'check': 'hudson-bounds', 'E': es, 'uv': [u0, v0]}
        for p in itertools.permutations(e):
            u, v = uv(C, list(p))
            if not (abs(u - u0) < 1e-7 and abs(v - v0) < 1e-7):
                bad = bad or {'check': 'hudson-permutation', 'E': es, 'permuted': list(p), 'got': [u, v], 'expected': [u0, v0]}
        for s in SCALES:
            u, v = uv(C, [s * x for x in es])
            if not (abs(u - u0) < 1e-7 and abs(v - v0) < 1e-7):
                bad = bad or {'check': 'hudson-scale', 'E': es, 'scale': s, 'got': [u, v], 'expected': [u0, v0]}
    for e, want in (([1.0, 0.0, -1.0], (0, 0)), ([1.0, 1.0, 1.0], (0, 1)), ([-1.0, -1.0, -1.0], (0, -1)),
                    ([2.0, -1.0, -1.0], (-1, 0)), ([1.0, 1.0, -2.0], (1, 0))):
        for s in (1.0, 3e-7, 2e8):
            u, v = uv(C, [s * x for x in e])
            R.count(('hudson-special', tuple(e), s))
            if abs(u - want[0]) > 1e-9 or abs(v - want[1]) > 1e-9:
                bad = bad or {'check': 'hudson-special', 'E': [s * x for x in e], 'got': [u, v], 'expected': list(want)}
    # the array form of tk_uv is the scalar form applied elementwise
    ks = np.array([R.rng.uniform(-1, 1) for _ in range(200)])
    ts = np.array([R.rng.uniform(-1, 1) * (1 - abs(k)) for k in ks])
    ua, va = C.tk_uv(ts.copy(), ks.copy())
    for t, k, u, v in zip(ts, ks, ua, va):
        us, vs = C.tk_uv(float(t), float(k))
        R.count(('tkuv-array', float(t), float(k)))
        if abs(us - u) > 1e-12 or abs(vs - v) > 1e-12:
            bad = bad or {'check': 'tk_uv-array', 'tau': float(t), 'k': float(k), 'array': [float(u), float(v)], 'scalar': [float(us), float(vs)]}
    return bad


def potency_oracle(R, C, n):
    bad = None
    for i in range(n):
        if i % 3 == 0:
            lam, mu = R.rng.uniform(0.2, 3), R.rng.uniform(0.2, 3)
            c21 = list(C.isotropic_c(lam, mu))
            kind = 'isotropic'
        else:
            B = np.array([[R.rng.gauss(0, 1) for _ in range(6)] for _ in range(6)])
            V = B.dot(B.T) + 0.5 * np.eye(6)      # positive definite Voigt matrix
            c21 = [V[a, b] for a in range(6) for b in range(a, 6)]
            kind = 'generic'
        c4 = full_stiffness(c21)
        D = np.array([[R.rng.uniform(-1, 1) for _ in range(3)] for _ in range(3)])
        D = (D + D.T) / 2
        M = np.einsum('ijkl,kl->ij', c4, D)
        m6 = conv.mt6_of_mt33(M)
        R.count(('potency', kind, i))
        try:
            d6 = np.asarray(C.MT6c_D6(np.array(m6), c21), dtype=float).flatten()
        except Exception as ex:
            bad = bad or {'check': 'potency', 'c21': c21, 'error': repr(ex)}
            continue
        want = conv.mt6_of_mt33(D)
        if np.abs(d6 - want).max() > 1e-7 * max(1.0, np.abs(want).max()):
            bad = bad or {'check': 'potency', 'kind': kind, 'c21': [float(x) for x in c21], 'D6': want.tolist(), 'M6': m6.tolist(), 'got': d6.tolist()}
    return bad


def cdc_oracle(R, C, n):
    bad = None
    for i in range(n):
        a = R.rng.uniform(0, math.pi / 2) if i % 5 else R.rng.choice([0.0, math.pi / 4, math.pi / 2 - 1e-3])
        nu = R.rng.uniform(-0.99, 0.49) if i % 7 else R.rng.choice([-0.9, 0.0, 0.25, 0.49])
        g, d = C.basic_cdc_GD(a, nu)
        a1, nu1 = C.GD_basic_cdc(g, d)
        R.count(('cdc', i))
        ca = math.cos(a)
        if abs(a1 - a) > 1e-7 or abs(nu1 - nu) > 1e-7 + 1e-13 / (ca * ca):
            bad = bad or {'check': 'cdc', 'alpha': a, 'poisson': nu, 'got': [float(a1), float(nu1)]}
        if not (-math.pi / 6 - 1e-12 <= g <= 1e-12 and -math.pi / 2 <= d <= math.pi / 2):
            bad = bad or {'check': 'cdc-range', 'alpha': a, 'poisson': nu, 'gamma_delta': [float(g), float(d)]}
    return bad


def run(R):
    C = conv.impl()
    proved = R.prove()
    R.assumptions += ['numpy.linalg.eig / numpy.linalg.solve are external: the theorems take their contracts (eigenpairs of the '
                      'tensor; a solution of the linear system) as hypotheses and the oracle checks them on the real routines',
                      'real arithmetic in the theorems; floating-point rounding is covered by the oracle tolerances only',
                      'crack+double-couple: at alpha = pi/2 (pure double-couple) the Poisson ratio is not recoverable by any '
                      'implementation (the map is not injective there); that single point is checked for alpha only']
    conv.validate_conversions(R, NAMES, R.n(150, 3000))
    n = R.n(400, 20000)
    checks = [('eig', eig_oracle(R, C, n)), ('sort', sort_wrapper_oracle(R, C, R.n(100, 2000))), ('lune', lune_oracle(R, C, n)),
              ('hudson', hudson_oracle(R, C, n)), ('potency', potency_oracle(R, C, R.n(150, 3000))),
              ('cdc', cdc_oracle(R, C, n)), ('batches', conv.batch_oracle(R, C, ['E_tk', 'E_GD', 'MT6_TNPE'], R.n(4, 60)))]
    for name, bad in checks:
        if bad:
            R.violation('source-type / eigen-decomposition property fails (%s)' % bad['check'], bad)
            break
    R.cov['rule'] = ('spectra classes: generic, double-couple, CLVD, isotropic, repeated, zero eigenvalues, near-isotropic, small '
                     'integers; random rotations; scales 1e-12..1e12; all six orders; lune grid with boundary and near-pole points; '
                     'stiffness: isotropic and random positive-definite 21-constant tensors; a case is counted once per input')
    return proved


def replay(R, body):
    C = conv.impl()
    rp = body['replay']
    ck = rp.get('check', '')
    if ck.startswith('batch-of-'):
        return conv.batch_replay(C, rp)
    if ck.startswith('lune-scale') or ck.startswith('lune-permutation'):
        e = rp.get('permuted') or [rp['scale'] * x for x in rp['E']]
        print('E_GD(%r) = %r, expected %r' % (e, gd(C, e), rp['expected']))
        return 1 if max(abs(a - b) for a, b in zip(gd(C, e), rp['expected'])) > 1e-7 else 0
    if ck.startswith('hudson-permutation'):
        got = uv(C, rp['permuted'])
        print('E_uv(%r) = %r, expected %r' % (rp['permuted'], got, rp['expected']))
        return 1 if max(abs(a - b) for a, b in zip(got, rp['expected'])) > 1e-7 else 0
    if ck == 'eig':
        T, N, P, E = C.MT33_TNPE(np.matrix(rp['M']))
        L = np.hstack([np.asarray(x).reshape(3, 1) for x in (T, N, P)])
        err = np.abs(L.T.dot(L) - np.eye(3)).max()
        print('MT33_TNPE: eigenvalues %r, |L^T L - I| = %g' % (np.asarray(E).tolist(), err))
        return 1 if (err > 1e-8 or np.iscomplexobj(E)) else 0
    print('replay of this kind is run through the check itself')
    return 0
