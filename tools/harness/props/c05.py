"""C05 -- detailed balance (T: acceptance / transition_pdf / priors / jump acceptance -> Gen/MCMC.v;
theorems generic in the proposal density and prior; oracle: the balance identity on the
implementation with the roles of the two states swapped)."""
import math

import numpy as np
from scipy.stats import beta as sp_beta
from scipy.stats import norm as sp_norm

from harness import gen
from harness.tv import close

PI = math.pi
BOUNDS = {'gamma': (-PI / 6, PI / 6), 'delta': (-PI / 2, PI / 2), 'kappa': (0, 2 * PI), 'h': (0, 1), 'sigma': (-PI / 2, PI / 2)}
MAXA = {'kappa': PI / 2, 'h': 0.5, 'sigma': PI / 4, 'gamma': PI / 12, 'delta': PI / 4}


def _impl():
    import gc
    gc.collect = lambda *a, **k: 0
    import MTfit.algorithms.markov_chain_monte_carlo as mc
    return mc


def rand_state(rng, dc=False, boundary=0.2):
    s = {}
    for k, (lo, hi) in BOUNDS.items():
        if rng.random() < boundary:
            s[k] = rng.choice([lo, hi]) if k != 'kappa' else rng.choice([0.0, 2 * PI - 1e-9])
        else:
            s[k] = rng.uniform(lo, hi)
    if dc:
        s['gamma'] = 0.0
        s['delta'] = 0.0
    return s


def rand_alpha(rng):
    a = {}
    for k, m in MAXA.items():
        a[k] = m * rng.choice([1.0, rng.random() * 0.999 + 0.001, 0.01])
    a['alpha'] = PI / 10
    a['poisson'] = 0.2
    return a


def q_true(to, frm, alpha, dc):
    """the proposal density actually used: independent truncated Gaussians about the current value in the bounded parameters
    (gamma and delta only for a full-tensor state; strike is a symmetric wrapped Gaussian and cancels)"""
    p = 1.0
    for k in (('h', 'sigma') if dc else ('gamma', 'delta', 'h', 'sigma')):
        lo, hi = BOUNDS[k]
        p *= sp_norm.pdf(to[k], frm[k], alpha[k]) / (sp_norm.cdf(hi, frm[k], alpha[k]) - sp_norm.cdf(lo, frm[k], alpha[k]))
    return float(p)


def make(mc, cls, prior, **kw):
    alg = cls(learning_length=10, chain_length=10, acceptance_rate_window=5, initial_sample='none', sampling_prior=prior, **kw)
    return alg


# ----------------------------------------------------------------------------- the kernel as the sampler runs it

def as_run_case(mc, rng):
    """a pair of consecutive moves produced by the sampler's own methods (states exactly as a run holds them, acceptance
    probabilities exactly as iterate() obtains them): a model jump from a random state, which is taken, followed by a
    within-model proposal from the state the jump left"""
    return {'kind': 'as-run', 'prior': rng.choice(['uniform_prior', 'flat_prior']), 'gaussian_jump_params': rng.random() < 0.6,
            'dc_prior': rng.choice([0.5, rng.uniform(0.05, 0.95)]), 'start_dc': rng.random() < 0.5, 'start': rand_state(rng, False, 0.0),
            'L0': rng.uniform(-20, 3), 'L1': rng.uniform(-20, 3), 'L2': rng.uniform(-20, 3), 'numpy_seed': rng.randrange(2 ** 31)}


def core5(x):
    return {k: float(np.asarray(x[k]).flatten()[0]) for k in ('gamma', 'delta', 'kappa', 'h', 'sigma')}


def used_acceptance(alg, proposal, L):
    """the acceptance probability iterate() uses for this proposal: recorded inside _acceptance_check, called as iterate calls it"""
    seen = []
    orig = alg.acceptance

    def rec(*a, **k):
        v = orig(*a, **k)
        seen.append(float(np.asarray(v, dtype=float).flatten()[0]))
        return v
    alg.acceptance = rec
    try:
        with np.errstate(all='ignore'):
            alg._acceptance_check(proposal, L, False)
    finally:
        alg.acceptance = orig
    return seen[-1]


def as_run_check(mc, case):
    def fresh(state, L, dc):
        alg = make(mc, mc.IterativeTransDMetropolisHastingsGaussianTape, case['prior'], dc_prior=case['dc_prior'],
                   gaussian_jump_params=case['gaussian_jump_params'])
        alg.xi, alg.ln_likelihood_xi, alg.dc, alg.jump = dict(state), L, dc, False
        return alg
    np.random.seed(case['numpy_seed'])
    pdc = case['dc_prior']
    s0 = dict(case['start'])
    if case['start_dc']:
        s0['gamma'], s0['delta'] = 0.0, 0.0
    alg = fresh(s0, case['L0'], case['start_dc'])
    # 1. a model jump, proposed by the sampler, judged as iterate() judges it, and taken
    alg.dimension_jump_prob = 2.0
    prop = alg._new_sample_single()
    if not alg.jump:
        return 'a proposal drawn with jump probability 1 is not a model jump'
    a_fwd = used_acceptance(alg, prop, case['L1'])
    # the reverse jump from the state a run would then hold
    alg.jump = False
    alg._add_new(prop, case['L1'], False)
    s1, dc1 = alg.xi, alg.dc
    if dc1 == case['start_dc']:
        return 'the model flag did not change after an accepted model jump'
    rev = fresh(dict(s1), case['L1'], dc1)
    rev.dimension_jump_prob = 2.0
    if dc1:
        back = rev._new_sample_single()          # DC -> MT draws its own balancing parameters: use the ones of the start instead
        back = dict(back, gamma=s0['gamma'], delta=s0['delta'])
        rev.xi_1 = back
    else:
        back = rev._new_sample_single()
    a_bwd = used_acceptance(rev, back, case['L0'])
    mt_state, dc_state = (core5(s1), core5(s0)) if case['start_dc'] else (core5(s0), core5(s1))
    dc_red = {k: v for k, v in dc_state.items() if k not in ('gamma', 'delta')}
    a_up, a_down = (a_fwd, a_bwd) if case['start_dc'] else (a_bwd, a_fwd)
    L_dc, L_mt = (case['L0'], case['L1']) if case['start_dc'] else (case['L1'], case['L0'])
    qb = float(alg.jump_params(mt_state))
    lhs = pdc * float(alg.prior(dc_red)) * math.exp(L_dc) * qb * a_up
    rhs = (1 - pdc) * float(alg.prior(mt_state)) * math.exp(L_mt) * a_down
    if float(alg.prior(mt_state)) > 0 and not close(lhs, rhs, 1e-9) and abs(lhs - rhs) > 1e-300:
        return ('model jump judged as in a run (configured double-couple prior %.4f): dc_prior prior_dc e^L_dc q_b a_up = %r but '
                '(1 - dc_prior) prior_mt e^L_mt a_down = %r (a_up %r, a_down %r)' % (pdc, lhs, rhs, a_up, a_down))
    # 2. a within-model proposal from the state the jump left, and its reverse
    alg.dimension_jump_prob = -1.0
    y = alg._new_sample_single()
    if alg.jump:
        return 'a proposal drawn with jump probability 0 is a model jump'
    a12 = used_acceptance(alg, y, case['L2'])
    rev = fresh(core5(y), case['L2'], dc1)
    rev.alpha = dict(alg.alpha)
    a21 = used_acceptance(rev, core5(s1), case['L1'])
    ys, ss = core5(y), core5(s1)
    q12, q21 = q_true(ys, ss, alg.alpha, dc1), q_true(ss, ys, alg.alpha, dc1)
    lhs = float(alg.prior(ss)) * math.exp(case['L1']) * q12 * a12
    rhs = float(alg.prior(ys)) * math.exp(case['L2']) * q21 * a21
    if not close(lhs, rhs, 1e-9) and abs(lhs - rhs) > 1e-300:
        return ('within-model move from the state an accepted model jump left (%s): prior e^L q a = %r forwards, %r backwards '
                '(a %r forwards, %r backwards)' % (sorted(s1.keys()), lhs, rhs, a12, a21))
    return None


def run(R):
    mc = _impl()
    proved = R.prove()
    R.assumptions += ['the proposal density q is strictly positive and the priors are non-negative (hypotheses of the balance theorem; '
                      'true of Gaussian densities and of the translated priors on the domain)',
                      'Phi is the standard normal distribution function (derivative = standard normal density): hypothesis of the '
                      'normalisation theorem; scipy.stats.norm is mapped to it by the translator',
                      'strike is proposed by a wrapped symmetric Gaussian and therefore absent from q (as in the code)',
                      'Interval tactic (primitive floats) certifies the numerical refutation of the balancing-density normalisation']
    defs = R.defs(gen.gen_mcmc)
    bad = None
    Phi = lambda t: float(sp_norm.cdf(t))
    n = R.n(400, 20000)
    for i in range(n):
        prior = R.rng.choice(['uniform_prior', 'flat_prior'])
        dc = R.rng.random() < 0.3
        alg = make(mc, mc.IterativeMetropolisHastingsGaussianTape, prior, dc=dc)
        alg.alpha = rand_alpha(R.rng)
        x, x2 = rand_state(R.rng, dc), rand_state(R.rng, dc)
        L, L2 = R.rng.uniform(-50, 5), R.rng.uniform(-50, 5)
        if R.rng.random() < 0.2:
            L2 = L + R.rng.uniform(-1e-3, 1e-3)

        def acc(frm, Lf, to, Lt):
            alg.xi, alg.ln_likelihood_xi, alg.dc = dict(frm), Lf, dc
            with np.errstate(all='ignore'):
                return float(alg.acceptance(dict(to), Lt))
        try:
            a12, a21 = acc(x, L, x2, L2), acc(x2, L2, x, L)
        except Exception as ex:
            bad = bad or {'kind': 'shift', 'check': 'acceptance raised %s' % type(ex).__name__, 'error': repr(ex), 'prior': prior, 'dc': dc,
                          'alpha': {k: alg.alpha[k] for k in MAXA}, 'x': x, 'x2': x2, 'L': L, 'L2': L2}
            continue
        q21, q12 = q_true(x2, x, alg.alpha, dc), q_true(x, x2, alg.alpha, dc)
        alg.dc = dc
        if not close(float(alg.transition_pdf(x2, x)), q21, 1e-9):
            bad = bad or {'kind': 'shift', 'check': 'transition density is the truncated Gaussian of the proposal', 'dc': dc, 'x_to': x2, 'x_from': x,
                          'alpha': {k: alg.alpha[k] for k in MAXA}, 'implementation': float(alg.transition_pdf(x2, x)), 'expected': q21}
        p1, p2 = float(alg.prior(x)), float(alg.prior(x2))
        lhs = p1 * math.exp(L) * q21 * a12
        rhs = p2 * math.exp(L2) * q12 * a21
        onb = any(abs(v - b) < 1e-12 for s_ in (x, x2) for k, v in s_.items() for b in BOUNDS[k])
        R.count(('balance', i), nontrivial=onb)
        case = {'kind': 'shift', 'prior': prior, 'dc': dc, 'alpha': {k: alg.alpha[k] for k in MAXA}, 'x': x, 'x2': x2, 'L': L, 'L2': L2,
                'a12': a12, 'a21': a21}
        if i < 2:
            R.sample(case)
        if not (0 <= a12 <= 1 and 0 <= a21 <= 1) or not close(lhs, rhs, 1e-9) and abs(lhs - rhs) > 1e-300:
            bad = bad or dict(case, check='prior(x) e^L q(x\'|x) a(x->x\') = prior(x\') e^L\' q(x|x\') a(x\'->x)', lhs=lhs, rhs=rhs)
        # zero-likelihood rules
        if acc(x, L, x2, -math.inf) != 0 or acc(x, -math.inf, x2, L2) != 1:
            bad = bad or dict(case, check='zero-likelihood proposal never accepted / zero-likelihood start always moves')
        if defs:
            funs = {'user:q': lambda a: alg.transition_pdf(a[0], a[1]), 'user:prior': lambda a: float(alg.prior(a[0])),
                    'Phi': Phi, 'user:betapdf': lambda a: float(sp_beta.pdf(a[0], a[1], a[2]))}
            alg.dc = dc
            mv = defs['mh_acc'].evaluate([x2, L2, x, L], funs)
            if not close(a12, mv, 1e-10):
                R.signal('correspondence', {'def': 'mh_acc', 'case': case, 'model': mv})
            qd = defs['q_dc'] if dc else defs['q_mt']
            args = [x2, x] + ([alg.alpha[k] for k in ('h', 'sigma')] if dc else [alg.alpha[k] for k in ('gamma', 'delta', 'h', 'sigma')])
            mq = qd.evaluate(args, funs)
            if not close(float(alg.transition_pdf(x2, x)), mq, 1e-10):
                R.signal('correspondence', {'def': qd.name, 'case': case, 'implementation': q21, 'model': mq})
            pd = defs[prior + ('_dc' if dc else '_mt')]
            mp = pd.evaluate([x] if 'xi' in pd.params else [], funs)
            if not close(p1, mp, 1e-10):
                R.signal('correspondence', {'def': pd.name, 'case': case, 'implementation': p1, 'model': mp})
    # joint multi-event states
    for i in range(n // 4):
        ne = R.rng.choice([2, 3])
        prior = R.rng.choice(['uniform_prior', 'flat_prior'])
        dcs = [R.rng.random() < 0.3 for _ in range(ne)]
        alg = make(mc, mc.IterativeMetropolisHastingsGaussianTape, prior, number_events=ne)
        alphas = [rand_alpha(R.rng) for _ in range(ne)]
        xs, xs2 = [rand_state(R.rng, d) for d in dcs], [rand_state(R.rng, d) for d in dcs]
        L, L2 = R.rng.uniform(-50, 5), R.rng.uniform(-50, 5)

        def accm(frm, Lf, to, Lt):
            alg.alpha = [dict(a) for a in alphas]
            alg.xi, alg.ln_likelihood_xi, alg.dc = [dict(s_) for s_ in frm], Lf, list(dcs)
            with np.errstate(all='ignore'):
                return float(alg.acceptance([dict(s_) for s_ in to], Lt))
        a12, a21 = accm(xs, L, xs2, L2), accm(xs2, L2, xs, L)
        lhs, rhs = math.exp(L) * a12, math.exp(L2) * a21
        for e in range(ne):
            alg.alpha = alphas[e]
            lhs *= float(alg.prior(xs[e], dcs[e])) * q_true(xs2[e], xs[e], alphas[e], dcs[e])
            rhs *= float(alg.prior(xs2[e], dcs[e])) * q_true(xs[e], xs2[e], alphas[e], dcs[e])
            if not close(float(alg.transition_pdf(xs2[e], xs[e], dcs[e])), q_true(xs2[e], xs[e], alphas[e], dcs[e]), 1e-9) and bad is None:
                bad = {'kind': 'joint', 'check': 'transition density of an event of a joint state is the truncated Gaussian of its proposal',
                       'event': e, 'dc': dcs, 'x_to': xs2[e], 'x_from': xs[e], 'alpha': {k: alphas[e][k] for k in MAXA},
                       'implementation': float(alg.transition_pdf(xs2[e], xs[e], dcs[e])), 'expected': q_true(xs2[e], xs[e], alphas[e], dcs[e])}
        R.count(('multi', i))
        case = {'kind': 'joint', 'events': ne, 'prior': prior, 'dc': dcs, 'alpha': [{k: a[k] for k in MAXA} for a in alphas],
                'x': xs, 'x2': xs2, 'L': L, 'L2': L2, 'a12': a12, 'a21': a21}
        if not close(lhs, rhs, 1e-9) and abs(lhs - rhs) > 1e-300:
            bad = bad or dict(case, check='joint multi-event balance (product over events)', lhs=lhs, rhs=rhs)
    # model jumps
    known_norm = False
    for i in range(n // 2):
        prior = R.rng.choice(['uniform_prior', 'flat_prior'])
        gauss = R.rng.random() < 0.6
        pdc = R.rng.choice([0.5, R.rng.uniform(0.02, 0.98)])
        # the widths of the balancing draw: the defaults (0.2, 0.2) on the first cases (the recorded finding quotes them), unequal otherwise
        wkw = {} if i < 3 else {'dc_sigma_g': R.rng.choice([0.2, R.rng.uniform(0.05, 0.4)]), 'dc_sigma_d': R.rng.choice([0.2, R.rng.uniform(0.05, 0.6)])}
        alg = make(mc, mc.IterativeTransDMetropolisHastingsGaussianTape, prior, dc_prior=pdc, gaussian_jump_params=gauss, **wkw)
        s_dc = rand_state(R.rng, True)
        x = dict(s_dc)
        x['gamma'], x['delta'] = R.rng.uniform(-PI / 6, PI / 6) * 0.98, R.rng.uniform(-PI / 2, PI / 2) * 0.98
        Ls, Lx = R.rng.uniform(-30, 3), R.rng.uniform(-30, 3)
        alg.jump = True
        alg.xi, alg.ln_likelihood_xi, alg.dc = dict(s_dc), Ls, True
        with np.errstate(all='ignore'):
            up = float(alg.acceptance(dict(x), Lx, pdc))
        xdown = dict(x)
        xdown['g0'], xdown['d0'] = x['gamma'], x['delta']
        xdown['gamma'], xdown['delta'] = 0.0, 0.0
        alg.xi, alg.ln_likelihood_xi, alg.dc = dict(x), Lx, False
        with np.errstate(all='ignore'):
            down = float(alg.acceptance(dict(xdown), Ls, pdc))
        qb = float(alg.jump_params(x))
        s_red = {k: v for k, v in s_dc.items() if k not in ('gamma', 'delta')}
        lhs = pdc * float(alg.prior(s_red)) * math.exp(Ls) * qb * up
        rhs = (1 - pdc) * float(alg.prior(x)) * math.exp(Lx) * down
        R.count(('jump', i))
        case = {'kind': 'jump', 'prior': prior, 'gaussian_jump_params': gauss, 'dc_prior': pdc, 'dc_state': s_dc, 'mt_state': x, 'L_dc': Ls, 'L_mt': Lx,
                'a_up': up, 'a_down': down, 'balancing_density': qb}
        if i < 1:
            R.sample(case)
        if float(alg.prior(x)) > 0 and (not close(lhs, rhs, 1e-9) and abs(lhs - rhs) > 1e-300):
            bad = bad or dict(case, check='reversible-jump balance with the balancing density the code uses', lhs=lhs, rhs=rhs)
        if defs:
            funs = {'user:qb': lambda a: float(alg.jump_params(a[0])), 'user:prior': lambda a: float(alg.prior(a[0])), 'user:mh': lambda a: 0.0}
            try:
                mu = defs['jump_up_acc'].evaluate([x, Lx, s_red, Ls, pdc], funs)
                md = defs['jump_down_acc'].evaluate([s_red, Ls, x, Lx, pdc], funs)
            except Exception as ex:      # the regenerated definition no longer has the shape the tie expects
                mu = md = float('nan')
                R.signal('correspondence', {'def': 'jump_up_acc/jump_down_acc', 'why': 'regenerated model cannot be evaluated: %r' % ex})
            if not close(up, mu, 1e-10) or not close(down, md, 1e-10):
                R.signal('correspondence', {'def': 'jump_up_acc/jump_down_acc', 'case': case, 'model': [mu, md]})
            if gauss:
                mq = defs['qb_gauss'].evaluate([x, alg.alpha['gamma_dc'], alg.alpha['delta_dc'], alg.alpha['proposal_normalisation']])
                if not close(qb, mq, 1e-10):
                    R.signal('correspondence', {'def': 'qb_gauss', 'case': case, 'model': mq})
        # is the balancing density the density of the dimension-balancing draw?
        if gauss:
            sg, sd = alg.alpha['gamma_dc'], alg.alpha['delta_dc']
            Z = (sp_norm.cdf(PI / 6, 0, sg) - sp_norm.cdf(-PI / 6, 0, sg)) * (sp_norm.cdf(PI / 2, 0, sd) - sp_norm.cdf(-PI / 2, 0, sd))
            true_q = sp_norm.pdf(x['gamma'], 0, sg) * sp_norm.pdf(x['delta'], 0, sd) / Z
        else:
            true_q = 1.0 / ((PI / 3) * PI)
        # shape and widths: up to its stored normalisation the density must be the truncated product Gaussian of the draw exactly
        if gauss:
            shape_q = sp_norm.pdf(x['gamma'], 0, sg) * sp_norm.pdf(x['delta'], 0, sd) / alg.alpha['proposal_normalisation']
            if not close(qb, float(shape_q), 1e-9):
                bad = bad or dict(case, check='balancing density is the product of the two Gaussians of the balancing draw (widths gamma_dc, delta_dc) '
                                              'over the stored normalisation', widths=[sg, sd], expected_density=float(shape_q))
        if not close(qb, float(true_q), 1e-6):
            what = ('the dimension-balancing density is not the density of the draw it balances: Gaussian case normalised by a '
                    'cos(delta)-weighted integral (%.5f instead of %.5f at default widths), uniform case 3/(2 pi) instead of 3/pi^2; '
                    'detailed balance holds for a target whose DC:MT prior odds are scaled by that constant')
            if not R.known_finding('jump_density_normalisation', what % (0.97153 if i >= 3 else alg.alpha['proposal_normalisation'], 0.99115)):
                bad = bad or dict(case, check='balancing density equals the density of the balancing draw', expected_density=float(true_q))
    # the draw that the balancing density is the density of (same scripted-stream oracle as C06): truncated Gaussians of widths
    # (gamma_dc, delta_dc) -- with the shape check above this ties the density in the acceptance to the draw actually made
    from harness.props import c06 as _c06
    bd = _c06.balancing_draw_oracle(R, mc, R.n(200, 4000))
    if bd:
        bad = bad or dict(bd, check='the dimension-balancing draw is not the draw its density describes: ' + bd['check'])
    # the kernel as a run composes it (states and acceptance calls produced by the sampler's own methods)
    for i in range(R.n(200, 5000)):
        case = as_run_case(mc, R.rng)
        R.count(('as-run', i), nontrivial=case['dc_prior'] != 0.5)
        try:
            why = as_run_check(mc, case)
        except Exception as ex:
            why = 'raised %s: %s' % (type(ex).__name__, ex)
        if why:
            bad = bad or dict(case, check=why)
    if bad:
        R.violation('detailed balance: %s fails' % bad['check'], bad)
    R.cov['rule'] = ('random pairs of in-domain states (20% of coordinates on a bound), widths in (0, max], both priors, DC and full tensor, '
                     'finite log-likelihood pairs incl. nearly equal ones and -inf; joint states of 2-3 events; jump up/down with dc prior in '
                     '(0,1), Gaussian and uniform balancing draws; non-trivial = a coordinate on the domain boundary')
    return proved


def replay(R, body):
    rp = body['replay']
    if rp.get('kind') == 'as-run':
        why = as_run_check(_impl(), rp)
        print('oracle:', why or 'holds')
        return 1 if why else 0
    print(rp)
    return 0
