"""C08 -- random source sampling draws from the stated prior.

H: Model/Sampling.v (one sample as a function of the standard normal draws it consumes; generic arithmetic) with theorems
in Props/C08.v.  Correspondence: the real generators are run with numpy.random.randn replaced by a recorder that hands out
known draws; every returned sample must equal, bit for bit, the model evaluated in Coq on the draws of its own column
(which also checks that each sample uses its own, independent draws).  The distribution itself (uniformity of the
normalised Gaussian, uniform orientation) is a consequence of the theorems given a correct numpy generator; it is
additionally sampled statistically."""
import math

import numpy as np

from harness import core
from harness.props import conv


def _impl():
    conv.impl()
    import MTfit.algorithms.base as base
    return base


def coq_f(x):
    return '(%s)%%float' % float(x).hex()


def tup(xs):
    return '(%s)' % ', '.join(coq_f(x) for x in xs)


class Recorder(object):
    """replaces numpy.random.randn / rand / seed; records every request and serves prepared draws"""

    def __init__(self, rng, n):
        self.n = n
        self.rs = np.random.RandomState(rng.randrange(2 ** 31))
        self.calls = []

    def randn(self, *shape):
        a = self.rs.randn(*shape)
        self.calls.append((tuple(shape), a.copy()))
        return a

    def rand(self, *shape):
        return self.rs.rand(*shape)

    def seed(self, *a):
        return None


def with_recorder(rec, f):
    real = (np.random.randn, np.random.rand, np.random.seed)
    np.random.randn, np.random.rand, np.random.seed = rec.randn, rec.rand, rec.seed
    try:
        return f()
    finally:
        np.random.randn, np.random.rand, np.random.seed = real


def new_alg(base, n):
    alg = base.BaseAlgorithm.__new__(base.BaseAlgorithm)
    alg.number_samples = n
    return alg


def correspondence(R, base, ncases):
    exprs, recs = [], []
    bad = None
    s2 = float(np.sqrt(2))
    for i in range(ncases):
        n = R.rng.choice([1, 2, 3, 7, 20])
        kind = ('mt', 'dc', 'clvd', 'sample')[i % 4]
        rec = Recorder(R.rng, n)
        alg = new_alg(base, n)
        info = {'kind': kind, 'number_samples': n}
        R.count(('draws', kind, i), nontrivial=n > 1)
        try:
            if kind == 'mt':
                out = np.asarray(with_recorder(rec, lambda: base._6sphere_random_mt(alg)), dtype=float)
            elif kind == 'dc':
                out = np.asarray(with_recorder(rec, lambda: alg.random_dc()), dtype=float)
            elif kind == 'clvd':
                out = np.asarray(with_recorder(rec, lambda: alg.random_clvd()), dtype=float)
            else:
                alg2 = base.BaseAlgorithm(number_samples=n)
                out = np.asarray(with_recorder(rec, lambda: alg2.random_sample()), dtype=float)
        except Exception as ex:
            bad = bad or dict(info, check='generator-exception', error=repr(ex))
            continue
        if out.shape != (6, n):
            bad = bad or dict(info, check='sample-count', shape=list(out.shape), note='each call must return the requested number of samples')
            continue
        shapes = [c[0] for c in rec.calls]
        info['randn_requests'] = [list(s) for s in shapes]
        if kind in ('mt', 'sample'):
            if shapes != [(6, n)]:
                # the model's reading of the draws no longer applies: not by itself a violation (statistics decide)
                R.signal('correspondence', dict(info, what='a full-tensor call no longer draws one (6, n) block: Model/Sampling.v cannot be matched'))
                continue
            M = rec.calls[0][1]
            for j in range(n):
                exprs.append('(check_mt %s %s)' % (tup(M[:, j]), tup(out[:, j])))
                recs.append(dict(info, sample=j, draws=M[:, j].tolist(), returned=out[:, j].tolist()))
        else:
            if len(shapes) < 2 or any(s != (3, n) for s in shapes):
                R.signal('correspondence', dict(info, what='the generator no longer draws (3, n) blocks for the first axis and the auxiliary vector: '
                                                           'Model/Sampling.v cannot be matched'))
                continue
            A, X = rec.calls[0][1], rec.calls[-1][1]
            if kind == 'dc':
                lam = [float(1 / np.sqrt(2)), 0.0, float(-1 / np.sqrt(2))]
            else:
                # the sign of the CLVD is drawn with rand(): identify it from the output (either pattern is in the property)
                lam = None
            for j in range(n):
                if lam is None:
                    cands = [[float(2 / np.sqrt(6)), float(-1 / np.sqrt(6)), float(-1 / np.sqrt(6))],
                             [float(-2 / np.sqrt(6)), float(1 / np.sqrt(6)), float(1 / np.sqrt(6))]]
                    M33 = conv.mt33_of_mt6(out[:, j])
                    ev = np.linalg.eigvalsh(M33)
                    lj = cands[0] if ev[2] > -ev[0] else cands[1]
                else:
                    lj = lam
                exprs.append('(check_type %s %s %s %s %s)' % (coq_f(s2), tup(lj), tup(A[:, j]), tup(X[:, j]), tup(out[:, j])))
                recs.append(dict(info, sample=j, first_axis_draw=A[:, j].tolist(), auxiliary_draw=X[:, j].tolist(), returned=out[:, j].tolist()))
    # joint draws for several events (MTfit/algorithms/monte_carlo.py random_sample): Model/Sampling.v joint_draw -- event e, sample j is the
    # model's function of column j of the e-th block of draws and of nothing else
    import MTfit.algorithms.monte_carlo as mcarlo
    for i in range(max(4, ncases // 10)):
        n, ne, dc = R.rng.choice([1, 2, 3, 5]), R.rng.choice([2, 3, 4]), bool(i % 2)
        info = {'kind': 'joint-dc' if dc else 'joint-mt', 'number_samples': n, 'number_events': ne}
        R.count(('draws', info['kind'], i))
        rec = Recorder(R.rng, n)
        try:
            algj = mcarlo.BaseMonteCarloRandomSample(number_samples=n, number_events=ne, dc=dc)
            outs = with_recorder(rec, lambda: algj.random_sample())
            outs = [np.asarray(o, dtype=float) for o in outs]
        except Exception as ex:
            bad = bad or dict(info, check='generator-exception', error=repr(ex))
            continue
        if len(outs) != ne or any(o.shape != (6, n) for o in outs):
            bad = bad or dict(info, check='sample-count', shape=[list(o.shape) for o in outs], note='each event of a joint draw must receive the requested number of samples')
            continue
        shapes = [c[0] for c in rec.calls]
        info['randn_requests'] = [list(s_) for s_ in shapes]
        if (not dc and shapes != [(6, n)] * ne) or (dc and shapes != [(3, n)] * (2 * ne)):
            R.signal('correspondence', dict(info, what='a joint draw no longer requests one block of draws per event ((6, n), or two (3, n) blocks for a double-couple): '
                                                       'Model/Sampling.v joint_draw cannot be matched'))
            continue
        lst = lambda xs: '[' + '; '.join(xs) + ']'
        expected = lst([lst([tup(outs[e][:, j]) for j in range(n)]) for e in range(ne)])
        if dc:
            blocks = lst([lst(['(%s, %s)' % (tup(rec.calls[2 * e][1][:, j]), tup(rec.calls[2 * e + 1][1][:, j])) for j in range(n)]) for e in range(ne)])
            exprs.append('(check_joint_type %s %s %s %s)' % (coq_f(s2), tup([float(1 / np.sqrt(2)), 0.0, float(-1 / np.sqrt(2))]), blocks, expected))
        else:
            blocks = lst([lst([tup(rec.calls[e][1][:, j]) for j in range(n)]) for e in range(ne)])
            exprs.append('(check_joint_mt %s %s)' % (blocks, expected))
        recs.append(dict(info, draws_per_event=[c[1].tolist() for c in rec.calls], returned_per_event=[o.tolist() for o in outs]))
    failing, errors = core.run_cases('c08', 'From Coq Require Import PrimFloat.\nFrom MTV.Model Require Import Sampling.\nOpen Scope float_scope.', exprs, chunk=400)
    for e in errors:
        R.signal('correspondence-infrastructure', e)
    R.cov['correspondence_cases'] = len(exprs)
    R.cov['correspondence_disagreements'] = len(failing)
    return [recs[j] for j in failing], bad


def pattern_oracle(R, base, n):
    """unit norm and eigenvalue pattern of every sample (real generator, real numpy.random)"""
    bad = None
    alg = new_alg(base, n)
    for kind, want in (('dc', [[1 / math.sqrt(2), 0, -1 / math.sqrt(2)]]),
                       ('clvd', [[2 / math.sqrt(6), -1 / math.sqrt(6), -1 / math.sqrt(6)], [1 / math.sqrt(6), 1 / math.sqrt(6), -2 / math.sqrt(6)]]),
                       ('mt', None)):
        out = np.asarray(alg.random_dc() if kind == 'dc' else (alg.random_clvd() if kind == 'clvd' else base._6sphere_random_mt(alg)), dtype=float)
        if out.shape != (6, n):
            return {'check': 'sample-count', 'kind': kind, 'shape': list(out.shape)}
        norms = np.sqrt(np.sum(out * out, axis=0))
        R.count(('pattern', kind))
        if np.abs(norms - 1).max() > 1e-12:
            bad = bad or {'check': 'unit-norm', 'kind': kind, 'worst': float(np.abs(norms - 1).max())}
        if want:
            for j in range(min(n, 400)):
                ev = np.sort(np.linalg.eigvalsh(conv.mt33_of_mt6(out[:, j])))[::-1]
                if min(np.abs(ev - np.array(w)).max() for w in want) > 1e-9:
                    bad = bad or {'check': 'eigenvalue-pattern', 'kind': kind, 'sample': out[:, j].tolist(), 'eigenvalues': ev.tolist()}
    return bad


def statistics_oracle(R, base, n):
    """distributional checks with very wide (7 sigma) acceptance bands"""
    bad = None
    alg = new_alg(base, n)
    out = np.asarray(base._6sphere_random_mt(alg), dtype=float)
    R.count(('stat', 'mt'))
    # uniform on S^5: E[x_i] = 0, E[x_i x_j] = delta_ij / 6, Var(x_i^2) = 2*(6-1)/(36*(6+2)) = 5/144
    se_mean = math.sqrt(1 / 6.0 / n)
    se_sq = math.sqrt(5 / 144.0 / n)
    mean = out.mean(axis=1)
    cov = out.dot(out.T) / n
    if np.abs(mean).max() > 7 * se_mean:
        bad = bad or {'check': 'mt-mean', 'mean': mean.tolist(), 'band': 7 * se_mean}
    if np.abs(np.diag(cov) - 1 / 6.0).max() > 7 * se_sq:
        bad = bad or {'check': 'mt-second-moment', 'diag': np.diag(cov).tolist(), 'band': 7 * se_sq,
                      'note': 'every sqrt2-weighted component must carry one sixth of the norm'}
    off = cov - np.diag(np.diag(cov))
    if np.abs(off).max() > 7 * math.sqrt(1 / 48.0 / n):
        bad = bad or {'check': 'mt-correlation', 'worst': float(np.abs(off).max())}
    # samples are not repeated / correlated across columns
    if n > 1 and np.abs(np.sum(out[:, :-1] * out[:, 1:], axis=0).mean()) > 7 * math.sqrt(1 / 6.0 / (n - 1)):
        bad = bad or {'check': 'mt-independence', 'note': 'consecutive samples are correlated'}
    # double-couple orientations: T, N, P axes each uniform on the sphere: E[v v^t] = I/3
    dc = np.asarray(alg.random_dc(), dtype=float)
    R.count(('stat', 'dc'))
    for axis in (0, 1, 2):
        vs = []
        for j in range(min(n, 4000)):
            w, L = np.linalg.eigh(conv.mt33_of_mt6(dc[:, j]))
            vs.append(L[:, 2 - axis])
        V = np.array(vs)
        c3 = V.T.dot(V) / len(vs)
        if np.abs(c3 - np.eye(3) / 3).max() > 7 * math.sqrt(4 / 45.0 / len(vs)) + 7 * math.sqrt(1 / 15.0 / len(vs)):
            bad = bad or {'check': 'dc-orientation', 'axis': 'TNP'[axis], 'second_moment': c3.tolist(), 'samples_in_one_call': len(vs),
                          'note': 'within one call the axis directions do not fill the sphere uniformly (samples are not independent / not uniformly oriented)'}
    return bad


def repeated_calls_oracle(R, base, ncalls):
    """consecutive calls (real generator, real seeding) must not return the same samples: "each call returns the requested
    number of independent samples"""
    bad = None
    for kind in ('mt', 'dc', 'clvd', 'sample'):
        for n in (1, 3):
            seen = {}
            alg = new_alg(base, n) if kind != 'sample' else base.BaseAlgorithm(number_samples=n)
            for c in range(ncalls):
                out = np.asarray(base._6sphere_random_mt(alg) if kind == 'mt' else (alg.random_dc() if kind == 'dc' else (
                    alg.random_clvd() if kind == 'clvd' else alg.random_sample())), dtype=float)
                R.count(('repeat', kind, n, c))
                for j in range(out.shape[1]):
                    key = out[:, j].tobytes()
                    if key in seen and bad is None:
                        bad = {'check': 'independent-calls', 'kind': kind, 'number_samples': n, 'call': c, 'earlier_call': seen[key],
                               'sample': out[:, j].tolist(),
                               'note': 'two different calls returned a bit-identical sample (probability zero for independent draws)'}
                    seen[key] = c
    # what a call returned stays what it was when later calls are made on the same object, and the events of a joint draw differ
    for kind in ('mt', 'dc', 'clvd', 'sample', 'sample-dc'):
        for n in (1, 4):
            if kind == 'sample-dc':
                alg = base.BaseAlgorithm(number_samples=n, dc=True)
            else:
                alg = new_alg(base, n) if kind != 'sample' else base.BaseAlgorithm(number_samples=n)
            draw = lambda: (base._6sphere_random_mt(alg) if kind == 'mt' else (alg.random_dc() if kind == 'dc' else (
                alg.random_clvd() if kind == 'clvd' else alg.random_sample())))
            held, copies = [], []
            for c in range(6):
                out = draw()
                held.append(out)
                copies.append(np.array(out, dtype=float, copy=True))
                R.count(('held', kind, n, c))
                for e, (h, cp) in enumerate(zip(held, copies)):
                    if not np.array_equal(np.asarray(h, dtype=float), cp) and bad is None:
                        bad = {'check': 'earlier-result-kept', 'kind': kind, 'number_samples': n, 'call': c, 'earlier_call': e,
                               'returned_then': cp.tolist(), 'holds_now': np.asarray(h, dtype=float).tolist(),
                               'note': 'the samples returned by an earlier call changed when the generator was called again'}
    for dc in (False, True):
        for ne in (2, 3):
            import MTfit.algorithms.monte_carlo as mcarlo
            alg = mcarlo.BaseMonteCarloRandomSample(number_samples=4, number_events=ne, dc=dc)
            out = alg.random_sample()
            R.count(('events', dc, ne))
            if isinstance(out, (list, tuple)) and len(out) == ne:
                arrs = [np.asarray(o, dtype=float) for o in out]
                for i in range(ne):
                    for j in range(i + 1, ne):
                        if arrs[i].shape == arrs[j].shape and np.array_equal(arrs[i], arrs[j]) and bad is None:
                            bad = {'check': 'events-independent', 'dc': dc, 'number_events': ne, 'events': [i, j], 'samples': arrs[i].tolist(),
                                   'note': 'two events of one joint draw received bit-identical samples'}
                        # no sample of one event may reappear, at any position, among those of another (probability zero for independent draws)
                        cols_i = {arrs[i][:, a].tobytes(): a for a in range(arrs[i].shape[1])}
                        for b in range(arrs[j].shape[1]):
                            a = cols_i.get(arrs[j][:, b].tobytes())
                            if a is not None and bad is None:
                                bad = {'check': 'events-independent', 'dc': dc, 'number_events': ne, 'number_samples': 4, 'events': [i, j], 'columns': [a, b],
                                       'samples_of_the_two_events': [arrs[i].tolist(), arrs[j].tolist()],
                                       'note': 'sample %d of event %d is bit-identical to sample %d of event %d within one joint draw' % (a, i, b, j)}
                for i in range(ne):
                    if arrs[i].shape != (6, 4) and bad is None:
                        bad = {'check': 'events-independent', 'dc': dc, 'number_events': ne, 'event': i, 'shape': list(arrs[i].shape),
                               'note': 'an event of a joint draw did not receive the requested number of samples (4)'}
            elif bad is None:
                bad = {'check': 'events-independent', 'dc': dc, 'number_events': ne, 'note': 'a joint draw did not return one sample set per event: %r' % type(out)}
    return bad



class Replayer(Recorder):
    """serves the recorded normal draws again, each (3, n) block turned by the rotation Q"""

    def __init__(self, calls, Q):
        self.calls = []
        self.queue = list(calls)
        self.Q = Q
        self.rs = np.random.RandomState(7)

    def randn(self, *shape):
        if not self.queue or self.queue[0][0] != tuple(shape):
            raise RuntimeError('second run requested draws of shape %r, the first run did not' % (tuple(shape),))
        a = self.queue.pop(0)[1]
        return np.asarray(self.Q.dot(a)) if a.shape[0] == 3 else a.copy()


def random_rotation(rs):
    q, r = np.linalg.qr(rs.randn(3, 3))
    q = q * np.sign(np.diag(r))
    if np.linalg.det(q) < 0:
        q[:, 0] = -q[:, 0]
    return q


def rotation_oracle(R, base, ncases):
    """Props/C08.v, C08_triad_rotation_equivariant, on the real generators: turning both vector draws of every sample by a
    rotation Q turns the returned tensor into Q M Q^t (so, the draws being isotropic, no orientation is preferred)"""
    rng = R.rng
    for i in range(ncases):
        n = rng.choice([1, 2, 3, 5, 8, 13])
        kind = ('dc', 'clvd')[i % 2]
        alg = new_alg(base, n)
        rec = Recorder(rng, n)
        call = (lambda: alg.random_dc()) if kind == 'dc' else (lambda: alg.random_clvd())
        m1 = np.asarray(with_recorder(rec, call), dtype=float)
        if any(c[0][0] != 3 for c in rec.calls):
            continue
        Q = random_rotation(np.random.RandomState(rng.randrange(2 ** 31)))
        rep = Replayer(rec.calls, Q)
        if kind == 'clvd':
            rep.rs = np.random.RandomState(0)
        try:
            m2 = np.asarray(with_recorder(rep, call), dtype=float)
        except RuntimeError as e:
            return {'check': 'rotation-equivariance', 'kind': kind, 'number_samples': n, 'what': str(e)}
        R.count(('rotation', kind))
        if m1.shape != m2.shape:
            return {'check': 'rotation-equivariance', 'kind': kind, 'number_samples': n, 'shapes': [list(m1.shape), list(m2.shape)]}
        for j in range(m1.shape[1]):
            want = Q.dot(conv.mt33_of_mt6(m1[:, j])).dot(Q.T)
            got = conv.mt33_of_mt6(m2[:, j])
            # the CLVD sign is a separate uniform draw: compare up to that sign
            err = min(np.abs(got - want).max(), np.abs(got + want).max()) if kind == 'clvd' else np.abs(got - want).max()
            if not err < 1e-9:
                return {'check': 'rotation-equivariance', 'kind': kind, 'number_samples': n, 'column': j, 'rotation': Q.tolist(),
                        'draws': [c[1].tolist() for c in rec.calls], 'tensor': m1[:, j].tolist(), 'tensor_after_turning_the_draws': m2[:, j].tolist(),
                        'error': float(err)}
    return None


def run(R):
    base = _impl()
    proved = R.prove(extra_targets=['Model/Sampling.v'])
    R.assumptions += ['numpy.random.randn returns independent standard normal draws (the generator itself is trusted); the redraw loop for '
                      'parallel vectors has probability zero and is not modelled',
                      'uniformity on the 6-sphere and uniform orientation follow from the theorems (spherical Gaussian density, orthonormal '
                      'frame built from two independent isotropic draws) by the standard argument, which is not itself formalised as a statement '
                      'about probability measures; it is additionally sampled (7-sigma bands)',
                      'binary64 +, -, *, /, sqrt are correctly rounded in numpy and in the kernel primitive floats: bit-exact correspondence']
    cfail, cbad = correspondence(R, base, R.n(120, 2000))
    pbad = pattern_oracle(R, base, R.n(2000, 100000))
    sbad = statistics_oracle(R, base, R.n(20000, 200000))
    rbad = repeated_calls_oracle(R, base, R.n(300, 3000))
    qbad = rotation_oracle(R, base, R.n(200, 4000))
    bad = cbad or pbad or sbad or rbad or qbad
    if bad:
        R.violation('random source generator: %s' % bad['check'], bad)
    elif not R.signals:
        for rec in cfail[:1]:
            # a sample that is not the model's function of its own column of draws: the property's own statement decides
            R.violation('a returned sample is not the documented function of its own draws (samples share draws or the construction changed)',
                        dict(rec, check='sample-vs-own-draws'))
    R.cov['rule'] = ('recorded draws: 1-20 samples per call for random_mt / random_dc / random_clvd / random_sample, every column compared bit '
                     'for bit with the model on its own draws; pattern: unit norm and eigenvalues of every sample; statistics: first and second '
                     'moments of the six-vector components, lag-one independence, second moments of the T, N and P axes within one call; 300 consecutive small calls per generator must not repeat a sample; results held across later calls must not change; events of a joint draw must differ and share no sample at any position; rotation: turning both vector draws of every sample by a random rotation must turn the returned tensor with it (C08_triad_rotation_equivariant on the real generators)')
    return proved


def replay(R, body):
    base = _impl()
    rp = body['replay']
    if 'number_samples' in rp:
        n = rp['number_samples']
        rec = Recorder(__import__('random').Random(1), n)
        alg = new_alg(base, n)
        with_recorder(rec, lambda: alg.random_dc())
        print('random_dc(number_samples=%d) requested normal draws of shapes %r (every request must be (3, %d))' % (n, [c[0] for c in rec.calls], n))
        return 0 if all(c[0] == (3, n) for c in rec.calls) else 1
    print('replay of this kind is run through the check itself')
    return 0
