"""C19 -- result post-processing: container alignment, mean, maximum-probability selection, unique chain samples,
focal-sphere projections.

H: Model/Projection.v (generic arithmetic: theorems at R, bit-exact binary64 execution against spherical_projection.py) and
Model/Results.v (integer-coded containers against MTData / unique_columns), both tied by correspondence runs inside Coq.
Derived parameters against the stand-alone conversions are judged on the implementation."""
import math
import warnings

import numpy as np

from harness import core
from harness.props import conv

PI = math.pi


def _impl():
    conv.impl()
    import MTfit.plot.spherical_projection as sp
    import MTfit.plot.plot_classes as pc
    import MTfit.utilities.file_io as fio
    return sp, pc, fio


def coq_f(x):
    return '(%s)%%float' % float(x).hex()


def coq_of(x):
    x = float(x)
    if x != x:
        return 'None'
    return '(Some %s)' % coq_f(x)


def cb(b):
    return 'true' if b else 'false'


# ----------------------------------------------------------------------------- projections

def gen_vector(rng, i):
    k = i % 9
    t = rng.uniform(0, PI)
    a = rng.uniform(0, 2 * PI)
    if k == 1:
        t = 0.0
    elif k == 2:
        t = PI
    elif k == 3:
        t = PI / 2
    elif k == 4:
        t = rng.choice([1e-9, PI - 1e-9, PI / 2 + 1e-12, PI / 2 - 1e-12])
    elif k == 5:
        a = rng.choice([0.0, PI / 2, PI, 3 * PI / 2])
    v = [math.sin(t) * math.cos(a), math.sin(t) * math.sin(a), math.cos(t)]
    if k == 6:
        v = [0.0, 0.0, rng.choice([1.0, -1.0])]
    if k == 7:
        v = [rng.choice([1.0, -1.0, 0.0]), rng.choice([1.0, -1.0, 0.0]), 0.0]
    if k == 8:
        v = [rng.uniform(-1, 1) for _ in range(3)]    # not unit: the functions accept any vector
    return v, t, a, k


def projection_run(R, sp, n):
    exprs, recs = [], []
    law_bad = None
    for i in range(n):
        v, t, a, k = gen_vector(R.rng, i)
        area, lower, full, back = [R.rng.random() < 0.5 for _ in range(4)]
        f = sp.equal_area if area else sp.equal_angle
        with warnings.catch_warnings():
            warnings.simplefilter('ignore')
            try:
                X, Y = f(v[0], v[1], v[2], lower=lower, full_sphere=full, back_project=back)
            except Exception as ex:
                law_bad = law_bad or {'check': 'projection-exception', 'vector': v, 'options': [area, lower, full, back], 'error': repr(ex)}
                continue
        X, Y = float(np.asarray(X).flatten()[0]), float(np.asarray(Y).flatten()[0])
        R.count(('proj', i))
        exprs.append('(check_project %s %s %s %s %s %s %s %s %s)' % (cb(area), cb(lower), cb(full), cb(back), coq_f(v[0]), coq_f(v[1]),
                                                                 coq_f(v[2]), coq_of(X), coq_of(Y)))
        recs.append({'vector': v, 'area': area, 'lower': lower, 'full_sphere': full, 'back_project': back, 'X': X, 'Y': Y})
        # the property itself, on the implementation (direct oracle)
        if k != 8:
            tt = t if k not in (6, 7) else math.acos(max(-1.0, min(1.0, v[2])))
            zz = v[2] if lower else -v[2]
            ang = math.acos(max(-1.0, min(1.0, zz)))
            rad = (lambda u: 2 * math.sin(u / 2)) if area else (lambda u: math.tan(u / 2))
            shown = full or zz >= 0
            if shown:
                if ang > PI - 1e-6:
                    continue
                want = (rad(ang) * (v[0] / max(math.hypot(v[0], v[1]), 1e-300)), rad(ang) * (v[1] / max(math.hypot(v[0], v[1]), 1e-300)))
                if math.hypot(v[0], v[1]) == 0:
                    want = (0.0, 0.0)
            elif back:
                ang2 = PI - ang
                h = max(math.hypot(v[0], v[1]), 1e-300)
                want = (-rad(ang2) * v[0] / h, -rad(ang2) * v[1] / h)
                if math.hypot(v[0], v[1]) == 0:
                    want = (0.0, 0.0)
            else:
                want = (float('nan'), float('nan'))
            ok = all((math.isnan(w) and math.isnan(g)) or (not math.isnan(g) and abs(g - w) <= 1e-9 * max(1.0, abs(w))) for g, w in zip((X, Y), want))
            if not ok and not (abs(ang - PI / 2) < 1e-9):
                law_bad = law_bad or {'check': 'projection-law', 'vector': v, 'area': area, 'lower': lower, 'full_sphere': full,
                                      'back_project': back, 'got': [X, Y], 'expected': list(want)}
    failing, errors = core.run_cases('c19p', 'From Coq Require Import PrimFloat.\nFrom MTV.Model Require Import Projection.\nOpen Scope float_scope.',
                                     exprs, chunk=400)
    for e in errors:
        R.signal('correspondence-infrastructure', e)
    R.cov['projection_correspondence_cases'] = len(exprs)
    R.cov['projection_correspondence_disagreements'] = len(failing)
    return [recs[j] for j in failing], law_bad


# ----------------------------------------------------------------------------- container

SCALE = 2.0 ** -30


def gen_container(rng):
    n = rng.choice([2, 3, 4, 6, 9, 14])
    pool = [[rng.randint(-4, 4) for _ in range(6)] for _ in range(max(2, n // 2))]
    cols = []
    top = 2 ** 30
    for j in range(n):
        m = list(rng.choice(pool)) if rng.random() < 0.6 else [rng.randint(-4, 4) for _ in range(6)]
        kind = rng.random()
        if kind < 0.35:
            p = top - rng.choice([0, 0, 1, 2, 1000])      # ties and near-ties at the maximum
        elif kind < 0.5:
            p = 0
        else:
            p = rng.randint(1, top)
        cols.append({'mt': m, 'p': p, 'conv': 1000 + j})
    return cols


def coq_col(c):
    return '(mkCol %s %s %s)' % (core.zlist(c['mt']), core.zlit(c['p']), core.zlit(c['conv']))


def coq_cols(cs):
    return core.coq_list([coq_col(c) for c in cs])


def data_of(pc, cols):
    MTs = np.array([[float(x) for x in c['mt']] for c in cols]).T
    p = np.array([c['p'] * SCALE for c in cols])
    d = pc.MTData(MTs, p, kappa=np.array([float(c['conv']) for c in cols]))
    return d


def cols_of(d, prob_scale=SCALE):
    MTs = np.asarray(d.MTs, dtype=float)
    p = np.asarray(d.probability, dtype=float).flatten()
    k = np.asarray(d.kappa, dtype=float).flatten()
    n = MTs.shape[1] if MTs.ndim == 2 else 1
    if len(p) != n or len(k) != n:
        raise ValueError('container arrays have different lengths: %d tensors, %d probabilities, %d converted values' % (n, len(p), len(k)))
    out = []
    for j in range(n):
        col = MTs[:, j] if MTs.ndim == 2 else MTs
        out.append({'mt': [int(round(x)) for x in col], 'p': int(round(p[j] / prob_scale)), 'conv': int(round(k[j]))})
    return out


def container_run(R, pc, fio, n):
    exprs, recs = [], []
    direct_bad = None
    for i in range(n):
        cols = gen_container(R.rng)
        op = ('take', 'mask', 'max', 'unique', 'mean', 'slice')[i % 6]
        if op == 'mean' and not any(c['p'] for c in cols):
            cols[0]['p'] = 1      # the weighted mean is undefined (0/0) when every probability is zero
        R.count(('container', op, i))
        rec = {'op': op, 'columns': cols}
        try:
            d = data_of(pc, cols)
            if op == 'take':
                idx = [R.rng.randrange(len(cols)) for _ in range(R.rng.randint(2, 6))]
                rec['index'] = idx
                got = cols_of(d[:, idx])
                exprs.append('(check_take %s %s %s)' % (coq_cols(cols), core.coq_list(['%d%%nat' % j for j in idx]), coq_cols(got)))
                want = [cols[j] for j in idx]
            elif op == 'slice':
                a, b = sorted([R.rng.randrange(len(cols) + 1), R.rng.randrange(len(cols) + 1)])
                if b - a < 2:
                    a, b = 0, len(cols)
                st = R.rng.choice([1, 1, 2])
                rec['slice'] = [a, b, st]
                idx = list(range(a, b, st))
                if len(idx) < 2:
                    idx = list(range(len(cols)))
                    got = cols_of(d[:, 0:len(cols)])
                else:
                    got = cols_of(d[:, a:b:st])
                exprs.append('(check_take %s %s %s)' % (coq_cols(cols), core.coq_list(['%d%%nat' % j for j in idx]), coq_cols(got)))
                want = [cols[j] for j in idx]
            elif op == 'mask':
                m = [R.rng.random() < 0.6 for _ in cols]
                if sum(m) < 2:
                    m = [True] * len(cols)
                rec['mask'] = m
                got = cols_of(d[:, np.array(m)])
                exprs.append('(check_mask %s %s %s)' % (coq_cols(cols), core.coq_list([cb(x) for x in m]), coq_cols(got)))
                want = [c for c, keep in zip(cols, m) if keep]
            elif op == 'max':
                got = cols_of(d.get_max_probability())
                exprs.append('(check_max %s %s)' % (coq_cols(cols), coq_cols(got)))
                pm = max(c['p'] for c in cols)
                want = [c for c in cols if c['p'] == pm]
            elif op == 'unique':
                u = d.get_unique_McMC()
                got = sorted(cols_of(u, prob_scale=1.0), key=lambda c: c['mt'])
                # the model lists distinct tensors in order of first occurrence; both sides are sorted by tensor
                first = {}
                for j, c in enumerate(cols):
                    first.setdefault(tuple(c['mt']), [j, 0])[1] += 1
                want = sorted([{'mt': list(k), 'p': v[1], 'conv': cols[v[0]]['conv']} for k, v in first.items()], key=lambda c: c['mt'])
                exprs.append('(cols_eqb (%s) %s)' % (sort_model('unique_mcmc %s' % coq_cols(cols)), coq_cols(got)))
            else:
                mean, cov = d.get_mean()
                mean = np.asarray(mean, dtype=float).flatten()
                # exact check: mean * sum p = sum p m  (integers scaled by 2^-30, exact in binary64 for these sizes)
                den = 2 ** 40
                num = [int(round(x * den)) for x in mean]
                got = [{'mt': num, 'p': den, 'conv': 0}]
                ps = sum(c['p'] for c in cols)
                want_num = [sum(c['p'] * c['mt'][a] for c in cols) for a in range(6)]
                ok = ps > 0 and all(abs(mean[a] - want_num[a] / ps) < 1e-9 for a in range(6))
                if not ok:
                    direct_bad = direct_bad or dict(rec, check='mean', got=mean.tolist(), expected=[w / ps for w in want_num] if ps else None)
                continue
        except Exception as ex:
            direct_bad = direct_bad or dict(rec, check='container-exception', error=repr(ex))
            continue
        recs.append(dict(rec, implementation=got, expected=want))
        if got != want:
            direct_bad = direct_bad or dict(rec, check='container-' + op, implementation=got, expected=want)
    failing, errors = core.run_cases('c19c', 'From Coq Require Import ZArith List.\nFrom MTV.Model Require Import Results.\nImport ListNotations.\nOpen Scope Z_scope.\n' + SORT_DEF,
                                     exprs, chunk=300)
    for e in errors:
        R.signal('correspondence-infrastructure', e)
    R.cov['container_correspondence_cases'] = len(exprs)
    R.cov['container_correspondence_disagreements'] = len(failing)
    return [recs[j] for j in failing], direct_bad


# insertion sort of model output by tensor (canonical order for the comparison only)
SORT_DEF = '''Fixpoint ins_col (c : col) (l : list col) : list col :=
  match l with [] => [c] | d :: l' => if lex_ltb (mt c) (mt d) then c :: d :: l' else d :: ins_col c l' end.
Definition sort_cols (l : list col) : list col := fold_right ins_col [] l.
'''


def sort_model(term):
    return 'sort_cols (%s)' % term


def derived_oracle(R, pc, n):
    """parameters derived by the container agree with the stand-alone conversions"""
    C = conv.impl()
    bad = None
    for i in range(n):
        m = R.rng.choice([2, 3, 4, 5, 6, 6, 7])      # six tensors make the 6 x n block square
        vs = []
        for _ in range(m):
            e = [R.rng.uniform(-1, 1) for _ in range(3)]
            q = conv.rot(R.rng)
            v = conv.mt6_of_mt33(q.dot(np.diag(e)).dot(q.T))
            vs.append(v / np.linalg.norm(v))
        MTs = np.array(vs).T
        R.count(('derived', i))
        try:
            d = pc.MTData(MTs.copy(), np.array([R.rng.uniform(0.1, 1) for _ in range(m)]))
            oc = C.output_convert(MTs.copy())
            got = {'gamma': d.gamma, 'delta': d.delta, 'kappa': d.kappa, 'h': d.h, 'sigma': d.sigma, 'u': d.u, 'v': d.v}
            ref = {'gamma': oc['g'], 'delta': oc['d'], 'kappa': oc['k'], 'h': oc['h'], 'sigma': oc['s'], 'u': oc['u'], 'v': oc['v']}
            for key in got:
                a, b = np.asarray(got[key], dtype=float).flatten(), np.asarray(ref[key], dtype=float).flatten()
                if a.shape != b.shape or np.abs(a - b).max() > 1e-9:
                    bad = bad or {'check': 'derived-parameters', 'parameter': key, 'MTs': MTs.tolist(), 'container': a.tolist(), 'stand_alone': b.tolist()}
            # what the container reports for a parameter does not depend on which parameters were requested before it, and a
            # parameter read twice is the same both times (also on a slice taken afterwards)
            attrs = ['gamma', 'delta', 'kappa', 'h', 'sigma', 'u', 'v', 'strike', 'dip', 'rake', 'strike1', 'dip1', 'rake1',
                     'strike2', 'dip2', 'rake2', 'T', 'N', 'P', 'E', 'N1', 'N2']
            prob = np.array([R.rng.uniform(0.1, 1) for _ in range(m)])
            order = list(attrs)
            R.rng.shuffle(order)
            seq = pc.MTData(MTs.copy(), prob.copy())
            first = {}
            for key in order:
                first[key] = np.array(getattr(seq, key), dtype=float, copy=True)
            for key in order:
                alone = np.asarray(getattr(pc.MTData(MTs.copy(), prob.copy()), key), dtype=float)
                again = np.asarray(getattr(seq, key), dtype=float)
                cut = np.asarray(getattr(seq[:, list(range(m))], key), dtype=float)
                for label, other in (('requested alone on a fresh container', alone), ('read again after the other parameters', again),
                                     ('read from a slice taken afterwards', cut)):
                    if other.shape != first[key].shape or not np.allclose(other, first[key], rtol=0, atol=1e-9, equal_nan=True):
                        bad = bad or {'check': 'derived-parameters-history', 'parameter': key, 'request_order': order, 'MTs': MTs.tolist(),
                                      'first_read': first[key].tolist(), 'compared_with': label, 'other': other.tolist()}
            # alignment of derived parameters under indexing
            j = R.rng.randrange(m)
            sub = d[:, [j, (j + 1) % m]]
            if abs(float(np.asarray(sub.gamma).flatten()[0]) - float(np.asarray(d.gamma).flatten()[j])) > 1e-12:
                bad = bad or {'check': 'derived-alignment', 'MTs': MTs.tolist(), 'index': j}
        except Exception as ex:
            bad = bad or {'check': 'derived-exception', 'MTs': MTs.tolist(), 'error': repr(ex)}
    return bad


def run(R):
    sp, pc, fio = _impl()
    proved = R.prove(extra_targets=['Model/Projection.v', 'Model/Results.v'])
    R.assumptions += ['projection with an explicit projection_axis is not modelled (that branch uses `^` on float arrays and raises for every '
                      'input at this commit; it is reported separately as a known finding if listed)',
                      'the container is modelled per sample (tensor, probability, one converted parameter) with integer-coded values; numpy '
                      'fancy indexing itself is trusted and tied by the correspondence run',
                      'binary64 +, *, /, sqrt of numpy are IEEE correctly rounded, as are the kernel primitive floats: the projection '
                      'correspondence is bit-exact']
    pfail, law_bad = projection_run(R, sp, R.n(1200, 40000))
    cfail, direct_bad = container_run(R, pc, fio, R.n(360, 9000))
    if law_bad:
        R.violation('projection does not follow the radius/azimuth/hemisphere law', law_bad)
    elif direct_bad:
        R.violation('result container is not consistent with the samples (%s)' % direct_bad['check'], direct_bad)
    else:
        for rec in pfail[:1]:
            R.signal('correspondence', {'what': 'projection differs from Model/Projection.v (bit-exact)', 'case': rec})
        for rec in cfail[:1]:
            R.signal('correspondence', {'what': 'container operation differs from Model/Results.v', 'case': rec})
    bad = derived_oracle(R, pc, R.n(40, 800))
    if bad and not R.violations:
        R.violation('derived parameters of the container disagree with the stand-alone conversions', bad)
    # projection axis option
    try:
        with warnings.catch_warnings():
            warnings.simplefilter('ignore')
            sp.equal_area(0.1, 0.2, 0.9, projection_axis=[0.0, 0.1, 1.0])
        R.cov['projection_axis_option'] = 'runs'
    except Exception as ex:
        R.cov['projection_axis_option'] = 'raises %s' % type(ex).__name__
        if not R.known_finding('projection_axis_raises', 'equal_area / equal_angle with a projection_axis raise %s for every input '
                               '(`rAxis ^ 2` on float arrays, 1-based row indices)' % type(ex).__name__):
            R.violation('projection with a projection axis raises', {'check': 'projection-axis', 'error': repr(ex),
                                                                      'call': 'equal_area(0.1, 0.2, 0.9, projection_axis=[0.0, 0.1, 1.0])'})
    R.cov['rule'] = ('projection: unit vectors at random and special angles (poles, equator +- 1e-12, cardinal azimuths), non-unit vectors, '
                     'all 16 option combinations; container: 2-14 samples with duplicated tensors, ties and near-ties (1 ulp of 2^-30) at the '
                     'maximum probability, zero probabilities; operations index list / slice / mask / max / unique / mean')
    return proved


def replay(R, body):
    sp, pc, fio = _impl()
    rp = body['replay']
    if rp.get('check', '').startswith('container-') and 'columns' in rp:
        d = data_of(pc, rp['columns'])
        if rp['op'] == 'max':
            got = cols_of(d.get_max_probability())
            print('get_max_probability ->', got, 'expected', rp['expected'])
            return 0 if got == rp['expected'] else 1
    if rp.get('check') == 'derived-parameters-history':
        MTs = np.array(rp['MTs'], dtype=float)
        m = MTs.shape[1]
        seq = pc.MTData(MTs.copy(), np.ones(m))
        for key in rp['request_order']:
            getattr(seq, key)
        key = rp['parameter']
        a = np.asarray(getattr(seq, key), dtype=float)
        b = np.asarray(getattr(pc.MTData(MTs.copy(), np.ones(m)), key), dtype=float)
        same = a.shape == b.shape and np.allclose(a, b, rtol=0, atol=1e-9, equal_nan=True)
        print('%s after the recorded request order: %r; requested alone: %r' % (key, a.tolist(), b.tolist()))
        return 0 if same else 1
    if rp.get('check') == 'projection-law':
        f = sp.equal_area if rp['area'] else sp.equal_angle
        X, Y = f(*rp['vector'], lower=rp['lower'], full_sphere=rp['full_sphere'], back_project=rp['back_project'])
        print('projection ->', float(X[0]), float(Y[0]), 'expected', rp['expected'])
        return 1
    print('replay of this kind is run through the check itself')
    return 0
