"""C04 -- log-domain marginalisation / normalisation (T: per-slice computation of ln_marginalise and
ln_normalise -> Gen/LogDomain.v; theorems over R; correspondence and oracle against exact mpmath)."""
import math

import mpmath
import numpy as np

from harness import gen
from harness.tv import close

mpmath.mp.dps = 40
NINF = -math.inf


def _impl():
    import MTfit.probability.probability as pr
    return pr


def exact_lse(col, dV):
    fin = [mpmath.mpf(x) for x in col if x != NINF]
    if not fin:
        return NINF
    m = max(fin)
    return float(m + mpmath.log(mpmath.fsum([mpmath.exp(x - m) for x in fin]) * mpmath.mpf(dV)))


def gen_array(rng, rows, cols):
    style = rng.choice(['wide', 'big_pos', 'big_neg', 'mixed_cols', 'small', 'edge'])
    a = np.zeros((rows, cols))
    for j in range(cols):
        base = {'wide': rng.uniform(-1e5, 1e4), 'big_pos': rng.uniform(700, 1e4), 'big_neg': rng.uniform(-1e5, -800),
                'mixed_cols': rng.choice([rng.uniform(-1e5, -1000), rng.uniform(-20, 20), rng.uniform(710, 9000)]),
                'small': rng.uniform(-5, 5),
                # just inside the range where exp() of the unshifted value is still finite / non-zero: only the volume element or the
                # number of terms takes an unshifted sum out of the double range
                'edge': rng.choice([1, -1]) * rng.uniform(650, 709.5)}[style]
        spread = rng.choice([0.0, 1.0, 30.0, 800.0, 5000.0])
        for i in range(rows):
            a[i, j] = base - rng.random() * spread
    # -inf entries
    pat = rng.random()
    if pat < 0.35:
        for i in range(rows):
            for j in range(cols):
                if rng.random() < 0.3:
                    a[i, j] = NINF
    elif pat < 0.45:
        a[:, rng.randrange(cols)] = NINF
    elif pat < 0.5:
        a[:, :] = NINF
    return a, style


def finite_ok(x):
    return not (math.isnan(x) or x == math.inf)


def run(R):
    pr = _impl()
    proved = R.prove()
    R.assumptions += ['the real-valued model covers the finite entries of a slice; that -inf entries behave as absent is checked '
                      'on the implementation by the correspondence run',
                      'rounding error is not bounded by the theorems (overflow/underflow only); the numerical comparison uses '
                      '1e-9 relative tolerance against 40-digit mpmath']
    defs = R.defs(gen.gen_logdomain)
    marg, norm = (defs['marg_slice'], defs['norm_elt']) if defs else (None, None)
    bad = None
    n = R.n(400, 12000)
    styles = {}
    for i in range(n):
        rows, cols = R.rng.randint(2, 6), R.rng.randint(1, 5)
        a, style = gen_array(R.rng, rows, cols)
        styles[style] = styles.get(style, 0) + 1
        dV = R.rng.choice([1.0, 1.0, 0.5, 1e-3, 7.0, 1e4 * R.rng.random() + 1e-6])
        if style == 'edge':
            dV = R.rng.choice([1e12, 1e-30, 1e300, 1e-300, 1.0])
        kind = R.rng.choice(['ndarray', 'matrix', 'lnpdf'])
        axis = R.rng.choice([0, 0, 1])
        R.count(('marg', i), nontrivial=style != 'small')
        with np.errstate(all='ignore'):
            arg = a.copy() if kind == 'ndarray' else np.matrix(a.copy())
            if kind == 'ndarray':
                out = pr.ln_marginalise(arg, axis=axis, dV=dV)
            elif kind == 'matrix':
                out = pr.ln_marginalise(arg, axis=axis, dV=dV)
            else:
                out = pr.LnPDF(arg, dV=dV).marginalise(axis=axis)._ln_pdf
        out = np.asarray(out, dtype=float).flatten()
        if not np.array_equal(np.asarray(arg, dtype=float), a):
            # the log-probabilities handed in are still needed afterwards (the same LnPDF is marginalised, normalised and output)
            bad = bad or {'op': 'marginalise', 'check': 'the array handed in is left unchanged', 'input': a.tolist(), 'axis': axis, 'dV': dV,
                          'container': kind, 'input_after_the_call': np.asarray(arg, dtype=float).tolist()}
        slices = [a[:, j] for j in range(cols)] if axis == 0 else [a[i_, :] for i_ in range(rows)]
        if i < 2:
            R.sample({'op': 'marginalise', 'input': a.tolist(), 'axis': axis, 'dV': dV, 'container': kind, 'output': out.tolist()})
        case = {'op': 'marginalise', 'input': a.tolist(), 'axis': axis, 'dV': dV, 'container': kind, 'output': out.tolist()}
        if len(out) != len(slices):
            bad = bad or dict(case, check='shape of the marginal')
            continue
        for sl, got in zip(slices, out):
            want = exact_lse(sl.tolist(), dV)
            if len(sl) == 1 and dV != 1.0 and float(got) == float(sl[0]) and \
                    R.known_finding('single_row_ignores_dV', 'marginalising over an axis of length 1 returns the values '
                                    'unchanged, without the factor dV that longer axes receive (e.g. input %r, dV %r)' % (a.tolist()[:1], dV)):
                continue
            if not finite_ok(got) or not close(float(got), want, 1e-9):
                bad = bad or dict(case, check='exact log-sum-exp / no NaN, +inf or spurious -inf', slice=sl.tolist(), got=float(got), expected=want)
            fin = [float(x) for x in sl if x != NINF]
            if fin and marg is not None and len(sl) > 1:
                try:
                    mv = marg.evaluate([fin, dV])
                except OverflowError:
                    mv = None
                if mv is not None and finite_ok(got) and not close(float(got), mv, 1e-9):
                    R.signal('correspondence', {'def': 'marg_slice', 'slice': fin, 'dV': dV, 'implementation': float(got), 'model': mv})
        # commutes with a constant
        c = R.rng.uniform(-300, 300)
        with np.errstate(all='ignore'):
            out2 = np.asarray(pr.ln_marginalise(a.copy() + c, axis=axis, dV=dV), dtype=float).flatten()
        for g1, g2 in zip(out, out2):
            if finite_ok(g1) and finite_ok(g2) and g1 != NINF and not close(float(g2), float(g1) + c, 1e-9) and bad is None:
                bad = bad or dict(case, check='marginalisation commutes with adding a constant', constant=c, shifted_output=out2.tolist())
    for i in range(n):
        k = R.rng.randint(1, 8)
        a, style = gen_array(R.rng, 1, k)
        v = a[0]
        if all(x == NINF for x in v):
            continue   # no normalised form exists; excluded by the property's theorem and recorded only
        dV = R.rng.choice([1.0, 0.25, 1e-3, 13.0])
        if style == 'edge':
            dV = R.rng.choice([1e12, 1e-30, 1e300, 1e-300, 1.0])
        kind = R.rng.choice(['1d', 'matrix_row', 'lnpdf'])
        R.count(('norm', i), nontrivial=style != 'small')
        with np.errstate(all='ignore'):
            if kind == '1d':
                arg_n = v.copy()
                out = pr.ln_normalise(arg_n, dV)
                if not np.array_equal(np.asarray(arg_n, dtype=float), np.asarray(v, dtype=float)):
                    bad = bad or {'op': 'normalise', 'check': 'the array handed in is left unchanged', 'input': np.asarray(v, dtype=float).tolist(), 'dV': dV,
                                  'input_after_the_call': np.asarray(arg_n, dtype=float).tolist()}
            elif kind == 'matrix_row':
                out = pr.ln_normalise(np.matrix(v.copy()), dV)
            else:
                out = pr.LnPDF(np.matrix(v.copy()), dV=dV).normalise()._ln_pdf
        out = np.asarray(out, dtype=float).flatten()
        case = {'op': 'normalise', 'input': v.tolist(), 'dV': dV, 'container': kind, 'output': out.tolist()}
        if i < 1:
            R.sample(case)
        if k == 1 and kind == '1d':
            continue   # documented special case: a single sample normalises to [0]
        if len(out) != k or any(math.isnan(x) or x == math.inf for x in out):
            bad = bad or dict(case, check='normalised values finite or -inf')
            continue
        tot = mpmath.fsum([mpmath.exp(mpmath.mpf(float(x))) for x in out if x != NINF]) * mpmath.mpf(dV)
        if abs(float(tot) - 1.0) > 1e-9:
            bad = bad or dict(case, check='normalised values sum to one', total=float(tot))
        lse = exact_lse(v.tolist(), dV)
        for x, g in zip(v, out):
            if x != NINF and not close(float(g), float(x - lse), 1e-9) and not (abs(x - lse) > 1e5 * 1e-9 and abs(g - (x - lse)) < 1e-9 * max(abs(x), abs(lse))):
                bad = bad or dict(case, check='normalised value equals x - logsumexp', entry=float(x), got=float(g), expected=float(x - lse))
            if x != NINF and norm is not None:
                fin = [float(y) for y in v if y != NINF]
                try:
                    mv = norm.evaluate([fin, dV, float(x)])
                except OverflowError:
                    mv = None
                if mv is not None and not close(float(g), mv, 1e-9):
                    R.signal('correspondence', {'def': 'norm_elt', 'values': fin, 'dV': dV, 'x': float(x), 'implementation': float(g), 'model': mv})
            if x == NINF and g != NINF:
                bad = bad or dict(case, check='-inf stays -inf under normalisation')
    # composition (Props/C04.v: C04_marginalise_successive_axes, C04_normalise_idempotent) on the implementation
    for i in range(R.n(150, 3000)):
        r1, r2, k = R.rng.randint(2, 5), R.rng.randint(2, 5), R.rng.randint(2, 4)
        a3 = np.array([[[R.rng.uniform(-900, 900) if R.rng.random() < 0.5 else R.rng.uniform(-5, 5) for _ in range(k)] for _ in range(r2)] for _ in range(r1)])
        dV1, dV2 = R.rng.choice([1.0, 0.5, 1e-3, 7.0]), R.rng.choice([1.0, 0.25, 13.0])
        R.count(('successive', i))
        with np.errstate(all='ignore'):
            # blocks of rows are marginalised separately (2-D, as everywhere in MTfit), the partial results stacked and marginalised
            step1 = np.array([np.asarray(pr.ln_marginalise(a3[b].copy(), axis=0, dV=dV1), dtype=float).flatten() for b in range(r1)])
            step2 = np.asarray(pr.ln_marginalise(step1.copy(), axis=0, dV=dV2), dtype=float).flatten()
        for j in range(k):
            want = exact_lse(a3[:, :, j].flatten().tolist(), dV1 * dV2)
            if len(step2) != k or not finite_ok(step2[j]) or not close(float(step2[j]), want, 1e-9):
                bad = bad or {'op': 'marginalise twice', 'check': 'marginalising one axis after the other equals marginalising both at once', 'input': a3.tolist(),
                              'dV': [dV1, dV2], 'output': step2.tolist(), 'column': j, 'expected': want}
        v = a3[:, 0, 0].copy()
        with np.errstate(all='ignore'):
            once = np.asarray(pr.ln_normalise(v.copy(), dV2), dtype=float).flatten()
            twice = np.asarray(pr.ln_normalise(once.copy(), dV2), dtype=float).flatten()
        if len(once) != len(twice) or any(not close(float(x), float(y), 1e-9) and abs(x - y) > 1e-9 for x, y in zip(once, twice)):
            bad = bad or {'op': 'normalise twice', 'check': 'a normalised slice is unchanged by normalising again', 'input': v.tolist(), 'dV': dV2,
                          'once': once.tolist(), 'twice': twice.tolist()}
    R.cov['input_styles'] = styles
    if bad:
        R.violation('log-domain reduction: %s fails' % bad['check'], bad)
    R.cov['rule'] = ('random 1-D/2-D arrays, matrices and LnPDF objects, both axes, values in [-1e5, 1e4] with column styles '
                     '(large positive, large negative, mixed columns, wide spread, and values just inside +-709 with volume elements from 1e-300 to 1e300), random -inf patterns incl. whole slices, dV > 0; '
                     'non-trivial = not the small-magnitude style; blocks of rows marginalised separately, stacked and marginalised again against the joint exact value, slices normalised twice')
    return proved


def replay(R, body):
    pr = _impl()
    rp = body['replay']
    a = np.array(rp['input'], dtype=float)
    with np.errstate(all='ignore'):
        if rp['op'] == 'marginalise':
            out = np.asarray(pr.ln_marginalise(a, axis=rp['axis'], dV=rp['dV'])).flatten()
            sl = [a[:, j] for j in range(a.shape[1])] if rp['axis'] == 0 else [a[i, :] for i in range(a.shape[0])]
            want = [exact_lse(s.tolist(), rp['dV']) for s in sl]
        else:
            out = np.asarray(pr.ln_normalise(a, rp['dV'])).flatten()
            lse = exact_lse(a.tolist(), rp['dV'])
            want = [x - lse for x in a]
    print('implementation:', out.tolist())
    print('exact         :', want)
    ok = all(close(float(g), float(w), 1e-9) for g, w in zip(out, want))
    return 0 if ok else 1
