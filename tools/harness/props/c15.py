"""C15 -- joint multi-event posterior: per-event terms plus one relative-amplitude term per event pair on the shared
stations; inverse-variance combination of the per-station scale estimates.

H: Model/Joint.v with theorems in Props/C15.v.  Correspondence: the real MultipleEventsForwardTask is run with the
per-event forward task and the pair likelihood replaced by integer-coded stubs that record which event pair and which
station rows they were given; combine_mu is executed bit-exactly in Coq (PrimFloat).  The zero-noise limit and the
station-order independence of the real scale estimator are judged on the implementation."""
import io
import contextlib
import math

import numpy as np

from harness import core
from harness.props import conv


def _impl():
    conv.impl()
    import MTfit.inversion as inv
    import MTfit.probability.probability as pr
    return inv, pr


MISALIGNED = 10 ** 12


def coded_term(i, j, shared):
    return 1000003 * (i + 1) + 1009 * (j + 1) + sum((k + 1) * s for k, s in enumerate(shared))


def gen_events(rng):
    n = rng.choice([2, 2, 3, 3, 4])
    pool = list(range(1, 13))
    base = rng.sample(pool, rng.randint(2, 7))
    events = []
    for i in range(n):
        mode = rng.random()
        if mode < 0.25:
            st = list(base)                                   # full overlap, same order
        elif mode < 0.5:
            st = list(base)
            rng.shuffle(st)                                   # full overlap, different order
        elif mode < 0.85:
            st = [s for s in base if rng.random() < 0.6] + [s for s in pool if s not in base and rng.random() < 0.3]
            rng.shuffle(st)                                   # partial overlap
        else:
            st = [s for s in pool if s not in base][:rng.randint(1, 3)]    # no overlap
        if not st:
            st = [rng.choice(pool)]
        events.append({'own': rng.randint(-50, 50), 'stations': st})
    return events


def run_task(inv, events, minimum, relative, nmt=3):
    """the real MultipleEventsForwardTask with coded stubs; returns (total per mt column, calls, problems)"""
    calls = []
    problems = []

    class StubForward(object):
        def __init__(self, mt, a_polarity, error_polarity, *a, **k):
            self.mt = mt
            self.code = int(np.asarray(error_polarity).flatten()[0])

        def __call__(self):
            n = self.mt.shape[1]
            return {'ln_pdf': np.matrix(np.array([[float(events[self.code]['own'])] * n])), 'n': n}

    def stub_rel(x_i, x_j, mt_i, mt_j, a_i, a_j, pe_i, pe_j, *a, **k):
        ci = [int(v) for v in np.asarray(x_i).flatten()]
        cj = [int(v) for v in np.asarray(x_j).flatten()]
        ei, ej = set(c // 1000 for c in ci), set(c // 1000 for c in cj)
        si, sj = [c % 1000 for c in ci], [c % 1000 for c in cj]
        pi_, pj_ = [int(v) % 1000 for v in np.asarray(pe_i).flatten()], [int(v) % 1000 for v in np.asarray(pe_j).flatten()]
        ai, aj = [int(v) for v in np.asarray(a_i)[:, 0, 0]], [int(v) for v in np.asarray(a_j)[:, 0, 0]]
        i, j = (ei.pop() if len(ei) == 1 else -1), (ej.pop() if len(ej) == 1 else -1)
        calls.append((i, j, si, sj))
        n = np.asarray(mt_i).shape[1]
        if si != sj or pi_ != si or pj_ != sj or ai != si or aj != sj:
            problems.append({'pair': [i, j], 'stations_of_rows_event_i': si, 'stations_of_rows_event_j': sj,
                             'error_rows_i': pi_, 'error_rows_j': pj_, 'coefficient_rows_i': ai, 'coefficient_rows_j': aj})
            val = MISALIGNED
        else:
            val = coded_term(i, j, si)
        return np.matrix(np.array([[float(val)] * n])), np.ones((1, n)) * float(1000 * (i + 1) + (j + 1)), np.zeros((1, n))

    mts = [np.matrix(np.ones((6, nmt))) for _ in events]
    ne = len(events)
    a_rel = []
    for e in events:
        a = np.zeros((len(e['stations']), 1, 6))
        a[:, 0, 0] = e['stations']
        a_rel.append(a)
    rel_amp = [np.array([1000.0 * k + s for s in e['stations']]) for k, e in enumerate(events)]
    rel_err = [np.array([1000.0 * k + s for s in e['stations']]) for k, e in enumerate(events)]
    rel_st = [['ST%02d' % s for s in e['stations']] for e in events]
    real_f, real_r = inv.ForwardTask, inv.relative_amplitude_ratio_ln_pdf
    inv.ForwardTask, inv.relative_amplitude_ratio_ln_pdf = StubForward, stub_rel
    buf = io.StringIO()
    try:
        with contextlib.redirect_stdout(buf):
            task = inv.MultipleEventsForwardTask(mts, [False] * ne, [np.array([k]) for k in range(ne)], [False] * ne, [False] * ne, [False] * ne,
                                                 [False] * ne, [False] * ne, [False] * ne, [False] * ne, a_rel, rel_amp, rel_err, rel_st,
                                                 minimum_number_intersections=minimum, return_zero=True, relative=relative, combine=True)
            res = task()
    finally:
        inv.ForwardTask, inv.relative_amplitude_ratio_ln_pdf = real_f, real_r
    if buf.getvalue().strip():
        problems.append({'printed': buf.getvalue().strip()[:300]})
    ln = res['ln_pdf']
    ln = ln._ln_pdf if hasattr(ln, '_ln_pdf') else ln
    tot = [float(v) for v in np.asarray(ln).flatten()]
    sf = res.get('scale_factor')
    return tot, calls, problems, sf


def expected_joint(events, minimum, relative):
    tot = sum(e['own'] for e in events)
    pairs = []
    if relative:
        for i in range(len(events)):
            for j in range(i):
                sh = [s for s in events[i]['stations'] if s in events[j]['stations']]
                if len(sh) >= minimum:
                    tot += coded_term(i, j, sh)
                    pairs.append((i, j))
    return tot, pairs


def coq_events(events):
    return core.coq_list(['(mkEv %s %s)' % (core.zlit(e['own']), core.zlist(e['stations'])) for e in events])


def joint_run(R, inv, n):
    exprs, recs = [], []
    bad = None
    dist = {}
    for i in range(n):
        events = gen_events(R.rng)
        minimum = R.rng.choice([1, 2, 2, 3, 4])
        relative = R.rng.random() < 0.8
        rec = {'events': events, 'minimum_number_intersections': minimum, 'relative': relative}
        R.count(('joint', i), nontrivial=relative)
        try:
            tot, calls, problems, sf = run_task(inv, events, minimum, relative)
        except Exception as ex:
            bad = bad or dict(rec, check='exception', error=repr(ex))
            continue
        want, pairs = expected_joint(events, minimum, relative)
        dist[len(pairs)] = dist.get(len(pairs), 0) + 1
        if problems:
            bad = bad or dict(rec, check='pair-term-on-misaligned-rows', detail=problems[0])
            continue
        if len(set(tot)) != 1 or abs(tot[0] - round(tot[0])) > 0:
            bad = bad or dict(rec, check='joint-not-integer-coded', got=tot)
            continue
        got = int(tot[0])
        exprs.append('(check_joint %s %s %s %s)' % (core.zlit(minimum), 'true' if relative else 'false', coq_events(events), core.zlit(got)))
        recs.append(dict(rec, implementation=got, expected=want))
        if got != want:
            bad = bad or dict(rec, check='joint-sum', implementation=got, expected=want,
                              pair_calls=[[c[0], c[1]] for c in calls], expected_pairs=pairs)
        elif relative and sf is not None and not isinstance(sf, bool):
            # scale-factor matrix: filled symmetrically for the evaluated pairs, 1 on the diagonal, 0 elsewhere
            sfm = np.asarray(sf[0]['mu'])      # per sample: {'mu': events x events, 'sigma': ...}
            for a in range(len(events)):
                for b in range(len(events)):
                    w = 1.0 if a == b else (float(1000 * (max(a, b) + 1) + (min(a, b) + 1)) if (max(a, b), min(a, b)) in pairs else 0.0)
                    if sfm[a, b] != w:
                        bad = bad or dict(rec, check='scale-factor-matrix', entry=[a, b], got=float(sfm[a, b]), expected=w)
    failing, errors = core.run_cases('c15', 'From Coq Require Import ZArith List.\nFrom MTV.Model Require Import Joint.\nImport ListNotations.\nOpen Scope Z_scope.',
                                     exprs, chunk=300)
    for e in errors:
        R.signal('correspondence-infrastructure', e)
    R.cov['joint_correspondence_cases'] = len(exprs)
    R.cov['joint_correspondence_disagreements'] = len(failing)
    R.cov['pair_terms_per_case_distribution'] = dist
    return [recs[j] for j in failing], bad


def coq_f(x):
    return '(%s)%%float' % float(x).hex()


def combine_run(R, pr, n):
    exprs, recs = [], []
    for i in range(n):
        k = R.rng.randint(1, 8)
        mu = np.array([[R.rng.uniform(0.1, 5)] for _ in range(k)])
        s = np.array([[10 ** R.rng.uniform(-4, 1)] for _ in range(k)])
        m, sd = pr.combine_mu(mu.copy(), s.copy())
        R.count(('combine', i), nontrivial=k > 1)
        exprs.append('(check_combine %s %s %s)' % (core.coq_list(['(%s, %s)' % (coq_f(a[0]), coq_f(b[0])) for a, b in zip(mu, s)]),
                                                   coq_f(np.asarray(m).flatten()[0]), coq_f(np.asarray(sd).flatten()[0])))
        recs.append({'mu': mu.flatten().tolist(), 's': s.flatten().tolist()})
    failing, errors = core.run_cases('c15c', 'From Coq Require Import PrimFloat List.\nFrom MTV.Model Require Import Joint.\nImport ListNotations.\nOpen Scope float_scope.',
                                     exprs, chunk=400)
    for e in errors:
        R.signal('correspondence-infrastructure', e)
    R.cov['combine_correspondence_cases'] = len(exprs)
    R.cov['combine_correspondence_disagreements'] = len(failing)
    return [recs[j] for j in failing]


def scale_oracle(R, pr, n):
    """the real estimator: inverse-variance combination, station-order independence, zero-noise limit"""
    bad = None
    for i in range(n):
        k = R.rng.randint(2, 7)
        nm = 3
        true_scale = 10 ** R.rng.uniform(-2, 2)
        mu_y = np.array([[[R.rng.uniform(0.2, 3) for _ in range(nm)]] for _ in range(k)])       # (stations, 1, samples)
        mu_x = np.array([[[R.rng.uniform(0.2, 3) for _ in range(nm)]] for _ in range(k)])
        R.count(('scale', i))
        prev = None
        for err in (1e-2, 1e-4, 1e-6):
            pe = np.full((k,), err)
            # noise-free observation of sample 0: ratio = true_scale * mu_x / mu_y
            ratio = true_scale * mu_x[:, 0, 0] / mu_y[:, 0, 0]
            with np.errstate(all='ignore'):
                sc, su = pr.scale_estimator(ratio.copy(), mu_x.copy(), mu_y.copy(), pe.copy(), pe.copy())
            est = float(np.asarray(sc).flatten()[0])
            dev = abs(est - true_scale) / true_scale
            if not (dev <= 20 * err + 1e-12) or (prev is not None and dev > prev + 1e-12):
                bad = bad or {'check': 'zero-noise-limit', 'true_scale': true_scale, 'error': err, 'estimate': est,
                              'mu_x': mu_x[:, 0, 0].tolist(), 'mu_y': mu_y[:, 0, 0].tolist()}
            prev = dev
        # station order
        pe1 = np.array([R.rng.uniform(0.01, 0.3) for _ in range(k)])
        pe2 = np.array([R.rng.uniform(0.01, 0.3) for _ in range(k)])
        ratio = np.array([R.rng.uniform(0.2, 4) for _ in range(k)])
        with np.errstate(all='ignore'):
            a, sa = pr.scale_estimator(ratio.copy(), mu_x.copy(), mu_y.copy(), pe1.copy(), pe2.copy())
            p = list(range(k))
            R.rng.shuffle(p)
            b, sb = pr.scale_estimator(ratio[p].copy(), mu_x[p].copy(), mu_y[p].copy(), pe1[p].copy(), pe2[p].copy())
        if np.abs(np.asarray(a) - np.asarray(b)).max() > 1e-9 * np.abs(np.asarray(a)).max() or \
                np.abs(np.asarray(sa) - np.asarray(sb)).max() > 1e-9 * np.abs(np.asarray(sa)).max():
            bad = bad or {'check': 'station-order', 'permutation': p, 'scale': np.asarray(a).flatten().tolist(),
                          'scale_permuted': np.asarray(b).flatten().tolist()}
    return bad


def location_probe(R, inv):
    """two events, two location samples, no relative data: are the events independent?"""
    P = [np.array([[0.2, 0.5], [0.7, 0.1]]), np.array([[0.3, 0.3], [0.4, 0.9]])]      # P[event][location sample, tensor sample]

    class StubForward(object):
        def __init__(self, mt, a_polarity, error_polarity, *a, **k):
            self.code = int(np.asarray(error_polarity).flatten()[0])

        def __call__(self):
            return {'ln_pdf': np.matrix(np.log(P[self.code])), 'n': 2}
    real = inv.ForwardTask
    inv.ForwardTask = StubForward
    try:
        mts = [np.matrix(np.ones((6, 2))) for _ in range(2)]
        with contextlib.redirect_stdout(io.StringIO()):
            t = inv.MultipleEventsForwardTask(mts, [False] * 2, [np.array([0]), np.array([1])], [False] * 2, [False] * 2, [False] * 2, [False] * 2,
                                              [False] * 2, [False] * 2, [False] * 2, [], [], [], [], location_sample_multipliers=[1, 1],
                                              return_zero=True, relative=False, combine=True, location_sample_size=2)
            r = t()
    finally:
        inv.ForwardTask = real
    ln = r['ln_pdf']
    ln = ln._ln_pdf if hasattr(ln, '_ln_pdf') else ln
    got = np.exp(np.asarray(ln, dtype=float)).flatten()
    indep = P[0].sum(axis=0) * P[1].sum(axis=0)
    tied = (P[0] * P[1]).sum(axis=0)
    R.count(('location-probe',))
    if np.allclose(got, indep, rtol=1e-12):
        return None
    rec = {'check': 'location-samples-independence', 'per_event_likelihoods': [p.tolist() for p in P], 'joint': got.tolist(),
           'product_of_event_marginals': indep.tolist(), 'marginal_of_products': tied.tolist()}
    if np.allclose(got, tied, rtol=1e-12):
        rec['tied'] = True
    return rec


def run(R):
    inv, pr = _impl()
    proved = R.prove(extra_targets=['Model/Joint.v'])
    R.assumptions += ['the per-event forward task (C01) and the pair likelihood are replaced by integer-coded stubs in the joint correspondence '
                      'run: what is checked there is the summation, the pair loop, the station intersection and the minimum-count rule, with '
                      'combine=True and return_zero=True (the zero-filtering branches are exercised by C01/C07 only)',
                      'the per-station estimate is regenerated from scale_estimator (py_scale_mu) and its distance from the noise-free ratio is '
                      'bounded by a theorem for positive amplitudes, ratio and errors; the combination over stations of such estimates is the '
                      'inverse-variance theorem; the zero-noise behaviour of the whole estimator is additionally judged on the implementation',
                      'binary64 +, *, /, sqrt are correctly rounded in numpy and in the kernel primitive floats (bit-exact combine_mu)']
    jfail, jbad = joint_run(R, inv, R.n(300, 6000))
    cfail = combine_run(R, pr, R.n(400, 8000))
    sbad = scale_oracle(R, pr, R.n(60, 1500))
    # the regenerated per-station estimate (Gen/Kernels.v, py_scale_mu / py_scale_s) against the implementation, and the proved bound
    from harness import gen
    from harness.tv import validate_defs
    dk = R.defs(gen.gen_kernels)
    if dk:
        def one(which):
            def f(z, mx, my, px, py):
                mu, s_ = pr.scale_estimator(np.array([[z]]), np.array([[mx]]), np.array([[my]]), np.array([[px]]), np.array([[py]]))
                return [float(np.asarray(mu if which == 0 else s_).flatten()[0])]
            return f
        argg = lambda rng: [10 ** rng.uniform(-1, 1), rng.uniform(0.2, 3), rng.uniform(0.2, 3), 10 ** rng.uniform(-3, -0.3), 10 ** rng.uniform(-3, -0.3)]
        validate_defs(R, [(dk['py_scale_mu'], one(0), argg), (dk['py_scale_s'], one(1), argg)], R.n(200, 4000), tol=1e-9)
        for i in range(R.n(200, 4000)):
            z, mx, my, px, py = argg(R.rng)
            est = one(0)(z, mx, my, px, py)[0]
            bound = (py * py * my * my * z * z + px * px * mx * mx) / (mx * my * z) + 2 * math.sqrt(2 / math.pi) * py * mx / (my * z)
            R.count(('scale-bound', i))
            if not abs(est - my * z / mx) <= bound * (1 + 1e-9) + 1e-12:
                sbad = sbad or {'check': 'proved-bound-on-the-implementation', 'z': z, 'mu_x': mx, 'mu_y': my, 'errors': [px, py], 'estimate': est,
                                'noise_free_ratio': my * z / mx, 'bound': bound}
    lrec = location_probe(R, inv)
    if lrec is not None:
        if not (lrec.get('tied') and R.known_finding('location_samples_tie_events',
                'with several location samples and no relative data the joint value is the marginal over a SHARED location index of the '
                'product of the events (sum_k prod_i p_ik = %r) instead of the product of the events\' own marginals (%r)'
                % (lrec['marginal_of_products'], lrec['product_of_event_marginals']))):
            R.violation('events are not independent without relative data when several location samples are used', lrec)
    if jbad:
        key = 'intersection_rows_misaligned' if jbad['check'] == 'pair-term-on-misaligned-rows' else None
        if not (key and R.known_finding(key, 'relative-amplitude term evaluated on rows of different stations when two events list their '
                                        'shared stations in different orders: %r' % (jbad.get('detail'),))):
            R.violation('joint posterior is not the sum of per-event and per-pair terms (%s)' % jbad['check'], jbad)
    elif sbad:
        R.violation('scale estimator property fails (%s)' % sbad['check'], sbad)
    else:
        for rec in jfail[:1]:
            R.signal('correspondence', {'what': 'joint sum differs from Model/Joint.v', 'case': rec})
        for rec in cfail[:1]:
            R.signal('correspondence', {'what': 'combine_mu differs from Model/Joint.v (bit-exact)', 'case': rec})
    R.cov['rule'] = ('2-4 events, station lists with full / partial / no overlap in the same and in different orders, minimum 1-4, relative '
                     'data on/off; combine_mu on 1-8 stations with standard deviations over five decades')
    return proved


def replay(R, body):
    inv, pr = _impl()
    rp = body['replay']
    if 'events' in rp:
        tot, calls, problems, sf = run_task(inv, rp['events'], rp['minimum_number_intersections'], rp['relative'])
        want, pairs = expected_joint(rp['events'], rp['minimum_number_intersections'], rp['relative'])
        print('joint (coded) = %r, expected %r, pair calls %r, expected pairs %r, problems %r' % (tot[:1], want, [c[:2] for c in calls], pairs, problems[:1]))
        return 0 if (not problems and tot and tot[0] == want) else 1
    print('replay of this kind is run through the check itself')
    return 0
