"""C17 -- input parsing (CSV, pickled inversion file, NonLinLoc hyp) and the binary result format preserve their data.

H: Model/FileIO.v with theorems in Props/C17.v (header-driven CSV rows and events, binary record codec incl.
concatenation).  Correspondence: generated CSV text is parsed by the real parse_csv and, tokenised, by the model inside Coq;
the bytes written by _convert_mt_space_to_struct are cut into items and decoded by the model, and compared with what
read_binary_output returns.  The hyp parser and the pickled file are judged on the implementation against the generator's
own data (direct oracle)."""
import math
import os
import pickle
import shutil
import struct
import tempfile

import numpy as np

from harness import core
from harness.props import conv

TYPES = ['PPolarity', 'SHPolarity', 'P/SHAmplitudeRatio', 'P/SVRMSAmplitudeRatio', 'SH/SVQAmplitudeRatio', 'PPolarityProbability']
COLS = ['Name', 'Azimuth', 'TakeOffAngle', 'Measured', 'Error']
COQCOL = {'Name': 'CName', 'Azimuth': 'CAz', 'TakeOffAngle': 'CToa', 'Measured': 'CMeas', 'Error': 'CErr'}


def _impl():
    conv.impl()
    import MTfit.utilities.file_io as fio
    return fio


# ----------------------------------------------------------------------------- CSV

def gen_csv(rng):
    nev = rng.randint(1, 5)
    events = []
    for e in range(nev):
        uid = rng.choice([None, None, 100 + rng.randint(0, 899)])
        types = []
        for k in rng.sample(range(len(TYPES)), rng.randint(1, 4)):
            hdr = list(COLS)
            rng.shuffle(hdr)
            if rng.random() < 0.3:
                hdr.insert(rng.randrange(len(hdr) + 1), 'Comment')
            two = 'Ratio' in TYPES[k] or 'Probability' in TYPES[k]
            rows = []
            for s in range(rng.randint(1, 20)):
                meas = [rng.randint(-9, 9), rng.randint(1, 9)] if two else [rng.choice([-1, 1])]
                err = [rng.randint(1, 9), rng.randint(1, 9)] if two and rng.random() < 0.8 else [rng.randint(1, 9)]
                rows.append({'name': rng.randint(1, 999), 'az': rng.randint(0, 359), 'toa': rng.randint(0, 180), 'meas': meas, 'err': err})
            types.append({'key': k, 'header': hdr, 'rows': rows})
        events.append({'uid': uid, 'types': types})
    return events


def render_csv(events, rng):
    lines = []
    ncol = 6
    for i, ev in enumerate(events):
        if i:
            lines.append(',' * (ncol - 1))
        if ev['uid'] is not None:
            lines.append(rng.choice(['UID=%d', 'UID:%d']) % ev['uid'] + ',' * (ncol - 1))
        for t in ev['types']:
            lines.append(TYPES[t['key']] + rng.choice(['', ' ']) + ',' * (ncol - 1))
            lines.append(','.join(t['header']))
            for r in t['rows']:
                f = {'Name': 'S%03d' % r['name'], 'Azimuth': '%d' % r['az'], 'TakeOffAngle': rng.choice(['%d', '%d.0', ' %d']) % r['toa'],
                     'Measured': ' '.join('%d' % m for m in r['meas']), 'Error': ' '.join('%d' % m for m in r['err']), 'Comment': ''}
                lines.append(','.join(f[c] for c in t['header']))
    return '\n'.join(lines) + '\n'


def coq_row_fields(r, hdr):
    f = {'Name': [r['name']], 'Azimuth': [r['az']], 'TakeOffAngle': [r['toa']], 'Measured': r['meas'], 'Error': r['err'], 'Comment': []}
    return 'CRow %s' % core.coq_list([core.zlist(f[c]) for c in hdr])


def coq_csv(events):
    evs = []
    for ev in events:
        ls = []
        if ev['uid'] is not None:
            ls.append('CUid %d' % ev['uid'])
        for t in ev['types']:
            ls.append('CType %d' % t['key'])
            ls.append('CHeader %s' % core.coq_list([COQCOL.get(c, '(COther 9)') for c in t['header']]))
            ls += [coq_row_fields(r, t['header']) for r in t['rows']]
        evs.append(core.coq_list(ls))
    return core.coq_list(evs)


def decode_csv(parsed):
    """implementation output -> (uid string, [(key, rows)]) with integer-coded rows; key order = dictionary order"""
    out = []
    for ev in parsed:
        types = []
        for k, d in ev.items():
            if k == 'UID':
                continue
            names = d['Stations']['Name']
            az = np.asarray(d['Stations']['Azimuth'], dtype=float)
            toa = np.asarray(d['Stations']['TakeOffAngle'], dtype=float)
            me = np.asarray(d['Measured'], dtype=float)
            er = np.asarray(d['Error'], dtype=float)
            n = len(names)
            if not (az.shape[0] == toa.shape[0] == me.shape[0] == er.shape[0] == n):
                raise ValueError('arrays of different lengths for %s' % k)
            rows = [{'name': int(names[i][1:]), 'az': int(az[i, 0]), 'toa': int(toa[i, 0]), 'meas': [int(x) for x in me[i]],
                     'err': [int(x) for x in er[i]]} for i in range(n)]
            types.append((k, rows))
        out.append((ev['UID'], types))
    return out


def coq_expected_csv(dec):
    evs = []
    for uid, types in dec:
        ts = []
        for k, rows in types:
            rs = ['(mkRow %s %s %s %s %s)' % (core.zlist([r['name']]), core.zlist([r['toa']]), core.zlist([r['az']]), core.zlist(r['meas']),
                                              core.zlist(r['err'])) for r in rows]
            ts.append('(%d, %s)' % (TYPES.index(k), core.coq_list(rs)))
        evs.append('(%s, %s)' % (uid, core.coq_list(ts)))
    return core.coq_list(evs)


def csv_run(R, fio, n, tmp):
    exprs, recs = [], []
    bad = None
    for i in range(n):
        events = gen_csv(R.rng)
        # rows of one type must have the same number of error values for numpy.matrix: make them uniform
        for ev in events:
            for t in ev['types']:
                w = len(t['rows'][0]['err'])
                for r in t['rows']:
                    r['err'] = (r['err'] * 2)[:w]
        text = render_csv(events, R.rng)
        fn = os.path.join(tmp, 'c%d.csv' % i)
        with open(fn, 'w') as f:
            f.write(text)
        rec = {'csv_text': text if len(text) < 3000 else text[:3000] + '...'}
        R.count(('csv', i), nontrivial=len(events) > 1 or len(events[0]['types']) > 1)
        try:
            parsed = fio.parse_csv(fn)
            dec = decode_csv(parsed)
            want = [(str(ev['uid']) if ev['uid'] is not None else str(k + 1),
                     [(TYPES[t['key']], [dict(r) for r in t['rows']]) for t in ev['types']]) for k, ev in enumerate(events)]
            if dec != want:
                bad = bad or dict(rec, check='csv-parse', implementation=str(dec)[:600], expected=str(want)[:600])
            # model: UIDs as option (the default numbering is the harness's glue: position + 1)
            dec_model = [(('(Some %s)' % u) if ev['uid'] is not None else 'None', t) for (u, t), ev in zip(dec, events)]
            exprs.append('(check_csv %s %s)' % (coq_csv(events), coq_expected_csv(dec_model)))
            recs.append(rec)
            # pickled inversion file
            fio.csv2inv(fn)
            inv = os.path.splitext(fn)[0] + '.inv'
            with open(inv, 'rb') as f:
                back = pickle.load(f)
            if decode_csv(back) != dec:
                bad = bad or dict(rec, check='csv2inv', note='pickled inversion file does not load to the parsed data')
            os.remove(inv)
        except Exception as ex:
            bad = bad or dict(rec, check='csv-exception', error=repr(ex))
        os.remove(fn)
    failing, errors = core.run_cases('c17c', 'From Coq Require Import ZArith List.\nFrom MTV.Model Require Import FileIO.\nImport ListNotations.\nOpen Scope Z_scope.',
                                     exprs, chunk=100)
    for e in errors:
        R.signal('correspondence-infrastructure', e)
    R.cov['csv_correspondence_cases'] = len(exprs)
    R.cov['csv_correspondence_disagreements'] = len(failing)
    return [recs[j] for j in failing], bad


# ----------------------------------------------------------------------------- hyp

def gen_hyp(rng):
    events = []
    for e in range(rng.randint(1, 4)):
        picks = []
        for s in range(rng.randint(1, 12)):
            picks.append({'station': 'ST%02d' % rng.randint(1, 99), 'phase': rng.choice(['P', 'P', 'S', 'SH']),
                          'pol': rng.choice(['U', 'D', '?', '+', '-', 'c', '.', 'u', 'd']), 'unc': rng.randint(1, 50) / 100.0,
                          'az': rng.randint(0, 3599) / 10.0, 'toa': rng.randint(0, 1800) / 10.0})
        events.append({'sec': '%02d.%04d' % (rng.randint(0, 59), rng.randint(0, 9999)), 'picks': picks,
                       'long_line_outside': rng.random() < 0.3, 'short_line_inside': rng.random() < 0.3, 'stat_after': rng.random() < 0.3})
    events[-1]['unterminated'] = rng.random() < 0.2
    return events


def render_hyp(events):
    out = []
    for k, ev in enumerate(events):
        out.append('NLLOC "loc/x.%d" "LOCATED" "Location completed."' % k)
        out.append('GEOGRAPHIC  OT 2014 02 %02d  12 %02d %s  Lat 64.0 Long -16.5 Depth 5.0' % (k + 1, k + 3, ev['sec']))
        if ev.get('long_line_outside'):
            # a line of 27 tokens outside the PHASE section (a commented-out pick): carries nothing
            out.append('COMMENT ? ? ? P U 20140202 1201 12.5 GAU 0.02 -1.0 1.5 -1.0 > 1.0 0.1 1.0 10.0 20.0 0.0 5.0 180.0 77.0 33.0 9 0.0')
        out.append('PHASE ID Ins Cmp On Pha  FM Date     HrMn   Sec     Err  ErrMag    Coda      Amp       Per  >   TTpred    Res       Weight    StaLoc(X  Y         Z)        SDist    SAzim  RAz  RDip RQual    Tcorr')
        for j, p in enumerate(ev['picks']):
            if j == 1 and ev.get('short_line_inside'):
                out.append('# picks below were revised')
            out.append('%s ? ? ? %s %s 20140202 1201 12.5 GAU %.2f -1.0 %.2f -1.0 > 1.0 0.1 1.0 10.0 20.0 0.0 5.0 180.0 %.1f %.1f 9 0.0' % (
                p['station'], p['phase'], p['pol'], p['unc'], 1.5, p['az'], p['toa']))
        out.append('END_PHASE')
        if ev.get('stat_after'):
            out.append('ST77 ? ? ? P D 20140202 1201 12.5 GAU 0.02 -1.0 1.5 -1.0 > 1.0 0.1 1.0 10.0 20.0 0.0 5.0 180.0 11.0 22.0 9 0.0')
        if not ev.get('unterminated'):
            out.append('END_NLLOC')
        out.append('')
    return '\n'.join(out)


PHASES = {'P': 0, 'S': 1, 'SH': 2, 'SV': 3}
LETTERS = {'u': 0, '?': 1, 'd': 2, '+': 3, 'c': 4, '-': 5, '.': 6, 'p': 7, 'n': 8}


def _zq(x, scale):
    v = round(float(x) * scale)
    return '(%d)' % v


def coq_hyp_lines(text):
    """tokenisation of the file as parse_hyp does it (rstrip, split on white space, empty lines dropped) into Model/Hyp.v lines"""
    out = []
    for line in text.split('\n'):
        t = line.rstrip().split()
        if not t:
            continue
        if t[0] == 'PHASE':
            out.append('HPhase')
        elif t[0] == 'END_PHASE':
            out.append('HEndPhase')
        elif t[0] == 'END_NLLOC':
            out.append('HEndLoc')
        elif len(t) >= 25 and t[0].startswith('ST') and t[4] in PHASES and t[5].lower() in LETTERS:
            out.append('(HLine %d%%nat (mkPick %d %d %d %s %s %s))' % (len(t), int(t[0][2:]), PHASES[t[4]], LETTERS[t[5].lower()],
                                                                      _zq(t[10], 100), _zq(t[23], 10), _zq(t[24], 10)))
        elif len(t) >= 25:
            out.append('(HLine %d%%nat (mkPick 0 0 %d 0 %s %s))' % (len(t), LETTERS.get(t[5].lower(), 1), _zq(t[23], 10), _zq(t[24], 10)))
        else:
            out.append('(HLine %d%%nat (mkPick 0 0 1 0 0 0))' % len(t))
    return '[' + '; '.join(out) + ']'


def coq_hyp_expected(parsed):
    evs = []
    for ev in parsed:
        ents = []
        for k, v in ev.items():
            if k in ('UID', 'hyp_file'):
                continue
            names = v['Stations']['Name']
            az = np.asarray(v['Stations']['Azimuth'], dtype=float).flatten()
            toa = np.asarray(v['Stations']['TakeOffAngle'], dtype=float).flatten()
            me = np.asarray(v['Measured'], dtype=float).flatten()
            er = np.asarray(v['Error'], dtype=float).flatten()
            n = min(len(names), len(az), len(toa), len(me), len(er))
            if not k.endswith('Polarity') or k[:-8] not in PHASES or max(len(names), len(az), len(toa), len(me), len(er)) != n:
                ents.append('(99, [])')
                continue
            ents.append('(%d, [%s])' % (PHASES[k[:-8]], '; '.join(
                'mkObs %d (%d) %s %s %s' % (int(names[j][2:]) if names[j].startswith('ST') else 0, int(me[j]), _zq(er[j], 100), _zq(az[j], 10), _zq(toa[j], 10))
                for j in range(n))))
        if ents:
            evs.append('[' + '; '.join(ents) + ']')
    return '[' + '; '.join(evs) + ']'


def hyp_run(R, fio, n, tmp):
    bad = None
    exprs, recs = [], []
    poldict = {'u': 1, '?': 0, 'd': -1, '+': 1, 'c': 1, '-': -1, '.': 0, 'p': 1, 'n': -1}
    for i in range(n):
        events = gen_hyp(R.rng)
        fn = os.path.join(tmp, 'h%d.hyp' % i)
        text = render_hyp(events)
        with open(fn, 'w') as f:
            f.write(text)
        R.count(('hyp', i), nontrivial=len(events) > 1)
        rec = {'hyp_text': text if len(text) < 3000 else text[:3000] + '...'}
        try:
            parsed = fio.parse_hyp(fn)
            want = []
            for ev in events:
                d = {}
                for p in ev['picks']:
                    pol = poldict[p['pol'].lower()]
                    if pol:
                        d.setdefault(p['phase'] + 'Polarity', []).append((p['station'], pol, round(3 * p['unc'], 6), p['az'], p['toa']))
                if d:
                    want.append(d)
            got = []
            for ev in parsed:
                d = {}
                for k, v in ev.items():
                    if k in ('UID', 'hyp_file'):
                        continue
                    names = v['Stations']['Name']
                    az = np.asarray(v['Stations']['Azimuth'], dtype=float).flatten()
                    toa = np.asarray(v['Stations']['TakeOffAngle'], dtype=float).flatten()
                    me = np.asarray(v['Measured'], dtype=float).flatten()
                    er = np.asarray(v['Error'], dtype=float).flatten()
                    if not (len(names) == len(az) == len(toa) == len(me) == len(er)):
                        raise ValueError('arrays of different lengths for %s' % k)
                    d[k] = [(names[j], int(me[j]), round(float(er[j]), 6), float(az[j]), float(toa[j])) for j in range(len(names))]
                if d:
                    got.append(d)      # an event without polarity picks may or may not be listed: it carries no data
            if got != want:
                bad = bad or dict(rec, check='hyp-parse', implementation=str(got)[:700], expected=str(want)[:700])
            exprs.append('(check_hyp %s %s)' % (coq_hyp_lines(text), coq_hyp_expected(parsed)))
            recs.append(rec)
        except Exception as ex:
            bad = bad or dict(rec, check='hyp-exception', error=repr(ex))
        os.remove(fn)
    failing, errors = core.run_cases('c17h', 'From Coq Require Import ZArith List.\nFrom MTV.Model Require Import Hyp.\nImport ListNotations.\nOpen Scope Z_scope.',
                                     exprs, chunk=100)
    for e in errors:
        R.signal('correspondence-infrastructure', e)
    R.cov['hyp_correspondence_cases'] = len(exprs)
    R.cov['hyp_correspondence_disagreements'] = len(failing)
    return [recs[j] for j in failing], bad


# ----------------------------------------------------------------------------- binary

CONV = ['g', 'd', 'k', 'h', 's', 'u', 'v', 'S1', 'D1', 'R1', 'S2', 'D2', 'R2']


def bits(x):
    return struct.unpack('<Q', struct.pack('<d', float(x)))[0]


def gen_result(rng):
    n = rng.choice([0, 1, 2, 5, 17])
    out = {'moment_tensor_space': np.matrix(np.array([[rng.uniform(-1, 1) for _ in range(n)] for _ in range(6)]).reshape(6, n)),
           'probability': np.matrix(np.array([[rng.uniform(0, 1) for _ in range(n)]]).reshape(1, n)),
           'ln_pdf': np.matrix(np.array([[rng.uniform(-30, 0) for _ in range(n)]]).reshape(1, n)),
           'total_number_samples': rng.randint(n, 10 ** 7), 'dkl': rng.uniform(0, 5), 'ln_bayesian_evidence': rng.uniform(-50, 0)}
    if rng.random() < 0.5:
        for k in CONV:
            out[k] = np.array([rng.uniform(-180, 360) for _ in range(n)])
    return out


def tokenise(b):
    """cut the bytes of concatenated records into items (glue: mirrors the struct format strings)"""
    items, off = [], 0
    while off < len(b):
        v, tot, n = struct.unpack('QQQ', b[off:off + 24])
        c = struct.unpack('?', b[off + 24:off + 25])[0]
        items += ['U64 %d' % v, 'U64 %d' % tot, 'U64 %d' % n, 'Flag %s' % ('true' if c else 'false')]
        off += 25
        nwords = 2 + n * (21 if c else 8)
        for k in range(nwords):
            items.append('F64 %d' % struct.unpack('<Q', b[off:off + 8])[0])
            off += 8
    return items


def binary_run(R, fio, n, tmp):
    exprs, recs = [], []
    bad = None
    s2 = np.sqrt(2)
    for i in range(n):
        outs = [gen_result(R.rng) for _ in range(R.rng.randint(1, 3))]
        R.count(('binary', i), nontrivial=len(outs) > 1)
        rec = {'records': [{'samples': o['moment_tensor_space'].shape[1], 'converted': 'g' in o, 'total_number_samples': o['total_number_samples']} for o in outs]}
        fn = os.path.join(tmp, 'b%d.mt' % i)
        try:
            blob = b''
            for o in outs:
                b, sf = fio._convert_mt_space_to_struct(o)
                blob += b
                want_len = 41 + o['moment_tensor_space'].shape[1] * (168 if 'g' in o else 64)
                if len(b) != want_len:
                    bad = bad or dict(rec, check='binary-size', got=len(b), expected=want_len)
            with open(fn, 'wb') as f:
                f.write(blob)
            back = fio.read_binary_output(fn)
            if len(back) != len(outs):
                bad = bad or dict(rec, check='binary-record-count', got=len(back))
            exp = []
            for o, r in zip(outs, back):
                nn = o['moment_tensor_space'].shape[1]
                mt, rt = np.asarray(o['moment_tensor_space']), np.asarray(r['moment_tensor_space'])
                ok = rt.shape == (6, nn) and r['total_number_samples'] == o['total_number_samples'] and \
                    np.array_equal(np.asarray(r['probability']), np.asarray(o['probability'])) and \
                    np.array_equal(np.asarray(r['ln_pdf']), np.asarray(o['ln_pdf'])) and \
                    (nn == 0 or (np.array_equal(rt[:3], mt[:3]) and np.abs(rt[3:] - mt[3:]).max() <= 4e-16)) and r['dkl'] == o['dkl']
                if 'g' in o:
                    ok = ok and all(np.array_equal(np.asarray(r[k]), np.asarray(o[k])) for k in CONV) and 'g' in r
                else:
                    ok = ok and 'g' not in r
                if not ok:
                    bad = bad or dict(rec, check='binary-roundtrip', note='read values differ from the written ones')
                # expected model record, built from what the READER returned (stored off-diagonals = written value / sqrt2)
                samples = []
                for j in range(nn):
                    row = [bits(np.asarray(r['probability'])[0, j]), bits(np.asarray(r['ln_pdf'])[0, j]), bits(rt[0, j]), bits(rt[1, j]), bits(rt[2, j]),
                           bits(mt[3, j] / s2), bits(mt[4, j] / s2), bits(mt[5, j] / s2)]
                    if 'g' in r:
                        row += [bits(r[k][j]) for k in CONV]
                    samples.append(row)
                    if not all(rt[3 + a, j] == s2 * (mt[3 + a, j] / s2) for a in range(3)):
                        bad = bad or dict(rec, check='binary-offdiagonal', note='reader value is not sqrt2 * stored value')
                exp.append('(mkRec %d %s %d %d %s)' % (r['total_number_samples'], 'true' if 'g' in r else 'false', bits(o['ln_bayesian_evidence']),
                                                       bits(r['dkl']), core.coq_list([core.zlist(x) for x in samples])))
            exprs.append('(check_binary %s %s)' % (core.coq_list(tokenise(blob)), core.coq_list(exp)))
            recs.append(rec)
        except Exception as ex:
            bad = bad or dict(rec, check='binary-exception', error=repr(ex))
        if os.path.exists(fn):
            os.remove(fn)
    failing, errors = core.run_cases('c17b', 'From Coq Require Import ZArith List.\nFrom MTV.Model Require Import FileIO.\nImport ListNotations.\nOpen Scope Z_scope.',
                                     exprs, chunk=100)
    for e in errors:
        R.signal('correspondence-infrastructure', e)
    R.cov['binary_correspondence_cases'] = len(exprs)
    R.cov['binary_correspondence_disagreements'] = len(failing)
    return [recs[j] for j in failing], bad


def run(R):
    fio = _impl()
    proved = R.prove(extra_targets=['Model/FileIO.v', 'Model/Hyp.v'])
    R.assumptions += ['text is tokenised by the harness (split at commas / whitespace, float()) and bytes are cut into items with the struct '
                      'format strings of the writer: that glue is trusted; the model works on tokens and items',
                      'CSV: well-formed files only (every data type has a header line and at least one station; rows of one type have the same '
                      'number of values); the default UID (event number) is glue; hyp files: one PHASE block per event; station, phase and first-motion tokens are coded as integers, time errors in hundredths and angles in tenths (the generator writes them with that many decimals)',
                      'binary: values compared bit for bit except the three off-diagonal components, which the format stores divided by sqrt2 '
                      '(read value = sqrt2 * stored, within 2 ulp of the written one)']
    tmp = tempfile.mkdtemp(prefix='c17_')
    try:
        cfail, cbad = csv_run(R, fio, R.n(120, 3000), tmp)
        hfail, hbad = hyp_run(R, fio, R.n(120, 3000), tmp)
        bfail, bbad = binary_run(R, fio, R.n(120, 3000), tmp)
    finally:
        shutil.rmtree(tmp, ignore_errors=True)
    bad = cbad or hbad or bbad
    if bad:
        R.violation('file format does not preserve the data (%s)' % bad['check'], bad)
    else:
        for rec in cfail[:1]:
            R.signal('correspondence', {'what': 'parse_csv differs from Model/FileIO.v', 'case': rec})
        for rec in hfail[:1]:
            R.signal('correspondence', {'what': 'parse_hyp differs from Model/Hyp.v', 'case': rec})
        for rec in bfail[:1]:
            R.signal('correspondence', {'what': 'binary records differ from Model/FileIO.v', 'case': rec})
    R.cov['rule'] = ('CSV: 1-5 events, 1-4 data types, 1-20 stations, shuffled header columns with an optional extra column, one- and two-valued '
                     'fields, with/without UID (UID=, UID:); hyp: 1-4 events, 1-12 picks of several phases and all polarity letters, pick-like lines outside the PHASE section, short lines inside it, a last event without END_NLLOC, every file also run through Model/Hyp.v inside Coq; binary: '
                     '1-3 concatenated records with 0-17 samples, with and without converted parameters')
    return proved


def replay(R, body):
    fio = _impl()
    rp = body['replay']
    tmp = tempfile.mkdtemp(prefix='c17r_')
    try:
        if 'hyp_text' in rp:
            fn = os.path.join(tmp, 'r.hyp')
            open(fn, 'w').write(rp['hyp_text'])
            p = fio.parse_hyp(fn)
            print('parse_hyp: %d events; first event keys and station counts: %r' % (
                len(p), {k: len(v['Stations']['Name']) for k, v in p[0].items() if k not in ('UID', 'hyp_file')} if p else None))
            print('expected (from the file):', rp.get('expected', '')[:300])
            return 1
        if 'csv_text' in rp:
            fn = os.path.join(tmp, 'r.csv')
            open(fn, 'w').write(rp['csv_text'])
            print(str(decode_csv(fio.parse_csv(fn)))[:600])
            return 1
    finally:
        shutil.rmtree(tmp, ignore_errors=True)
    print('replay of this kind is run through the check itself')
    return 0
