"""C20 -- compiled accelerators compute the same functions as the pure-Python paths.

No Cython compiler is available in this environment, so the extensions cannot be built or run.  What is decided here is
the SOURCE-LEVEL part for the conversion kernels: the Cython kernels cE_tk, ctk_uv, cE_gd, cN_SDR (and cTape_MT6, run
only) are converted to plain Python by tools/py2coq/pyx.py (textual, fail-closed), regenerated into Coq (Gen/Kernels.v)
and proved equal over the reals to the regenerated Python routines (Props/C20.v).  The converted kernels are also executed
against the pure-Python implementation on random inputs (this is what finds a failing input when a proof breaks).
The other extension modules (probability, Markov chain, scatangle) are not covered: see DESIGN.md."""
import math

import numpy as np

from harness import gen
from harness.props import conv
from harness.tv import validate_defs, close


def load_kernels():
    src = gen.kernel_python()
    ns = {}
    exec(compile(src, 'pyx_kernels', 'exec'), ns)
    return ns


def likelihood_kernels(R, K):
    """converted likelihood kernels of cprobability.pyx against the pure-Python per-station likelihoods"""
    import MTfit.probability.probability as pr
    bad = None
    n = R.n(600, 20000)
    six = np.zeros((1, 1, 6))
    six[0, 0, 0] = 1.0
    for i in range(n):
        x = R.rng.uniform(-2, 2) if i % 9 else 0.0
        s, w = 10 ** R.rng.uniform(-2, 0.5), R.rng.uniform(0, 0.5)
        mt = np.array([[x], [0.], [0.], [0.], [0.], [0.]])
        R.count(('likelihood-kernel', i))
        with np.errstate(all='ignore'):
            py = float(np.exp(np.asarray(pr.polarity_ln_pdf(six, mt, np.array([s]), np.array([w]), _use_c=False)).flatten()[0]))
            kc = float(K['pol_pdf'](x, s, w))
            if not close(kc, py, 1e-9):
                bad = bad or {'check': 'pol_pdf', 'x': x, 'sigma': s, 'mispick': w, 'kernel': kc, 'python': py}
            p = R.rng.uniform(0, 1)
            q = 1 - p if i % 3 else R.rng.uniform(0, 1 - p)
            py = float(np.exp(np.asarray(pr.polarity_probability_ln_pdf(six, mt, np.array([p]), np.array([q]), np.array([w]), _use_c=False)).flatten()[0]))
            kc = float(K['pol_prob_pdf'](x, p, q, w))
            if not close(kc, py, 1e-9):
                rec = {'check': 'pol_prob_pdf', 'x': x, 'positive': p, 'negative': q, 'mispick': w, 'kernel': kc, 'python': py}
                if not (x == 0.0 and R.known_finding('pol_prob_pdf_at_zero', 'Cython pol_prob_pdf returns 0.5 at X = 0 where the Python path returns '
                                                     '(p+ + p-)/2: they differ when the two probabilities do not sum to one, e.g. p+ = %r, p- = %r' % (p, q))):
                    bad = bad or rec
            z, mux, muy = R.rng.uniform(-3, 3), R.rng.uniform(-2, 2), R.rng.uniform(-2, 2)
            psx, psy = 10 ** R.rng.uniform(-2, -0.3), 10 ** R.rng.uniform(-2, -0.3)
            if abs(mux) > 1e-3 and abs(muy) > 1e-3:
                a1, a2 = np.zeros((1, 1, 6)), np.zeros((1, 1, 6))
                a1[0, 0, 0], a2[0, 0, 0] = mux, muy
                m1 = np.array([[1.], [0.], [0.], [0.], [0.], [0.]])
                py = float(np.exp(np.asarray(pr.amplitude_ratio_ln_pdf(np.array([z]), m1, a1, a2, np.array([psx]), np.array([psy]), _use_c=False)).flatten()[0]))
                kc = float(K['ar_pdf'](z, mux, muy, psx, psy))
                if not close(kc, py, 1e-7) and max(kc, py) > 1e-250:
                    bad = bad or {'check': 'ar_pdf', 'z': z, 'mu_x': mux, 'mu_y': muy, 'errors': [psx, psy], 'kernel': kc, 'python': py}
            s1, s2 = 10 ** R.rng.uniform(-3, 1), 10 ** R.rng.uniform(-3, 1)
            m_1, m_2 = R.rng.uniform(0.1, 5), R.rng.uniform(0.1, 5)
            cm, cs = pr.combine_mu(np.array([[m_1], [m_2]]), np.array([[s1], [s2]]))
            if not (close(float(K['combine_mu'](m_1, m_2, s1, s2)), float(np.asarray(cm).flatten()[0]), 1e-12)
                    and close(float(K['combine_s'](s1, s2)), float(np.asarray(cs).flatten()[0]), 1e-12)):
                bad = bad or {'check': 'combine_mu/combine_s', 'mu': [m_1, m_2], 's': [s1, s2]}
            # scale factor of one station: estimate_scale_mu_s against scale_estimator (errors up to 60%: the tail term matters there)
            zx, zy = R.rng.choice([-1, 1]) * 10 ** R.rng.uniform(-1, 1), R.rng.choice([-1, 1]) * 10 ** R.rng.uniform(-1, 1)
            ex, ey = 10 ** R.rng.uniform(-2, -0.2), 10 ** R.rng.uniform(-2, -0.2)
            if abs(mux) > 1e-3 and abs(muy) > 1e-3:
                pm, ps = pr.scale_estimator(np.array([[abs(zx / zy)]]), np.array([[abs(mux)]]), np.array([[abs(muy)]]), np.array([[ex]]), np.array([[ey]]))
                km, ks = K['estimate_scale_mu_s'](zx, zy, mux, muy, ex, ey)
                pm, ps = float(np.asarray(pm).flatten()[0]), float(np.asarray(ps).flatten()[0])
                if not (close(float(km), pm, 1e-9) and close(float(ks), ps, 1e-7)):
                    bad = bad or {'check': 'estimate_scale_mu_s', 'x': zx, 'y': zy, 'mu_x': mux, 'mu_y': muy, 'errors': [ex, ey],
                                  'kernel': [float(km), float(ks)], 'python': [pm, ps]}
    return bad


def load_mc_kernels():
    src = gen.mc_kernel_python()
    ns = {}
    exec(compile(src, 'pyx_kernels_mc', 'exec'), ns)
    return ns


def mcmc_kernels(R, KM):
    """converted acceptance kernels of cmarkov_chain_monte_carlo.pyx (transition ratio, prior ratio, balancing density, acceptance
    with its three function pointers bound as acceptance_check binds them) against the pure-Python acceptance of the chain classes"""
    import gc
    gc.collect = lambda *a, **k: 0
    import MTfit.algorithms.markov_chain_monte_carlo as mc
    from scipy.special import gamma as Gamma
    PI = math.pi
    ND = Gamma(11.490) / (Gamma(5.745) * Gamma(5.745)) * 1.10452194071529090000     # the module constant of the .pyx (non-Windows branch)
    bad = None
    for i in range(R.n(300, 8000)):
        uniform = R.rng.random() < 0.6
        gauss = R.rng.random() < 0.6
        kind = R.rng.choice(['mt', 'dc', 'up', 'down'])
        pdc = R.rng.choice([0.5, R.rng.uniform(0.1, 0.9)])
        alg = mc.IterativeTransDMetropolisHastingsGaussianTape(learning_length=10, chain_length=10, acceptance_rate_window=5, initial_sample='none',
                                                                 sampling_prior='uniform_prior' if uniform else 'flat_prior', dc_prior=pdc,
                                                                 gaussian_jump_params=gauss, dc_sigma_g=R.rng.choice([0.2, R.rng.uniform(0.05, 0.4)]),
                                                                 dc_sigma_d=R.rng.choice([0.2, R.rng.uniform(0.05, 0.6)]))
        a = alg.alpha

        def st(dc):
            return {'gamma': 0.0 if dc else R.rng.uniform(-PI / 6, PI / 6) * 0.97, 'delta': 0.0 if dc else R.rng.uniform(-PI / 2, PI / 2) * 0.97,
                    'kappa': R.rng.uniform(0, 2 * PI), 'h': R.rng.uniform(0, 1), 'sigma': R.rng.uniform(-PI / 2, PI / 2)}
        if kind in ('mt', 'dc'):
            x0, x, jump = st(kind == 'dc'), st(kind == 'dc'), 0
        elif kind == 'up':
            x0 = st(True)
            x = dict(x0, **{k: v for k, v in st(False).items() if k in ('gamma', 'delta')})
            jump = 1
        else:
            x0 = st(False)
            x = dict(x0, gamma=0.0, delta=0.0)
            jump = 1
        L0, L = R.rng.uniform(-20, 2), R.rng.uniform(-20, 2)
        alg.xi, alg.ln_likelihood_xi, alg.dc, alg.jump = dict(x0), L0, kind in ('dc', 'up'), bool(jump)
        with np.errstate(all='ignore'):
            py = float(np.asarray(alg.acceptance(dict(x), L, pdc)).flatten()[0])
        mtst = x if kind == 'up' else x0
        pr = (lambda g, d, g0, d0: KM['uniform_prior_ratio'](ND, g, d, g0, d0)) if uniform else KM['flat_prior_ratio']
        jp = KM['gaussian_jump_prob'] if gauss else KM['flat_jump_prob']
        R.count(('mc-kernel', kind, i))
        try:
            with np.errstate(all='ignore'):
                kc = float(KM['acceptance'](KM['gaussian_transition_ratio'], pr, jp, x['gamma'], x['delta'], x['h'], x['sigma'],
                                            x0['gamma'], a['gamma'], x0['delta'], a['delta'], x0['h'], a['h'], x0['sigma'], a['sigma'],
                                            L, L0, jump, mtst['gamma'], mtst['delta'], a['gamma_dc'], a['delta_dc'], a['proposal_normalisation'], pdc))
        except Exception as ex:
            bad = bad or {'check': 'acceptance (cmarkov_chain_monte_carlo.pyx) raised %r' % ex, 'kind': kind}
            continue
        if not close(kc, py, 1e-8):
            fixed = None
            if not uniform and jump:
                # the same kernel with the prior ratio the Python flat prior has across a jump
                ratio = 3 / (PI * PI) if kind == 'up' else PI * PI / 3
                with np.errstate(all='ignore'):
                    fixed = float(KM['acceptance'](KM['gaussian_transition_ratio'], lambda *q: ratio, jp, x['gamma'], x['delta'], x['h'], x['sigma'],
                                                   x0['gamma'], a['gamma'], x0['delta'], a['delta'], x0['h'], a['h'], x0['sigma'], a['sigma'],
                                                   L, L0, jump, mtst['gamma'], mtst['delta'], a['gamma_dc'], a['delta_dc'], a['proposal_normalisation'], pdc))
            if fixed is not None and close(fixed, py, 1e-8) and R.known_finding(
                    'flat_prior_ratio_on_jumps', 'Cython flat_prior_ratio is 1 for every pair of states, also across a model jump, where the Python '
                    'flat prior gives 3/pi^2 (full tensor) against 1 (double-couple): with sampling_prior flat_prior the compiled jump acceptances '
                    'differ from the Python ones by the factor pi^2/3 (source level; e.g. %s jump: kernel %.6g, python %.6g)' % (kind, kc, py)):
                continue
            bad = bad or {'check': 'acceptance (cmarkov_chain_monte_carlo.pyx)', 'kind': kind, 'uniform_prior': uniform, 'gaussian_jump': gauss, 'dc_prior': pdc,
                          'current': x0, 'proposed': x, 'ln_likelihoods': [L0, L], 'widths': {k: a[k] for k in ('gamma', 'delta', 'h', 'sigma', 'gamma_dc', 'delta_dc')},
                          'kernel': kc, 'python': py}
    return bad


def run(R):
    C = conv.impl()
    proved = R.prove()
    R.assumptions += ['the Cython extensions cannot be compiled here: the compiled code, C arithmetic (cdivision, libc math), memory views and '
                      'the dispatch wrappers are NOT exercised; equivalence is shown for the source text of the conversion kernels only',
                      'tools/py2coq/pyx.py (declaration stripping, libc.math -> numpy names, pointer outputs -> returned locals) is trusted glue',
                      'kernels assume what their callers provide: eigenvalues sorted from largest to smallest, unit normal/slip vectors',
                      'of cprobability.pyx and cmarkov_chain_monte_carlo.pyx only the scalar kernels are translated (likelihoods, scale factor, '
                      'acceptance with its transition/prior/balancing functions); their loops over typed memory views, prange, the C random '
                      'numbers, new_samples and all of cscatangle.pyx are not covered',
                      'the module constant ND of cmarkov_chain_monte_carlo.pyx (tgamma expression) is a parameter of the model; the theorem assumes '
                      'it makes ND (u(1-u))^(b-1) the beta density times the constant 1.1045... that the Python prior multiplies in']
    try:
        K = load_kernels()
    except gen.Untranslatable as e:
        R.signal('translation', str(e))
        K = None
    defs = R.defs(gen.gen_kernels)
    bad = None
    if K and defs:
        # translator validation: the IR against the converted kernels
        specs = [
            (defs['cE_tk'], lambda a, b, c: list(K['cE_tk'](np.array([a, b, c]), np.zeros(13))), lambda rng: sorted([rng.uniform(-1, 1) for _ in range(3)], reverse=True)),
            (defs['ctk_uv'], lambda k, t: list(K['ctk_uv'](np.array([0, 0, 0, 0, 0, k, t, 0, 0, 0, 0, 0, 0.0]))), lambda rng: [rng.uniform(-1, 1), rng.uniform(-1, 1)]),
            (defs['cE_gd'], lambda a, b, c: list(K['cE_gd'](np.array([a, b, c]))), lambda rng: sorted([rng.uniform(-1, 1) for _ in range(3)], reverse=True)),
            (defs['cN_SDR'], lambda *a: list(K['cN_SDR'](*a)), lambda rng: list(conv.unit([rng.gauss(0, 1) for _ in range(3)])) + list(conv.unit([rng.gauss(0, 1) for _ in range(3)]))),
            (defs['pol_prob_pdf'], lambda *a: [K['pol_prob_pdf'](*a)], lambda rng: [rng.choice([0.0, rng.uniform(-1, 1)]), rng.uniform(0, 1), rng.uniform(0, 1), rng.uniform(0, 0.5)]),
            (defs['combine_mu'], lambda *a: [K['combine_mu'](*a)], lambda rng: [rng.uniform(0.1, 3) for _ in range(4)]),
            (defs['combine_s'], lambda *a: [K['combine_s'](*a)], lambda rng: [rng.uniform(0.1, 3) for _ in range(2)]),
            (defs['cTape_MT6'], lambda *a: list(K['cTape_MT6'](np.zeros(6), *a)),
             lambda rng: [rng.uniform(-math.pi / 6, math.pi / 6), rng.uniform(-1.5, 1.5), rng.uniform(0, 2 * math.pi), rng.uniform(0, 1), rng.uniform(-1.5, 1.5)]),
        ]
        validate_defs(R, specs, R.n(200, 4000), tol=1e-9)
        # the property on the converted kernels vs the pure-Python implementation (direct oracle)
        n = R.n(1500, 40000)
        for i in range(n):
            e = sorted([R.rng.uniform(-1, 1) for _ in range(3)], reverse=True)
            if i % 7 == 0:
                e = [e[0], e[0], e[2]]
            if i % 11 == 0:
                e = [abs(e[0]) + 0.1] * 3
            R.count(('kernel', i))
            res = np.zeros(13)
            K['cE_tk'](np.array(e), res)
            k_c, t_c = res[5], res[6]
            t_p, k_p = [float(np.squeeze(x)) for x in C.E_tk(np.array(e))]
            if not (close(k_c, k_p, 1e-9) and close(t_c, t_p, 1e-9)):
                bad = bad or {'check': 'cE_tk', 'E': e, 'kernel': [float(t_c), float(k_c)], 'python': [t_p, k_p]}
            k = R.rng.uniform(-1, 1)
            t = R.rng.uniform(-1, 1) * (1 - abs(k)) if i % 3 else R.rng.uniform(-1, 1)
            res = np.zeros(13)
            res[5], res[6] = k, t
            K['ctk_uv'](res)
            u_p, v_p = C.tk_uv(t, k)
            if not (close(res[5], u_p, 1e-9) and close(res[6], v_p, 1e-9)):
                bad = bad or {'check': 'ctk_uv', 'tau': t, 'k': k, 'kernel': [float(res[5]), float(res[6])], 'python': [float(u_p), float(v_p)]}
            g_c, d_c = K['cE_gd'](np.array(e))
            g_p, d_p = [float(np.squeeze(x)) for x in C.E_GD(np.array(e))]
            if not (close(g_c, g_p, 1e-7) and close(d_c, d_p, 1e-7)):
                bad = bad or {'check': 'cE_gd', 'E': e, 'kernel': [float(g_c), float(d_c)], 'python': [g_p, d_p]}
            nv, uv = conv.unit([R.rng.gauss(0, 1) for _ in range(3)]), conv.unit([R.rng.gauss(0, 1) for _ in range(3)])
            s_c = K['cN_SDR'](*(list(nv) + list(uv)))
            s_p = [float(np.squeeze(x)) for x in C.FP_SDR(np.matrix(nv).T, np.matrix(uv).T)]
            if not (conv.ang_diff(s_c[0], s_p[0]) < 1e-7 and close(s_c[1], s_p[1], 1e-7) and conv.ang_diff(s_c[2], s_p[2]) < 1e-7):
                bad = bad or {'check': 'cN_SDR', 'normal': list(nv), 'slip': list(uv), 'kernel': [float(x) for x in s_c], 'python': s_p}
            par = [R.rng.uniform(-math.pi / 6, math.pi / 6), R.rng.uniform(-1.5, 1.5), R.rng.uniform(0, 2 * math.pi), R.rng.uniform(0, 1),
                   R.rng.uniform(-1.5, 1.5)]
            m_c = np.array(K['cTape_MT6'](np.zeros(6), *par), dtype=float)
            m_p = np.asarray(C.Tape_MT6(*par), dtype=float).flatten()
            if np.abs(m_c - m_p).max() > 1e-9:
                bad = bad or {'check': 'cTape_MT6', 'params': par, 'kernel': m_c.tolist(), 'python': m_p.tolist()}
    if K and not bad:
        bad = likelihood_kernels(R, K)
    try:
        KM = load_mc_kernels()
    except gen.Untranslatable as e:
        R.signal('translation', str(e))
        KM = None
    if KM:
        # translator validation of Gen/KernelsMC.v: the IR against the converted kernels
        dmc = R.defs(gen.gen_kernels_mc)
        if dmc:
            from scipy.special import gamma as Gamma, erf as sp_erf
            NDc = Gamma(11.490) / (Gamma(5.745) * Gamma(5.745)) * 1.10452194071529090000
            PI = math.pi

            def st12(rng):
                dcs = rng.random() < 0.25
                g, d, g0, d0 = (0.0, 0.0, 0.0, 0.0) if dcs else (rng.uniform(-PI / 6, PI / 6), rng.uniform(-1.5, 1.5), rng.uniform(-PI / 6, PI / 6), rng.uniform(-1.5, 1.5))
                return [g, d, rng.uniform(0, 1), rng.uniform(-1.5, 1.5), g0, rng.uniform(0.05, 0.5), d0, rng.uniform(0.05, 0.5),
                        rng.uniform(0, 1), rng.uniform(0.05, 0.5), rng.uniform(-1.5, 1.5), rng.uniform(0.05, 0.5)]

            def pr4(rng):
                z = lambda: rng.random() < 0.3
                a, b = z(), z()
                return [0.0 if a else rng.uniform(-0.5, 0.5), 0.0 if a else rng.uniform(-1.5, 1.5), 0.0 if b else rng.uniform(-0.5, 0.5), 0.0 if b else rng.uniform(-1.5, 1.5)]
            trf = lambda *a: 0.3 + 0.1 * math.sin(sum(a))
            prf = lambda *a: 0.7 + 0.2 * math.cos(sum(a))
            jpf = lambda *a: 0.5 + 0.1 * math.sin(a[0] - a[1])
            specs_mc = [
                (dmc['gaussian_transition_ratio'], lambda *a: [KM['gaussian_transition_ratio'](*a)], st12),
                (dmc['uniform_prior_ratio'], lambda *a: [KM['uniform_prior_ratio'](*a)], lambda rng: [NDc] + pr4(rng)),
                (dmc['gaussian_jump_prob'], lambda *a: [KM['gaussian_jump_prob'](*a)], lambda rng: [rng.uniform(-0.5, 0.5), rng.uniform(-1.5, 1.5), rng.uniform(0.05, 0.5), rng.uniform(0.05, 0.5), rng.uniform(0.5, 1.5)]),
                (dmc['acceptance'], lambda *a: [KM['acceptance'](trf, prf, jpf, *a)],
                 lambda rng: (lambda q: q[:4] + [q[4], rng.uniform(0.05, 0.5), q[5], rng.uniform(0.05, 0.5), rng.uniform(0, 1), rng.uniform(0.05, 0.5), rng.uniform(-1.5, 1.5), rng.uniform(0.05, 0.5),
                                                 rng.uniform(-5, 1), rng.uniform(-5, 1), float(rng.choice([0, 1])), rng.uniform(-0.5, 0.5), rng.uniform(-1.5, 1.5), 0.2, 0.2, 0.97, rng.uniform(0.1, 0.9)])(
                     [lambda p4: [p4[0], p4[1], rng.uniform(0, 1), rng.uniform(-1.5, 1.5), p4[2], p4[3]]][0](pr4(rng)))),
            ]
            mcfuns = dict(__import__('py2coq.ir', fromlist=['PYENV']).PYENV)
            mcfuns.update({'erf': lambda t: float(sp_erf(t)), 'user:tr': lambda a: trf(*a), 'user:pr': lambda a: prf(*a), 'user:jp': lambda a: jpf(*a)})
            before = R.cov.get('translator_validation_mismatches', 0)
            validate_defs(R, specs_mc, R.n(150, 3000), tol=1e-9, funs=mcfuns)
            R.cov['translator_validation_mismatches'] = before + R.cov.get('translator_validation_mismatches', 0)
    if KM and not bad:
        bad = mcmc_kernels(R, KM)
    if bad:
        R.violation('Cython kernel %s (source level) disagrees with the pure-Python routine' % bad['check'], bad)
    R.cov['rule'] = ('source-level only: sorted eigenvalue triples incl. repeated and isotropic, (tau, k) inside and outside the diamond, random unit '
                     'normal/slip pairs, Tape parameters over their domain; kernels cE_tk, ctk_uv, cE_gd, cN_SDR, cTape_MT6 of the conversion module')
    R.cov['not_covered'] = ['built extension modules (no Cython toolchain)', 'loops/reductions/random numbers of cprobability.pyx and cmarkov_chain_monte_carlo.pyx', 'cscatangle.pyx',
                            'dispatch wrappers and array plumbing of cmoment_tensor_conversion.pyx']
    return proved


def replay(R, body):
    C = conv.impl()
    K = load_kernels()
    rp = body['replay']
    if rp.get('check') == 'ctk_uv':
        res = np.zeros(13)
        res[5], res[6] = rp['k'], rp['tau']
        K['ctk_uv'](res)
        print('ctk_uv(tau=%r, k=%r) = (%r, %r); tk_uv = %r' % (rp['tau'], rp['k'], res[5], res[6], C.tk_uv(rp['tau'], rp['k'])))
        return 1 if not (close(res[5], C.tk_uv(rp['tau'], rp['k'])[0], 1e-9) and close(res[6], C.tk_uv(rp['tau'], rp['k'])[1], 1e-9)) else 0
    print('replay of this kind is run through the check itself')
    return 0
