"""C06 -- proposals stay in the domain (T: draw expressions and loop guards of _new_sample_single ->
Gen/Proposal.v + Lib/Redraw.v), width adaptation (H: Model/Adapt.v, proved at R, executed at binary64
inside Coq against _modify_acceptance_rate)."""
import itertools
import math

import numpy as np

from harness import core, gen
from harness.props.c05 import BOUNDS, MAXA, rand_state
from py2coq import ir

PI = math.pi
KEYS = ['kappa', 'h', 'sigma', 'gamma', 'delta', 'alpha', 'poisson']


def _impl():
    import gc
    gc.collect = lambda *a, **k: 0
    import MTfit.algorithms.markov_chain_monte_carlo as mc
    import MTfit.probability.probability as pr
    return mc, pr


class Stream(object):
    """scripted replacement of numpy.random.randn / rand inside the harness process"""

    def __init__(self, rng):
        self.rng = rng
        self.log = []

    def randn(self, *shape):
        n = int(np.prod(shape)) if shape else 1
        vs = []
        for _ in range(n):
            v = self.rng.gauss(0, 1) * self.rng.choice([1, 1, 1, 3, 8])
            self.log.append(v)
            vs.append(v)
        return np.array(vs).reshape(shape) if shape else vs[0]

    def rand(self, *shape):
        v = self.rng.random()
        self.log.append(('u', v))
        return np.array([v]) if shape else v


def simulate(loops, items, lets, xi, alpha, zs):
    """the translated proposal code run over the recorded stream of standard draws"""
    letd = dict(lets)
    env = {'xi': xi}
    for k, v in alpha.items():
        env['alpha_' + k] = v
    it = iter(zs)
    out = {}
    done = {}
    order = []
    # evaluation order = order of the source: follow the lets, loops keyed by candidate name
    loop_by_cand = dict((l['candidate'], l) for l in loops)
    redraw_names = set(l['redraw'][1] for l in loops)
    for name, e in lets:
        if name in redraw_names:
            continue
        zvars = [v for v in ir.free_vars(e, []) if v.startswith('z')]
        for zv in zvars:
            env[zv] = next(it)
        val = ir.evaluate(e, env)
        if name in loop_by_cand:
            l = loop_by_cand[name]
            env[name] = val
            while ir.evalc(l['guard'], env, ir.PYENV):
                re = letd[l['redraw'][1]]
                for zv in [v for v in ir.free_vars(re, []) if v.startswith('z')]:
                    env[zv] = next(it)
                env[name] = ir.evaluate(re, env)
            env[l['var'] + '_accepted'] = env[name]
        else:
            env[name] = val
    for k, e in items.items():
        out[k] = ir.evaluate(e, env)
    rest = list(it)
    return out, len(rest)


def hexf(x):
    return float(x).hex() if x == x else 'nan'


def coq_f(x):
    h = float(x).hex()
    return '(%s)%%float' % h if not h.startswith('-') else '(%s)%%float' % h


def flist(xs):
    return core.coq_list([coq_f(x) for x in xs])


def balancing_draw_oracle(R, mc, n):
    """the balancing pair drawn for a double-couple -> full-tensor jump lies inside the lune and each coordinate is its own width
    (gamma_dc, delta_dc; unequal here) times one of the standard normal draws made (heavy-tailed scripted stream, so redraws happen)"""
    bad = None
    real_randn, real_rand = np.random.randn, np.random.rand
    try:
        for i in range(n):
            sg, sd = R.rng.choice([0.2, R.rng.uniform(0.05, 0.5)]), R.rng.choice([0.2, R.rng.uniform(0.05, 0.8)])
            gaussj = R.rng.random() < 0.8
            alg = mc.IterativeTransDMetropolisHastingsGaussianTape(learning_length=10, chain_length=10, acceptance_rate_window=5, initial_sample='none',
                                                                     dc_sigma_g=sg, dc_sigma_d=sd, gaussian_jump_params=gaussj)
            st = Stream(R.rng)
            np.random.randn, np.random.rand = st.randn, st.rand
            try:
                g, d = [float(np.asarray(v).flatten()[0]) for v in alg.jump_params()]
            except Exception as ex:
                bad = bad or {'kind': 'balancing draw', 'check': 'balancing draw raised %s: %s' % (type(ex).__name__, ex), 'widths': [sg, sd], 'gaussian': gaussj}
                continue
            finally:
                np.random.randn, np.random.rand = real_randn, real_rand
            zs = [v for v in st.log if not isinstance(v, tuple)]
            R.count(('balancing', i), nontrivial=len(st.log) > 2)
            case = {'kind': 'balancing draw', 'gaussian': gaussj, 'widths': [sg, sd], 'draws': st.log, 'gamma': g, 'delta': d}
            if not (abs(g) <= PI / 6 and abs(d) <= PI / 2):
                bad = bad or dict(case, check='balancing pair inside the lune (|gamma| <= pi/6, |delta| <= pi/2)')
            elif gaussj and not (any(abs(g - sg * z) <= 1e-12 for z in zs) and any(abs(d - sd * z) <= 1e-12 for z in zs)):
                bad = bad or dict(case, check='balancing pair = (gamma width, delta width) x standard normal draws made')
    finally:
        np.random.randn, np.random.rand = real_randn, real_rand
    return bad


def run(R):
    mc, pr = _impl()
    proved = R.prove()
    R.assumptions += ['the stream of standard normal draws is arbitrary (the domain theorems quantify over every stream); that proposals '
                      'follow the truncated Gaussian assumed by the acceptance rule is C05 + the first-acceptable-draw theorem, the law of the '
                      'generator itself is assumed',
                      'conversion of a proposal to a unit-norm (double-couple) tensor is judged on the implementation here and proved in C12',
                      'binary64 arithmetic of the adaptation is executed in Coq with primitive floats (kernel primitives), bit-exact comparison']
    bad = None
    sl = None
    try:
        t = gen._mcmc_translator()
        fn = 'MarginalisedMetropolisHastingsGaussianTape._new_sample_single'
        sl = {}
        for dc in (False, True):
            c = dict(gen.NOREFLECT)
            c['self.dc'] = dc
            sl[dc] = t.proposal_slices(fn, consts=c, state_params=['xi'])
    except gen.Untranslatable as e:
        R.signal('translation', str(e))
        sl = None
    # 1. proposals: scripted draws, implementation vs translated slices, and the domain itself
    real_randn, real_rand = np.random.randn, np.random.rand
    n = R.n(1500, 60000)
    try:
        for i in range(n):
            dc = R.rng.random() < 0.3
            alg = mc.IterativeMetropolisHastingsGaussianTape(learning_length=10, chain_length=10, acceptance_rate_window=5, initial_sample='none', dc=dc)
            alg.alpha = {k: MAXA[k] * R.rng.choice([1.0, 0.3, 0.05, 2.5]) for k in MAXA}
            alg.alpha.update({'alpha': PI / 10, 'poisson': 0.2})
            xi = rand_state(R.rng, dc, boundary=0.35)
            alg.xi, alg.dc = dict(xi), dc
            st = Stream(R.rng)
            np.random.randn, np.random.rand = st.randn, st.rand
            try:
                x = alg._new_sample_single()
                mt = np.asarray(alg.convert_sample(x), dtype=float).flatten()
            finally:
                np.random.randn, np.random.rand = real_randn, real_rand
            xv = {k: float(np.asarray(v).flatten()[0]) for k, v in x.items()}
            R.count(('proposal', i), nontrivial=len(st.log) > (3 if dc else 5))
            case = {'kind': 'proposal', 'dc': dc, 'current': xi, 'alpha': {k: alg.alpha[k] for k in MAXA}, 'draws': st.log, 'proposal': xv}
            if i < 2:
                R.sample(case)
            ok = all(BOUNDS[k][0] <= xv[k] <= BOUNDS[k][1] for k in ('gamma', 'delta', 'h', 'sigma')) and 0 <= xv['kappa'] < 2 * PI
            if not ok:
                bad = bad or dict(case, check='proposal inside the source domain')
            if abs(float(np.dot(mt, mt)) - 1) > 1e-9:
                bad = bad or dict(case, check='proposal converts to a unit-norm tensor', norm2=float(np.dot(mt, mt)))
            if dc and (xv['gamma'] != 0 or xv['delta'] != 0):
                bad = bad or dict(case, check='constrained chain proposes exact double-couples')
            if dc:
                M = np.array([[mt[0], mt[3] / math.sqrt(2), mt[4] / math.sqrt(2)], [mt[3] / math.sqrt(2), mt[1], mt[5] / math.sqrt(2)],
                              [mt[4] / math.sqrt(2), mt[5] / math.sqrt(2), mt[2]]])
                ev = np.sort(np.linalg.eigvalsh(M))
                if np.max(np.abs(ev - np.array([-1, 0, 1]) / math.sqrt(2))) > 1e-9:
                    bad = bad or dict(case, check='double-couple proposal has eigenvalues (1, 0, -1)/sqrt2', eigenvalues=ev.tolist())
            # each proposed coordinate is the current value plus its own width times one of the standard normal draws that was made
            zs_all = [v for v in st.log if not isinstance(v, tuple)]
            for k in (('h', 'sigma', 'kappa') if dc else ('gamma', 'delta', 'h', 'sigma', 'kappa')):
                cand = [xi[k] + alg.alpha[k] * z for z in zs_all]
                if k == 'kappa':
                    cand = [c % (2 * PI) for c in cand]
                if not any(abs(xv[k] - c) <= 1e-12 * max(1.0, abs(c)) for c in cand):
                    bad = bad or dict(case, check='proposal is the current state plus width x standard normal draw, coordinate by coordinate (%s)' % k,
                                      coordinate=k, candidates=cand)
            if sl:
                loops, items, lets, extra, h = sl[dc]
                try:
                    mv, left = simulate(loops, items, lets, xi, alg.alpha, [v for v in st.log if not isinstance(v, tuple)])
                    same = left == 0 and all(abs(mv[k] - xv[k]) <= 1e-12 * max(1, abs(xv[k])) for k in xv)
                except StopIteration:
                    same, mv = False, 'model consumed more draws than the implementation'
                if not same:
                    R.signal('correspondence', {'case': case, 'model': mv})
    finally:
        np.random.randn, np.random.rand = real_randn, real_rand
    # 1b. the dimension-balancing pair of a double-couple -> full-tensor jump (shared with C05: the density in the acceptance must be
    # the density of THIS draw)
    bad = bad or balancing_draw_oracle(R, mc, R.n(400, 8000))
    # 2. model jumps through whole iterations of a trans-dimensional chain
    for i in range(R.n(40, 600)):
        np.random.seed(R.rng.randrange(2 ** 31))
        alg = mc.IterativeTransDMetropolisHastingsGaussianTape(learning_length=R.rng.choice([2, 6, 30]), chain_length=60, acceptance_rate_window=4,
                                                                 initial_sample='none', dimension_jump_prob=R.rng.choice([0.2, 0.5]),
                                                                 gaussian_jump_params=R.rng.random() < 0.6)
        mts, end = alg.initialise()
        steps = 0
        while not end and steps < 80:
            steps += 1
            lnp = pr.LnPDF(np.matrix([[-abs(R.rng.gauss(0, 1))]]))
            try:
                with np.errstate(all='ignore'):
                    mts, end = alg.iterate({'moment_tensors': np.asarray(mts), 'ln_pdf': lnp, 'n': 1})
            except Exception as e:
                bad = bad or {'kind': 'trans-dimensional step', 'step': steps, 'check': 'iteration of a trans-dimensional chain raised %s: %s' % (type(e).__name__, e),
                              'numpy_seed_sequence': 'np.random.seed drawn from VERIF_SEED stream, chain %d' % i, 'widths': {k: (float(np.asarray(v).flatten()[0]) if not isinstance(v, dict) else None) for k, v in alg.alpha.items()}}
                break
            if end:
                break
            cur, prop, jump = alg.xi, alg.xi_1, alg.jump
            cur_dc = float(np.asarray(cur['gamma']).flatten()[0]) == 0 and float(np.asarray(cur['delta']).flatten()[0]) == 0
            pv = {k: float(np.asarray(v).flatten()[0]) for k, v in prop.items() if k in BOUNDS}
            cv = {k: float(np.asarray(v).flatten()[0]) for k, v in cur.items() if k in BOUNDS}
            R.count(('transd', i, steps), nontrivial=bool(jump))
            case = {'kind': 'trans-dimensional step', 'step': steps, 'learning': bool(alg.learning_check()), 'current': cv, 'proposal': pv, 'jump': bool(jump)}
            inb = all(BOUNDS[k][0] <= pv[k] <= BOUNDS[k][1] for k in ('gamma', 'delta', 'h', 'sigma')) and 0 <= pv['kappa'] <= 2 * PI
            if not inb:
                bad = bad or dict(case, check='proposal inside the source domain')
            if jump:
                if any(pv[k] != cv[k] for k in ('kappa', 'h', 'sigma')):
                    bad = bad or dict(case, check='a model jump leaves strike, dip and slip unchanged')
                if not cur_dc and (pv['gamma'] != 0 or pv['delta'] != 0):
                    bad = bad or dict(case, check='a jump from the full-tensor model lands exactly on the double-couple')
            elif cur_dc and (pv['gamma'] != 0 or pv['delta'] != 0):
                bad = bad or dict(case, check='a chain that has jumped to the double-couple model proposes exact double-couples')
    # 3. width adaptation: exhaustive small histories and random long ones, bit-exact against Model/Adapt.v
    grid = [0.0, 0.1, 0.4, 0.9, 1.0]
    hists = [list(h) for L in range(1, R.n(4, 6) + 1) for h in itertools.product(grid, repeat=L)]
    n_exh = len(hists)
    for i in range(R.n(150, 3000)):
        hists.append([R.rng.choice([0.0, 1.0, R.rng.random(), R.rng.random() ** 3, 1 - R.rng.random() ** 3, 0.3, 0.5]) for _ in range(R.rng.randint(5, 25))])
    exprs = []
    for hi, hist in enumerate(hists):
        transd = hi % 3 == 0
        cls = mc.IterativeTransDMetropolisHastingsGaussianTape if transd else mc.IterativeMetropolisHastingsGaussianTape
        w = 20
        alg = cls(learning_length=10 ** 6, chain_length=10, acceptance_rate_window=w, initial_sample='none')
        a0 = dict(alg.alpha)
        maxs = dict(alg.max_alpha)
        rates = []
        for r in hist:
            k = int(round(r * w))
            alg._learning_accepted = [1] * k + [0] * (w - k)
            rates.append(float(k) / w)
            try:
                with np.errstate(all='ignore'):
                    alg._modify_acceptance_rate()
            except Exception as e:
                bad = bad or {'kind': 'adaptation', 'window_rates': rates, 'check': 'width adaptation raised %s: %s' % (type(e).__name__, e)}
                break
        R.count(('adapt', hi), nontrivial=(0.0 in rates or 1.0 in rates))
        case = {'kind': 'adaptation', 'window_rates': rates, 'initial_widths': {k: a0[k] for k in KEYS}, 'final_widths': dict((k, alg.alpha.get(k)) for k in a0)}
        if hi == n_exh:
            R.sample(case)
        missing = [k for k in a0 if k not in alg.alpha]
        if missing:
            bad = bad or dict(case, check='every width (including those of the dimension-balancing draw) stays present', missing=missing)
            continue
        for k in KEYS:
            v = alg.alpha[k]
            if not (v > 0) or v > max(a0[k], maxs[k]) * (1 + 1e-12):
                bad = bad or dict(case, check='every width stays positive and is never raised above its maximum', key=k, value=v, maximum=maxs[k])
        for k in a0:
            if k not in KEYS and alg.alpha[k] != a0[k]:
                bad = bad or dict(case, check='widths of the dimension-balancing draw are kept unchanged and positive', key=k)
        exprs.append('(check_adapt %s %s %s %s %s %s %s)' % (coq_f(alg.min_acceptance_rate), coq_f(alg.max_acceptance_rate), flist([maxs[k] for k in KEYS]),
                                                        flist([a0[k] for k in KEYS]), coq_f(alg.min_acceptance_rate), flist(rates), flist([alg.alpha[k] for k in KEYS])))
    failing, errors = core.run_cases('c06', 'From Coq Require Import PrimFloat.\nFrom MTV.Model Require Import Adapt.\nOpen Scope float_scope.', exprs, chunk=400)
    for e in errors:
        R.signal('correspondence-infrastructure', e)
    if failing and bad is None:
        R.signal('correspondence', {'why': 'adapted widths differ (bit-exactly) from Model/Adapt.v', 'window_rates': hists[failing[0]]})
    R.cov['adaptation_histories'] = len(hists)
    R.cov['adaptation_histories_exhaustive'] = n_exh
    R.cov['adaptation_disagreements'] = len(failing)
    if bad:
        R.violation('proposals/adaptation: %s fails' % bad['check'], bad)
    R.cov['rule'] = ('proposals from random current states (35% of coordinates on a bound), widths 0.05-2.5 x the maximum, scripted Gaussian streams '
                     'with heavy tails (forcing redraws); whole trans-dimensional iterations with frequent jumps inside and after the learning '
                     'period; adaptation: all histories over {0,.1,.4,.9,1} up to the tier length plus random long histories; non-trivial = at '
                     'least one redraw / a jump / a window with rate 0 or 1')
    return proved


def replay(R, body):
    print(body['replay'])
    return 0
