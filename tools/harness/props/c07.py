"""C07 -- chain bookkeeping (H: Model/Chain.v, theorems over all histories; K: whole iterations of the real
algorithm objects with steered accept/reject decisions, evaluated by vm_compute inside Coq; oracle: the
property's statement on the returned output)."""
import itertools
import math

import numpy as np

from harness import core

NINF = -math.inf


def _impl():
    import gc
    gc.collect = lambda *a, **k: 0
    import MTfit.algorithms.markov_chain_monte_carlo as mc
    import MTfit.probability.probability as pr
    import MTfit.inversion as inv
    return mc, pr, inv


def fl(v):
    return float(np.asarray(v).flatten()[0])


def is_dc(x):
    return fl(x['gamma']) == 0.0 and fl(x['delta']) == 0.0


class Driver(object):
    """runs one chain, steering each accept/reject decision, and records what the model needs"""

    def __init__(self, mc, pr, cls, kw, plan, lik, rng):
        self.mc, self.pr, self.rng = mc, pr, rng
        self.alg = cls(**kw)
        self.plan = list(plan)          # intended decisions: True accept / False reject
        self.lik = lik                  # function(step) -> integer log-likelihood or None (-inf)
        self.sources = []               # (id, dict, mt vector)
        self.ops = []                   # (id, dc, lnp, observed_accept)
        self.adapts = 0
        self.error = None
        orig_mod = self.alg._modify_acceptance_rate

        def counting(*a, **k):
            self.adapts += 1
            return orig_mod(*a, **k)
        self.alg._modify_acceptance_rate = counting
        orig_acc = self.alg._acceptance_check
        real_rand = np.random.rand

        def steered(*a, **k):
            want = self.plan.pop(0) if self.plan else bool(self.rng.random() < 0.5)
            np.random.rand = lambda *s: (1e-300 if want else 1.0)
            try:
                return orig_acc(*a, **k)
            finally:
                np.random.rand = real_rand
        self.alg._acceptance_check = steered
        # the decision actually taken: which of _add_new / _add_old the iteration calls first
        self.decision = None
        orig_new, orig_old = self.alg._add_new, self.alg._add_old

        def add_new(*a, **k):
            if self.decision is None:
                self.decision = True
            return orig_new(*a, **k)

        def add_old(*a, **k):
            if self.decision is None:
                self.decision = False
            return orig_old(*a, **k)
        self.alg._add_new, self.alg._add_old = add_new, add_old

    def ident(self, x):
        mt = np.asarray(self.alg.convert_sample(x), dtype=float).flatten()
        for i, d, m in self.sources:
            if np.array_equal(m, mt):
                return i
        i = len(self.sources)
        self.sources.append((i, x, mt))
        return i

    def run(self, grid_batches=None, max_steps=400):
        alg, pr = self.alg, self.pr
        mts, end = alg.initialise()
        self.init_best = None
        if getattr(alg, '_initialising', False):
            best = (NINF, None)
            while alg._initialising:
                M = np.asarray(mts)
                n = M.shape[1]
                vals = [float(self.rng.randint(-30, 0)) if self.rng.random() < 0.7 else NINF for _ in range(n)]
                # the code keeps the best sample of the batches drawn before the minimum number of initialisation samples is reached
                # (or until a non-zero sample has been seen); later batches only serve the non-zero percentage
                if alg._number_initialisation_samples < alg._min_number_initialisation_samples or best[1] is None:
                    bm = max(vals)
                    if bm > best[0]:
                        best = (bm, M[:, vals.index(bm)].copy())
                with np.errstate(all='ignore'):
                    mts, end = alg.iterate({'moment_tensors': np.matrix(M), 'ln_pdf': pr.LnPDF(np.matrix([vals])), 'n': n})
            self.init_best = best
        self.x0 = alg.xi
        self.x0_lnp = None if alg.ln_likelihood_xi == NINF else int(alg.ln_likelihood_xi)
        self.ident(self.x0)
        step = 0
        while not end and step < max_steps:
            prop = alg.xi_1
            pid = self.ident(prop)
            if not hasattr(self, 'given'):
                self.given = {}
            L = self.given[pid] if pid in self.given else self.lik(step)   # the likelihood is a function of the source
            if step == 0 and self.init_best is not None and self.init_best[1] is not None:
                L = int(self.init_best[0])     # the first proposal of a grid-initialised chain is the best grid sample itself
            self.given[pid] = L
            lnp = pr.LnPDF(np.matrix([[NINF if L is None else float(L)]]))
            self.decision = None
            try:
                with np.errstate(all='ignore'):
                    mts, end = alg.iterate({'moment_tensors': np.asarray(mts), 'ln_pdf': lnp, 'n': 1})
            except Exception as e:
                self.error = 'iterate raised %s: %s' % (type(e).__name__, e)
                break
            if self.decision is None:
                self.error = 'iteration neither accepted nor rejected the proposal'
                break
            self.ops.append((pid, is_dc(prop), L, self.decision))
            step += 1
        self.end = bool(end)
        return self

    def observed(self):
        alg = self.alg
        M = np.asarray(alg.pdf_sample.moment_tensors)[:, :alg.pdf_sample._i]
        L = np.asarray(alg.pdf_sample.ln_pdf._ln_pdf).flatten() if np.prod(alg.pdf_sample.ln_pdf._ln_pdf.shape) else np.array([])
        chain = []
        for j in range(M.shape[1]):
            hit = [i for i, d, m in self.sources if np.array_equal(m, M[:, j])]
            if len(hit) != 1:
                return {'error': 'chain entry %d is not one of the proposed sources' % j}
            src = self.sources[hit[0]]
            chain.append((hit[0], is_dc(src[1]), None if L[j] == NINF else int(L[j])))
        cur = (self.ident(alg.xi), is_dc(alg.xi), None if alg.ln_likelihood_xi == NINF else int(alg.ln_likelihood_xi))
        pdc = alg.p_dc if not isinstance(alg.p_dc, list) else alg.p_dc[0]
        return {'end': self.end, 'tried': int(alg._tried), 'accepted': int(alg._accepted), 'n_learn': int(alg._number_learning_accepted),
                'winlen': len(alg._learning_accepted), 'pdc': int(pdc), 'adapts': self.adapts, 'cur': cur, 'chain': chain}


def coq_src(t):
    i, dc, l = t
    return '(mkSrc %d %s %s)' % (i, 'true' if dc else 'false', 'None' if l is None else '(Some %s)' % core.zlit(l))


def coq_case(d, kw, obs):
    ops = core.coq_list(['(%s, %s)' % (coq_src((i, dc, l)), 'true' if a else 'false') for i, dc, l, a in d.ops])
    x0 = coq_src((0, is_dc(d.x0), d.x0_lnp))
    return '(check_chain %s %s %s %s %s %s %s %s %s %s %s %s %s %s)' % (
        core.zlit(kw['learning_length']), core.zlit(kw['acceptance_rate_window']), core.zlit(kw['chain_length']), x0, ops,
        'true' if obs['end'] else 'false', core.zlit(obs['tried']), core.zlit(obs['accepted']), core.zlit(obs['n_learn']), core.zlit(obs['winlen']),
        core.zlit(obs['pdc']), core.zlit(obs['adapts']), coq_src(obs['cur']), core.coq_list([coq_src(c) for c in obs['chain']]))


def oracle(d, kw, obs):
    """the statement of the property on the finished run"""
    if d.error:
        return d.error
    if 'error' in obs:
        return obs['error']
    ll, cl = kw['learning_length'], kw['chain_length']
    # learning period: ends with the accepted proposal that brings the count to learning_length
    acc = 0
    k = 0
    while k < len(d.ops) and acc < ll:
        acc += 1 if d.ops[k][3] else 0
        k += 1
    post = d.ops[k:]
    if acc < ll:
        if obs['chain'] or obs['tried'] != -1:
            return 'something was recorded before the learning period ended'
        return None
    # state before the first post-learning proposal
    cur = (0, is_dc(d.x0), d.x0_lnp)
    for i, dc, l, a in d.ops[:k]:
        if a:
            cur = (i, dc, l)
    expect = []
    nacc = 0
    for n, (i, dc, l, a) in enumerate(post):
        if a:
            cur = (i, dc, l)
            nacc += 1
        expect.append(cur)
        if n == 0:
            expect.append(cur)      # the first recorded state is held one extra time
    expect = [e for e in expect if e[2] is not None]
    if not post:
        return None if not obs['chain'] else 'entries recorded without a tried proposal'
    given = dict((i, l) for i, dc, l, a in d.ops)
    for i, dc, l in obs['chain']:
        if i in given and given[i] != l:
            return 'chain entry for source %d carries log-likelihood %r, the forward model gave %r' % (i, l, given[i])
    if obs['chain'] != expect:
        return 'chain entries are not the states reached after each tried proposal (first one held twice), each with its own likelihood'
    if obs['tried'] != len(post) or obs['accepted'] != nacc:
        return 'tried/accepted counts (%d/%d) differ from the history (%d/%d)' % (obs['tried'], obs['accepted'], len(post), nacc)
    if obs['end'] != (len(post) >= cl):
        return 'run %s although %d proposals of a chain of length %d were tried' % ('ended' if obs['end'] else 'did not end', len(post), cl)
    if kw.get('dc') and not all(c[1] for c in obs['chain']):
        return 'a double-couple constrained chain holds an entry that is not a double-couple'
    dropped = len([1 for e in [cur] if False])
    recorded_all = (obs['tried'] + 1 == len(obs['chain']))   # false only when a zero-likelihood start was current with no learning period
    if recorded_all and obs['pdc'] != sum(1 for c in obs['chain'] if c[1]):
        return 'double-couple count %d differs from the number of double-couple entries %d' % (obs['pdc'], sum(1 for c in obs['chain'] if c[1]))
    return None


def output_oracle(d, obs):
    alg = d.alg
    try:
        with np.errstate(all='ignore'):
            out, _ = alg.output(True, False, 0)
    except Exception as e:
        return 'output raised %s: %s' % (type(e).__name__, e)
    if obs['tried'] < 1:
        return None
    if out.get('total_number_samples') != obs['tried'] or out.get('accepted') != obs['accepted']:
        return 'reported tried/accepted differ from the counters'
    rate = out.get('acceptance_rate')
    if abs(rate - obs['accepted'] / float(obs['tried'])) > 1e-12:
        return 'reported acceptance rate %r is not accepted/tried' % rate
    n = np.asarray(out['moment_tensor_space']).shape[1] if 'moment_tensor_space' in out else 0
    if n != len(obs['chain']):
        return 'output holds %d entries, chain has %d' % (n, len(obs['chain']))
    if 'pDC' in out and out['pDC'] != sum(1 for c in obs['chain'] if c[1]):
        return 'reported double-couple count is not the number of double-couple entries'
    return None


# ----------------------------------------------------------------------------- the chain as a sample of the posterior (validation)

def _m0():
    from MTfit.convert import Tape_MT6
    return np.asarray(Tape_MT6(np.array([0.]), np.array([0.]), np.array([1.0]), np.array([0.6]), np.array([0.3]))).reshape(6, -1)[:, :1]


def posterior_reference(M0, S, N, seed):
    """prior random sampling weighted by the likelihood: uniform double-couples (random orthonormal T, P axes) and uniform unit six-vectors"""
    rs = np.random.RandomState(seed)
    t = rs.randn(3, N)
    t /= np.sqrt((t ** 2).sum(0))
    p = np.cross(t.T, rs.randn(3, N).T).T
    p /= np.sqrt((p ** 2).sum(0))
    r2 = math.sqrt(2)
    dc = np.array([t[0] * t[0] - p[0] * p[0], t[1] * t[1] - p[1] * p[1], t[2] * t[2] - p[2] * p[2],
                   r2 * (t[0] * t[1] - p[0] * p[1]), r2 * (t[0] * t[2] - p[0] * p[2]), r2 * (t[1] * t[2] - p[1] * p[2])]) / r2
    mt = rs.randn(6, N)
    mt /= np.sqrt((mt ** 2).sum(0))

    def w(m):
        return np.exp(-np.sum((m - M0) ** 2, axis=0) / (2 * S * S))

    def f(m):
        return (M0.T.dot(m)).flatten() ** 2
    wd, wm = w(dc), w(mt)
    z_dc, z_mt = wd.mean(), wm.mean()
    f_dc, f_mt = (wd * f(dc)).sum() / wd.sum(), (wm * f(mt)).sum() / wm.sum()
    return {'z_dc': float(z_dc), 'z_mt': float(z_mt), 'f_dc': float(f_dc), 'f_mt': float(f_mt)}


def batch_mean(v, nb=20):
    v = np.asarray(v, dtype=float)
    k = len(v) // nb
    means = v[:k * nb].reshape(nb, k).mean(axis=1)
    return float(v.mean()), float(means.std(ddof=1) / math.sqrt(nb))


def model_odds_scale(alg):
    """factor by which the jump acceptance of the code scales the full-tensor : double-couple prior odds: (integral of the prior
    density of the source-type parameters over the lune) / (integral of the balancing density it is divided by); 1 for densities"""
    xs, ws = np.polynomial.legendre.leggauss(48)
    ip = iq = 0.0
    for xg, wg in zip(xs, ws):
        for xd, wd in zip(xs, ws):
            st = {'gamma': float(xg * math.pi / 6), 'delta': float(xd * math.pi / 2), 'kappa': 1.0, 'h': 0.5, 'sigma': 0.1}
            w = wg * wd * (math.pi / 6) * (math.pi / 2)
            ip += w * float(alg.prior(st))
            iq += w * float(alg.jump_params(st))
    return ip / iq


def posterior_case(mc, pr, case):
    """run one chain on a smooth synthetic likelihood exp(-|m - m0|^2 / 2 S^2) and compare expectations of the recorded chain with
    the likelihood-weighted prior sample; returns (why or None, numbers)"""
    M0, S = _m0(), case['S']
    ref = posterior_reference(M0, S, case['n_reference'], 5)
    np.random.seed(case['numpy_seed'])
    alg = getattr(mc, case['class'])(learning_length=50, chain_length=case['chain_length'], acceptance_rate_window=20, **case['kwargs'])
    mts, end = alg.initialise()
    while not end:
        L = float(-np.sum((np.asarray(mts, dtype=float).reshape(6, 1) - M0) ** 2) / (2 * S * S))
        mts, end = alg.iterate({'moment_tensors': mts, 'ln_pdf': pr.LnPDF(np.array([[L]])), 'n': 1})
    out, _ = alg.output(True, False, 0)
    M = np.asarray(out['moment_tensor_space'], dtype=float)
    fm, fse = batch_mean((M0.T.dot(M)).flatten() ** 2)
    nums = {'chain_entries': int(M.shape[1]), 'E_f_chain': fm, 'E_f_standard_error': fse}
    if 'TransD' in case['class']:
        pdc0 = case['kwargs'].get('dc_prior', 0.5)
        scale = model_odds_scale(alg)
        nums['full_tensor_model_odds_scale'] = scale
        odds = pdc0 * ref['z_dc'] / ((1 - pdc0) * ref['z_mt'])
        nums['pDC_posterior'] = odds / (1 + odds)
        odds = odds / scale          # what the jump acceptance of the code targets (known finding when scale != 1)
        want_pdc = odds / (1 + odds)
        want_f = want_pdc * ref['f_dc'] + (1 - want_pdc) * ref['f_mt']
        from MTfit.convert import MT6_Tape
        g, d = [np.asarray(x, dtype=float).flatten() for x in MT6_Tape(M)[:2]]
        isdc = (np.abs(g) < 1e-9) & (np.abs(d) < 1e-9)
        pm, pse = batch_mean(isdc.astype(float))
        nums.update({'pDC_chain': pm, 'pDC_standard_error': pse, 'pDC_reported': float(out['pDC']) / M.shape[1], 'pDC_expected': want_pdc})
        if abs(nums['pDC_reported'] - pm) > 1e-12:
            return 'reported double-couple fraction %r is not the share %r of double-couple entries' % (nums['pDC_reported'], pm), nums
        if abs(pm - want_pdc) > 6 * pse + 0.01:
            return ('double-couple fraction of the chain %.4f (standard error %.4f) against %.4f from likelihood-weighted prior sampling'
                    % (pm, pse, want_pdc)), nums
        # within each model
        for name, sel, want in (('double-couple', isdc, ref['f_dc']), ('full-tensor', ~isdc, ref['f_mt'])):
            if sel.sum() > 2000:
                vm, vse = batch_mean(((M0.T.dot(M)).flatten() ** 2)[sel])
                nums['E_f_%s_entries' % name] = vm
                if abs(vm - want) > 6 * vse + 0.01:
                    return ('expectation of (m.m0)^2 over the %s entries %.4f (standard error %.4f) against %.4f from likelihood-weighted '
                            'prior sampling of that model' % (name, vm, vse, want)), nums
    else:
        want_f = ref['f_dc'] if case['kwargs'].get('dc') else ref['f_mt']
    nums['E_f_expected'] = want_f
    # (the overall expectation of a trans-dimensional chain also moves with the slowly mixing model indicator: wider band)
    if abs(fm - want_f) > 7 * fse + 0.02:
        return ('chain expectation of (m.m0)^2 %.4f (standard error %.4f) against %.4f from likelihood-weighted prior sampling'
                % (fm, fse, want_f)), nums
    return None, nums


def posterior_validation(R, mc, pr):
    n = R.n(20000, 80000)
    cases = [{'class': 'IterativeTransDMetropolisHastingsGaussianTape', 'kwargs': {'dimension_jump_prob': 0.5}, 'S': 0.6},
             {'class': 'IterativeMetropolisHastingsGaussianTape', 'kwargs': {'dc': True}, 'S': 0.6}]
    if R.thorough:
        cases += [{'class': 'IterativeTransDMetropolisHastingsGaussianTape', 'kwargs': {'dimension_jump_prob': 0.1, 'dc_prior': 0.3}, 'S': 0.6},
                  {'class': 'IterativeTransDMetropolisHastingsGaussianTape', 'kwargs': {'dimension_jump_prob': 0.3, 'gaussian_jump_params': False}, 'S': 0.6},
                  {'class': 'IterativeTransDMetropolisHastingsGaussianTape', 'kwargs': {'dimension_jump_prob': 0.3}, 'S': 0.3},
                  {'class': 'IterativeMetropolisHastingsGaussianTape', 'kwargs': {}, 'S': 0.6},
                  {'class': 'IterativeMetropolisHastingsGaussianTape', 'kwargs': {}, 'S': 0.3}]
    bad = None
    table = []
    for i, c in enumerate(cases):
        case = dict(c, chain_length=n, n_reference=300000, numpy_seed=R.rng.randrange(2 ** 31), check='posterior')
        R.count(('posterior', i))
        try:
            why, nums = posterior_case(mc, pr, case)
        except Exception as ex:
            why, nums = 'chain run raised %s: %s' % (type(ex).__name__, ex), {}
        table.append(dict(case, **nums))
        if why and bad is None:
            bad = dict(case, why=why, numbers=nums)
    R.cov['posterior_validation'] = table
    # the model odds a trans-dimensional chain targets (deterministic: quadrature of the code's own densities)
    scales = {}
    for gauss in (True, False):
        for prior in ('uniform_prior', 'flat_prior'):
            alg = mc.IterativeTransDMetropolisHastingsGaussianTape(learning_length=10, chain_length=10, initial_sample='none', sampling_prior=prior,
                                                                   gaussian_jump_params=gauss)
            scales['%s/%s' % ('gaussian' if gauss else 'uniform', prior)] = round(model_odds_scale(alg), 6)
    R.cov['full_tensor_model_odds_scale'] = scales
    if any(abs(v - 1) > 1e-4 for v in scales.values()):
        what = ('the double-couple fraction of a trans-dimensional chain is not the posterior model probability: the jump acceptance divides a '
                'source-type prior that integrates to %.4f over the lune (uniform_prior carries a constant 1.1045) by a balancing density '
                'that integrates to %.4f (Gaussian draw) or %.4f (uniform draw), so the full-tensor : double-couple odds are scaled by '
                '%.4f / %.4f (e.g. pDC 0.506 instead of 0.526, 0.61 with the uniform draw, for the broad test posterior); within-model '
                'expectations are unaffected; the constants are pinned by test_acceptance and mirrored in the Cython kernels'
                % (scales['gaussian/uniform_prior'] * 1.020196, 1.020196, math.pi / 2, scales['gaussian/uniform_prior'], scales['uniform/uniform_prior']))
        if not R.known_finding('transd_model_odds_scaled', what) and bad is None:
            bad = {'check': 'posterior', 'why': 'the model odds targeted by the jump acceptance are scaled: %r' % scales, 'scales': scales}
    return bad


CONFIGS = [('IterativeMetropolisHastingsGaussianTape', {}), ('IterativeMetropolisHastingsGaussianTape', {'dc': True}),
           ('IterativeTransDMetropolisHastingsGaussianTape', {'dimension_jump_prob': 0.3}),
           ('IterativeMultipleTryMetropolisHastingsGaussianTape', {'number_samples': 5})]


def run(R):
    mc, pr, inv = _impl()
    proved = R.prove()
    R.assumptions += ['"samples the posterior" = detailed balance (C05) + stationarity theorem (finite state space) + assumed ergodicity and '
                      'generator law; the statistical comparison with likelihood-weighted prior sampling (both tiers, fixed numpy seeds, '
                      'alarm at 6 batch-means standard errors + 0.01, 7 + 0.02 for the overall expectation) is a validation, not a theorem',
                      'accept/reject decisions are inputs of the model; the harness steers numpy.random.rand inside _acceptance_check and reads '
                      'the decision actually taken from the object identity of the current state',
                      'multiple-try batches are not produced on the pure-Python path (one proposal per iteration), so the multiple-try scan is '
                      'exercised only through single proposals']
    bad = None
    exprs, meta = [], []
    plans = []
    # bounded-exhaustive accept/reject strings
    maxlen = R.n(6, 9)
    for ll in (0, 1, 3):
        for w in (1, 2, 5):
            for cl in (1, 2, 4):
                for L in range(1, maxlen + 1):
                    for plan in itertools.product([True, False], repeat=L):
                        plans.append((ll, w, cl, list(plan)))
    R.rng.shuffle(plans)
    plans = plans[:R.n(260, 6000)]
    n_exh = len(plans)
    for i in range(R.n(60, 1500)):
        plans.append((R.rng.choice([0, 1, 2, 5, 8]), R.rng.choice([1, 2, 3, 5, 7]), R.rng.randint(1, 12), [R.rng.random() < 0.5 for _ in range(R.rng.randint(5, 40))]))
    for i, (ll, w, cl, plan) in enumerate(plans):
        cname, extra = CONFIGS[i % len(CONFIGS)]
        grid = (i % 7 == 3)
        kw = dict(learning_length=ll, chain_length=cl, acceptance_rate_window=w, initial_sample='grid' if grid else 'none',
                  number_samples=extra.get('number_samples', 20), min_number_initialisation_samples=25)
        kw.update(extra)
        zero_prob = (i % 5 == 4)
        rr = R.rng

        def lik(step, rr=rr, zero_prob=zero_prob):
            if zero_prob and rr.random() < 0.25:
                return None
            return rr.randint(-9, 0)
        np.random.seed(R.rng.randrange(2 ** 31))
        d = Driver(mc, pr, getattr(mc, cname), kw, plan, lik, R.rng)
        try:
            d.run()
            obs = d.observed() if not d.error else {'error': d.error}
        except Exception as e:
            obs = {'error': 'driving the chain raised %s: %s' % (type(e).__name__, e)}
        R.count(('chain', i), nontrivial=len(d.ops) > ll + 1)
        case = {'class': cname, 'kwargs': {k: v for k, v in kw.items()}, 'intended_decisions': plan,
                'history': [(o[0], o[1], o[2], o[3]) for o in d.ops], 'observed': obs}
        if i in (0, n_exh):
            R.sample(case)
        why = oracle(d, kw, obs) or ('error' not in obs and output_oracle(d, obs)) or None
        if grid and d.init_best is not None and d.init_best[1] is not None and bad is None:
            x0mt = np.asarray(d.alg.convert_sample(d.x0), dtype=float).flatten()
            if not np.allclose(x0mt, d.init_best[1], atol=1e-9):
                why = why or 'grid initialisation did not start from the most probable of the initial samples'
        if why and bad is None:
            bad = dict(case, check=why)
        if 'error' not in obs and not d.error:
            exprs.append(coq_case(d, kw, obs))
            meta.append(case)
    failing, errors = core.run_cases('c07', 'From MTV.Model Require Import Chain.', exprs, chunk=150)
    for e in errors:
        R.signal('correspondence-infrastructure', e)
    if failing and bad is None:
        R.signal('correspondence', {'why': 'counters / chain differ from Model/Chain.v', 'case': meta[failing[0]]})
    R.cov['correspondence_cases'] = len(exprs)
    R.cov['correspondence_disagreements'] = len(failing)
    R.cov['exhaustive_decision_strings'] = n_exh
    # end to end: the task that drives a chain from forward-model results
    for i in range(R.n(2, 12)):
        np.random.seed(R.rng.randrange(2 ** 31))
        ns = 4
        a = np.array([[[R.rng.uniform(-1, 1) for _ in range(6)]] for _ in range(ns)])
        cl = R.rng.randint(5, 15)
        kwargs = {'learning_length': 4, 'chain_length': cl, 'acceptance_rate_window': 3, 'initial_sample': 'none', 'number_samples': 1,
                  'dc': bool(i % 2), 'mode': 'metropolis_hastings'}
        task = inv.McMCForwardTask(kwargs, a, np.array([0.5] * ns), False, False, False, False, False, False, False, incorrect_polarity_prob=0)
        try:
            with np.errstate(all='ignore'):
                res = task()
            out = res['algorithm_output_data']
            n_ent = np.asarray(out['moment_tensor_space']).shape[1]
            R.count(('task', i))
            if out['total_number_samples'] != cl or n_ent != cl + 1 or not (0 <= out['accepted'] <= cl):
                bad = bad or {'check': 'chain driven by the forward task: tried %r, entries %d, accepted %r for chain length %d' % (
                    out['total_number_samples'], n_ent, out['accepted'], cl), 'kwargs': kwargs}
        except Exception as e:
            bad = bad or {'check': 'McMCForwardTask raised %s: %s' % (type(e).__name__, e), 'kwargs': kwargs}
    pb = posterior_validation(R, mc, pr)
    if pb and bad is None:
        bad = dict(pb, check='the recorded chain is not a sample of the posterior: ' + pb['why'])
    if bad:
        R.violation('chain run: %s' % bad['check'], bad)
    R.cov['rule'] = ('accept/reject strings up to length %d (all of them, sampled down to the tier size) x learning lengths {0,1,3} x windows {1,2,5} x '
                     'chain lengths {1,2,4}, plus random longer histories; single-try, DC-constrained, trans-dimensional and multiple-try classes; '
                     'random and grid initialisation; zero-likelihood proposals; non-trivial = the history leaves the learning period' % maxlen)
    return proved


def replay(R, body):
    rp = body['replay']
    if 'numpy_seed' in rp and 'chain_length' in rp:
        mc, pr, inv = _impl()
        why, nums = posterior_case(mc, pr, rp)
        print(nums)
        print('oracle:', why or 'holds')
        return 1 if why else 0
    print(rp)
    return 0
