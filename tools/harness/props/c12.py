"""C12 -- Tape parameters and six-vectors are mutually inverse descriptions of a source.

T: MT33_MT6, MT6_MT33, GD_E, E_GD, Tape_MT33, Tape_MT6, MT6_Tape (eigen-solver as an oracle) regenerated into
Gen/Convert.v; theorems in Props/C12.v.  The full round trips go through numpy.linalg.eig and are judged on the
implementation here (single and batched entry points, all source classes of the property's quantifier)."""
import math

import numpy as np

from harness.props import conv

NAMES = ['MT33_MT6', 'MT6_MT33', 'GD_E', 'E_GD', 'Tape_MT33', 'Tape_MT6', 'MT6_Tape', 'SDR_TNP', 'FP_SDR', 'TNP_SDR']
PI = math.pi


def gen_tensor(rng, i):
    """unit six-vectors of every class in the quantifier"""
    k = i % 10
    q = conv.rot(rng)
    if k == 0:
        e, kind = [rng.uniform(-1, 1) for _ in range(3)], 'generic'
    elif k == 1:
        e, kind = [1.0, 0.0, -1.0], 'double-couple'
    elif k == 2:
        a = rng.choice([-1.0, 1.0])
        e, kind = [2 * a, -a, -a], 'clvd'
    elif k == 3:
        a = rng.choice([-1.0, 1.0])
        e, kind = [a, a, a], 'isotropic'
        if rng.random() < 0.5:
            # exactly isotropic six-vector (a rotated one has eigenvalues that differ in the last bits)
            return np.array([a, a, a, 0.0, 0.0, 0.0]) / math.sqrt(3), 'isotropic'
    elif k == 4:
        a = rng.choice([-1.0, 1.0])
        eps = 10 ** rng.uniform(-7, -2)
        e, kind = [a + eps * rng.uniform(-1, 1), a, a + eps * rng.uniform(-1, 1)], 'near-isotropic'
    elif k == 5:
        a, b = rng.uniform(-1, 1), rng.uniform(-1, 1)
        e, kind = [a, a, b], 'repeated'
    elif k in (6, 7):
        # vertical or horizontal nodal plane: build from angles
        s, r = rng.uniform(0, 2 * PI), rng.uniform(-PI, PI)
        d = PI / 2 if k == 6 else rng.choice([0.0, 1e-6])
        g, dl = rng.uniform(-PI / 6, PI / 6), rng.uniform(-1.4, 1.4)
        n, u = conv.sdr_frame(s, d, r)
        t, p = (u + n) / math.sqrt(2), (u - n) / math.sqrt(2)
        b = -np.cross(t, p)
        ev = ref_gd_e(g, dl)
        M = ev[0] * np.outer(t, t) + ev[1] * np.outer(b, b) + ev[2] * np.outer(p, p)
        v = conv.mt6_of_mt33(M)
        return v / np.linalg.norm(v), 'vertical-plane' if k == 6 else 'horizontal-plane'
    elif k == 8:
        e, kind = [1.0, rng.uniform(-1e-9, 1e-9), -1.0], 'near-double-couple'
    else:
        e, kind = [rng.choice([-2.0, -1.0, 0.0, 1.0, 3.0]) for _ in range(3)], 'small-integers'
        if not any(e):
            e = [1.0, 0.0, 0.0]
    M = q.dot(np.diag(e)).dot(q.T)
    M = (M + M.T) / 2
    v = conv.mt6_of_mt33(M)
    return v / np.linalg.norm(v), kind


def ref_gd_e(g, d):
    """independent eigenvalues of lune coordinates (Tape & Tape 2012, eq. 7)"""
    b = PI / 2 - d
    x = np.array([math.cos(g) * math.sin(b), math.sin(g) * math.sin(b), math.cos(b)])
    U = np.array([[math.sqrt(3), 0, -math.sqrt(3)], [-1, 2, -1], [math.sqrt(2), math.sqrt(2), math.sqrt(2)]]) / math.sqrt(6)
    return U.T.dot(x)


def ref_tensor(g, d, k, h, s):
    dip = math.acos(h)
    n, u = conv.sdr_frame(k, dip, s)
    t, p = (u + n) / math.sqrt(2), (u - n) / math.sqrt(2)
    b = -np.cross(t, p)
    ev = ref_gd_e(g, d)
    return ev[0] * np.outer(t, t) + ev[1] * np.outer(b, b) + ev[2] * np.outer(p, p)


def f5(x):
    return [float(np.asarray(v).flatten()[0]) for v in x]


def in_ranges(p, tol=1e-9):
    g, d, k, h, s = p
    return (-PI / 6 - tol <= g <= PI / 6 + tol and -PI / 2 - tol <= d <= PI / 2 + tol and -tol <= k < 2 * PI + tol
            and -tol <= h <= 1 + tol and -PI / 2 - tol <= s <= PI / 2 + tol)


def tensor_oracle(R, C, n):
    bad = None
    dist = {}
    batch = []
    for i in range(n):
        v, kind = gen_tensor(R.rng, i)
        dist[kind] = dist.get(kind, 0) + 1
        R.count(('tensor', kind, i))
        rec = {'MT6': v.tolist(), 'kind': kind}
        try:
            p = f5(C.MT6_Tape(np.matrix(v).T))
        except Exception as ex:
            bad = bad or dict(rec, check='tensor-to-tape', error=repr(ex))
            continue
        if any(math.isnan(x) for x in p) or not in_ranges(p):
            bad = bad or dict(rec, check='parameter-ranges', got=p)
            continue
        try:
            back = np.asarray(C.Tape_MT6(*p), dtype=float).flatten()
        except Exception as ex:
            bad = bad or dict(rec, check='tape-to-tensor', params=p, error=repr(ex))
            continue
        if abs(np.linalg.norm(back) - 1) > 1e-9:
            bad = bad or dict(rec, check='unit-norm', params=p, back=back.tolist())
        if np.abs(back - v).max() > 2e-7:
            if conv.has_horizontal_nodal_plane(v) and any(f['key'] == conv.HORIZONTAL_KEY for f in R.findings):
                R.horizontal.append([float(x) for x in v])      # recorded finding, reported once by run()
            else:
                bad = bad or dict(rec, check='tensor-roundtrip', params=p, back=back.tolist())
        if kind == 'double-couple' and (abs(p[0]) > 1e-7 or abs(p[1]) > 1e-7):
            bad = bad or dict(rec, check='double-couple-lune', params=p)
        # 3x3 <-> six-vector
        M = conv.mt33_of_mt6(v)
        m33 = np.asarray(C.MT6_MT33(np.matrix(v).T), dtype=float)
        v2 = np.asarray(C.MT33_MT6(np.matrix(M)), dtype=float).flatten()
        if np.abs(m33 - M).max() > 1e-12 or np.abs(v2 - v).max() > 1e-12:
            bad = bad or dict(rec, check='six-vector-3x3', MT33=m33.tolist(), MT6_back=v2.tolist())
        batch.append((v, p))
    R.cov['tensor_case_distribution'] = dist
    # batched entry points agree with the single ones
    for j in range(0, len(batch) - 5, 5):
        vs = np.array([b[0] for b in batch[j:j + 5]]).T
        R.count(('batch', j))
        try:
            out = [np.asarray(x, dtype=float).flatten() for x in C.MT6_Tape(np.matrix(vs))]
            oc = C.output_convert(vs)
            tb = np.asarray(C.Tape_MT6(*[np.array([b[1][c] for b in batch[j:j + 5]]) for c in range(5)]), dtype=float)
        except Exception as ex:
            bad = bad or {'check': 'batched', 'MT6s': vs.tolist(), 'error': repr(ex)}
            continue
        for c in range(5):
            single = batch[j + c][1]
            got = [out[a][c] for a in range(5)]
            oc5 = [float(oc[key][c]) for key in ('g', 'd', 'k', 'h', 's')]
            one = np.asarray(C.Tape_MT6(*single), dtype=float).flatten()
            if max(abs(a - b) for a, b in zip(got, single)) > 1e-9 or max(abs(a - b) for a, b in zip(oc5, single)) > 1e-9 \
                    or np.abs(tb[:, c] - one).max() > 1e-12:
                bad = bad or {'check': 'batched', 'MT6': batch[j + c][0].tolist(), 'single': single, 'MT6_Tape_batched': got,
                              'output_convert': oc5}
    return bad


def params_oracle(R, C, n):
    bad = None
    dist = {}
    for i in range(n):
        k = i % 8
        g = R.rng.uniform(-PI / 6, PI / 6)
        d = R.rng.uniform(-PI / 2, PI / 2)
        ka = R.rng.uniform(0, 2 * PI)
        h = R.rng.uniform(0, 1)
        s = R.rng.uniform(-PI / 2, PI / 2)
        kind = 'interior'
        if k == 1:
            g, kind = R.rng.choice([-PI / 6, PI / 6]), 'gamma-boundary'
        elif k == 2:
            d, kind = R.rng.choice([-PI / 2, PI / 2, PI / 2 - 1e-6, -PI / 2 + 2e-6]), 'delta-boundary'
        elif k == 3:
            ka, kind = R.rng.choice([0.0, 1e-9, 2 * PI - 1e-9]), 'kappa-boundary'
        elif k == 4:
            h, kind = R.rng.choice([0.0, 1.0, 1e-9, 1 - 1e-12]), 'h-boundary'
        elif k == 5:
            s, kind = R.rng.choice([-PI / 2, PI / 2, 0.0]), 'sigma-boundary'
        elif k == 6:
            g, d, kind = 0.0, 0.0, 'double-couple'
        dist[kind] = dist.get(kind, 0) + 1
        R.count(('params', kind, i))
        par = [g, d, ka, h, s]
        rec = {'params': par, 'kind': kind}
        try:
            v = np.asarray(C.Tape_MT6(*par), dtype=float).flatten()
        except Exception as ex:
            bad = bad or dict(rec, check='tape-to-tensor', error=repr(ex))
            continue
        Mref = ref_tensor(*par)
        vref = conv.mt6_of_mt33(Mref)
        if np.abs(v - vref).max() > 1e-9:
            bad = bad or dict(rec, check='tape-tensor-definition', got=v.tolist(), expected=vref.tolist())
        if abs(np.linalg.norm(v) - 1) > 1e-12:
            bad = bad or dict(rec, check='unit-norm', got=v.tolist())
        try:
            back = f5(C.MT6_Tape(np.matrix(v).T))
        except Exception as ex:
            bad = bad or dict(rec, check='tensor-to-tape', MT6=v.tolist(), error=repr(ex))
            continue
        if any(math.isnan(x) for x in back) or not in_ranges(back):
            bad = bad or dict(rec, check='parameter-ranges', got=back)
            continue
        v2 = np.asarray(C.Tape_MT6(*back), dtype=float).flatten()
        same_tensor = np.abs(v2 - v).max() < 2e-7
        if kind == 'interior' and abs(abs(d) - PI / 2) > 1e-3 and abs(abs(g) - PI / 6) > 1e-3 and 1e-3 < h < 1 - 1e-3 \
                and abs(abs(s) - PI / 2) > 1e-3:
            sb = abs(math.cos(d))
            ok = (abs(back[0] - g) < 1e-7 / sb and abs(back[1] - d) < 1e-6 and conv.ang_diff(back[2], ka) < 1e-6
                  and abs(back[3] - h) < 1e-6 and abs(back[4] - s) < 1e-6)
            if not ok:
                bad = bad or dict(rec, check='parameter-roundtrip', got=back)
        elif not same_tensor and conv.has_horizontal_nodal_plane(v) and any(f['key'] == conv.HORIZONTAL_KEY for f in R.findings):
            R.horizontal.append([float(x) for x in v])
        elif not same_tensor:
            # on the boundary the parameters may legitimately differ (nodal-plane ambiguity, pole, repeated eigenvalue)
            # but they must describe the same tensor
            bad = bad or dict(rec, check='parameter-roundtrip-tensor', got=back, tensor=v.tolist(), tensor_back=v2.tolist())
    R.cov['parameter_case_distribution'] = dist
    return bad


def run(R):
    C = conv.impl()
    R.horizontal = []
    proved = R.prove()
    R.assumptions += ['numpy.linalg.eig/eigh is external: MT6_Tape is translated with the eigen-solver outputs as parameters; the full '
                      'round trips are theorems only piecewise (source type; orientation from the normal/slip frame; tensor assembly) '
                      'and are judged end-to-end on the implementation',
                      'interior parameter sets must come back equal; on the boundary of the domain (|gamma| = pi/6, |delta| = pi/2, '
                      'h in {0,1}, |sigma| = pi/2) the parameters may differ where the tensor is unchanged, as the property states',
                      'real arithmetic in the theorems; rounding is covered by the oracle tolerances']
    conv.validate_conversions(R, NAMES, R.n(120, 2500))
    n = R.n(600, 30000)
    for name, bad in (('tensor', tensor_oracle(R, C, n)), ('params', params_oracle(R, C, n)),
                      ('batches', conv.batch_oracle(R, C, ['MT6_Tape', 'MT6_TNPE'], R.n(4, 60)))):
        if bad:
            R.violation('Tape / six-vector round trip fails (%s)' % bad['check'], bad)
            break
    for rec in R.horizontal[:1]:
        R.known_finding(conv.HORIZONTAL_KEY, conv.HORIZONTAL_WHAT + '; e.g. MT6 = %r' % (rec,))
    R.cov['rule'] = ('unit six-vectors: generic, double-couple, CLVD, isotropic, near-isotropic, repeated eigenvalue, vertical and '
                     'horizontal nodal planes, near-double-couple, small integers; parameter sets: interior and every face of the '
                     'domain; single and batched entry points (MT6_Tape, Tape_MT6, output_convert)')
    return proved


def replay(R, body):
    C = conv.impl()
    rp = body['replay']
    if str(rp.get('check', '')).startswith('batch-of-'):
        return conv.batch_replay(C, rp)
    if 'params' in rp and 'MT6' not in rp:
        par = rp['params']
        v = np.asarray(C.Tape_MT6(*par), dtype=float).flatten()
        back = f5(C.MT6_Tape(np.matrix(v).T))
        v2 = np.asarray(C.Tape_MT6(*back), dtype=float).flatten()
        print('params %r -> tensor -> params %r; tensor difference %g' % (par, back, np.abs(v2 - v).max()))
        return 1 if (np.abs(v2 - v).max() > 2e-7 or (rp.get('check') == 'parameter-roundtrip' and max(abs(a - b) for a, b in zip(par, back)) > 1e-6)) else 0
    if 'MT6' in rp:
        v = np.array(rp['MT6'])
        p = f5(C.MT6_Tape(np.matrix(v).T))
        back = np.asarray(C.Tape_MT6(*p), dtype=float).flatten()
        print('tensor -> params %r -> tensor; difference %g' % (p, np.abs(back - v).max()))
        return 1 if (np.abs(back - v).max() > 2e-7 or any(math.isnan(x) for x in p)) else 0
    print('replay of this kind is run through the check itself')
    return 0
