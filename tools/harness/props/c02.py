"""C02 -- polarity likelihood kernels (T: argument of np.log in polarity_ln_pdf /
polarity_probability_ln_pdf -> Gen/Polarity.v; theorems over R with erf as a parameter)."""
import math

import numpy as np
from scipy.special import erf as sp_erf

from harness import gen
from harness.tv import close


def _impl():
    import MTfit.probability.probability as pr
    return pr


def scalar_pol(pr, X, s, w):
    a = np.zeros((1, 1, 6))
    a[0, 0, 0] = X
    mt = np.zeros((6, 1))
    mt[0, 0] = 1.0
    with np.errstate(all='ignore'):
        out = pr.polarity_ln_pdf(a, mt, np.array([float(s)]), w)
    return float(np.asarray(out).flatten()[0])


def scalar_polprob(pr, X, pp, pn, w):
    a = np.zeros((1, 1, 6))
    a[0, 0, 0] = X
    mt = np.zeros((6, 1))
    mt[0, 0] = 1.0
    with np.errstate(all='ignore'):
        out = pr.polarity_probability_ln_pdf(a, mt, np.array([float(pp)]), np.array([float(pn)]), w)
    return float(np.asarray(out).flatten()[0])


def ln0(p):
    return -math.inf if p <= 0 else math.log(p)


def rand_X(rng):
    c = rng.random()
    if c < 0.15:
        return rng.choice([0.0, 1e-300, -1e-300, 1e300, -1e300, 1e-22, -1e-22, 5e-324])
    return rng.uniform(-3, 3) * 10 ** rng.uniform(-6, 2)


def rand_sigma(rng):
    c = rng.random()
    if c < 0.2:
        return 0.0
    if c < 0.3:
        return rng.choice([1e-300, 1e300, 1e-24, 1e-5])
    return 10 ** rng.uniform(-3, 1)


def rand_w(rng):
    c = rng.random()
    if c < 0.3:
        return rng.choice([0.0, 0.5, 1.0])
    return rng.random()


def run(R):
    pr = _impl()
    proved = R.prove()
    R.assumptions += ['scipy.special.erf is odd, non-decreasing and within [-1, 1] (section hypotheses; validated on samples below)',
                      'zero-uncertainty limit only: the binary64 erf saturates, erf t = 1 for t >= 6',
                      'NaN-freedom is judged on the implementation by the correspondence run (extreme stream), not proved: '
                      'no float model of erf/log exists in Coq']
    defs = R.defs(gen.gen_polarity)
    pol, polprob = (defs['pol_p'], defs['polprob_p']) if defs else (None, None)
    funs = {'erf': lambda x: float(sp_erf(x))}

    # validation of the erf hypotheses on samples (testing of an assumption, not a proof)
    xs = sorted([R.rng.uniform(-8, 8) for _ in range(2000)] + [0.0, 1e300, -1e300, 6.0, 5.9, 1e-300])
    es = [float(sp_erf(x)) for x in xs]
    erf_ok = all(-1 <= e <= 1 for e in es) and all(es[i] <= es[i + 1] for i in range(len(es) - 1)) \
        and all(float(sp_erf(-x)) == -float(sp_erf(x)) for x in xs) and float(sp_erf(6.0)) == 1.0
    R.cov['erf_hypotheses_validated_on'] = len(xs)
    if not erf_ok:
        R.signal('assumption', 'scipy erf violates oddness/monotonicity/range/saturation on a sample')

    bad = None
    n = R.n(1500, 60000)
    nan_seen = 0
    for i in range(n):
        X, s, w = rand_X(R.rng), rand_sigma(R.rng), rand_w(R.rng)
        got = scalar_pol(pr, X, s, w)
        R.count(('pol', i), nontrivial=(s == 0 or abs(X) > 1e3 or w in (0.0, 0.5, 1.0)))
        if i < 2:
            R.sample({'kernel': 'polarity', 'X': X, 'sigma': s, 'w': w, 'ln_p': got})
        if math.isnan(got):
            nan_seen += 1
            bad = bad or {'check': 'no NaN', 'kernel': 'polarity', 'X': X, 'sigma': s, 'w': w, 'got': 'nan'}
            continue
        # correspondence with the translated kernel
        try:
            want = ln0(pol.evaluate([X, s, w], funs)) if pol else None
        except OverflowError:
            want = None
        if want is not None and not close(got, want, 1e-9):
            # tiny probabilities: compare in probability space instead (log of a rounded value near 0)
            if not (math.exp(got) < 1e-15 and math.exp(want) < 1e-15):
                R.signal('correspondence', {'kernel': 'pol_p', 'args': [X, s, w], 'implementation': got, 'model': want})
        # the property itself
        p = math.exp(got)
        q = math.exp(scalar_pol(pr, -X, s, w))
        if not (0.0 <= p <= 1.0 + 1e-15) or abs(p + q - 1.0) > 1e-12:
            bad = bad or {'check': 'range/complement', 'kernel': 'polarity', 'X': X, 'sigma': s, 'w': w, 'p_plus': p, 'p_minus': q}
        if w < 0.5:
            X2 = X + abs(X) * R.rng.random() + 10 ** R.rng.uniform(-9, 0)
            p2 = math.exp(scalar_pol(pr, X2, s, w))
            if p2 < p - 1e-13:
                bad = bad or {'check': 'monotone', 'kernel': 'polarity', 'X': X, 'X2': X2, 'sigma': s, 'w': w, 'p': p, 'p2': p2}
        if s == 0 and abs(X) >= 1e-22:
            lim = (1 - w) if X > 0 else w
            if abs(p - lim) > 1e-15:
                bad = bad or {'check': 'hard limit', 'kernel': 'polarity', 'X': X, 'w': w, 'p': p, 'limit': lim}
    for i in range(n // 2):
        X = rand_X(R.rng)
        pp = R.rng.choice([0.0, 1.0, R.rng.random()])
        pn = R.rng.choice([0.0, 1.0 - pp, R.rng.random() * (1 - pp)])
        w = rand_w(R.rng)
        got = scalar_polprob(pr, X, pp, pn, w)
        R.count(('polprob', i), nontrivial=(X == 0 or pp in (0.0, 1.0)))
        if i < 1:
            R.sample({'kernel': 'polarity probability', 'X': X, 'pp': pp, 'pn': pn, 'w': w, 'ln_p': got})
        if math.isnan(got):
            bad = bad or {'check': 'no NaN', 'kernel': 'polarity probability', 'X': X, 'pp': pp, 'pn': pn, 'w': w}
            continue
        want = ln0(polprob.evaluate([X, pp, pn, w])) if polprob else got
        if not close(got, want, 1e-9):
            R.signal('correspondence', {'kernel': 'polprob_p', 'args': [X, pp, pn, w], 'implementation': got, 'model': want})
        doc = (pp * (1 - w) + pn * w) if X > 0 else ((pn * (1 - w) + pp * w) if X < 0 else (pp + pn) / 2)
        if not close(got, ln0(doc), 1e-9):
            bad = bad or {'check': 'documented mixture', 'kernel': 'polarity probability', 'X': X, 'pp': pp, 'pn': pn, 'w': w,
                          'got_ln_p': got, 'expected_ln_p': ln0(doc)}
    # array plumbing: stations x location samples x tensors, scalar and per-station mispick
    m = R.n(60, 1500)
    for i in range(m):
        ns, nk, nm = R.rng.randint(1, 6), R.rng.choice([1, 2, 3, 6]), R.rng.choice([1, 2, 3, 4, 5, 6, 6, 7])     # 6 makes blocks square
        a = np.array([[[R.rng.uniform(-1, 1) for _ in range(6)] for _ in range(nk)] for _ in range(ns)])
        mt = np.array([[R.rng.uniform(-1, 1) for _ in range(nm)] for _ in range(6)])
        sig = np.array([rand_sigma(R.rng) if R.rng.random() < 0.3 else R.rng.uniform(0.05, 1) for _ in range(ns)])
        w = R.rng.choice([0.0, 0.1, None])
        wv = np.array([rand_w(R.rng) * 0.5 for _ in range(ns)]) if w is None else w
        a_arg, mt_arg, sig_arg = a.copy(), mt.copy(), sig.copy()
        with np.errstate(all='ignore'):
            out = np.asarray(pr.polarity_ln_pdf(a_arg, mt_arg, sig_arg, wv.copy() if w is None else w))
        # (a zero uncertainty is overwritten in place by the code's small positive number: idempotent and without effect on any value,
        # so not demanded here -- the first version of this check did and raised a false alarm on the unchanged tree)
        if not (np.array_equal(a_arg, a) and np.array_equal(mt_arg, mt) and np.all((sig_arg == sig) | (sig == 0))):
            bad = bad or {'check': 'the coefficient, tensor and uncertainty arrays handed in are left unchanged (they are reused for the other '
                          'data types and the next batch)', 'a': a.tolist(), 'mt': mt.tolist(), 'sigma': sig.tolist()}
        X = np.tensordot(a, mt, 1)
        R.count(('array', i), nontrivial=ns > 1)
        ok = out.shape == (nk, nm)
        if ok:
            # reference per station: the translated kernel when there is one, and always the documented mixture itself
            # p = (1 - w) Phi(X / s) + w Phi(-X / s), evaluated with scipy's erf (independent of the implementation and of the model)
            def doc(x, sg, ww):
                if sg == 0:
                    up = 1.0 if x > 0 else (0.5 if x == 0 else 0.0)
                else:
                    up = 0.5 * (1 + float(sp_erf(x / (math.sqrt(2) * sg))))
                return (1 - ww) * up + ww * (1 - up)
            for k in range(nk):
                for j in range(nm):
                    tot, tot_doc = 0.0, 0.0
                    for s_ in range(ns):
                        ws = float(wv[s_]) if w is None else w
                        if pol:
                            tot += ln0(pol.evaluate([float(X[s_, k, j]), float(sig[s_]), ws], funs))
                        tot_doc += ln0(doc(float(X[s_, k, j]), float(sig[s_]), ws))
                    if pol and not close(float(out[k, j]), tot, 1e-9) and not (out[k, j] < -700 and tot < -700):
                        ok = False
                    if not close(float(out[k, j]), tot_doc, 1e-7) and not (out[k, j] < -600 and tot_doc < -600):
                        ok = False
        if not ok:
            R.signal('correspondence', {'kernel': 'polarity_ln_pdf on arrays', 'a': a.tolist(), 'mt': mt.tolist(), 'sigma': sig.tolist(),
                                        'w': wv.tolist() if w is None else w, 'implementation': out.tolist()})
            bad = bad or {'check': 'array result is not the sum over stations of the per-station log-probabilities',
                          'a': a.tolist(), 'mt': mt.tolist(), 'sigma': sig.tolist(), 'w': wv.tolist() if w is None else w,
                          'implementation': out.tolist()}
    if bad:
        R.violation('polarity likelihood: %s fails' % bad['check'], bad)
    R.cov['rule'] = ('scalar kernels through the public array API on random and extreme (X, sigma, w) incl. sigma=0, w in {0,1/2,1}, '
                     '|X| up to 1e300; array plumbing on random stations x samples x tensors; a case is non-trivial when it uses a '
                     'boundary value or several stations')
    return proved


def replay(R, body):
    pr = _impl()
    rp = body['replay']
    if rp.get('kernel') == 'polarity' and 'X' in rp:
        p = math.exp(scalar_pol(pr, rp['X'], rp['sigma'], rp['w']))
        q = math.exp(scalar_pol(pr, -rp['X'], rp['sigma'], rp['w']))
        print('p(+)=%r p(-)=%r sum=%r' % (p, q, p + q))
        return 0 if abs(p + q - 1) < 1e-12 and 0 <= p <= 1 else 1
    print(rp)
    return 0
