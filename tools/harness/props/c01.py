"""C01 -- posterior = product of the selected likelihoods (H: Model/Forward.v over a generic
semiring; K: executed at Q inside Coq against ForwardTask, atoms = the implementation's own
per-station probabilities evaluated one station / sample / tensor at a time)."""
import math
from fractions import Fraction

import numpy as np

from harness import core

NINF = -math.inf


def _impl():
    import gc
    gc.collect = lambda *a, **k: 0   # harness process only: the code calls gc.collect() in every kernel (speed)
    import MTfit.inversion as inv
    import MTfit.probability.probability as pr
    return inv, pr


def unit6(rng):
    v = np.array([rng.gauss(0, 1) for _ in range(6)])
    return v / np.linalg.norm(v)


def gen_case(rng):
    K = rng.choice([1, 1, 2, 3, 4])
    M = rng.choice([1, 2, 3, 6, 6, 7, 12])
    pol_kind = rng.choice(['pol', 'pol', 'prob', 'prob', 'none'])
    n_ar = rng.choice([0, 0, 1, 2, 4])
    if pol_kind == 'none' and n_ar == 0:
        n_ar = 2
    n_pol = rng.randint(1, 5)
    case = {'K': K, 'M': M, 'pol_kind': pol_kind}
    case['mt'] = [[float(x) for x in unit6(rng)] for _ in range(M)]

    def coeffs(n):
        return [[[rng.uniform(-1, 1) for _ in range(6)] for _ in range(K)] for _ in range(n)]
    if pol_kind == 'pol':
        case['a_pol'] = coeffs(n_pol)
        case['err_pol'] = [rng.choice([0.0, 0.0, 0.05, 0.3, 1.0]) for _ in range(n_pol)]
    if pol_kind == 'prob':
        case['a_prob'] = coeffs(n_pol)
        pp = [rng.choice([1.0, 0.0, rng.random()]) for _ in range(n_pol)]
        case['pp'] = pp
        case['pn'] = [round(1.0 - p, 12) if rng.random() < 0.8 else (1.0 - p) * rng.random() for p in pp]
    if pol_kind != 'none':
        mk = rng.choice(['zero', 'scalar', 'vector'])
        case['mispick'] = 0 if mk == 'zero' else (rng.choice([0.05, 0.5, 1.0, rng.random()]) if mk == 'scalar'
                                                  else [rng.choice([0.0, 0.1, rng.random()]) for _ in range(n_pol)])
    else:
        case['mispick'] = 0
    if n_ar:
        case['a1'] = coeffs(n_ar)
        case['a2'] = coeffs(n_ar)
        case['ratio'] = [10 ** rng.uniform(-2, 2) for _ in range(n_ar)]
        # fractional errors: the 1e-5 end of the range makes the closed-form density ill-conditioned (its exponent is a
        # difference of numbers of size 1/error^2), so batched and single evaluations differ numerically there; that
        # regime is exercised by C03 on the kernel itself, the combination logic is judged here on 1e-3 and above
        case['pe1'] = [rng.choice([1e-3, 0.01, 0.1, 0.5, 2.0]) for _ in range(n_ar)]
        case['pe2'] = [rng.choice([1e-3, 0.01, 0.1, 0.5, 2.0]) for _ in range(n_ar)]
    if K > 1:
        wk = rng.choice(['none', 'uniform_ones', 'mean_one', 'random', 'integers'])
        if wk == 'none':
            case['weights'] = None
        elif wk == 'uniform_ones':
            case['weights'] = [1.0] * K
        elif wk == 'mean_one':
            w = [rng.uniform(0.2, 1.8) for _ in range(K - 1)]
            w.append(K - sum(w))
            case['weights'] = w if min(w) > 0.05 else [0.5, 1.5] + [1.0] * (K - 2)
        elif wk == 'random':
            case['weights'] = [rng.uniform(0.1, 5) for _ in range(K)]
        else:
            case['weights'] = [float(rng.randint(1, 4)) for _ in range(K)]
    else:
        case['weights'] = None
    case['marginalise'] = rng.random() < 0.7
    case['return_zero'] = rng.random() < 0.5
    return case


def arr(x):
    return np.array(x, dtype=float)


def run_forward(inv, case):
    mt = arr(case['mt']).T.copy()

    def opt(key):
        return arr(case[key]) if key in case else False
    mis = case['mispick']
    mis = arr(mis) if isinstance(mis, list) else mis
    polprob = (arr(case['pp']), arr(case['pn'])) if 'pp' in case else False
    task = inv.ForwardTask(mt, opt('a_pol'), opt('err_pol'), opt('a1'), opt('a2'), opt('ratio'), opt('pe1'), opt('pe2'),
                           opt('a_prob'), polprob, case['weights'] if case['weights'] else False, mis,
                           return_zero=case['return_zero'], marginalise=case['marginalise'])
    with np.errstate(all='ignore'):
        res = task()
    if not isinstance(res, dict):
        return {'error': 'forward task returned %r' % (res,)}
    L = np.asarray(res['ln_pdf']._ln_pdf if hasattr(res['ln_pdf'], '_ln_pdf') else res['ln_pdf'], dtype=float)
    mts = np.asarray(res['moment_tensors'], dtype=float)
    if L.size == 0:
        return {'rows': [], 'cols': [], 'n': res['n']}
    if L.ndim == 1:
        L = L.reshape(1, -1)
    # identify the returned columns
    orig = arr(case['mt'])
    cols = []
    for j in range(mts.shape[1]):
        hit = [i for i in range(orig.shape[0]) if np.array_equal(orig[i], mts[:, j])]
        if len(hit) != 1:
            return {'error': 'returned tensor column %d is not one of the candidates' % j}
        cols.append(hit[0])
    if L.shape[1] != len(cols):
        return {'error': 'log-probabilities (%d) and tensors (%d) differ in number' % (L.shape[1], len(cols))}
    if np.isnan(L).any():
        return {'error': 'NaN in the reported log-probabilities'}
    return {'rows': L.tolist(), 'cols': cols, 'n': res['n']}


def atoms(pr, case):
    """per-station probabilities, one station / location sample / tensor per call"""
    K, M = case['K'], case['M']
    out = {}

    def table(n, fn):
        t = []
        for s in range(n):
            ks = []
            for k in range(K):
                ms = []
                for m in range(M):
                    mt = arr([case['mt'][m]]).T.copy()
                    with np.errstate(all='ignore'):
                        v = float(np.asarray(fn(s, k, mt)).flatten()[0])
                    ms.append(frac_exp(v))
                ks.append(ms)
            t.append(ks)
        return t
    mis = case['mispick']
    if 'a_pol' in case:
        a = arr(case['a_pol'])
        out['pol'] = table(a.shape[0], lambda s, k, mt: pr.polarity_ln_pdf(a[s:s + 1, k:k + 1, :].copy(), mt, arr([case['err_pol'][s]]),
                                                                             mis[s] if isinstance(mis, list) else mis))
    if 'a_prob' in case:
        a = arr(case['a_prob'])
        out['prob'] = table(a.shape[0], lambda s, k, mt: pr.polarity_probability_ln_pdf(a[s:s + 1, k:k + 1, :].copy(), mt, arr([case['pp'][s]]), arr([case['pn'][s]]),
                                                                                          mis[s] if isinstance(mis, list) else mis))
    if 'a1' in case:
        a1, a2 = arr(case['a1']), arr(case['a2'])
        out['ar'] = table(a1.shape[0], lambda s, k, mt: pr.amplitude_ratio_ln_pdf(arr([case['ratio'][s]]), mt, a1[s:s + 1, k:k + 1, :].copy(), a2[s:s + 1, k:k + 1, :].copy(),
                                                                                    arr([case['pe1'][s]]), arr([case['pe2'][s]])))
    return out


def spec(case, at):
    """the property's statement in exact rationals: rows[k][m] = w_k * prod, marginal[m] = sum_k rows"""
    K, M = case['K'], case['M']
    ws = [Fraction(w) for w in case['weights']] if case['weights'] else [Fraction(1)] * K
    rows = []
    for k in range(K):
        r = []
        for m in range(M):
            p = Fraction(1)
            for key in ('pol', 'prob', 'ar'):
                for tbl in at.get(key, []):
                    p *= tbl[k][m]
            r.append(ws[k] * p)
        rows.append(r)
    marg = [sum(rows[k][m] for k in range(K)) for m in range(M)]
    return rows, marg, ws


def tolerance(case):
    """1e-8 relative, widened for tiny fractional errors: the closed-form ratio density subtracts two numbers of size
    1/error^2, so a one-ulp difference in the modelled amplitude (batched vs single matrix product) moves its exponent by about
    1e-16/error^2 (documented cancellation; a numerical-conditioning effect, not a combination-logic one)"""
    pe = min(case.get('pe1', [1.0]) + case.get('pe2', [1.0]))
    return max(1e-8, 1e-13 / pe ** 2)


def underflow_cells(case, at):
    """(k, m) cells in which some per-station probability is a subnormal-range float (0 < p < 1e-280): such a value carries only
    a few significant bits, so the reported log-probability of that cell is judged loosely (within 5) instead of to 1e-8"""
    cells = set()
    lim = Fraction(1, 10 ** 280)
    for key in ('pol', 'prob', 'ar'):
        for tbl in at.get(key, []):
            for k, ms in enumerate(tbl):
                for m, p in enumerate(ms):
                    if 0 < p < lim:
                        cells.add((k, m))
    return cells


def compare(case, at, out):
    """direct oracle; returns None when the implementation matches the statement"""
    if 'error' in out:
        return out['error']
    tol = tolerance(case)
    uf = underflow_cells(case, at)
    uf_m = set(m for _, m in uf)
    rows, marg, ws = spec(case, at)
    K, M = case['K'], case['M']
    keep = [m for m in range(M) if marg[m] != 0]
    want_cols = list(range(M)) if case['return_zero'] else keep
    if not keep and not case['return_zero']:
        return None if out['cols'] == [] else 'all candidates have zero probability but some were returned'
    if out['cols'] != want_cols:
        return 'returned candidates %r, expected %r' % (out['cols'], want_cols)
    if out['n'] != M:
        return 'reported number of tried samples %r, expected %d' % (out['n'], M)
    L = out['rows']
    marginal_form = case['marginalise'] or K == 1
    if marginal_form or (not keep and len(L) == 1):
        if len(L) != 1:
            return 'expected one marginalised row, got %d' % len(L)
        want = [marg[m] for m in want_cols]
        loose = [m in uf_m for m in want_cols]
        got = L[0]
    else:
        if len(L) != K:
            return 'expected %d un-marginalised rows, got %d' % (K, len(L))
        want = [rows[k][m] for k in range(K) for m in want_cols]
        loose = [(k, m) in uf for k in range(K) for m in want_cols]
        got = [L[k][j] for k in range(K) for j in range(len(want_cols))]
    for g, w, lo in zip(got, want, loose):
        if lo:
            if w != 0 and g != NINF and abs(g - (math.log(w.numerator) - math.log(w.denominator))) > 5:
                return 'log-probability %r far from the expected value in the underflow regime' % g
            continue
        if w == 0:
            if g != NINF:
                return 'zero-probability candidate reported with log-probability %r' % g
        else:
            lw = math.log(w.numerator) - math.log(w.denominator)
            if g == NINF or abs(g - lw) > tol * max(1.0, abs(lw)):
                return 'log-probability %r, expected %r' % (g, lw)
    return None


def frac_exp(v):
    """exp of a reported log-probability as an exact rational (40-digit mpmath: no float underflow)"""
    import mpmath
    mpmath.mp.dps = 40
    if v == NINF:
        return Fraction(0)
    x = mpmath.exp(mpmath.mpf(v))
    return Fraction(int(x.man)) * Fraction(2) ** int(x.exp)


def q(fr):
    return core.qlit(fr)


def coq_tbl(t):
    return core.coq_list([core.coq_list([core.coq_list([q(x) for x in ms]) for ms in ks]) for ks in t])


def coq_expr(case, at, out):
    def optt(key):
        return '(Some %s)' % coq_tbl(at[key]) if key in at else 'None'
    d = '(qdata %s %s %s)' % (optt('pol'), optt('prob'), optt('ar'))
    K, M = case['K'], case['M']
    ws = core.coq_list([q(Fraction(w)) for w in case['weights']] if case['weights'] else [q(Fraction(1))] * K)
    tol = q(Fraction(tolerance(case)).limit_denominator(10 ** 12) * 30)   # probability space: ln-tolerance x |ln p| margin

    def qp(v):
        return q(frac_exp(v))
    marginal_form = case['marginalise'] or K == 1
    if case['return_zero']:
        if marginal_form or len(out['rows']) == 1:
            return '(check_marginalised %s %s %s %d%%nat %s)' % (tol, d, ws, M, core.coq_list([qp(v) for v in out['rows'][0]]))
        return '(check_rows %s %s %s %d%%nat %s)' % (tol, d, ws, M, core.coq_list([core.coq_list([qp(v) for v in r]) for r in out['rows']]))
    if not out['rows']:
        return '(check_filtered %s %s %s %d%%nat [])' % (tol, d, ws, M)
    if marginal_form:
        pairs = ['(%d%%nat, %s)' % (c, qp(v)) for c, v in zip(out['cols'], out['rows'][0])]
    else:
        # filtered, un-marginalised: the kept columns are judged on the column sums
        pairs = ['(%d%%nat, %s)' % (c, q(sum(frac_exp(r[j]) for r in out['rows'])))
                 for j, c in enumerate(out['cols'])]
    return '(check_filtered %s %s %s %d%%nat %s)' % (tol, d, ws, M, core.coq_list(pairs))


def classify(R, case, why):
    return False


def trim_check(R, inv):
    """selection of data types: only the selected types survive _trim_data"""
    class Fake(object):
        pass
    bad = None
    keys = ['PPolarity', 'SHPolarity', 'PPolarityProbability', 'P/SHAmplitudeRatio', 'P/SVRMSAmplitudeRatio', 'UID']
    for i in range(R.n(60, 600)):
        have = [k for k in keys if R.rng.random() < 0.6]
        sel = [k for k in keys[:-1] if R.rng.random() < 0.5]
        f = Fake()
        f.inversion_options = sel
        data = dict((k, {'id': k}) for k in have)
        R.count(('trim', i))
        try:
            got = sorted(inv.Inversion._trim_data(f, dict(data)).keys())
            want = sorted(k for k in have if (k in sel or k == 'UID')) if sel else sorted(have)
            if sel and not [k for k in want if k != 'UID']:
                bad = bad or {'check': 'selection with nothing left did not raise', 'have': have, 'selected': sel}
            elif got != want:
                bad = bad or {'check': 'selected data types', 'have': have, 'selected': sel, 'kept': got, 'expected': want}
        except ValueError:
            if sel and [k for k in have if k in sel]:
                bad = bad or {'check': 'selection raised although selected data exist', 'have': have, 'selected': sel}
    return bad


# ----------------------------------------------------------------------------- front end: data dictionary -> matrices -> forward task

AR_KEYS = ['P/SHAmplitudeRatio', 'P/SVAmplitudeRatio', 'SH/SVAmplitudeRatio', 'P/SHRMSAmplitudeRatio', 'P/SVQAmplitudeRatio']


def gen_front(rng, integer=False):
    """an event data dictionary (several data types, each with its own station subset and order), location records listing a
    superset of the stations in another order, and a batch of tensors"""
    pool = ['ST%02d' % i for i in range(1, 13)]
    rng.shuffle(pool)
    names = pool[:rng.randint(2, 8)]
    pol_kind = rng.choice(['pol', 'prob', 'none'])
    n_ar = rng.choice([0, 1, 2, 3]) if pol_kind != 'none' else rng.choice([1, 2, 3])
    K = rng.choice([0, 0, 1, 2, 3])
    ang = dict((n, (float(rng.randint(0, 359)), float(rng.randint(0, 180))) if integer else (rng.uniform(0, 360), rng.uniform(0, 180))) for n in names)
    front = {'types': [], 'samples': [], 'weights': None, 'pol_kind': pol_kind}
    if pol_kind == 'pol':
        keys = rng.sample(['PPolarity', 'SHPolarity', 'SVPolarity'], rng.choice([1, 2, 3]))
    elif pol_kind == 'prob':
        keys = rng.sample(['PPolarityProbability', 'SHPolarityProbability', 'SVPolarityProbability'], rng.choice([1, 2, 3]))
    else:
        keys = []
    keys += rng.sample(AR_KEYS, n_ar)
    for key in keys:
        sub = [n for n in names if rng.random() < 0.7] or [names[0]]
        rng.shuffle(sub)
        t = {'key': key, 'names': sub, 'az': [ang[n][0] for n in sub], 'toa': [ang[n][1] for n in sub]}
        if 'AmplitudeRatio' in key:
            t['measured'] = [[rng.choice([-1, 1]) * 10 ** rng.uniform(-1, 1), rng.choice([-1, 1]) * 10 ** rng.uniform(-1, 1)] for _ in sub]
            t['error'] = [[abs(m[0]) * rng.choice([0.01, 0.1, 0.5]), abs(m[1]) * rng.choice([0.01, 0.1, 0.5])] for m in t['measured']]
        elif 'Probability' in key:
            pp = [rng.choice([1.0, 0.0, rng.random()]) for _ in sub]
            t['measured'] = [[p, round(1.0 - p, 12) if rng.random() < 0.8 else (1.0 - p) * rng.random()] for p in pp]
            t['error'] = [[0.0] for _ in sub]
        else:
            t['measured'] = [[float(rng.choice([-1, 1]))] for _ in sub]
            t['error'] = [[rng.choice([0.0, 0.05, 0.3, 1.0])] for _ in sub]
        if 'Polarity' in key and rng.random() < 0.4:
            t['mispick'] = [[rng.choice([0.0, 0.1, rng.random()])] for _ in sub]
        front['types'].append(t)
    if K:
        loc = list(names) + [n for n in pool[len(names):] if rng.random() < 0.3]
        rng.shuffle(loc)
        for _ in range(K):
            front['samples'].append({'names': loc, 'az': [float(rng.randint(0, 359)) if integer else rng.uniform(0, 360) for _ in loc],
                                     'toa': [float(rng.randint(0, 180)) if integer else rng.uniform(0, 180) for _ in loc]})
        if K > 1 and rng.random() < 0.6:
            front['weights'] = [rng.choice([1.0, 2.0, 0.5, rng.uniform(0.1, 5)]) for _ in range(K)]
    M = rng.choice([1, 2, 3, 6, 7])
    front['mt'] = [[float(x) for x in unit6(rng)] for _ in range(M)]
    front['return_zero'] = rng.random() < 0.5
    return front


def col(x):
    return np.matrix([[float(v)] for v in x])


def front_run(inv, front):
    """the implementation's own path: Inversion._station_angles (the three matrix builders on the same location records) and ForwardTask"""
    class Fake(object):
        pass
    f = Fake()
    event = {}
    for t in front['types']:
        d = {'Stations': {'Name': list(t['names']), 'Azimuth': col(t['az']), 'TakeOffAngle': col(t['toa'])},
             'Measured': np.matrix(t['measured']), 'Error': np.matrix(t['error'])}
        if 'mispick' in t:
            d['IncorrectPolarityProbability'] = np.matrix(t['mispick'])
        event[t['key']] = d
    samples = [{'Name': list(s['names']), 'Azimuth': col(s['az']), 'TakeOffAngle': col(s['toa'])} for s in front['samples']]
    K = len(samples)
    mult = list(front['weights']) if front['weights'] else [1.0] * K
    f.location_pdf_files = [['loc']] if K else False
    f._read_location = lambda fn: (samples, mult)
    f.bin_angle_coefficient_samples = 0
    f._relative = False
    f._marginalise_relative = False
    r = inv.Inversion._station_angles(f, event, 0)
    mt = arr(front['mt']).T.copy()
    task = inv.ForwardTask(mt, r[0], r[1], r[2], r[3], r[4], r[5], r[6], r[7], r[8], f.location_sample_multipliers, r[9],
                           return_zero=front['return_zero'], marginalise=True)
    with np.errstate(all='ignore'):
        res = task()
    return res


def front_expected(inv, front):
    """the statement: one row per observation, coefficients of that station's own ray in every location record (matched by name)"""
    K = max(1, len(front['samples']))
    case = {'K': K, 'M': len(front['mt']), 'mt': front['mt'], 'pol_kind': front['pol_kind'], 'marginalise': True,
            'return_zero': front['return_zero'], 'weights': front['weights'] if len(front['samples']) > 1 else None}
    if len(front['samples']) == 1 and front['weights']:
        case['weights'] = front['weights']

    def rays(t, j, phase):
        n = t['names'][j]
        out = []
        if front['samples']:
            for s in front['samples']:
                if n not in s['names']:
                    return None
                i = s['names'].index(n)
                out.append(np.asarray(inv.station_angles({'Azimuth': col([s['az'][i]]), 'TakeOffAngle': col([s['toa'][i]])}, phase)).flatten())
        else:
            out.append(np.asarray(inv.station_angles({'Azimuth': col([t['az'][j]]), 'TakeOffAngle': col([t['toa'][j]])}, phase)).flatten())
        return out
    mis = []
    anymis = False
    for t in sorted(front['types'], key=lambda t: t['key']):
        key = t['key']
        for j in range(len(t['names'])):
            if 'AmplitudeRatio' in key:
                ph = key.split('AmplitudeRatio')[0]
                for suf in ('QRMS', 'RMS', 'Q'):
                    if ph.endswith(suf):
                        ph = ph[:-len(suf)]
                        break
                p1, p2 = ph.split('/')
                r1, r2 = rays(t, j, p1), rays(t, j, p2)
                if r1 is None:
                    continue
                case.setdefault('_rows_ar', []).append((key, t['names'][j]))
                case.setdefault('a1', []).append([x.tolist() for x in r1])
                case.setdefault('a2', []).append([x.tolist() for x in r2])
                m = t['measured'][j]
                case.setdefault('ratio', []).append(abs(m[0] / m[1]))
                case.setdefault('pe1', []).append(t['error'][j][0] / abs(m[0]))
                case.setdefault('pe2', []).append(t['error'][j][1] / abs(m[1]))
            else:
                ph = key.split('Polarity')[0]
                r = rays(t, j, ph)
                if r is None:
                    continue
                w = t['mispick'][j][0] if 'mispick' in t else 0.0
                anymis = anymis or w != 0
                mis.append(w)
                case.setdefault('_rows_prob' if 'Probability' in key else '_rows_pol', []).append((key, t['names'][j]))
                if 'Probability' in key:
                    case.setdefault('a_prob', []).append([x.tolist() for x in r])
                    case.setdefault('pp', []).append(t['measured'][j][0])
                    case.setdefault('pn', []).append(t['measured'][j][1])
                else:
                    case.setdefault('a_pol', []).append([(x * t['measured'][j][0]).tolist() for x in r])
                    case.setdefault('err_pol', []).append(t['error'][j][0])
    case['mispick'] = mis if anymis else 0
    return case


def forward_result(res, case):
    """the result dictionary of a forward task in the form compare() expects"""
    if not isinstance(res, dict):
        return {'error': 'forward task returned %r' % (res,)}
    L = np.asarray(res['ln_pdf']._ln_pdf if hasattr(res['ln_pdf'], '_ln_pdf') else res['ln_pdf'], dtype=float)
    mts = np.asarray(res['moment_tensors'], dtype=float)
    if L.size == 0:
        return {'rows': [], 'cols': [], 'n': res['n']}
    if L.ndim == 1:
        L = L.reshape(1, -1)
    orig = arr(case['mt'])
    cols = []
    for j in range(mts.shape[1]):
        hit = [i for i in range(orig.shape[0]) if np.array_equal(orig[i], mts[:, j])]
        if len(hit) != 1:
            return {'error': 'returned tensor column %d is not one of the candidates' % j}
        cols.append(hit[0])
    if L.shape[1] != len(cols):
        return {'error': 'log-probabilities (%d) and tensors (%d) differ in number' % (L.shape[1], len(cols))}
    if np.isnan(L).any():
        return {'error': 'NaN in the reported log-probabilities'}
    return {'rows': L.tolist(), 'cols': cols, 'n': res['n']}


def front_check(inv, pr, front):
    case = front_expected(inv, front)
    if not any(k in case for k in ('a_pol', 'a_prob', 'a1')):
        return None, case
    try:
        out = forward_result(front_run(inv, front), case)
    except Exception as ex:
        out = {'error': 'front end raised %s: %s' % (type(ex).__name__, ex)}
    return compare(case, atoms(pr, case), out), case


def front_coq_expr(pr, front, case, probs):
    """the composed model (Model/FrontEnd.v: builders feeding the forward task) executed at Q; atoms = the implementation's own
    per-observation probabilities, keyed by data type, station, the station's integer angles in a record, tensor"""
    at = atoms(pr, case)
    fams = {'pol': [], 'prob': [], 'ar': []}
    for t in sorted(front['types'], key=lambda t: t['key']):
        fam = 'ar' if 'AmplitudeRatio' in t['key'] else ('prob' if 'Probability' in t['key'] else 'pol')
        fams[fam].append(t)
    tag = {}
    for fam, base in (('pol', 0), ('prob', 100), ('ar', 200)):
        for i, t in enumerate(fams[fam]):
            tag[t['key']] = base + i
    K, M = case['K'], case['M']
    table = {}

    def angles_of(t, name, k):
        if front['samples']:
            sm = front['samples'][k]
            i = sm['names'].index(name)
            return int(sm['az'][i]), int(sm['toa'][i])
        j = t['names'].index(name)
        return int(t['az'][j]), int(t['toa'][j])
    bykey = dict((t['key'], t) for t in front['types'])
    for fam, rk in (('pol', '_rows_pol'), ('prob', '_rows_prob'), ('ar', '_rows_ar')):
        for s_, (key, name) in enumerate(case.get(rk, [])):
            for k in range(K):
                az, toa = angles_of(bykey[key], name, k)
                for m in range(M):
                    table[(tag[key], int(name[2:]), az, toa, m)] = at[fam][s_][k][m]
    tbl = core.coq_list(['((%d%%nat, %s, %s, %s, %d%%nat), %s)' % (k[0], core.zlit(k[1]), core.zlit(k[2]), core.zlit(k[3]), k[4], q(v))
                         for k, v in sorted(table.items())])

    def fam_list(fam):
        # with manual polarities present the probability family is ignored by the forward task, as in the model
        return core.coq_list([core.coq_list(['(ob %s %s %s)' % (core.zlit(int(n[2:])), core.zlit(int(a)), core.zlit(int(o)))
                                             for n, a, o in zip(t['names'], t['az'], t['toa'])]) for t in fams[fam]])
    samples = core.coq_list([core.coq_list(['(mkSt %s %s %s)' % (core.zlit(int(n[2:])), core.zlit(int(a)), core.zlit(int(o)))
                                            for n, a, o in zip(sm['names'], sm['az'], sm['toa'])]) for sm in front['samples']])
    ws = core.coq_list([q(Fraction(w)) for w in case['weights']] if case['weights'] else [q(Fraction(1))] * K)
    tol = q(Fraction(tolerance(case)).limit_denominator(10 ** 12) * 30)
    return '(check_front %s %s %s %s %s %s %s %d%%nat %s)' % (tol, tbl, fam_list('pol'), fam_list('prob'), fam_list('ar'), samples, ws, M,
                                                            core.coq_list([q(frac_exp(v)) for v in probs]))


def front_correspondence(R, inv, pr):
    """event dictionary -> Inversion._station_angles -> ForwardTask against Model/FrontEnd.v (composition of Model/Matrices.v and
    Model/Forward.v) executed at Q inside Coq"""
    exprs, metas = [], []
    for i in range(R.n(40, 600)):
        front = gen_front(R.rng, integer=True)
        front['return_zero'] = True
        case = front_expected(inv, front)
        if not any(k in case for k in ('a_pol', 'a_prob', 'a1')) or underflow_cells(case, atoms(pr, case)):
            continue
        try:
            out = forward_result(front_run(inv, front), case)
        except Exception as ex:
            R.signal('correspondence', {'why': 'front end raised %r' % ex, 'front': front})
            continue
        R.count(('front-model', i), nontrivial=bool(front['samples']))
        if 'error' in out or len(out['rows']) != 1 or out['cols'] != list(range(case['M'])):
            R.signal('correspondence', {'why': 'front end result not of the marginalised, unfiltered form', 'front': front, 'implementation': out})
            continue
        exprs.append(front_coq_expr(pr, front, case, out['rows'][0]))
        metas.append(front)
    failing, errors = core.run_cases('c01f', 'From Coq Require Import ZArith QArith.\nFrom MTV.Model Require Import Matrices Forward FrontEnd.', exprs, chunk=10)
    for e in errors:
        R.signal('correspondence-infrastructure', e)
    R.cov['front_end_model_cases'] = len(exprs)
    R.cov['front_end_model_disagreements'] = len(failing)
    return [metas[j] for j in failing]


def front_oracle(R, inv, pr):
    bad = None
    dist = {'with_location_records': 0, 'several_ratio_types': 0, 'several_polarity_types': 0, 'weighted': 0}
    for i in range(R.n(60, 1200)):
        front = gen_front(R.rng)
        R.count(('front', i), nontrivial=len(front['types']) > 1)
        dist['with_location_records'] += bool(front['samples'])
        dist['several_ratio_types'] += sum('AmplitudeRatio' in t['key'] for t in front['types']) > 1
        dist['several_polarity_types'] += sum('Polarity' in t['key'] for t in front['types']) > 1
        dist['weighted'] += bool(front['weights'])
        why, case = front_check(inv, pr, front)
        if why and bad is None:
            bad = {'check': 'event data -> matrices -> forward task: ' + why, 'front': front}
    R.cov['front_end_cases'] = dist
    return bad


def run(R):
    inv, pr = _impl()
    proved = R.prove()
    R.assumptions += ['atoms of the executed model are the implementation\'s own per-station probabilities (C02/C03 are about them), each '
                      'obtained from a call with one station, one location sample and one tensor',
                      'exp/log of the reported log-probabilities is compared to 1e-8 relative; zero / non-zero status exactly',
                      'numpy broadcasting and the try/except flow of ForwardTask are modelled by hand (Model/Forward.v)',
                      'front-end cases (event dictionary with several data types and location records -> Inversion._station_angles -> '
                      'ForwardTask) are judged by the direct oracle only: one row per observation, matched to the location records by name']
    n = R.n(160, 4000)
    exprs, cases, bad = [], [], None
    dist = {}
    for i in range(n):
        case = gen_case(R.rng)
        out = run_forward(inv, case)
        at = atoms(pr, case)
        key = (case['pol_kind'], 'ar' if 'a1' in case else '-', 'K>1' if case['K'] > 1 else 'K=1',
               'w' if case['weights'] else '-', 'marg' if case['marginalise'] else 'rows', 'zeros' if case['return_zero'] else 'filtered')
        dist['/'.join(key)] = dist.get('/'.join(key), 0) + 1
        R.count(('fwd', i), nontrivial=(case['K'] > 1 or len(at) > 1))
        if i < 1:
            R.sample({'case': case, 'implementation': out})
        why = compare(case, at, out)
        if why and bad is None:
            bad = {'check': why, 'case': case, 'implementation': out}
        if underflow_cells(case, at):
            R.cov['underflow_regime_cases_not_compared_in_coq'] = R.cov.get('underflow_regime_cases_not_compared_in_coq', 0) + 1
        elif 'error' not in out and not (case['return_zero'] and not out['rows']):
            cases.append(case)
            exprs.append(coq_expr(case, at, out))
    failing, errors = core.run_cases('c01', 'From MTV.Model Require Import Forward.', exprs, chunk=20)
    for e in errors:
        R.signal('correspondence-infrastructure', e)
    if failing and bad is None:
        R.signal('correspondence', {'why': 'ForwardTask result differs from Model/Forward.v executed at Q', 'case': cases[failing[0]]})
    R.cov['correspondence_cases'] = len(exprs)
    R.cov['correspondence_disagreements'] = len(failing)
    R.cov['configuration_distribution'] = dict(sorted(dist.items(), key=lambda kv: -kv[1])[:25])
    R.cov['distinct_configurations'] = len(dist)
    tb = trim_check(R, inv)
    if tb and bad is None:
        bad = tb
    fb = front_oracle(R, inv, pr)
    if fb and bad is None:
        bad = fb
    ffail = front_correspondence(R, inv, pr)
    if ffail and bad is None:
        why, _ = front_check(inv, pr, ffail[0])
        if why:
            bad = {'check': 'event data -> matrices -> forward task: ' + why, 'front': ffail[0]}
        else:
            R.signal('correspondence', {'why': 'front end differs from Model/FrontEnd.v executed at Q', 'front': ffail[0]})
    if bad:
        R.violation('forward task: %s' % bad['check'], bad)
    R.cov['rule'] = ('random ForwardTask configurations: manual polarities | polarity probabilities | none, 0-4 amplitude ratios, 1-4 location '
                     'samples, weights none/ones/mean-exactly-one/random/integer, mispick zero/scalar/per-station, zero uncertainties, '
                     'batches of 1-12 tensors (incl. 6), marginalise on/off, zero filtering on/off; non-trivial = several location samples '
                     'or several data types')
    return proved


def replay(R, body):
    inv, pr = _impl()
    if 'front' in body['replay']:
        why, case = front_check(inv, pr, body['replay']['front'])
        print('oracle:', why or 'holds')
        return 1 if why else 0
    case = body['replay']['case']
    out = run_forward(inv, case)
    why = compare(case, atoms(pr, case), out)
    print('implementation:', out)
    print('oracle:', why or 'holds')
    return 1 if why else 0
