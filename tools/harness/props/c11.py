"""C11 -- station coefficients (T: station_angles -> Gen/StationAngles.v, nsatz proofs) and
observation-matrix row alignment (H: Model/Matrices.v, K: integer-coded builders)."""
import math

import numpy as np

from harness import core, gen
from harness.tv import validate_defs

PHASES = [('P', 0), ('SH', 1), ('SV', 2)]
PCODE = {'p': 1, 'sh': 2, 'sv': 3}


def _impl():
    import MTfit.inversion as inv
    return inv


# ----------------------------------------------------------------------------- generators

def gen_names(rng, n):
    pool = ['S%02d' % i for i in range(1, 15)]
    rng.shuffle(pool)
    return pool[:n]


def ncode(name):
    return int(name[1:])


def gen_case(rng, kind):
    """kind: 'pol' | 'prob' | 'ar'.  Returns a dict describing data + location samples with
    integer-coded, exactly representable values."""
    if kind == 'pol':
        keys = rng.sample(['PPolarity', 'SHPolarity', 'SVPolarity'], rng.choice([1, 1, 2, 3]))
    elif kind == 'prob':
        keys = rng.sample(['PPolarityProbability', 'SHPolarityProbability', 'SVPolarityProbability'], rng.choice([1, 1, 2, 3]))
    else:
        keys = rng.sample(['P/SHAmplitudeRatio', 'P/SVRMSAmplitudeRatio', 'SH/SVQAmplitudeRatio', 'P/SHQRMSAmplitudeRatio',
                           'P/SVAmplitudeRatio', 'SH/SVRMSAmplitudeRatio'], rng.choice([1, 1, 2, 3]))
    nloc = rng.choice([0, 0, 1, 2, 3])
    all_names = gen_names(rng, rng.randint(1, 9))
    case = {'kind': kind, 'types': [], 'samples': []}
    if nloc:
        # location records: a superset / subset / permutation of the data stations, the same
        # station order in every record (as the scatter-file format produces)
        extra = [n for n in ['S%02d' % i for i in range(15, 20)] if rng.random() < 0.4]
        loc_names = list(all_names) + extra   # property domain: a superset / permutation of the data stations
        rng.shuffle(loc_names)
        for k in range(nloc):
            case['samples'].append([(n, ncode(n) * 100 + 10 * k + 1, ncode(n) * 100 + 10 * k + 2) for n in loc_names])
    uid = 1
    for key in keys:
        names = [n for n in all_names if rng.random() < 0.8] or [all_names[0]]
        rng.shuffle(names)
        has_w = (kind != 'ar') and rng.random() < 0.5
        obs = []
        for n in names:
            az, toa = ncode(n) * 100 + 50 + uid % 7, ncode(n) * 100 + 60 + uid % 5
            if kind == 'pol':
                m1, m2, e1, e2 = rng.choice([-1, 1]), 0, uid, 0
            elif kind == 'prob':
                m1 = rng.randint(0, 16)
                m2, e1, e2 = 16 - m1 if rng.random() < 0.7 else rng.randint(0, 16 - m1), 0, 0
            else:
                m2 = rng.choice([1, 2, 4]) * rng.choice([-1, 1])
                m1 = uid * rng.choice([-1, 1])
                e1, e2 = abs(m1) * rng.randint(1, 5), abs(m2) * rng.randint(1, 5)
            w = rng.randint(0, 8) if has_w else 0
            obs.append({'name': n, 'az': az, 'toa': toa, 'm1': m1, 'm2': m2, 'e1': e1, 'e2': e2, 'w': w})
            uid += 1
        case['types'].append({'key': key, 'has_w': has_w, 'obs': obs})
    return case


def to_data(case):
    data = {}
    for t in case['types']:
        o = t['obs']
        d = {'Stations': {'Name': [x['name'] for x in o],
                          'Azimuth': np.matrix([[float(x['az'])] for x in o]),
                          'TakeOffAngle': np.matrix([[float(x['toa'])] for x in o])}}
        if case['kind'] == 'pol':
            d['Measured'] = np.matrix([[float(x['m1'])] for x in o])
            d['Error'] = np.matrix([[float(x['e1'])] for x in o])
        elif case['kind'] == 'prob':
            d['Measured'] = np.matrix([[x['m1'] / 16.0, x['m2'] / 16.0] for x in o])
            d['Error'] = np.matrix([[0.0] for x in o])
        else:
            d['Measured'] = np.matrix([[float(x['m1']), float(x['m2'])] for x in o])
            d['Error'] = np.matrix([[float(x['e1']), float(x['e2'])] for x in o])
        if t['has_w']:
            d['IncorrectPolarityProbability'] = np.matrix([[x['w'] / 16.0] for x in o])
        data[t['key']] = d
    samples = False
    if case['samples']:
        samples = [{'Name': [s[0] for s in smp], 'Azimuth': np.matrix([[float(s[1])] for s in smp]),
                    'TakeOffAngle': np.matrix([[float(s[2])] for s in smp])} for smp in case['samples']]
    return data, samples


def _same_tree(a, b):
    if isinstance(a, dict):
        return isinstance(b, dict) and sorted(a) == sorted(b) and all(_same_tree(a[k], b[k]) for k in a)
    if isinstance(a, (list, tuple)):
        return isinstance(b, (list, tuple)) and len(a) == len(b) and all(_same_tree(x, y) for x, y in zip(a, b))
    if isinstance(a, np.ndarray):
        return isinstance(b, np.ndarray) and a.shape == b.shape and np.array_equal(a, b)
    return a == b


def stub_station_angles(stations, phase, radians=False):
    """identity-coded coefficient rows: [az, toa, phase code, 0, 0, 0]"""
    try:
        az = np.array(np.matrix(stations['Azimuth'])).flatten()
        toa = np.array(np.matrix(stations['TakeOffAngle'])).flatten()
    except Exception:
        az, toa = np.array(stations[0]).flatten(), np.array(stations[1]).flatten()
    ph = phase.lower().rstrip('q')
    out = np.zeros((len(az), 6))
    out[:, 0], out[:, 1], out[:, 2] = az, toa, PCODE.get(ph, 99)
    return np.matrix(out)


def phase_codes(key, kind):
    k = key.lower()
    if kind in ('pol', 'prob'):
        return [PCODE[k.split('polarity')[0]]]
    ph = k.replace('_', '').split('amplituderatio')[0]
    for suf in ('qrms', 'rms', 'q'):
        if ph.endswith(suf):
            ph = ph[:-len(suf)]
            break
    a, b = ph.split('/')
    return [PCODE[a], PCODE[b]]


def run_builder(inv, case, stub=True):
    """run the implementation's builder; returns (rows, w, phase_ok) integer-encoded."""
    data, samples = to_data(case)
    import copy
    before = copy.deepcopy((data, samples))
    kind = case['kind']
    real = inv.station_angles
    if stub:
        inv.station_angles = stub_station_angles
    try:
        if kind == 'pol':
            a, err, w = inv.polarity_matrix(data, samples)
            a = np.asarray(a)
            n = a.shape[0]
            rows = []
            for r in range(n):
                row = []
                for k in range(a.shape[1]):
                    row += [a[r, k, 0], a[r, k, 1]]
                row.append(np.asarray(err).flatten()[r])
                rows.append(row)
            third = [[a[r, k, 2] for k in range(a.shape[1])] for r in range(n)]
        elif kind == 'prob':
            a, (pp, pn), w = inv.polarity_probability_matrix(data, samples)
            a = np.asarray(a)
            n = a.shape[0]
            pp, pn = np.asarray(pp).flatten(), np.asarray(pn).flatten()
            if len(pp) != n or len(pn) != n:
                return {'error': 'probability vectors of length %d/%d for %d rows' % (len(pp), len(pn), n)}
            rows = []
            for r in range(n):
                row = []
                for k in range(a.shape[1]):
                    row += [a[r, k, 0], a[r, k, 1]]
                row += [pp[r] * 16, pn[r] * 16]
                rows.append(row)
            third = [[a[r, k, 2] for k in range(a.shape[1])] for r in range(n)]
        else:
            a1, a2, ratio, pe1, pe2 = inv.amplitude_ratio_matrix(data, samples)
            a1, a2 = np.asarray(a1), np.asarray(a2)
            n = a1.shape[0]
            ratio, pe1, pe2 = [np.asarray(x).flatten() for x in (ratio, pe1, pe2)]
            if not (len(ratio) == len(pe1) == len(pe2) == n) or a2.shape != a1.shape:
                return {'error': 'ratio vectors/coefficients of inconsistent length'}
            rows = []
            for r in range(n):
                row = []
                for k in range(a1.shape[1]):
                    if a1[r, k, 0] != a2[r, k, 0] or a1[r, k, 1] != a2[r, k, 1]:
                        return {'error': 'numerator/denominator coefficient rows of row %d belong to different stations' % r}
                    row += [a1[r, k, 0], a1[r, k, 1]]
                row += [ratio[r] * 4, pe1[r], pe2[r]]
                rows.append(row)
            third = [[(a1[r, k, 2], a2[r, k, 2]) for k in range(a1.shape[1])] for r in range(n)]
            w = 0
    except Exception as e:
        return {'error': 'builder raised %s: %s' % (type(e).__name__, e)}
    finally:
        inv.station_angles = real
    if not _same_tree(before, (data, samples)):
        # the event dictionary and the location records are used again (other data types, other events, the output file)
        return {'error': 'the builder changed the event data or the location records it was given'}
    if kind != 'ar':
        wv = np.asarray(w, dtype=float).flatten()
        if wv.size == 1 and wv[0] == 0:
            wv = np.zeros(n)
        wl = [x * 16 for x in wv]
    else:
        wl = [0] * n
    flat = [x for row in rows for x in row] + wl
    if any(abs(x - round(x)) > 1e-9 for x in flat):
        return {'error': 'non-integer value in integer-coded output'}
    return {'rows': [[int(round(x)) for x in row] for row in rows], 'w': [int(round(x)) for x in wl], 'third': third}


# model-side encodings -----------------------------------------------------------------------

def coq_case(case, out):
    kind = case['kind']
    enc = {'pol': 'enc_row_pol', 'prob': 'enc_row_prob', 'ar': 'enc_row_ar'}[kind]
    types = []
    for t in sorted(case['types'], key=lambda t: t['key']):
        obs = ['(mkObs (mkSt %s %s %s) %s %s %s %s %s)' % tuple(core.zlit(v) for v in (
            ncode(o['name']), o['az'], o['toa'], o['m1'], o['m2'], o['e1'], o['e2'], o['w'])) for o in t['obs']]
        types.append('(%s, %s)' % ('true' if t['has_w'] else 'false', core.coq_list(obs)))
    samples = [core.coq_list(['(mkSt %d %d %d)' % (ncode(s[0]), s[1], s[2]) for s in smp]) for smp in case['samples']]
    return '(check %s %s %s %s %s)' % (enc, core.coq_list(types), core.coq_list(samples), core.zll(out['rows']), core.zlist(out['w']))


def expected_rows(case):
    """The property's own statement, evaluated in Python on the case description (oracle)."""
    kind = case['kind']
    rows, ws = [], []
    for t in sorted(case['types'], key=lambda t: t['key']):
        byname = {o['name']: o for o in t['obs']}
        if case['samples']:
            names = sorted(set(byname) & set(s[0] for s in case['samples'][0]))
        else:
            names = [o['name'] for o in t['obs']]
        for n in names:
            o = byname[n]
            if case['samples']:
                ang = [[(s[1], s[2]) for s in smp if s[0] == n][0] for smp in case['samples']]
            else:
                ang = [(o['az'], o['toa'])]
            row = []
            for az, toa in ang:
                row += [az * o['m1'], toa * o['m1']] if kind == 'pol' else [az, toa]
            if kind == 'pol':
                row.append(o['e1'])
            elif kind == 'prob':
                row += [o['m1'], o['m2']]
            else:
                row += [abs(o['m1']) * 4 // abs(o['m2']), o['e1'] // abs(o['m1']), o['e2'] // abs(o['m2'])]
            rows.append(row)
            ws.append(o['w'] if t['has_w'] else 0)
    return rows, ws


def classify(case, out):
    """known-finding keys for a failing builder case (none are expected after the repairs)."""
    return None


# ----------------------------------------------------------------------------- coefficient oracle

def coefficient_oracle(R, inv, n):
    bad = None
    for i in range(n):
        az = R.rng.uniform(-720, 720) if i % 5 else R.rng.choice([0.0, 90.0, 180.0, 270.0, 360.0, -90.0])
        toa = R.rng.uniform(0, 180) if i % 7 else R.rng.choice([0.0, 90.0, 180.0])
        M = np.array([[R.rng.uniform(-1, 1) for _ in range(3)] for _ in range(3)])
        M = (M + M.T) / 2
        six = np.array([M[0, 0], M[1, 1], M[2, 2], math.sqrt(2) * M[0, 1], math.sqrt(2) * M[0, 2], math.sqrt(2) * M[1, 2]])
        a, t = math.radians(az), math.radians(toa)
        g = np.array([math.cos(a) * math.sin(t), math.sin(a) * math.sin(t), math.cos(t)])
        phi = np.array([-math.sin(a), math.cos(a), 0.0])
        th = np.array([math.cos(a) * math.cos(t), math.sin(a) * math.cos(t), -math.sin(t)])
        st = {'Azimuth': np.matrix([[az]]), 'TakeOffAngle': np.matrix([[toa]])}
        for ph, vec in (('P', g), ('SH', phi), ('SV', th), ('PQ', g), ('sh', phi)):
            row = np.asarray(inv.station_angles(st, ph)).flatten()
            got = float(row.dot(six))
            want = float(vec.dot(M).dot(g))
            R.count(('coef', i, ph))
            if abs(got - want) > 1e-9:
                bad = bad or {'check': 'coefficient row', 'phase': ph, 'azimuth_deg': az, 'takeoff_deg': toa,
                              'M': M.tolist(), 'got': got, 'expected': want}
        # radians entry point, every phase
        for ph, vec in (('P', g), ('SH', phi), ('SV', th)):
            rowr = np.asarray(inv.station_angles((np.matrix([[a]]), np.matrix([[t]])), ph, True)).flatten()
            if abs(float(rowr.dot(six)) - float(vec.dot(M).dot(g))) > 1e-9:
                bad = bad or {'check': 'coefficient row (radians)', 'phase': ph, 'azimuth': a, 'takeoff': t, 'M': M.tolist()}
        # ratio phases return the (numerator, denominator) coefficients of their own phases, in degrees and in radians
        vecs = {'P': g, 'SH': phi, 'SV': th}
        for rp in (('P/SH', 'P', 'SH'), ('P/SV', 'P', 'SV'), ('SH/SV', 'SH', 'SV'), ('P/SHQ', 'P', 'SH'), ('p/sv', 'P', 'SV')):
            for rad in (False, True):
                st_r = (np.matrix([[a]]), np.matrix([[t]])) if rad else st
                R.count(('coef-ratio', i, rp[0], rad))
                try:
                    pair = inv.station_angles(st_r, rp[0], rad)
                    got2 = [float(np.asarray(x).flatten().dot(six)) for x in pair]
                except Exception as ex:
                    bad = bad or {'check': 'ratio phase coefficients raised %r' % ex, 'phase': rp[0], 'radians': rad, 'azimuth_deg': az, 'takeoff_deg': toa}
                    continue
                want2 = [float(vecs[rp[1]].dot(M).dot(g)), float(vecs[rp[2]].dot(M).dot(g))]
                if len(got2) != 2 or max(abs(x - y) for x, y in zip(got2, want2)) > 1e-9:
                    bad = bad or {'check': 'ratio phase coefficient rows (numerator, denominator)', 'phase': rp[0], 'radians': rad,
                                  'azimuth_deg': az, 'takeoff_deg': toa, 'M': M.tolist(), 'got': got2, 'expected': want2}
    return bad


# ----------------------------------------------------------------------------- run

def run(R):
    inv = _impl()
    proved = R.prove()
    R.assumptions += ['all location-sample records list the stations in the same order (scatter-file format); the '
                      'builders take positions from the first record',
                      'numpy indexing/broadcasting semantics are modelled by hand (Model/Matrices.v) and tied by the '
                      'correspondence run only']
    # 1. the translator's second rendering against the implementation (validates T)
    defs = R.defs(gen.gen_station_angles)

    def impl(ph, radians):
        def f(az, toa):
            if radians:
                return np.asarray(inv.station_angles((np.matrix([[az]]), np.matrix([[toa]])), ph, True)).flatten().tolist()
            return np.asarray(inv.station_angles({'Azimuth': np.matrix([[az]]), 'TakeOffAngle': np.matrix([[toa]])}, ph)).flatten().tolist()
        return f
    specs = []
    for ph, _ in (PHASES if defs else []):
        specs.append((defs['coeff_' + ph], impl(ph, False), lambda rng: [rng.uniform(-400, 400), rng.uniform(0, 180)]))
        specs.append((defs['coeff_%s_rad' % ph], impl(ph, True), lambda rng: [rng.uniform(-7, 7), rng.uniform(0, math.pi)]))
    validate_defs(R, specs, R.n(60, 1500), tol=1e-12)

    # 2. correspondence of the builders with the Coq model (exact, integer coded)
    cases, exprs, outs = [], [], []
    n = R.n(240, 4000)
    for i in range(n):
        kind = ('pol', 'prob', 'ar')[i % 3]
        case = gen_case(R.rng, kind)
        out = run_builder(inv, case)
        R.count(('builder', i), nontrivial=bool(case['samples']) or len(case['types']) > 1)
        cases.append(case)
        outs.append(out)
    shape = {'with_location_samples': sum(1 for c in cases if c['samples']), 'multi_type': sum(1 for c in cases if len(c['types']) > 1),
             'with_mispick': sum(1 for c in cases if any(t['has_w'] for t in c['types']))}
    R.cov['builder_case_distribution'] = shape
    R.sample({'builder_case': cases[0], 'implementation_output': {k: v for k, v in outs[0].items() if k != 'third'}})
    disagreements = []
    idx = []
    for i, (case, out) in enumerate(zip(cases, outs)):
        if 'error' in out:
            disagreements.append((i, out['error']))
            continue
        # phase codes (which coefficient function was requested) are checked here
        want = [phase_codes(t['key'], case['kind']) for t in sorted(case['types'], key=lambda t: t['key'])]
        idx.append(i)
        exprs.append(coq_case(case, out))
    failing, errors = core.run_cases('c11', 'From MTV.Model Require Import Matrices.', exprs)
    for e in errors:
        R.signal('correspondence-infrastructure', e)
    for j in failing:
        disagreements.append((idx[j], 'rows differ from Model/Matrices.v'))
    R.cov['correspondence_cases'] = len(exprs)
    R.cov['correspondence_disagreements'] = len(disagreements)

    # 3. direct property oracle on every disagreement, and on the real coefficient function
    for i, why in disagreements:
        case, out = cases[i], outs[i]
        exp_rows, exp_w = expected_rows(case)
        if 'error' in out or out['rows'] != exp_rows or out['w'] != exp_w:
            R.violation('observation matrix rows are not aligned with the stations: ' + why,
                        {'check': 'builder', 'case': case, 'implementation': {k: v for k, v in out.items() if k != 'third'},
                         'expected_rows': exp_rows, 'expected_mispick': exp_w})
            break
        R.signal('correspondence', {'case': case, 'why': why})
    bad = coefficient_oracle(R, inv, R.n(300, 20000))
    if bad:
        R.violation('station coefficients do not reproduce the radiation pattern', bad)
    # phases of ratio keys: numerator/denominator requested from the right functions (unstubbed, real)
    for key in ['P/SHAmplitudeRatio', 'P/SVRMSAmplitudeRatio', 'SH/SVQAmplitudeRatio', 'P/SHQRMSAmplitudeRatio']:
        case = {'kind': 'ar', 'samples': [], 'types': [{'key': key, 'has_w': False, 'obs': [
            {'name': 'S01', 'az': 33, 'toa': 71, 'm1': 3, 'm2': 2, 'e1': 3, 'e2': 2, 'w': 0}]}]}
        out = run_builder(inv, case)
        R.count(('phase', key))
        if 'error' in out or [list(x) for x in out['third'][0]] != [phase_codes(key, 'ar')]:
            R.violation('ratio key %s does not use the coefficient rows of its own phases' % key,
                        {'check': 'phase', 'case': case, 'implementation': str(out.get('third', out))})
    R.cov['rule'] = ('coefficients: random azimuth/take-off/tensor plus cardinal angles, all phases; builders: random data '
                     'dictionaries (1-3 types, 1-9 stations, 0-3 location records that are supersets/permutations), integer '
                     'coded; a case is non-trivial when it has location records or several types')
    return proved


def replay(R, body):
    inv = _impl()
    rp = body['replay']
    if rp.get('check') == 'builder':
        out = run_builder(inv, rp['case'])
        exp_rows, exp_w = expected_rows(rp['case'])
        ok = 'error' not in out and out['rows'] == exp_rows and out['w'] == exp_w
        print('replay builder case:', 'holds' if ok else 'FAILS', out if not ok else '')
        return 0 if ok else 1
    print('replay of this kind is run through the check itself')
    return 0
