"""C18 -- reading, writing and binning of location-uncertainty (scatangle) samples.

H: Model/Scatangle.v (line-level parser, writer, greedy binning; integer-coded tenths of a degree) with theorems in
Props/C18.v (weight conservation, merge criterion, kept samples pairwise apart, zero bin, parser inverts writer), tied
to MTfit/extensions/scatangle.py by running the real parser/binning/writer on generated files."""
import os
import shutil
import tempfile

import numpy as np

from harness import core
from harness.props import conv


def _impl():
    conv.impl()
    import MTfit.extensions.scatangle as sc
    return sc


def gen_file(rng, thorough=False):
    """a scatter file: samples (weight, [(name, az10, toa10)]) with clusters so that binning has work to do"""
    ns = rng.choice([1, 2, 3, 5, 8, 13, 30] + ([80, 200] if thorough else []))
    nst = rng.choice([1, 2, 3, 6, 12, 30])
    names = ['S%04d' % (100 + k) for k in range(nst)]
    centres = []
    for _ in range(rng.choice([1, 2, 3])):
        centres.append([(rng.randint(0, 3599), rng.randint(0, 1800)) for _ in range(nst)])
    spread = rng.choice([0, 2, 5, 10, 30])
    samples = []
    for _ in range(ns):
        c = rng.choice(centres)
        st = [(names[k], c[k][0] + rng.randint(-spread, spread), c[k][1] + rng.randint(-spread, spread)) for k in range(nst)]
        w = rng.choice([1, 2, 3, 7, 50, 1234])
        samples.append((w, st))
    return samples


def render(samples, rng):
    eol = rng.choice(['\n', '\n', '\r\n'])
    trailing = rng.choice([True, True, False])
    wfmt = rng.choice(['%d.0', '%d', '%d.00'])
    sep = rng.choice(['\t', '   ', ' '])
    lines = []
    for w, st in samples:
        lines.append(wfmt % w)
        for n, az, toa in st:
            lines.append('%s%s%s%s%s' % (n, sep, fmt10(az), sep, fmt10(toa)))
        lines.append('')
    if not trailing:
        lines = lines[:-1]
        text = eol.join(lines)
    else:
        text = eol.join(lines) + eol
    return text, {'eol': repr(eol), 'trailing_blank': trailing}


def fmt10(v):
    return '%s%d.%d' % ('-' if v < 0 else '', abs(v) // 10, abs(v) % 10)


def coq_lines(samples):
    out = []
    for w, st in samples:
        out.append('Weight %s' % core.zlit(w))
        out += ['Sta (%s, %s, %s)' % (core.zlit(int(n[1:])), core.zlit(az), core.zlit(toa)) for n, az, toa in st]
        out.append('Blank')
    return core.coq_list(out)


def coq_rws(rws):
    return core.coq_list(['(%s, %s)' % (core.coq_list(['(%s, %s, %s)' % (core.zlit(n), core.zlit(a), core.zlit(t)) for n, a, t in r]),
                                        core.zlit(w)) for r, w in rws])


def decode(records, mult):
    """implementation output -> integer-coded [(record, weight)]"""
    out = []
    for rec, m in zip(records, mult):
        az = np.asarray(rec['Azimuth'], dtype=float).flatten()
        toa = np.asarray(rec['TakeOffAngle'], dtype=float).flatten()
        if not (len(rec['Name']) == len(az) == len(toa)):
            raise ValueError('record arrays of different lengths')
        r = [(int(n[1:]), int(round(a * 10)), int(round(t * 10))) for n, a, t in zip(rec['Name'], az, toa)]
        if any(abs(a * 10 - round(a * 10)) > 1e-6 for a in az) or abs(float(m) - round(float(m))) > 1e-9:
            raise ValueError('non-representable value in output')
        out.append((r, int(round(float(m)))))
    if len(records) != len(mult):
        raise ValueError('%d records but %d weights' % (len(records), len(mult)))
    return out


def expected_bins(samples, b10):
    """the property's own statement evaluated directly (greedy, first retained sample within half a bin)"""
    bins = []
    for w, st in samples:
        r = [(int(n[1:]), a, t) for n, a, t in st]
        for k, (rr, v) in enumerate(bins):
            if b10 and all(2 * abs(x[2] - y[2]) < b10 and 2 * abs(x[1] - y[1]) < b10 for x, y in zip(rr, r)):
                bins[k] = (rr, v + w)
                break
        else:
            bins.append((r, w))
    return bins


def run(R):
    sc = _impl()
    proved = R.prove(extra_targets=['Model/Scatangle.v'])
    R.assumptions += ['splitting text into lines and fields (str.split, float()) is trusted glue: the model starts from the list of lines; Windows '
                      'and Unix line ends, separators and number formats are varied by the generator',
                      'all records of one file list the same stations in the same order (as the format produces); weights are integers so '
                      'that floating-point sums are exact',
                      'sub-sampling (number_location_samples) draws from numpy.random: only its size and membership are checked',
                      'angle differences of exactly half a bin are excluded (their outcome is a rounding artefact of the binary subtraction)',
                      'the compiled cscatangle path is not available in this environment (C20)']
    tmp = tempfile.mkdtemp(prefix='c18_')
    exprs, recs = [], []
    bad = None
    dist = {'eol': {}, 'sizes': {}}
    try:
        n = R.n(300, 6000)
        for i in range(n):
            samples = gen_file(R.rng, R.thorough)
            text, meta = render(samples, R.rng)
            dist['eol'][meta['eol']] = dist['eol'].get(meta['eol'], 0) + 1
            dist['sizes'][len(samples)] = dist['sizes'].get(len(samples), 0) + 1
            fn = os.path.join(tmp, 'f%d.scatangle' % i)
            with open(fn, 'w', newline='') as f:
                f.write(text)
            b10 = R.rng.choice([0, 0, 5, 10, 20, 40, 100, 13])
            # a pair of samples exactly half a bin apart is decided by the rounding of the binary subtraction (153.6 - 153.1 < 0.5
            # in binary64), not by the property: such knife-edge files are avoided by moving the bin size by a tenth
            if b10 and any(2 * abs(x[k] - y[k]) == b10 for _, sa in samples for _, sb in samples for x, y in zip(sa, sb) for k in (1, 2)):
                b10 += 1
            rec = {'file_text': text if len(text) < 4000 else text[:4000] + '...', 'bin_size': b10 / 10.0, 'meta': meta}
            R.count(('file', i), nontrivial=len(samples) > 1)
            try:
                # 1. parser
                got = decode(*sc.parse_scatangle(fn, 0, 0, _use_c=False))
                want = [([(int(nm[1:]), a, t) for nm, a, t in st], w) for w, st in samples]
                exprs.append('(check_parse %s %s)' % (coq_lines(samples), coq_rws(got)))
                recs.append(dict(rec, op='parse'))
                if got != want:
                    bad = bad or dict(rec, check='parse', implementation=got[:3], expected=want[:3])
                # 2. binning
                gotb = decode(*sc.parse_scatangle(fn, 0, b10 / 10.0, _use_c=False))
                wantb = expected_bins(samples, b10)
                exprs.append('(check_bin %s %s %s)' % (core.zlit(b10), coq_lines(samples), coq_rws(gotb)))
                recs.append(dict(rec, op='bin'))
                if sum(w for _, w in gotb) != sum(w for w, _ in samples):
                    bad = bad or dict(rec, check='weight-conservation', total_in=sum(w for w, _ in samples), total_out=sum(w for _, w in gotb))
                elif gotb != wantb:
                    bad = bad or dict(rec, check='binning', implementation=gotb[:4], expected=wantb[:4])
                # 3. writer round trip through the binning command
                old, new = sc.bin_scatangle(fn, 0, b10 / 10.0)
                back = decode(*sc.parse_scatangle(new, 0, 0, _use_c=False))
                if back != wantb:
                    bad = bad or dict(rec, check='write-read', implementation=back[:4], expected=wantb[:4])
                os.remove(new)
                # 3b. the binning command with sub-sampling: what it writes is what the same sub-sample and binning give in memory
                if len(samples) > 2 and i % 3 == 0:
                    k = R.rng.randint(1, len(samples) - 1)
                    sd = R.rng.randrange(2 ** 31)
                    np.random.seed(sd)
                    mem = decode(*sc.parse_scatangle(fn, k, b10 / 10.0, _use_c=False))
                    np.random.seed(sd)
                    old2, new2 = sc.bin_scatangle(fn, k, b10 / 10.0)
                    back2 = decode(*sc.parse_scatangle(new2, 0, 0, _use_c=False))
                    os.remove(new2)
                    if back2 != mem:
                        bad = bad or dict(rec, check='write-read-subsampled', number_location_samples=k, numpy_seed=sd,
                                          written_file_reads_as=back2[:4], in_memory=mem[:4],
                                          total_written=sum(w for _, w in back2), total_in_memory=sum(w for _, w in mem))
                # 4. sub-sampling returns that many of the original records
                if len(samples) > 3 and i % 5 == 0:
                    k = R.rng.randint(1, len(samples) - 1)
                    sub = decode(*sc.parse_scatangle(fn, k, 0, _use_c=False))
                    if len(sub) != k or any(s not in want for s in sub):
                        bad = bad or dict(rec, check='sub-sampling', requested=k, returned=len(sub))
            except Exception as ex:
                bad = bad or dict(rec, check='exception', error=repr(ex))
            os.remove(fn)
    finally:
        shutil.rmtree(tmp, ignore_errors=True)
    failing, errors = core.run_cases('c18', 'From Coq Require Import ZArith List.\nFrom MTV.Model Require Import Scatangle.\nImport ListNotations.\nOpen Scope Z_scope.',
                                     exprs, chunk=150)
    for e in errors:
        R.signal('correspondence-infrastructure', e)
    R.cov['correspondence_cases'] = len(exprs)
    R.cov['correspondence_disagreements'] = len(failing)
    R.cov['file_distribution'] = {'eol': dist['eol'], 'samples_per_file': dist['sizes']}
    if bad:
        R.violation('scatangle reading/binning/writing fails (%s)' % bad['check'], bad)
    else:
        for j in failing[:1]:
            R.signal('correspondence', {'what': 'implementation differs from Model/Scatangle.v', 'case': recs[j]})
    R.cov['rule'] = ('files with 1-30 (thorough: 200) samples, 1-30 stations, clustered angles so that some samples merge, integer weights, '
                     'Windows/Unix line ends, with/without trailing blank line, several separators and number formats; bin sizes 0-10 degrees')
    return proved


def replay(R, body):
    sc = _impl()
    rp = body['replay']
    tmp = tempfile.mkdtemp(prefix='c18r_')
    try:
        fn = os.path.join(tmp, 'r.scatangle')
        with open(fn, 'w', newline='') as f:
            f.write(rp['file_text'])
        a = decode(*sc.parse_scatangle(fn, 0, 0, _use_c=False))
        b = decode(*sc.parse_scatangle(fn, 0, rp['bin_size'], _use_c=False))
        print('total weight read %d, after binning %d (%d -> %d samples)' % (sum(w for _, w in a), sum(w for _, w in b), len(a), len(b)))
        return 0 if sum(w for _, w in a) == sum(w for _, w in b) and rp.get('check') == 'weight-conservation' else 1
    finally:
        shutil.rmtree(tmp, ignore_errors=True)
