"""Shared pieces of the conversion checks (C12, C13, C14): implementation wrappers for the translated
definitions of Gen/Convert.v (translator validation) and numerical helpers for the direct oracles."""
import logging
import math
import re

import numpy as np

from harness import gen
from harness.tv import validate_defs

TWO_PI = 2 * math.pi


def impl():
    logging.disable(logging.CRITICAL)
    import MTfit.convert.moment_tensor_conversion as C
    return C


def flat(x):
    if isinstance(x, (tuple, list)):
        out = []
        for y in x:
            out += flat(y)
        return out
    if isinstance(x, dict):
        raise TypeError('dict')
    return [float(v) for v in np.asarray(x, dtype=float).flatten()]


def wrapper(C, name, kw, d):
    """call the implementation's `name` on the scalar parameters of the translated definition d"""
    aps = dict(kw.get('array_params') or {})
    s_as_a = kw.get('scalars_are_arrays') and not kw.get('pass_floats')
    import inspect
    pnames = [p for p in inspect.signature(getattr(C, name)).parameters if p not in ('kwargs',)]
    consts = kw.get('consts') or {}
    oracle = kw.get('oracle_calls')

    def call(*args):
        vals = dict(zip(d.params, args))
        call_args = []
        for p in pnames:
            if p in consts:
                call_args.append(consts[p])
                continue
            if p in aps:
                shape, ismat = aps[p]
                arr = np.zeros(shape)
                for idx in np.ndindex(*shape):
                    key = p + ''.join('_%d' % i for i in idx)
                    if key in vals:
                        arr[idx] = vals[key]
                    elif len(idx) == 2 and (p + '_%d_%d' % (idx[1], idx[0])) in vals:
                        arr[idx] = vals[p + '_%d_%d' % (idx[1], idx[0])]     # symmetric counterpart (pruned parameter)
                    else:
                        # a parameter the translated definition does not depend on (pruned): any value must do
                        arr[idx] = 0.37 + 0.1 * sum(idx)
                call_args.append(np.matrix(arr) if ismat else arr)
            else:
                if p not in vals:
                    continue
                call_args.append(np.array([vals[p]]) if s_as_a else vals[p])
        if oracle:
            # the external routine returns the values the model takes as parameters
            (fname, outs), = oracle.items()
            res = []
            for oname, shape, ismat in outs:
                arr = np.zeros(shape)
                for idx in np.ndindex(*shape):
                    arr[idx] = vals.get(oname + ''.join('_%d' % i for i in idx), 0.0)
                res.append(np.matrix(arr) if ismat else arr)
            # N is not used by the code after the eigen-solver; give it the right-handed completion
            real = getattr(C, fname)
            setattr(C, fname, lambda *a, **k: tuple(res))
            try:
                return flat(list(getattr(C, name)(*call_args)))
            finally:
                setattr(C, fname, real)
        out = getattr(C, name)(*call_args)
        return flat(list(out) if isinstance(out, tuple) else out)
    return call


def unit(v):
    v = np.asarray(v, dtype=float)
    return v / np.sqrt(np.sum(v * v))


def arggen_for(name, d):
    n = len(d.params)

    def angles(rng):
        return [rng.uniform(-math.pi, TWO_PI) for _ in range(n)]

    def vecs(rng):
        return [rng.uniform(-1, 1) for _ in range(n)]
    if name in ('GD_E', 'GD_basic_cdc'):
        return lambda rng: [rng.uniform(-math.pi / 6, math.pi / 6), rng.uniform(-1.5, 1.5)]
    if name == 'basic_cdc_GD':
        return lambda rng: [rng.uniform(0, math.pi / 2), rng.uniform(-0.9, 0.49)]
    if name in ('Tape_MT33', 'Tape_MT6'):
        return lambda rng: [rng.uniform(-math.pi / 6, math.pi / 6), rng.uniform(-1.5, 1.5), rng.uniform(0, TWO_PI),
                            rng.uniform(0, 1), rng.uniform(-math.pi / 2, math.pi / 2)]
    if name in ('SDR_TNP', 'SDR_FP', 'SDR_SDR', 'SDR_SDSD'):
        return lambda rng: [rng.uniform(0, TWO_PI), rng.uniform(0.01, math.pi / 2 - 0.01), rng.uniform(-math.pi, math.pi)]
    if name == 'SDSD_FP':
        return lambda rng: [rng.uniform(0, TWO_PI), rng.uniform(0, math.pi / 2), rng.uniform(0, TWO_PI), rng.uniform(0, math.pi / 2)]
    if name == 'tk_uv':
        def g(rng):
            k = rng.uniform(-1, 1)
            return [rng.uniform(-1, 1) * (1 - abs(k)), k]
        return g
    if name in ('isotropic_c',):
        return lambda rng: [rng.uniform(0.1, 3), rng.uniform(0.1, 3)]
    if name in ('MT6_Tape', 'TNP_SDR', 'TP_FP', 'FP_TNP', 'FP_SDR', 'FP_SDSD'):
        def g(rng):
            # an orthonormal frame (what the eigen-solver returns / what the callers pass)
            q, _ = np.linalg.qr(np.array([[rng.gauss(0, 1) for _ in range(3)] for _ in range(3)]))
            a, b = q[:, 0], q[:, 2]
            if name in ('FP_SDR', 'FP_SDSD', 'FP_TNP'):
                # arguments need not be unit: the routine normalises
                a, b = a * rng.uniform(0.5, 2), b * rng.uniform(0.5, 2)
            out = list(a) + list(b)
            if name == 'MT6_Tape':
                e = sorted([rng.uniform(-1, 1) for _ in range(3)], reverse=True)
                out += e
            return out[:n] if name != 'MT6_Tape' else out
        return g
    return vecs


def validate_conversions(R, names, n):
    """translator validation (tie T) of the listed Gen/Convert.v definitions against the implementation"""
    C = impl()
    defs = R.defs(gen.gen_convert)
    if not defs:
        return None
    specs = []
    kws = dict(gen.conv_specs())
    for nm in names:
        d = defs[nm]
        specs.append((d, wrapper(C, nm, kws[nm], d), arggen_for(nm, d)))
    validate_defs(R, specs, n, tol=1e-7)
    return defs


# ----------------------------------------------------------------------------- numerical helpers

def ang_diff(a, b, period=TWO_PI):
    return abs((a - b + period / 2) % period - period / 2)


def mt6_of_mt33(M):
    s = math.sqrt(2)
    return np.array([M[0, 0], M[1, 1], M[2, 2], s * M[0, 1], s * M[0, 2], s * M[1, 2]])


def mt33_of_mt6(v):
    s = 1 / math.sqrt(2)
    return np.array([[v[0], s * v[3], s * v[4]], [s * v[3], v[1], s * v[5]], [s * v[4], s * v[5], v[2]]])


def rot(rng):
    q, r = np.linalg.qr(np.array([[rng.gauss(0, 1) for _ in range(3)] for _ in range(3)]))
    q = q * np.sign(np.diag(r))
    if np.linalg.det(q) < 0:
        q[:, 0] *= -1
    return q


def sdr_frame(s, d, r):
    """independent construction (Aki & Richards, north-east-down) of fault normal and slip"""
    n = np.array([-math.sin(d) * math.sin(s), math.sin(d) * math.cos(s), -math.cos(d)])
    u = np.array([math.cos(r) * math.cos(s) + math.cos(d) * math.sin(r) * math.sin(s),
                  math.cos(r) * math.sin(s) - math.cos(d) * math.sin(r) * math.cos(s),
                  -math.sin(d) * math.sin(r)])
    return n, u


def dc_tensor(s, d, r):
    n, u = sdr_frame(s, d, r)
    return np.outer(n, u) + np.outer(u, n)


def has_horizontal_nodal_plane(v, tol=1e-12):
    """one of the two nodal planes of the (deviatoric frame of the) tensor is exactly horizontal"""
    w, L = np.linalg.eigh(mt33_of_mt6(np.asarray(v, dtype=float)))
    t, p = L[:, 2], L[:, 0]
    n1, n2 = (t + p) / math.sqrt(2), (t - p) / math.sqrt(2)
    return max(abs(n1[2]), abs(n2[2])) > 1 - tol


HORIZONTAL_KEY = 'fp_sdr_horizontal_plane'
HORIZONTAL_WHAT = ('FP_SDR loses the slip direction of an exactly horizontal plane (dip 0, normal (0,0,-1)): rake = '
                   'arctan2(-slip_z, slip_x n_y - slip_y n_x) is arctan2(0, 0) there, so the angles returned (and the Tape '
                   'parameters with h = 1 built from them) do not describe the input source')


# ----------------------------------------------------------------------------- batches: n columns at once = column by column

def _flat_out(o):
    if isinstance(o, (tuple, list)):
        return [np.asarray(x, dtype=float) for x in o]
    return [np.asarray(o, dtype=float)]


def _column(out, j, n):
    res = []
    for a in out:
        if a.ndim == 0:
            res.append(a.reshape(1))
        elif a.ndim == 1:
            res.append(a[j:j + 1] if a.shape[0] == n else a)
        elif a.shape[-1] == n:
            res.append(a[..., j].flatten())
        elif a.shape[0] == n:
            res.append(a[j].flatten())
        else:
            res.append(a.flatten())
    return np.concatenate([r.flatten() for r in res])


def batch_cases(C, rng):
    def u6():
        return unit([rng.gauss(0, 1) for _ in range(6)])

    def u3():
        return unit([rng.gauss(0, 1) for _ in range(3)])

    def eig3():
        return sorted([rng.uniform(-1, 1) for _ in range(3)], reverse=True)

    def frame():
        q = rot(rng)
        return list(q[:, 0]) + list(q[:, 1])

    def axes():
        q = rot(rng)
        return list(q[:, 0]) + list(q[:, 1]) + list(q[:, 2])
    return {
        'MT6_Tape': (u6, lambda X: C.MT6_Tape(X)),
        'MT6_TNPE': (u6, lambda X: C.MT6_TNPE(X)),
        'E_tk': (eig3, lambda X: C.E_tk(X)),
        'E_GD': (eig3, lambda X: C.E_GD(X)),
        'normal_SD': (u3, lambda X: C.normal_SD(X)),
        'FP_SDR': (frame, lambda X: C.FP_SDR(X[:3], X[3:])),
        'FP_TNP': (frame, lambda X: C.FP_TNP(X[:3], X[3:])),
        'TNP_SDR': (axes, lambda X: C.TNP_SDR(X[:3], X[3:6], X[6:])),
    }


def batch_oracle(R, C, names, rounds):
    """a conversion applied to n columns at once (n = 1..7, so that square blocks occur, arrays and matrices) returns, column by
    column, what it returns for that column alone"""
    bad = None
    cases = batch_cases(C, R.rng)
    for r in range(rounds):
        for name in names:
            gen_col, f = cases[name]
            for n in (1, 2, 3, 5, 6, 7, 9):
                for kind in ('array', 'matrix'):
                    X = np.array([gen_col() for _ in range(n)]).T
                    R.count(('batch', name, n, kind, r))
                    try:
                        out = _flat_out(f(np.matrix(X) if kind == 'matrix' else X.copy()))
                        for j in range(n):
                            xj = X[:, j:j + 1]
                            one = _flat_out(f(np.matrix(xj) if kind == 'matrix' else xj.copy()))
                            a, b = _column(out, j, n), _column(one, 0, 1)
                            if a.shape != b.shape or not np.allclose(a, b, rtol=0, atol=1e-9, equal_nan=True):
                                bad = bad or {'check': 'batch-of-%d-columns' % n, 'routine': name, 'container': kind, 'columns': X.T.tolist(), 'column': j,
                                              'batched': a.tolist(), 'alone': b.tolist()}
                                break
                    except Exception as ex:
                        bad = bad or {'check': 'batch-of-%d-columns' % n, 'routine': name, 'container': kind, 'columns': X.T.tolist(), 'error': repr(ex)}
    return bad


def batch_replay(C, rp):
    import random
    gen_col, f = batch_cases(C, random.Random(0))[rp['routine']]
    X = np.array(rp['columns'], dtype=float).T
    n = X.shape[1]
    out = _flat_out(f(np.matrix(X) if rp['container'] == 'matrix' else X.copy()))
    for j in range(n):
        xj = X[:, j:j + 1]
        one = _flat_out(f(np.matrix(xj) if rp['container'] == 'matrix' else xj.copy()))
        a, b = _column(out, j, n), _column(one, 0, 1)
        if a.shape != b.shape or not np.allclose(a, b, rtol=0, atol=1e-9, equal_nan=True):
            print('column %d: batched %r alone %r' % (j, a.tolist(), b.tolist()))
            return 1
    print('batched call agrees with the single calls')
    return 0
