"""C16 -- the worker pool returns every submitted task result exactly once.

H: Model/Pool.v (interleaving state machine + collection as a function of the arrival order) with theorems in Props/C16.v.
Correspondence: real JobPool runs (real worker processes, random durations, payloads, exceptions, status codes,
interleaved submission and collection); the observed arrival order of each run is replayed through the model inside Coq
and must give exactly the delivered sequence; exactly-once, termination, LnPDF transport and worker shutdown are judged
on the runs themselves."""
import json
import os
import subprocess
import sys
import tempfile
from concurrent.futures import ThreadPoolExecutor

from harness import core

HERE = os.path.dirname(os.path.abspath(__file__))
DRIVER = os.path.join(os.path.dirname(HERE), 'pool_driver.py')


def gen_scenario(rng, thorough):
    workers = rng.choice([1, 2, 3, 4, 8] + ([16] if thorough else []))
    ntasks = rng.choice([0, 1, 2, 5, 9, 17] + ([60, 200] if thorough else []))
    interleaved = rng.random() < 0.5
    ops = []
    outstanding = []      # kinds of submitted-but-uncollected tasks
    tid = 0
    for _ in range(ntasks):
        k = rng.random()
        kind = 'V' if k < 0.45 else ('L' if k < 0.6 else ('C' if k < 0.8 else 'E'))
        tid += 1
        value = rng.choice([10, 20]) if kind == 'C' else tid
        ops.append(['S', kind, value, rng.choice([0, 0, 1, 3, 8, 20]), rng.choice([1, 10, 1000, 50000]) if kind in ('V', 'L') else 1])
        outstanding.append(kind)
        if interleaved and rng.random() < 0.3:
            # a single result() only where some outstanding task will deliver a proper result
            if any(x in ('V', 'L', 'E') for x in outstanding):
                ops.append(['R'])
                # which one is collected depends on the schedule: track counts only
                for x in ('V', 'L', 'E'):
                    pass
                outstanding = None
                break_flag = True
            if outstanding is None:
                # after a schedule-dependent pop we no longer know what is outstanding: collect everything and go on
                ops.append(['A'])
                outstanding = []
    ops.append(['A'])
    # the last task of some scenarios is a status code with a long duration, so that it arrives last
    if ntasks and rng.random() < 0.35:
        ops.insert(len(ops) - 1, ['S', 'C', rng.choice([10, 20]), 40, 1])
    # time limit after which a run counts as blocked: every raising task ends its worker, and the parent notices a dead worker only
    # at its next one-second poll of the result queue, so the limit grows with the number of raising tasks (a fixed 60 s was
    # exceeded by a 140-task scenario on one worker that was still collecting: false alarm of the thorough tier)
    n_raise = sum(1 for op in ops if op[0] == 'S' and op[1] == 'E')
    return {'workers': workers, 'ops': ops, 'timeout': (25 if not thorough else 60) + 2.0 * n_raise + 0.1 * len(ops)}


def run_scenario(sc):
    with tempfile.NamedTemporaryFile('w', suffix='.json', delete=False) as f:
        json.dump(sc, f)
        fn = f.name
    try:
        env = dict(os.environ)
        p = subprocess.run([sys.executable, DRIVER, fn], capture_output=True, text=True, timeout=sc.get('timeout', 25) + 30, env=env)
        for line in p.stdout.splitlines():
            if line.startswith('REPORT '):
                return json.loads(line[7:])
        return {'error': 'no report: ' + (p.stderr or p.stdout)[-300:], 'blocked': False}
    except subprocess.TimeoutExpired:
        return {'error': 'driver timeout', 'blocked': True}
    finally:
        os.remove(fn)


def coq_o(c):
    return {'V': '(Val %d)', 'E': '(Exc %d)', 'C': '(Code %d)'}[c[0]] % c[1]


def judge(sc, rep):
    """the property on one run; returns a description of the failure or None"""
    if rep.get('error'):
        return 'pool raised: %s' % rep['error']
    if rep.get('blocked'):
        return 'collection blocked (number_jobs=%r) although every submitted task had produced its result' % rep.get('jobs_when_blocked')
    sub = [op for op in sc['ops'] if op[0] == 'S']
    want = sorted([['E', op[2]] if op[1] == 'E' else ['V', op[2]] for op in sub if op[1] != 'C'])
    got = sorted([d for d in rep['delivered'] if d[0] != 'N'])
    if got != want:
        return 'delivered results are not exactly the submitted non-status tasks: missing %r, extra %r' % (
            [w for w in want if w not in got][:5], [g for g in got if g not in want or got.count(g) > want.count(g)][:5])
    if sorted(a for a in rep['arrivals']) != sorted([[op[1] if op[1] != 'L' else 'V', op[2]] for op in sub]):
        return 'results taken from the queue are not exactly one per submitted task'
    if rep.get('jobs_end') != 0:
        return 'number_jobs is %r after collecting everything' % rep.get('jobs_end')
    if not rep.get('lnpdf_ok', True):
        return 'a log-PDF object arrived with different values or volume element'
    if rep.get('workers_alive_after_close'):
        return '%d worker processes alive after close()' % rep['workers_alive_after_close']
    return None


def run(R):
    proved = R.prove(extra_targets=['Model/Pool.v'])
    R.assumptions += ['multi-life workers only (single-life mode is documented as able to block); tasks terminate; the operating system '
                      'schedules every worker eventually (fairness) -- the model quantifies over every order of arrival, the run observes some',
                      'queues are reliable FIFO pipes (multiprocessing.Queue); pickling of results is trusted except for LnPDF transport, '
                      'which is compared value by value',
                      'a worker that dies on an exception is replaced at the next pool call (clean_workers); the model treats the worker '
                      'population as unbounded and fair']
    n = R.n(48, 600)
    scs = [gen_scenario(R.rng, R.thorough) for _ in range(n)]
    with ThreadPoolExecutor(max_workers=6) as ex:
        reps = list(ex.map(run_scenario, scs))
    exprs, idx = [], []
    bad = None
    dist = {'workers': {}, 'tasks': {}, 'with_status_codes': 0, 'with_exceptions': 0}
    for i, (sc, rep) in enumerate(zip(scs, reps)):
        nt = sum(1 for op in sc['ops'] if op[0] == 'S')
        R.count(('pool', i), nontrivial=nt > 0)
        dist['workers'][sc['workers']] = dist['workers'].get(sc['workers'], 0) + 1
        dist['tasks'][nt] = dist['tasks'].get(nt, 0) + 1
        dist['with_status_codes'] += any(op[0] == 'S' and op[1] == 'C' for op in sc['ops'])
        dist['with_exceptions'] += any(op[0] == 'S' and op[1] == 'E' for op in sc['ops'])
        why = judge(sc, rep)
        if why:
            bad = bad or {'check': 'pool-run', 'why': why, 'scenario': sc, 'report': {k: v for k, v in rep.items() if k != 'arrivals'},
                          'arrivals': rep.get('arrivals')}
            continue
        # replay the observed arrival order through the model: every all_results() segment
        a0 = d0 = 0
        for kind, a1, d1 in rep['segments']:
            if kind == 'A':
                arr = rep['arrivals'][a0:a1]
                dl = [d for d in rep['delivered'][d0:d1]]
                exprs.append('(check_all %s %s)' % (core.coq_list([coq_o(c) for c in arr]), core.coq_list([coq_o(c) for c in dl])))
                idx.append(i)
            a0, d0 = a1, d1
    failing, errors = core.run_cases('c16', 'From Coq Require Import ZArith List.\nFrom MTV.Model Require Import Pool.\nImport ListNotations.\nOpen Scope Z_scope.',
                                     exprs, chunk=300)
    for e in errors:
        R.signal('correspondence-infrastructure', e)
    R.cov['correspondence_cases'] = len(exprs)
    R.cov['correspondence_disagreements'] = len(failing)
    R.cov['scenario_distribution'] = dist
    if bad:
        R.violation('worker pool: ' + bad['why'], bad)
    else:
        for j in failing[:1]:
            R.signal('correspondence', {'what': 'delivered sequence differs from Model/Pool.v on the observed arrival order', 'scenario': scs[idx[j]],
                                        'report': reps[idx[j]]})
    R.cov['rule'] = ('1-8 (thorough: 16) workers, 0-17 (thorough: 200) tasks with durations 0-20 ms and payloads 1 B - 50 kB, values, LnPDF '
                     'results, exceptions and reserved status codes (some forced to arrive last), submissions interleaved with result() and '
                     'all_results(); every run ends with all_results() and close()')
    return proved


def replay(R, body):
    rp = body['replay']
    rep = run_scenario(rp['scenario'])
    why = judge(rp['scenario'], rep)
    print('replayed scenario:', why or 'holds on this schedule', '(arrivals %r)' % (rep.get('arrivals'),))
    return 1 if why else 0
