"""C03 -- amplitude-ratio likelihood (T: ratio_pdf / amplitude_ratio_ln_pdf -> Gen/Ratio.v; theorems
over R with Phi as a parameter; oracle: 30-digit quadrature of the defining integral)."""
import math

import mpmath
import numpy as np
from scipy.stats import norm as sp_norm

from harness import gen
from harness.tv import close

mpmath.mp.dps = 30


def _impl():
    import gc
    gc.collect = lambda *a, **k: 0
    import MTfit.probability.probability as pr
    return pr


def scalar_ar(pr, r, mux, muy, px, py):
    """through the public array API: one station, coefficients chosen so that a.mt = mu"""
    a1 = np.zeros((1, 1, 6))
    a2 = np.zeros((1, 1, 6))
    a1[0, 0, 0], a2[0, 0, 0] = mux, muy
    mt = np.zeros((6, 1))
    mt[0, 0] = 1.0
    with np.errstate(all='ignore'):
        out = pr.amplitude_ratio_ln_pdf(np.array([float(r)]), mt, a1, a2, np.array([float(px)]), np.array([float(py)]))
    return float(np.asarray(out).flatten()[0])


def defining_integral(z, mx, my, sx, sy):
    """int |y| N(z y; mx, sx) N(y; my, sy) dy over the real line.  The integrand is |y| times a Gaussian bump in y centred at
    b/a^2 with width 1/a (a, b: completed-square coefficients), so the quadrature runs over +-14 widths around the centre in
    short panels (tanh-sinh needs them: a single long panel loses digits on so peaked a function) and is split at 0; the
    neglected tails are below 1e-40 of the mass."""
    z, mx, my, sx, sy = [mpmath.mpf(v) for v in (z, mx, my, sx, sy)]
    a2 = z * z / (sx * sx) + 1 / (sy * sy)
    b = mx * z / (sx * sx) + my / (sy * sy)
    y0, w = b / a2, 1 / mpmath.sqrt(a2)

    def f(y):
        return abs(y) * mpmath.npdf(z * y, mx, sx) * mpmath.npdf(y, my, sy)
    lo, hi = y0 - 14 * w, y0 + 14 * w
    pts = sorted(set([y0 + k * w for k in (-14, -11, -8, -6, -4.5, -3, -2, -1, 0, 1, 2, 3, 4.5, 6, 8, 11, 14)] + ([mpmath.mpf(0)] if lo < 0 < hi else [])))
    return mpmath.quad(f, pts)


def batch_oracle(R, pr, n):
    """any number of stations / location samples / tensors: a batched call equals, cell by cell, the sum over stations of the
    one-station one-sample one-tensor value at the modelled amplitudes a.m (the kernel whose density is judged above)"""
    bad = None
    shapes = {}
    for i in range(n):
        S, K, M = R.rng.choice([1, 2, 3, 6]), R.rng.choice([1, 1, 2, 3, 6]), R.rng.choice([1, 2, 5, 6, 6, 7, 12])
        a1 = np.array([[[R.rng.uniform(-1, 1) for _ in range(6)] for _ in range(K)] for _ in range(S)])
        a2 = np.array([[[R.rng.uniform(-1, 1) for _ in range(6)] for _ in range(K)] for _ in range(S)])
        mt = np.array([[R.rng.gauss(0, 1) for _ in range(M)] for _ in range(6)])
        mt = mt / np.sqrt((mt * mt).sum(axis=0))
        ratio = np.array([10 ** R.rng.uniform(-1, 1) for _ in range(S)])
        px = np.array([R.rng.choice([0.01, 0.1, 0.5, 2.0]) for _ in range(S)])
        py = np.array([R.rng.choice([0.01, 0.1, 0.5, 2.0]) for _ in range(S)])
        shapes['%dx%dx%d' % (S, K, M)] = shapes.get('%dx%dx%d' % (S, K, M), 0) + 1
        R.count(('batch', i), nontrivial=M > 1)
        case = {'check': 'batched call equals the per-station, per-sample, per-tensor values', 'a1': a1.tolist(), 'a2': a2.tolist(), 'mt': mt.tolist(),
                'ratio': ratio.tolist(), 'frac_x': px.tolist(), 'frac_y': py.tolist()}
        why = batch_check(pr, case)
        if why:
            bad = bad or dict(case, why=why)
    R.cov['batch_shapes_stations_x_samples_x_tensors'] = dict(sorted(shapes.items(), key=lambda kv: -kv[1])[:12])
    return bad


def batch_check(pr, case):
    a1, a2, mt = np.array(case['a1']), np.array(case['a2']), np.array(case['mt'])
    ratio, px, py = np.array(case['ratio']), np.array(case['frac_x']), np.array(case['frac_y'])
    S, K, M = a1.shape[0], a1.shape[1], mt.shape[1]
    args = [ratio.copy(), mt.copy(), a1.copy(), a2.copy(), px.copy(), py.copy()]
    try:
        with np.errstate(all='ignore'):
            got = np.asarray(pr.amplitude_ratio_ln_pdf(*args), dtype=float)
    except Exception as ex:
        return 'raised %s: %s' % (type(ex).__name__, ex)
    if not all(np.array_equal(x, y) for x, y in zip(args, [ratio, mt, a1, a2, px, py])):
        return 'the arrays handed in were changed by the call (they are reused for the next batch of tensors)'
    if got.size != K * M:
        return 'result of shape %r for %d location samples and %d tensors' % (got.shape, K, M)
    got = got.reshape(K, M)
    for k in range(K):
        for m in range(M):
            want = sum(scalar_ar(pr, ratio[s], float(a1[s, k].dot(mt[:, m])), float(a2[s, k].dot(mt[:, m])), px[s], py[s]) for s in range(S))
            if (want < -700 and got[k, m] < -700) or got[k, m] == want:
                continue
            if not abs(got[k, m] - want) <= 1e-7 * max(1.0, abs(want)):
                return 'location sample %d, tensor %d: %r, expected %r' % (k, m, float(got[k, m]), want)
    return None


def gen_params(rng):
    scale = 10 ** rng.uniform(-7, 1)
    mx = scale * rng.uniform(0.05, 1) * rng.choice([-1, 1])
    my = scale * 10 ** rng.uniform(-2, 2) * rng.uniform(0.05, 1) * rng.choice([-1, 1])
    px = rng.choice([1e-5, 1e-4, 1e-3, 0.01, 0.1, 0.5, 2.0, 5.0, 10 ** rng.uniform(-5, 0.69)])
    py = rng.choice([1e-5, 1e-4, 1e-3, 0.01, 0.1, 0.5, 2.0, 5.0, 10 ** rng.uniform(-5, 0.69)])
    true_ratio = abs(mx / my)
    r = true_ratio * rng.choice([1.0, 10 ** rng.uniform(-0.3, 0.3), 10 ** rng.uniform(-3, 3), 1 + 3 * px * rng.uniform(-1, 1)])
    return abs(r), mx, my, px, py


def run(R):
    pr = _impl()
    proved = R.prove()
    R.assumptions += ['Phi (scipy.stats.norm.cdf at mean 0, deviation 1) is the standard normal distribution function: derivative = normal '
                      'density, Phi(-t) = 1 - Phi(t), limits 0 and 1, non-decreasing (hypotheses of the theorems)',
                      'normalisation (integral over r of the likelihood = 1) is NOT a theorem here; it is validated numerically below',
                      'NaN-freedom and finiteness are judged on the implementation (fractional errors down to 1e-5), not proved']
    defs = R.defs(gen.gen_ratio)
    Phi = lambda t: float(sp_norm.cdf(t))
    bad = None
    n = R.n(250, 6000)
    for i in range(n):
        r, mx, my, px, py = gen_params(R.rng)
        got = scalar_ar(pr, r, mx, my, px, py)
        R.count(('ar', i), nontrivial=(min(px, py) <= 1e-3 or abs(mx) < 1e-4))
        case = {'r': r, 'mu_x': mx, 'mu_y': my, 'frac_x': px, 'frac_y': py, 'ln_p': got}
        if i < 2:
            R.sample(case)
        if math.isnan(got) or got == math.inf:
            bad = bad or dict(case, check='finite and NaN-free')
            continue
        sx, sy = px * abs(mx), py * abs(my)
        want = defining_integral(r, abs(mx), abs(my), sx, sy) + defining_integral(-r, abs(mx), abs(my), sx, sy)
        lw = float(mpmath.log(want)) if want > 0 else -math.inf
        # conditioning: the exponent of the closed form is a difference of numbers of size 1/frac^2, evaluated in doubles
        tol = max(1e-7, 3e-13 / min(px, py) ** 2) * max(1.0, abs(lw))
        if lw > -690 and abs(got - lw) > tol:
            bad = bad or dict(case, check='equals the defining integral of |y| N(ry) N(y) dy (both signs of r)', expected_ln_p=lw, tolerance=tol)
        if lw > -690:
            # magnitudes only
            g2 = scalar_ar(pr, r, -mx, my, px, py)
            g3 = scalar_ar(pr, r, mx, -my, px, py)
            if abs(g2 - got) > 1e-9 * max(1, abs(got)) or abs(g3 - got) > 1e-9 * max(1, abs(got)):
                bad = bad or dict(case, check='depends on the modelled amplitudes only through their magnitudes', flipped_x=g2, flipped_y=g3)
        if defs and lw > -690:
            mv = defs['ar_p'].evaluate([r, mx, my, px, py], {'Phi': Phi, 'user:ratio_pdf': lambda a: defs['ratio_pdf'].evaluate(a, {'Phi': Phi})})
            if mv > 0 and abs(got - math.log(mv)) > 1e-9 * max(1.0, abs(got)):
                R.signal('correspondence', {'def': 'ar_p', 'case': case, 'model_ln_p': math.log(mv)})
    # ratio_pdf itself (public function) against the translated definition and the integral
    for i in range(n // 2):
        r, mx, my, px, py = gen_params(R.rng)
        z = r * R.rng.choice([1, -1])
        sx, sy = px * abs(mx), py * abs(my)
        with np.errstate(all='ignore'):
            got = float(pr.ratio_pdf(z, abs(mx), abs(my), sx, sy))
        R.count(('ratio_pdf', i))
        want = float(defining_integral(z, abs(mx), abs(my), sx, sy))
        tol = max(1e-7, 3e-13 / min(px, py) ** 2)
        if math.isnan(got) or got < 0 or (want > 1e-290 and abs(got - want) > tol * max(want, 1e-300) * max(1.0, abs(math.log(want)))):
            bad = bad or {'check': 'ratio_pdf is the non-negative density of X/Y', 'z': z, 'mu_x': abs(mx), 'mu_y': abs(my), 'sigma_x': sx, 'sigma_y': sy,
                          'got': got, 'expected': want}
        if defs:
            mv = defs['ratio_pdf'].evaluate([z, abs(mx), abs(my), sx, sy], {'Phi': Phi})
            if not close(got, mv, 1e-9) and abs(got - mv) > 1e-300:
                R.signal('correspondence', {'def': 'ratio_pdf', 'args': [z, abs(mx), abs(my), sx, sy], 'implementation': got, 'model': mv})
    # normalisation over r in (0, inf): validation only (not a theorem) -- the implementation's own likelihood, integrated numerically
    from scipy.integrate import quad as sp_quad
    worst = 0.0
    for i in range(R.n(25, 400)):
        _, mx, my, px, py = gen_params(R.rng)
        px, py = max(px, 1e-3), max(py, 1e-3)
        t0 = abs(mx / my)
        w = t0 * (px + py)

        def lik(r):
            v = scalar_ar(pr, r, mx, my, px, py)
            return math.exp(v) if v > -700 else 0.0
        brk = sorted(set([max(t0 - 8 * w, t0 / 2), t0, t0 + 8 * w, 10 * t0 + 50 * w]))
        tot, err = 0.0, 0.0
        for lo, hi in zip([0.0] + brk, brk + [None]):
            if hi is None:
                # tail: substitute r = lo / u
                v, e = sp_quad(lambda u: lik(lo / u) * lo / (u * u), 0.0, 1.0, epsabs=1e-12, epsrel=1e-10, limit=200)
            else:
                v, e = sp_quad(lik, lo, hi, epsabs=1e-12, epsrel=1e-10, limit=200)
            tot += v
            err += e
        worst = max(worst, abs(tot - 1))
        R.count(('norm', i))
        if abs(tot - 1) > 1e-6 + 10 * err and bad is None:
            bad = {'check': 'likelihood integrates to one over r > 0 (numerical validation)', 'mu_x': mx, 'mu_y': my, 'frac_x': px, 'frac_y': py,
                   'integral': tot, 'quadrature_error_estimate': err}
    R.cov['normalisation_validation_max_abs_error'] = worst
    bb = batch_oracle(R, pr, R.n(60, 1500))
    if bb and bad is None:
        bad = bb
    if bad:
        R.violation('amplitude-ratio likelihood: %s fails' % bad['check'], bad)
    R.cov['rule'] = ('modelled amplitudes over 8 orders of magnitude and both signs, fractional errors in [1e-5, 5], observed ratios at, near and '
                     'up to 1e3 x away from the modelled ratio; compared with 30-digit quadrature of the defining integral; non-trivial = a '
                     'fractional error <= 1e-3 or an amplitude below 1e-4')
    return proved


def replay(R, body):
    pr = _impl()
    rp = body['replay']
    if 'a1' in rp:
        why = batch_check(pr, rp)
        print('oracle:', why or 'holds')
        return 1 if why else 0
    if 'r' in rp:
        got = scalar_ar(pr, rp['r'], rp['mu_x'], rp['mu_y'], rp['frac_x'], rp['frac_y'])
        print('ln_p', got, 'expected', rp.get('expected_ln_p'))
    return 0
