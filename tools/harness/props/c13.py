"""C13 -- strike/dip/rake, principal axes and normal/slip describe one and the same source.

T: SDR_TNP, SDR_FP, TP_FP, FP_TNP, FP_SDR, TNP_SDR, SDR_SDR, ... regenerated into Gen/Convert.v; theorems in Props/C13.v
(orthonormal axes, closed form of normal/slip, same tensor, normal/slip -> original angles, ranges).  The auxiliary-plane
routine (strike-difference heuristic) and the batched result conversion are judged on the implementation against an
independent construction of the two nodal planes."""
import math

import numpy as np

from harness.props import conv

NAMES = ['SDR_TNP', 'FP_TNP', 'TP_FP', 'normal_SD', 'FP_SDR', 'TNP_SDR', 'SDR_FP', 'SDR_SDR', 'SDSD_FP', 'FP_SDSD', 'SDR_SDSD']
PI = math.pi


def gen_sdr(rng, i):
    k = i % 10
    s = rng.uniform(0, 2 * PI)
    d = rng.uniform(0.02, PI / 2 - 0.02)
    r = rng.uniform(-PI, PI)
    kind = 'generic'
    if k == 1:
        d, kind = PI / 2, 'vertical'
    elif k == 2:
        d, kind = rng.choice([1e-3, 1e-6, 0.0]), 'horizontal'
    elif k == 3:
        r, kind = rng.choice([0.0, PI, -PI, PI * (1 - 1e-9), -PI * (1 - 1e-9), PI - 1e-4, -PI + 1e-4]), 'strike-slip'
    elif k == 4:
        r, kind = rng.choice([PI / 2, -PI / 2]), 'dip-slip'
    elif k == 5:
        s, kind = rng.choice([0.0, 1e-9, 2 * PI - 1e-9, PI, 0.5, 2 * PI - 0.5]), 'strike-wrap'
    elif k == 6:
        # two nodal planes with nearly equal strikes: rake near +-pi/2 on a steep plane
        r, kind = rng.choice([1, -1]) * (PI / 2 + rng.uniform(-0.3, 0.3)), 'close-strikes'
    elif k == 7:
        s, d, r = round(s, 1), round(d, 1), round(r, 1)
        kind = 'rounded'
    return s, d, r, kind


def frame_of(s, d, r):
    return conv.sdr_frame(s, d, r)


def same_frame(a, b, tol=1e-7):
    (n1, u1), (n2, u2) = a, b
    return (np.abs(n1 - n2).max() < tol and np.abs(u1 - u2).max() < tol) or \
        (np.abs(n1 + n2).max() < tol and np.abs(u1 + u2).max() < tol)


def aux_frame(fr):
    n, u = fr
    return (u, n)


def in_range(s, d, r, tol=1e-12):
    return -tol <= s < 2 * PI + tol and -tol <= d <= PI / 2 + tol and -PI - tol <= r <= PI + tol


def angles_close(a, b, tol=1e-7):
    return conv.ang_diff(a[0], b[0]) < tol and abs(a[1] - b[1]) < tol and conv.ang_diff(a[2], b[2]) < tol


def interior(s, d, r):
    return 1e-4 < d < PI / 2 - 1e-4


def f3(x):
    return [float(np.asarray(v).flatten()[0]) for v in x]


def sequence_bad(C, R, s, d, r, rec):
    """the same normal/slip objects handed to one conversion after another still describe the same source"""
    fr = frame_of(s, d, r)
    nvec, uvec = fr
    Mref = np.outer(nvec, uvec) + np.outer(uvec, nvec)
    bad = None
    for mk in (lambda v: np.matrix(np.asarray(v, dtype=float).reshape(3, 1)), lambda v: np.asarray(v, dtype=float).reshape(3, 1).copy()):
        for order in ((nvec, uvec), (uvec, nvec), (-nvec, -uvec)):
            a1, a2 = mk(order[0]), mk(order[1])
            C.normal_SD(a1)
            C.normal_SD(a2)
            C.FP_SDSD(a1, a2)
            seq = f3(C.FP_SDR(a1, a2))
            Ts, Ns, Ps = C.FP_TNP(a1, a2)
            Ts, Ps = np.asarray(Ts, dtype=float).flatten(), np.asarray(Ps, dtype=float).flatten()
            okf = same_frame(frame_of(*seq), fr) or same_frame(frame_of(*seq), aux_frame(fr))
            if d == 0.0 and any(f['key'] == conv.HORIZONTAL_KEY for f in R.findings):
                okf = True
            if not okf or np.abs(np.outer(Ts, Ts) - np.outer(Ps, Ps) - Mref).max() > 1e-9:
                bad = bad or dict(rec, check='conversion-sequence-on-the-same-objects', got=seq, container=type(a1).__name__,
                                  tensor_from_axes=(np.outer(Ts, Ts) - np.outer(Ps, Ps)).tolist(), tensor_of_the_source=Mref.tolist(),
                                  note='normal_SD, normal_SD, FP_SDSD then FP_SDR / FP_TNP on one normal/slip pair')
    return bad


def plane_oracle(R, C, n):
    bad = None
    dist = {}
    close = 0
    for i in range(n):
        s, d, r, kind = gen_sdr(R.rng, i)
        dist[kind] = dist.get(kind, 0) + 1
        R.count(('plane', kind, i))
        fr = frame_of(s, d, r)
        nvec, uvec = fr
        rec = {'strike': s, 'dip': d, 'rake': r, 'kind': kind}
        try:
            T, N, P = C.SDR_TNP(s, d, r)
            L = np.hstack([np.asarray(x, dtype=float).reshape(3, 1) for x in (T, N, P)])
            if np.abs(L.T.dot(L) - np.eye(3)).max() > 1e-10:
                bad = bad or dict(rec, check='axes-orthonormal', LtL=L.T.dot(L).tolist())
            N1, N2 = [np.asarray(x, dtype=float).flatten() for x in C.SDR_FP(s, d, r)]
            if abs(N1.dot(N1) - 1) > 1e-10 or abs(N2.dot(N2) - 1) > 1e-10 or abs(N1.dot(N2)) > 1e-10:
                bad = bad or dict(rec, check='normal-slip-unit-perpendicular', N1=N1.tolist(), N2=N2.tolist())
            if not (same_frame((N2, N1), fr, 1e-9) or same_frame((N1, N2), fr, 1e-9)):
                bad = bad or dict(rec, check='normal-slip-frame', N1=N1.tolist(), N2=N2.tolist())
            # tensors: axes and both orderings of normal/slip
            Mref = np.outer(nvec, uvec) + np.outer(uvec, nvec)
            Tt, Pp = L[:, 0], L[:, 2]
            if np.abs(np.outer(Tt, Tt) - np.outer(Pp, Pp) - Mref).max() > 1e-9:
                bad = bad or dict(rec, check='axes-tensor')
            if np.abs(np.outer(N1, N2) + np.outer(N2, N1) - Mref).max() > 1e-9:
                bad = bad or dict(rec, check='normal-slip-tensor')
            # normal/slip -> angles: the original plane
            back = f3(C.FP_SDR(np.matrix(nvec).T, np.matrix(uvec).T))
            if not in_range(*back):
                bad = bad or dict(rec, check='angle-range', got=back)
            ok = angles_close(back, (s, d, r)) if interior(s, d, r) else same_frame(frame_of(*back), fr)
            if not ok:
                if d == 0.0 and any(f['key'] == conv.HORIZONTAL_KEY for f in R.findings):
                    R.horizontal.append([s, d, r])      # recorded finding, reported once by run()
                else:
                    bad = bad or dict(rec, check='normal-slip-to-angles', got=back)
            bad = bad or sequence_bad(C, R, s, d, r, rec)
            # axes -> angles: one of the two nodal planes
            back2 = f3(C.TNP_SDR(T, N, P))
            if not in_range(*back2) or not (same_frame(frame_of(*back2), fr) or same_frame(frame_of(*back2), aux_frame(fr))):
                bad = bad or dict(rec, check='axes-to-angles', got=back2)
            # auxiliary plane: array and scalar call forms
            for form in ('array', 'scalar'):
                if form == 'array':
                    a = f3(C.SDR_SDR(np.array([s]), np.array([d]), np.array([r])))
                else:
                    a = f3(C.SDR_SDR(s, d, r))
                if d > 1e-5 and (not in_range(*a) or not same_frame(frame_of(*a), aux_frame(fr))):
                    bad = bad or dict(rec, check='auxiliary-plane', form=form, got=a,
                                      note='the result is not the other nodal plane of the input')
                    continue
                if conv.ang_diff(a[0], s) < 1.0:
                    close += 1
                if d > 1e-5 and a[1] > 1e-5:
                    b = f3(C.SDR_SDR(np.array([a[0]]), np.array([a[1]]), np.array([a[2]])) if form == 'array' else C.SDR_SDR(*a))
                    ok = same_frame(frame_of(*b), fr)
                    if ok and interior(s, d, r) and interior(*a) and abs(abs(r) - PI) > 1e-6:
                        ok = angles_close(b, (s, d, r), 1e-6)
                    if not ok:
                        bad = bad or dict(rec, check='auxiliary-involution', form=form, first=a, second=b)
        except Exception as ex:
            bad = bad or dict(rec, check='exception', error=repr(ex))
    R.cov['plane_case_distribution'] = dist
    R.cov['planes_with_strikes_within_one_radian'] = close
    return bad


def batch_oracle(R, C, n):
    """vector inputs behave as the elementwise scalar conversions"""
    bad = None
    m = 7
    for i in range(n):
        trip = [gen_sdr(R.rng, R.rng.randrange(10)) for _ in range(m)]
        s = np.array([t[0] for t in trip])
        d = np.array([max(t[1], 1e-3) for t in trip])
        r = np.array([t[2] for t in trip])
        R.count(('batch', i))
        a = [np.asarray(x, dtype=float).flatten() for x in C.SDR_SDR(s.copy(), d.copy(), r.copy())]
        for j in range(m):
            one = f3(C.SDR_SDR(np.array([s[j]]), np.array([d[j]]), np.array([r[j]])))
            got = [a[0][j], a[1][j], a[2][j]]
            # a vertical plane has two equivalent descriptions (s, pi/2, r) and (s + pi, pi/2, -r): compare the frames there
            if not (angles_close(got, one, 1e-9) or (abs(one[1] - PI / 2) < 1e-9 and same_frame(frame_of(*got), frame_of(*one), 1e-9))):
                bad = bad or {'check': 'auxiliary-plane-batch', 'strike': s.tolist(), 'dip': d.tolist(), 'rake': r.tolist(),
                              'index': j, 'batched': got, 'single': one}
        T, N, P = C.SDR_TNP(s, d, r)
        for j in range(m):
            T1, N1, P1 = C.SDR_TNP(s[j], d[j], r[j])
            if np.abs(np.asarray(T)[:, j] - np.asarray(T1).flatten()).max() > 1e-12 or \
                    np.abs(np.asarray(P)[:, j] - np.asarray(P1).flatten()).max() > 1e-12:
                bad = bad or {'check': 'axes-batch', 'strike': s.tolist(), 'dip': d.tolist(), 'rake': r.tolist(), 'index': j}
    return bad


def results_oracle(R, C, n):
    """the two strike/dip/rake triples reported for a result are each other's auxiliary plane"""
    bad = None
    for i in range(n):
        k = i % 4
        if k == 0:
            s, d, r, _ = gen_sdr(R.rng, R.rng.randrange(10))
            M = conv.dc_tensor(s, max(d, 1e-3), r)
        else:
            e = sorted([R.rng.uniform(-1, 1) for _ in range(3)], reverse=True)
            q = conv.rot(R.rng)
            M = q.dot(np.diag(e)).dot(q.T)
        m6 = conv.mt6_of_mt33(M)
        m6 = m6 / np.linalg.norm(m6)
        R.count(('results', i))
        try:
            out = C.output_convert(np.array([m6, m6]).T)
        except Exception as ex:
            bad = bad or {'check': 'results', 'MT6': m6.tolist(), 'error': repr(ex)}
            continue
        p1 = [math.radians(float(out[k_][0])) for k_ in ('S1', 'D1', 'R1')]
        p2 = [math.radians(float(out[k_][0])) for k_ in ('S2', 'D2', 'R2')]
        if min(p1[1], p2[1]) < 1e-4:
            continue     # horizontal plane: strike undefined
        if not (in_range(*p1, tol=1e-9) and in_range(*p2, tol=1e-9) and same_frame(frame_of(*p2), aux_frame(frame_of(*p1)), 1e-6)):
            bad = bad or {'check': 'result-planes', 'MT6': m6.tolist(), 'plane1_deg': [float(out[k_][0]) for k_ in ('S1', 'D1', 'R1')],
                          'plane2_deg': [float(out[k_][0]) for k_ in ('S2', 'D2', 'R2')]}
    return bad


def run(R):
    C = conv.impl()
    R.horizontal = []
    proved = R.prove()
    R.assumptions += ['axes alone do not distinguish the two nodal planes: "back to the original angles" from axes is checked up to '
                      'that ambiguity, from the (normal, slip) pair it is exact; a horizontal plane (dip 0) has no strike and is '
                      'compared through its normal/slip frame',
                      'SDR_FP returns (slip direction, plane normal) of the input plane = (normal, slip) of its auxiliary plane; the '
                      'theorems state the closed form, the tensor is the same either way',
                      'real arithmetic in the theorems; the auxiliary-plane heuristic and array plumbing are judged on the implementation']
    conv.validate_conversions(R, NAMES, R.n(120, 2500))
    n = R.n(1500, 60000)
    for name, bad in (('planes', plane_oracle(R, C, n)), ('batch', batch_oracle(R, C, R.n(40, 1500))),
                      ('batches', conv.batch_oracle(R, C, ['normal_SD', 'FP_SDR', 'FP_TNP', 'TNP_SDR'], R.n(4, 60))),
                      ('results', results_oracle(R, C, R.n(200, 6000)))):
        if bad:
            R.violation('nodal-plane / axes property fails (%s)' % bad['check'], bad)
            break
    for rec in R.horizontal[:1]:
        R.known_finding(conv.HORIZONTAL_KEY, conv.HORIZONTAL_WHAT + '; e.g. (strike, dip, rake) = %r' % (rec,))
    R.cov['rule'] = ('strike/dip/rake classes: generic, vertical, (near-)horizontal, pure strike-slip incl. rake = +-pi, pure dip-slip, '
                     'strike at the 0/2pi wrap, nodal planes with close strikes, rounded values; scalar and array call forms; results: '
                     'random double-couples and full tensors')
    return proved


def replay(R, body):
    C = conv.impl()
    rp = body['replay']
    if str(rp.get('check', '')).startswith('batch-of-'):
        return conv.batch_replay(C, rp)
    if 'strike' in rp and not isinstance(rp['strike'], list):
        s, d, r = rp['strike'], rp['dip'], rp['rake']
        fr = frame_of(s, d, r)
        a = f3(C.SDR_SDR(np.array([s]), np.array([d]), np.array([r])))
        ok = same_frame(frame_of(*a), aux_frame(fr))
        print('SDR_SDR(%r, %r, %r) = %r: %s' % (s, d, r, a, 'auxiliary plane' if ok else 'NOT the auxiliary plane'))
        back = f3(C.FP_SDR(np.matrix(fr[0]).T, np.matrix(fr[1]).T))
        print('FP_SDR(normal, slip) = %r' % (back,))
        sq = sequence_bad(C, R, s, d, r, {})
        print('sequence of conversions on one normal/slip pair:', sq or 'same source')
        return 0 if ok and same_frame(frame_of(*back), fr) and not sq else 1
    print('replay of this kind is run through the check itself')
    return 0
