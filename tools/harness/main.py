"""Entry point: bin/check <Cxx> [quick|thorough] [--replay file]"""
import importlib
import json
import os
import sys

HERE = os.path.dirname(os.path.abspath(__file__))
sys.path.insert(0, os.path.dirname(HERE))

from harness import core  # noqa: E402


def main(argv):
    if len(argv) < 1:
        print('usage: bin/check <Cxx> [quick|thorough] [--replay file]')
        return 2
    cid = argv[0].upper()
    tier = os.environ.get('VERIF_TIER', 'quick')
    replay = None
    rest = argv[1:]
    while rest:
        a = rest.pop(0)
        if a in ('quick', 'thorough'):
            tier = a
        elif a == '--replay':
            replay = rest.pop(0)
    seed = int(os.environ.get('VERIF_SEED', '20261001'))
    mod = importlib.import_module('harness.props.%s' % cid.lower())
    R = core.Run(cid, tier, seed)
    if replay:
        body = json.load(open(replay))
        return mod.replay(R, body)
    try:
        mod.run(R)
    except Exception as e:
        # the correspondence machinery could not be run to the end against this tree (an evaluation of the regenerated model or a
        # driver of the implementation raised): the tie is broken, which is reported like any other broken correspondence -- with
        # whatever failing input was found before the exception, else as no-failing-input-found naming the exception
        import traceback
        traceback.print_exc()
        print('CHECK-ERROR property=%s %s: %s' % (cid, type(e).__name__, e))
        try:
            R.signal('correspondence-machinery-exception', {'exception': '%s: %s' % (type(e).__name__, e), 'traceback': traceback.format_exc()[-3000:]})
            return R.finish()
        except Exception:
            traceback.print_exc()
            return 3
    return R.finish()


if __name__ == '__main__':
    sys.exit(main(sys.argv[1:]))
