"""Shared machinery of bin/check: Coq build, case-file evaluation, evidence, violation protocol."""
import fcntl
import glob
import hashlib
import json
import os
import random
import re
import shutil
import subprocess
import sys
import time

HERE = os.path.dirname(os.path.abspath(__file__))
VERIF = os.path.dirname(os.path.dirname(HERE))
COQ = os.path.join(VERIF, 'coq')
REPO = os.environ.get('VERIF_REPO', '/repo')
sys.path.insert(0, os.path.join(VERIF, 'tools'))

from harness import gen  # noqa: E402

HYGIENE_RE = re.compile(r'\b(Admitted|admit|Axiom|Axioms|Parameter|Parameters|Conjecture|Hypothesis|Variable)\b|'
                        r'Unset\s+Guard|bypass_check|type-in-type|impredicative-set|Admit\s+Obligations')


class Lock(object):
    def __init__(self, name='.lock'):
        self.path = os.path.join(COQ, name)

    def __enter__(self):
        self.f = open(self.path, 'w')
        fcntl.flock(self.f, fcntl.LOCK_EX)
        return self

    def __exit__(self, *a):
        fcntl.flock(self.f, fcntl.LOCK_UN)
        self.f.close()


def sh(cmd, timeout=1800, cwd=None, env=None):
    t0 = time.time()
    try:
        p = subprocess.run(cmd, shell=isinstance(cmd, str), cwd=cwd, env=env, timeout=timeout,
                           stdout=subprocess.PIPE, stderr=subprocess.STDOUT, universal_newlines=True)
        return p.returncode, p.stdout, time.time() - t0
    except subprocess.TimeoutExpired as e:
        out = e.stdout if isinstance(e.stdout, str) else (e.stdout or b'').decode('utf8', 'replace')
        return 124, out + '\nTIMEOUT after %ss' % timeout, time.time() - t0


def all_v_files():
    out = []
    for d in ('Lib', 'Model', 'Gen', 'Proofs', 'Props'):
        out += sorted(glob.glob(os.path.join(COQ, d, '*.v')))
    return [os.path.relpath(p, COQ) for p in out]


def hygiene():
    """No Admitted/admit/Axiom/... anywhere in the development.  `Variable`/`Hypothesis` are allowed
    only inside sections; the scan checks that every occurrence lies between Section and End."""
    bad = []
    for rel in all_v_files():
        depth = 0
        txt = open(os.path.join(COQ, rel)).read()
        txt = re.sub(r'\(\*.*?\*\)', lambda m: ' ' * len(m.group(0)), txt, flags=re.S)
        for i, line in enumerate(txt.split('\n'), 1):
            if re.match(r'\s*Section\s+\w+', line):
                depth += 1
            elif re.match(r'\s*End\s+\w+', line) and depth > 0:
                depth -= 1
            m = HYGIENE_RE.search(line)
            if m:
                w = m.group(0)
                if w in ('Hypothesis', 'Variable') or w.startswith('Variable') or w.startswith('Hypothes'):
                    if depth > 0:
                        continue
                bad.append('%s:%d: %s' % (rel, i, line.strip()))
    return bad


def write_makefile():
    files = all_v_files()
    rc, out, _ = sh(['coq_makefile', '-f', '_CoqProject', '-o', 'Makefile'] + files, cwd=COQ)
    if rc != 0:
        raise RuntimeError('coq_makefile failed: ' + out)


def build(targets, jobs=16, timeout=3000):
    """Regenerate Gen from /repo, then make the dependency cone of the targets (full .vo)."""
    rep = gen.regenerate()
    write_makefile()
    tg = ' '.join(t if t.endswith('.vo') else t + 'o' for t in targets)
    rc, out, wall = sh('make -j%d %s' % (jobs, tg), cwd=COQ, timeout=timeout)
    return rc == 0, out, rep, wall


def compile_props(cid):
    """Always recompile Props/Cxx.v (cheap: `exact lemma` + Print Assumptions) to capture the
    assumptions of every property theorem."""
    rel = 'Props/%s.v' % cid
    rc, out, wall = sh(['coqc', '-R', '.', 'MTV', rel], cwd=COQ, timeout=900)
    src = open(os.path.join(COQ, rel)).read()
    theorems = re.findall(r'^\s*(?:Theorem|Lemma|Corollary)\s+(\w+)', src, flags=re.M)
    axioms = set()
    closed = 0
    for blk in re.split(r'\n(?=Axioms:|Closed under the global context)', out):
        if blk.startswith('Closed under'):
            closed += 1
        if blk.startswith('Axioms:'):
            for m in re.finditer(r'^([A-Za-z_][\w.]*)\s*:', blk[7:], flags=re.M):
                axioms.add(m.group(1))
    return rc == 0, out, theorems, sorted(axioms), closed, wall


# ------------------------------------------------------------------------------- cases

def zlit(z):
    z = int(z)
    return '%d' % z if z >= 0 else '(%d)' % z


def coq_list(items):
    return '[' + '; '.join(items) + ']'


def zlist(xs):
    return coq_list([zlit(x) for x in xs])


def zll(xss):
    return coq_list([zlist(xs) for xs in xss])


def qlit(fr):
    return '(%d # %d)' % (fr.numerator, fr.denominator)


def run_cases(tag, imports, case_exprs, chunk=250, jobs=16, timeout=1200):
    """Each case expression is a Coq term of type bool (model output compared, inside Coq, with the
    implementation's output written as a literal).  Returns (failing_indices, errors)."""
    d = os.path.join(COQ, 'Cases', '%s_%d' % (tag, os.getpid()))
    shutil.rmtree(d, ignore_errors=True)
    os.makedirs(d)
    files = []
    try:
        for k in range(0, len(case_exprs), chunk):
            fn = os.path.join(d, 'c%04d.v' % (k // chunk))
            with open(fn, 'w') as f:
                f.write('From Coq Require Import ZArith QArith List Bool String.\nImport ListNotations.\n')
                f.write(imports + '\nOpen Scope Z_scope.\n')
                f.write('Definition cases : list bool :=\n  [ ')
                f.write('\n  ; '.join(case_exprs[k:k + chunk]))
                f.write(' ].\n')
                f.write('Fixpoint failing (i : nat) (l : list bool) : list nat :=\n'
                        '  match l with [] => [] | b :: r => if b then failing (S i) r else i :: failing (S i) r end.\n')
                f.write('Eval vm_compute in (failing 0 cases).\n')
            files.append((k, fn))
        procs = []
        failing, errors = [], []
        pending = list(files)
        running = []
        while pending or running:
            while pending and len(running) < jobs:
                k, fn = pending.pop(0)
                p = subprocess.Popen(['timeout', str(timeout), 'coqc', '-R', COQ, 'MTV', '-w', '-all', fn],
                                     stdout=subprocess.PIPE, stderr=subprocess.STDOUT, universal_newlines=True)
                running.append((k, fn, p))
            k, fn, p = running.pop(0)
            out, _ = p.communicate()
            if p.returncode != 0:
                errors.append('%s: %s' % (os.path.basename(fn), out[-1500:]))
                continue
            m = re.search(r'=\s*\[(.*?)\]\s*:\s*list nat', out.replace('\n', ' '))
            if not m:
                errors.append('%s: unparsable output %s' % (os.path.basename(fn), out[-500:]))
                continue
            body = m.group(1).strip()
            if body:
                for tok in body.split(';'):
                    failing.append(k + int(tok.strip().replace('%nat', '')))
        return sorted(failing), errors
    finally:
        shutil.rmtree(d, ignore_errors=True)


def eval_terms(tag, imports, terms, timeout=600):
    """Print the model's value for a few terms (diagnosis of a disagreement)."""
    d = os.path.join(COQ, 'Cases', '%s_e%d' % (tag, os.getpid()))
    os.makedirs(d, exist_ok=True)
    fn = os.path.join(d, 'e.v')
    try:
        with open(fn, 'w') as f:
            f.write('From Coq Require Import ZArith QArith List Bool String.\nImport ListNotations.\n')
            f.write(imports + '\nOpen Scope Z_scope.\n')
            for t in terms:
                f.write('Eval vm_compute in (%s).\n' % t)
        rc, out, _ = sh(['coqc', '-R', COQ, 'MTV', '-w', '-all', fn], timeout=timeout)
        return out
    finally:
        shutil.rmtree(d, ignore_errors=True)


# ------------------------------------------------------------------------------- findings

def load_findings():
    path = os.path.join(VERIF, 'known_findings.txt')
    out = []
    if os.path.exists(path):
        for line in open(path):
            line = line.strip()
            m = re.match(r'finding:\s+property=(\S+)\s+key=(\S+)\s+(.*)', line)
            if m:
                out.append({'property': m.group(1), 'key': m.group(2), 'text': m.group(3)})
    return out


# ------------------------------------------------------------------------------- result object

class Run(object):
    def __init__(self, cid, tier, seed):
        self.cid, self.tier, self.seed = cid, tier, seed
        self.t0 = time.time()
        self.rng = random.Random(seed * 1000003 + int(hashlib.sha256(cid.encode()).hexdigest()[:6], 16))
        self.cov = {'obligations': 0, 'discharged': 0, 'checker_cmd': '', 'trusted_base': [],
                    'evaluations': 0, 'distinct_nontrivial': 0, 'rule': '', 'samples': []}
        self.assumptions = []
        self.signals = []     # broken proof obligations / correspondence disagreements
        self.violations = []  # (replay dict)
        self.known = []
        self._distinct = set()
        self.findings = [f for f in load_findings() if f['property'] == cid]

    @property
    def thorough(self):
        return self.tier == 'thorough'

    def n(self, quick, thorough):
        return thorough if self.thorough else quick

    def count(self, case_key, nontrivial=True):
        self.cov['evaluations'] += 1
        if nontrivial:
            self._distinct.add(case_key if isinstance(case_key, (str, int)) else repr(case_key))

    def sample(self, s, limit=6):
        if len(self.cov['samples']) < limit:
            self.cov['samples'].append(s)

    def signal(self, kind, detail):
        self.signals.append({'kind': kind, 'detail': detail})

    def known_finding(self, key, what):
        for f in self.findings:
            if f['key'] == key:
                if key not in [k for k, _ in self.known]:
                    self.known.append((key, what))
                return True
        return False

    def violation(self, what, replay):
        """a concrete failing input; matched against known findings by the caller beforehand."""
        self.violations.append({'what': what, 'replay': replay})

    # ---- Coq side
    def prove(self, extra_targets=()):
        """build the cone of Props/Cxx.v, run the hygiene gate, record obligations/assumptions."""
        cid = self.cid
        with Lock():
            bad = hygiene()
            ok, out, rep, wall = build(['Props/%s.v' % cid] + list(extra_targets))
            self.gen_report = rep
            pok, pout, theorems, axioms, closed, pw = (False, '', [], [], 0, 0)
            if ok:
                pok, pout, theorems, axioms, closed, pw = compile_props(cid)
        self.cov['checker_cmd'] = ('cd /verif/coq && coq_makefile -f _CoqProject <all .v> -o Makefile && make -j16 Props/%s.vo '
                                   '&& coqc -R . MTV Props/%s.v   (Coq 8.16.1, full .vo build, Gen/*.v regenerated from /repo first)' % (cid, cid))
        src = open(os.path.join(COQ, 'Props', cid + '.v')).read()
        declared = re.findall(r'^\s*(?:Theorem|Lemma|Corollary)\s+(\w+)', src, flags=re.M)
        self.cov['obligations'] += len(declared)
        self.cov['theorems'] = declared
        if bad:
            self.signal('hygiene', bad)
        for k, v in rep.items():
            if v['error']:
                self.gen_errors = getattr(self, 'gen_errors', []) + [(k, v['error'])]
        if ok and pok and not bad:
            self.cov['discharged'] += len(theorems)
        else:
            log = (out if not ok else pout)
            err = _first_error(log)
            self.signal('proof', {'error': err, 'gen_errors': getattr(self, 'gen_errors', [])})
        self.cov['axioms'] = axioms
        tb = ['Coq 8.16.1 kernel + vm_compute (no native_compute)',
              'translator tools/py2coq (%s) and its slice specs in tools/harness/gen.py' % gen.VERSION]
        tb += ['axiom (standard library): ' + a for a in axioms]
        self.cov['trusted_base'] = tb
        self.cov['generated_from'] = {k: {'sha256': v['sha256'], 'defs': [(d['def'], d['src_sha256'][:16]) for d in v['defs']]}
                                      for k, v in rep.items() if k in self.gen_used()}
        return ok and pok and not bad

    def defs(self, builder):
        """translated definitions of a Gen builder as {name: Def}; an untranslatable source is a
        signal (the proof obligation is broken anyway), not a crash of the check."""
        try:
            return dict((d.name, d) for d, _ in builder())
        except gen.Untranslatable as e:
            self.signal('translation', str(e))
            return None

    def gen_used(self):
        src = open(os.path.join(COQ, 'Props', self.cid + '.v')).read()
        used = set(re.findall(r'Gen\.(\w+)|MTV\.Gen Require Import ([\w ]+)\.', src))
        names = set()
        for a, b in used:
            if a:
                names.add(a)
            for x in b.split():
                names.add(x)
        # transitive: scan Proofs files imported
        for pf in re.findall(r'Proofs Require Import ([\w ]+)\.', src):
            for x in pf.split():
                p = os.path.join(COQ, 'Proofs', x + '.v')
                if os.path.exists(p):
                    for m in re.findall(r'MTV\.Gen Require Import ([\w ]+)\.', open(p).read()):
                        names.update(m.split())
        return names

    # ---- finish
    def finish(self):
        cid = self.cid
        self.cov['distinct_nontrivial'] = len(self._distinct)
        rc = 0
        lines = []
        for key, what in self.known:
            lines.append('KNOWN-FINDING: property=%s %s' % (cid, what))
        os.makedirs(os.path.join(VERIF, 'replays'), exist_ok=True)
        if self.violations:
            v = self.violations[0]
            rp = self._write_replay(v['replay'], v['what'])
            lines.append('VIOLATION property=%s replay=%s' % (cid, rp))
            rc = 1
        elif self.signals:
            rp = self._write_replay({'signals': self.signals, 'note': 'no failing input was found by the search; the named theorem or correspondence no longer checks'},
                                    'proof obligation or correspondence broken')
            lines.append('VIOLATION property=%s replay=%s no-failing-input-found' % (cid, rp))
            rc = 1
        ev = {'property_id': cid, 'tier': self.tier, 'seed': self.seed, 'level': 'proof',
              'coverage': self.cov, 'assumptions': self.assumptions,
              'wall_s': round(time.time() - self.t0, 2), 'violations': len(self.violations) + (1 if (self.signals and not self.violations) else 0)}
        ev['coverage']['known_findings_reported'] = [k for k, _ in self.known]
        evdir = os.environ.get('VERIF_EVIDENCE_DIR', os.path.join(VERIF, 'evidence'))   # seed evaluations write elsewhere
        os.makedirs(evdir, exist_ok=True)
        with open(os.path.join(evdir, cid + '.json'), 'w') as f:
            json.dump(ev, f, indent=1, default=str)
        for l in lines:
            print(l)
        print('%s %s: obligations %d/%d, correspondence/oracle evaluations %d (distinct non-trivial %d), %.1fs -> %s'
              % (cid, self.tier, self.cov['discharged'], self.cov['obligations'], self.cov['evaluations'],
                 self.cov['distinct_nontrivial'], time.time() - self.t0, 'FAIL' if rc else 'ok'))
        return rc

    def _write_replay(self, replay, what):
        body = {'property': self.cid, 'seed': self.seed, 'tier': self.tier, 'what': what, 'replay': replay,
                'how_to_run': 'cd /verif && bin/check %s %s --replay <this file>' % (self.cid, self.tier)}
        txt = json.dumps(body, indent=1, default=str)
        h = hashlib.sha256(txt.encode()).hexdigest()[:10]
        rp = os.path.join(VERIF, 'replays', '%s-%s.json' % (self.cid, h))
        with open(rp, 'w') as f:
            f.write(txt)
        return rp


def _first_error(log):
    lines = log.split('\n')
    for i, l in enumerate(lines):
        if l.startswith('Error') or 'Error:' in l:
            return '\n'.join(lines[max(0, i - 3):i + 12])
    return log[-1500:]
