"""Runs one JobPool scenario (JSON on argv[1]) against the real MTfit.utilities.multiprocessing_helper and prints a JSON
report.  Used by props/c16.py; a separate process so that a blocked collection can be detected and killed."""
import json
import os
import sys
import threading
import time

import numpy as np


class Task(object):
    def __init__(self, kind, value, duration_ms, payload):
        self.kind, self.value, self.duration_ms, self.payload = kind, value, duration_ms, payload

    def __call__(self):
        time.sleep(self.duration_ms / 1000.0)
        if self.kind == 'E':
            raise ValueError(str(self.value))
        if self.kind == 'C':
            return int(self.value)
        if self.kind == 'L':
            from MTfit.probability import LnPDF
            res = {'id': self.value, 'ln_pdf': LnPDF(np.matrix([[float(self.value) + 0.5 * k for k in range(self.payload)]]), dV=0.25 + self.value)}
            if self.value % 2 == 0:
                # a result may carry several log-PDF objects (e.g. per-event ones): each is transported and rebuilt
                res['ln_pdf_2'] = LnPDF(np.matrix([[2.0 * self.value - k for k in range(self.payload)]]), dV=0.5 + self.value)
            return res
        return {'id': self.value, 'blob': 'x' * self.payload}


def code(r):
    if isinstance(r, Exception):
        return ['E', int(str(r))]
    if isinstance(r, int):
        return ['C', r]
    if isinstance(r, dict):
        return ['V', int(r['id'])]
    if r is None:
        return ['N', 0]
    return ['?', repr(r)[:50]]


def main():
    sc = json.load(open(sys.argv[1]))
    import logging
    logging.disable(logging.CRITICAL)
    real_stdout = sys.stdout
    sys.stdout = open(os.devnull, 'w')
    from MTfit.utilities.multiprocessing_helper import JobPool
    from MTfit.probability import LnPDF
    pool = JobPool(sc['workers'])
    arrivals = []
    real_get = pool.results.get

    def logged_get(*a, **k):
        r = real_get(*a, **k)
        arrivals.append(code(r))
        return r
    pool.results.get = logged_get
    rep = {'delivered': [], 'segments': [], 'blocked': False, 'lnpdf_ok': True, 'error': None}

    def check_ln(r):
        if isinstance(r, dict) and 'ln_pdf' in r:
            v = r['ln_pdf']
            n = None
            for op in sc['ops']:
                if op[0] == 'S' and op[1] == 'L' and op[2] == r['id']:
                    n = op[4]
            ok = isinstance(v, LnPDF) and float(v.dV) == 0.25 + r['id'] and \
                np.array_equal(np.asarray(v._ln_pdf), np.asarray([[float(r['id']) + 0.5 * k for k in range(n)]]))
            if ok and r['id'] % 2 == 0:
                v2 = r.get('ln_pdf_2')
                ok = isinstance(v2, LnPDF) and float(v2.dV) == 0.5 + r['id'] and \
                    np.array_equal(np.asarray(v2._ln_pdf), np.asarray([[2.0 * r['id'] - k for k in range(n)]]))
            if not ok:
                rep['lnpdf_ok'] = False

    def drive():
        try:
            for op in sc['ops']:
                if op[0] == 'S':
                    pool.custom_task(Task, op[1], op[2], op[3], op[4])
                elif op[0] == 'R':
                    r = pool.result()
                    check_ln(r)
                    rep['delivered'].append(code(r))
                    rep['segments'].append(['R', len(arrivals), len(rep['delivered'])])
                elif op[0] == 'A':
                    rs = pool.all_results()
                    for r in rs:
                        check_ln(r)
                        rep['delivered'].append(code(r))
                    rep['segments'].append(['A', len(arrivals), len(rep['delivered'])])
            rep['jobs_end'] = pool.number_jobs
            workers = list(pool.workers)
            pool.close()
            time.sleep(0.05)
            rep['workers_alive_after_close'] = sum(1 for w in workers if w.is_alive())
        except Exception as ex:
            rep['error'] = repr(ex)
    th = threading.Thread(target=drive, daemon=True)
    th.start()
    th.join(sc.get('timeout', 20))
    if th.is_alive():
        rep['blocked'] = True
        rep['jobs_when_blocked'] = pool.number_jobs
    rep['arrivals'] = arrivals
    sys.stdout = real_stdout
    print('REPORT ' + json.dumps(rep))
    sys.stdout.flush()
    for w in pool.workers:
        try:
            w.terminate()
        except Exception:
            pass
    os._exit(0)


if __name__ == '__main__':
    main()
