"""Validation of the translator (tie T) by correspondence: the IR's second rendering (a Python
float evaluation of exactly the term that is printed as Coq text) against the real function."""
import math


def _flat(x):
    if isinstance(x, (tuple, list)):
        out = []
        for y in x:
            out += _flat(y)
        return out
    return [float(x)]


def close(a, b, tol):
    if math.isnan(a) or math.isnan(b):
        return math.isnan(a) and math.isnan(b)
    if math.isinf(a) or math.isinf(b):
        return a == b
    return abs(a - b) <= tol * max(1.0, abs(a), abs(b))


def validate_defs(R, specs, n, tol=1e-10, funs=None):
    """specs: list of (Def, implementation callable over scalars, argument generator(rng))."""
    bad = 0
    for d, impl, arggen in specs:
        for i in range(n):
            args = arggen(R.rng)
            try:
                got = _flat(d.evaluate(args, funs))
            except (ZeroDivisionError, ValueError, OverflowError):
                continue
            want = _flat(impl(*args))
            R.count(('tv', d.name, i))
            if len(got) != len(want) or not all(close(g, w, tol) for g, w in zip(got, want)):
                bad += 1
                if bad <= 3:
                    R.signal('translator-validation', {'def': d.name, 'args': args, 'model': got, 'implementation': want})
    R.cov['translator_validation_mismatches'] = bad
    return bad == 0
