"""py2coq: fail-closed translator from straight-line numpy code to the IR of ir.py.

Functions are located by *name* in the current source text (never by line number).  Any AST
node outside the tables below raises Untranslatable: the caller then reports the property as
no longer shown instead of guessing.
"""
import ast
import copy
import hashlib
from fractions import Fraction

from . import ir
from . import symarr
from .symarr import A

VERSION = 'py2coq-1'


class Untranslatable(Exception):
    def __init__(self, msg, node=None):
        ln = getattr(node, 'lineno', '?')
        Exception.__init__(self, '%s (line %s)' % (msg, ln))


class _Captured(Exception):
    def __init__(self, expr):
        self.expr = expr


class Def(object):
    """A translated function: parameters, ordered lets, result."""

    def __init__(self, name, params, lets, result, stats, src_hash):
        self.name, self.params, self.lets, self.result = name, params, lets, result
        self.stats, self.src_hash = stats, src_hash

    # ---- rendering
    def coq(self, name=None, extra_params=()):
        """Coq Definition over R.  extra_params: uninterpreted functions (erf, Phi) as binders."""
        name = name or self.name
        binders = ''
        for f in extra_params:
            binders += (' %s' % f) if f.startswith('(') else (' (%s : R -> R)' % f)
        for p in self.params:
            ty = 'list R' if p in getattr(self, 'list_params', ()) else ('state' if p in getattr(self, 'state_vars', ()) else 'R')
            binders += ' (%s : %s)' % (p, ty)
        body = ''
        for n, e in self.lets:
            body += '  let %s := %s in\n' % (n, ir.to_coq(e))
        body += '  %s' % ir.to_coq(self.result)
        rt = 'R'
        if self.result[0] == 'tuple':
            rt = ' * '.join(['R'] * len(self.result[1]))
        return 'Definition %s%s : %s :=\n%s.\n' % (name, binders, rt, body)

    def evaluate(self, args, funs=None):
        """Lazy float evaluation (lets are evaluated on demand, so a let that is only used in a
        branch not taken never raises)."""
        env = _LazyEnv(self, dict(zip(self.params, args)), funs)
        return ir.evaluate(self.result, env, env.funs)

    def uses(self, fn):
        return ir.uses(self.result, fn) or any(ir.uses(e, fn) for _, e in self.lets)


class _LazyEnv(dict):
    def __init__(self, d, base, funs):
        dict.__init__(self, base)
        self.defs = dict(d.lets)
        self.funs = dict(ir.PYENV)
        if funs:
            self.funs.update(funs)

    def __missing__(self, k):
        v = ir.evaluate(self.defs[k], self, self.funs)
        self[k] = v
        return v


RESERVED = set('at in as exp sin cos tan ln sqrt PI if then else let fun Set Type Prop R Z N '
               'Q nat end match with return forall exists by erf Phi phi sgn acos asin atan '
               'atan2 Rabs Rmin Rmax max min fix cofix for using where pow'.split())

NP_UNARY = {'sqrt': 'sqrt', 'exp': 'exp', 'log': 'ln', 'cos': 'cos', 'sin': 'sin', 'tan': 'tan',
            'arccos': 'acos', 'arcsin': 'asin', 'arctan': 'atan', 'abs': 'abs', 'fabs': 'abs',
            'absolute': 'abs', 'sign': 'sign'}
NP_BINARY = {'multiply': '*', 'divide': '/', 'add': '+', 'subtract': '-'}
SHAPE_FUNCS = {'array', 'matrix', 'squeeze', 'ascontiguousarray', 'asarray', 'expand_dims',
               'float64', 'float', 'transpose'}
SHAPE_METHODS = {'flatten', 'copy', 'astype', 'transpose', 'squeeze', 'tolist'}
SKIP_CALLS = {'gc.collect', 'np.seterr', 'logger.info', 'logger.debug', 'logger.exception',
              'logging.exception', 'warnings.simplefilter'}


def _dotted(node):
    if isinstance(node, ast.Name):
        return node.id
    if isinstance(node, ast.Attribute):
        b = _dotted(node.value)
        return None if b is None else b + '.' + node.attr
    return None


class Translator(object):
    def __init__(self, path, module_consts=None):
        self.path = path
        self.src = open(path).read()
        self.tree = ast.parse(self.src)
        self.module_consts = dict(module_consts or {})
        # numeric module-level constants are read from the source itself
        for st in self.tree.body:
            if isinstance(st, ast.Assign) and len(st.targets) == 1 and isinstance(st.targets[0], ast.Name):
                try:
                    v = ast.literal_eval(st.value)
                except Exception:
                    continue
                if isinstance(v, (int, float, str, bool)) and st.targets[0].id not in self.module_consts:
                    if isinstance(v, float):
                        seg = ast.get_source_segment(self.src, st.value)
                        self.module_consts[st.targets[0].id] = ('num', Fraction(seg))
                    elif isinstance(v, bool) or isinstance(v, str):
                        self.module_consts[st.targets[0].id] = ('const', v)
                    else:
                        self.module_consts[st.targets[0].id] = ('num', Fraction(v))

    # ---- locating
    def find(self, qualname):
        parts = qualname.split('.')
        body = self.tree.body
        node = None
        for p in parts:
            node = None
            for st in body:
                if isinstance(st, (ast.FunctionDef, ast.ClassDef)) and st.name == p:
                    node = st
                    break
            if node is None:
                raise Untranslatable('function %s not found in %s' % (qualname, self.path))
            body = node.body
        return node

    def proposal_slices(self, qualname, consts=None, state_params=(), test_overrides=None):
        """redraw-until-in-range proposal code: returns (loops, items, lets, extra_params, src_hash) where each loop is
        {'var', 'candidate', 'guard', 'redraw'} and items are the entries of the returned dictionary."""
        fn = self.find(qualname)
        st = _State(self, consts or {}, None, set(), set())
        st.loop_mode = True
        st.state_params = set(state_params)
        st.test_overrides = dict(test_overrides or {})
        for a in fn.args.args:
            if a.arg != 'self':
                raise Untranslatable('proposal function with arguments', fn)
        res = st.block(fn.body, st.env)
        if res is None or res[0] != 'dict':
            raise Untranslatable('proposal function does not return a dictionary', fn)
        h = hashlib.sha256(ast.get_source_segment(self.src, fn).encode()).hexdigest()
        return st.loops, res[1], st.lets, st.extra_params, h

    def source_of(self, qualname):
        return ast.get_source_segment(self.src, self.find(qualname))

    # ---- main entry
    def function(self, qualname, consts=None, capture=None, free_on_call=(), inline=(),
                 name=None, param_order=None, drop_params=(), callees=None, list_params=(),
                 skip_shape_returns=False, dict_list_params=None, tuple_params=None, test_overrides=None,
                 vararg_len=None, state_params=(), methods=None, array_params=None, array_mode=False,
                 scalars_are_arrays=False, prefer_handler=False, oracle_calls=None):
        """consts: parameter/global name -> python constant (partial evaluation).
        capture: None (the return value) | ('assign', var, k[, unwrap_fn]) the k-th real-valued
        assignment to var (optionally unwrapping a call to unwrap_fn, e.g. 'ln')."""
        fn = self.find(qualname)
        st = _State(self, consts or {}, capture, set(free_on_call), set(inline))
        st.callees = dict(callees or {})
        st.list_params = set(list_params)
        st.skip_shape_returns = skip_shape_returns
        st.test_overrides = dict(test_overrides or {})
        st.state_params = set(state_params)
        st.methods = dict(methods or {})
        st.array_mode = bool(array_mode or array_params)
        st.scalars_are_arrays = scalars_are_arrays
        st.prefer_handler = prefer_handler
        st.oracle_calls = dict(oracle_calls or {})
        for dname, keys in (dict_list_params or {}).items():
            for k in keys:
                lp = '%s_%s' % (dname, k)
                st.list_params.add(lp)
                st.used.add(lp)
                st.used.add(lp + '_elt')
                st.env['%s[%s]' % (dname, k)] = ('var', lp + '_elt')
                st.dict_lists.append(lp)
        params = []
        defaults = dict()
        a = fn.args
        names = [x.arg for x in a.args]
        for nm, d in zip(names[len(names) - len(a.defaults):], a.defaults):
            defaults[nm] = d
        for nm in names:
            if nm in ('self',) or nm in drop_params:
                continue
            if consts and nm in consts:
                st.env[nm] = _const_ir(consts[nm])
            elif array_params and nm in array_params:
                shape, ismat = array_params[nm]
                names = []
                def mk(prefix, dims):
                    if not dims:
                        v = st.fresh(prefix)
                        params.append(v)
                        names.append(('var', v))
                        return
                    for i in range(dims[0]):
                        mk('%s_%d' % (prefix, i), dims[1:])
                mk(nm, list(shape))
                st.env[nm] = A(shape, names, ismat)
            elif nm in st.state_params:
                st.used.add(nm)
                params.append(nm)
                st.state_vars.append(nm)
                st.env[nm] = ('var', nm)
            elif tuple_params and nm in tuple_params:
                comps = []
                for i in range(tuple_params[nm]):
                    v = st.fresh('%s_%d' % (nm, i))
                    params.append(v)
                    comps.append(('var', v))
                st.env[nm] = ('tuple', comps)
            elif nm in st.list_params:
                st.used.add(nm)
                st.used.add(nm + '_elt')
                params.append(nm)
                st.env[nm] = ('var', nm + '_elt')
            else:
                v = st.fresh(nm)
                params.append(v)
                st.env[nm] = ('var', v)
        if a.vararg is not None and a.vararg.arg not in drop_params:
            if vararg_len is None:
                raise Untranslatable('*%s needs a length' % a.vararg.arg, fn)
            comps = []
            for i in range(vararg_len):
                v = st.fresh('%s_%d' % (a.vararg.arg, i))
                params.append(v)
                comps.append(('var', v))
            st.env[a.vararg.arg] = ('tuple', comps)
        params += [lp for lp in st.dict_lists]
        try:
            res = st.block(fn.body, st.env)
            if capture is not None:
                raise Untranslatable('capture %r not reached in %s' % (capture, qualname), fn)
            if res is None:
                raise Untranslatable('no return value in %s' % qualname, fn)
        except _Captured as c:
            res = c.expr
        shapes = []

        def flat(v):
            if isinstance(v, A):
                shapes.append(v.shape)
                return list(v.data)
            if v[0] in ('tuple', 'pylist'):
                out = []
                for x in v[1]:
                    out += flat(x)
                return out
            shapes.append(())
            return [v]
        if isinstance(res, A) or res[0] in ('tuple', 'pylist'):
            items = flat(res)
            res = ('tuple', items) if len(items) > 1 else items[0]
        params += st.extra_params
        if param_order:
            params = [p for p in param_order if p in params] + [p for p in params if p not in param_order]
        h = hashlib.sha256(ast.get_source_segment(self.src, fn).encode()).hexdigest()
        d = Def(name or qualname.replace('.', '_'), params, st.lets, res, st.stats, h)
        d.list_params = set(st.list_params)
        d.state_vars = list(st.state_vars)
        d.shapes = shapes
        # what each external routine was called with, as definitions of their own (the routine's contract is stated on them)
        d.oracle_systems = {}
        for oname, calls in st.oracle_args.items():
            for k, cargs in enumerate(calls):
                items = []
                for a in cargs:
                    items += flat(a)
                sysd = Def('%s_%s_args%s' % (name or qualname.replace('.', '_'), oname.split('.')[-1], '' if k == 0 else str(k)),
                           list(params), list(st.lets), ('tuple', items), dict(st.stats), h)
                sysd.list_params, sysd.state_vars = set(), []
                _prune(sysd)
                d.oracle_systems.setdefault(oname, []).append(sysd)
        _prune(d)
        for lp in sorted(st.list_params):
            if ir.lifted(d.result, st.list_params) and (lp + '_elt') not in d.params:
                d.params.append(lp + '_elt')   # an elementwise result: one more scalar argument
        return d


def _const_ir(v):
    if isinstance(v, tuple):
        return v
    if isinstance(v, bool) or v is None or isinstance(v, str):
        return ('const', v)
    if isinstance(v, (int, Fraction)):
        return ('num', Fraction(v))
    if isinstance(v, float):
        return ('num', Fraction(repr(v)))
    raise ValueError(v)


def _prune(d):
    """drop lets that the result does not depend on (dead code before a capture)."""
    needed = set(ir.free_vars(d.result))
    keep = []
    for n, e in reversed(d.lets):
        if n in needed:
            keep.append((n, e))
            needed |= set(ir.free_vars(e))
    d.lets = list(reversed(keep))
    d.params = [p for p in d.params if p in needed]


class _State(object):
    def __init__(self, tr, consts, capture, free_on_call, inline):
        self.tr, self.capture = tr, capture
        self.free_on_call, self.inline = free_on_call, inline
        self.callees = {}
        self.list_params = set()
        self.skip_shape_returns = False
        self.test_overrides = {}
        self.dict_lists = []
        self.state_params = set()
        self.methods = {}
        self.state_vars = []
        self.loop_mode = False
        self.loops = []
        self.n_random = 0
        self.array_mode = False
        self.scalars_are_arrays = False
        self.cont_stack = []
        self.oracle_calls = {}
        self.oracle_args = {}
        self.consts = consts
        self.env = {}
        self.lets = []
        self.used = set()
        self.extra_params = []
        self.assign_count = {}
        self.stats = {'shape_ops': 0, 'guards_skipped': 0, 'nan_sanitise_skipped': 0,
                      'shape_branches_skipped': 0, 'dead_branches_folded': 0}

    def fresh(self, base):
        base = ''.join(ch if (ch.isalnum() or ch == '_') else '_' for ch in base)
        if base in RESERVED or base[0].isdigit():
            base = base + '_'
        n, k = base, 0
        while n in self.used:
            k += 1
            n = '%s%d' % (base, k)
        self.used.add(n)
        return n

    def bind(self, name, e):
        """bind python variable to expression, through a let when non-trivial."""
        if isinstance(e, A):
            return A(e.shape, [self.bind(name, x) for x in e.data], e.ismat)
        if e[0] in ('var', 'num', 'const', 'pi', 'cmp', 'and', 'or', 'not', 'dict', 'argsort', 'sortdesc', 'unique', 'inf'):
            return e
        if e[0] in ('tuple', 'pylist'):
            return (e[0], [self.bind(name, x) for x in e[1]])
        if self.list_params and ir.lifted(e, self.list_params):
            return e   # elementwise in a list parameter: stays inline (cannot be hoisted out of the map)
        v = self.fresh(name)
        self.lets.append((v, e))
        return ('var', v)

    # ---------------------------------------------------------------- statements
    def block(self, stmts, env):
        for i, s in enumerate(stmts):
            r = self.stmt(s, env, stmts[i + 1:])
            if r is not None:
                return r[0]
        return None

    def stmt(self, s, env, rest):
        """returns None to continue, or (result,) when the block returned."""
        if isinstance(s, ast.Expr):
            if isinstance(s.value, ast.Constant):
                return None  # docstring
            if isinstance(s.value, ast.Call):
                nm = _dotted(s.value.func)
                if nm in SKIP_CALLS:
                    return None
                f = s.value.func
                if isinstance(f, ast.Attribute) and f.attr == 'pop' and isinstance(f.value, ast.Name) and \
                        env.get(f.value.id, ('x',))[0] == 'var' and (env[f.value.id][1] in self.state_vars):
                    cur = env[f.value.id][1]
                    if not cur.endswith('_reduced'):
                        nv = cur + '_reduced'
                        if nv not in self.state_vars:
                            self.state_vars.append(nv)
                            self.used.add(nv)
                            self.extra_params.append(nv)
                        env[f.value.id] = ('var', nv)
                    self.stats['dict_pops'] = self.stats.get('dict_pops', 0) + 1
                    return None
                if isinstance(f, ast.Attribute) and f.attr == 'append' and isinstance(f.value, ast.Name) \
                        and env.get(f.value.id, ('x',))[0] == 'tuple' and len(s.value.args) == 1:
                    cur = env[f.value.id]
                    env[f.value.id] = ('tuple', list(cur[1]) + [self.bind(f.value.id, self.expr(s.value.args[0], env))])
                    return None
                if isinstance(s.value.func, ast.Attribute) and s.value.func.attr in ('replace',):
                    return None  # discarded string op (phase.replace(...) with result unused)
            raise Untranslatable('expression statement', s)
        if isinstance(s, (ast.Delete, ast.Pass, ast.Global, ast.Import, ast.ImportFrom)):
            return None
        if isinstance(s, ast.Return):
            if isinstance(s.value, ast.Tuple):
                return (('pylist', [self.expr(x, env) for x in s.value.elts]),)
            return (self.expr(s.value, env),)
        if isinstance(s, ast.Assign):
            if len(s.targets) != 1:
                raise Untranslatable('multiple targets', s)
            self.assign(s.targets[0], s.value, env, s)
            return None
        if isinstance(s, ast.AugAssign) and isinstance(s.target, ast.Subscript) and isinstance(s.target.value, ast.Name) \
                and isinstance(env.get(s.target.value.id), A):
            op = {ast.Add: '+', ast.Sub: '-', ast.Mult: '*', ast.Div: '/'}.get(type(s.op))
            if op is None:
                raise Untranslatable('augmented masked assignment', s)
            self.masked_update(s.target, s.value, op, env, s)
            return None
        if isinstance(s, ast.AugAssign) and isinstance(s.target, ast.Name) and isinstance(env.get(s.target.id), A):
            op = {ast.Add: '+', ast.Sub: '-', ast.Mult: '*', ast.Div: '/'}.get(type(s.op))
            try:
                env[s.target.id] = self.bind(s.target.id, self.arith(op, env[s.target.id], self.expr(s.value, env), s))
            except NotImplementedError as e:
                raise Untranslatable('array semantics: %s' % e, s)
            return None
        if isinstance(s, ast.AugAssign):
            op = {ast.Add: '+', ast.Sub: '-', ast.Mult: '*', ast.Div: '/'}.get(type(s.op))
            if op is None or not isinstance(s.target, ast.Name):
                raise Untranslatable('augmented assignment', s)
            cur = env.get(s.target.id)
            if cur is None:
                raise Untranslatable('augmented assignment to unknown name', s)
            val = self.fold(('bin', op, cur, self.expr(s.value, env)))
            self.count_assign(s.target.id, val)
            env[s.target.id] = self.bind(s.target.id, val)
            return None
        if isinstance(s, ast.If):
            return self.if_stmt(s, env, rest)
        if isinstance(s, ast.For):
            it = self.expr(s.iter, env)
            if it[0] != 'tuple' or s.orelse:
                raise Untranslatable('for loop over a value of unknown length', s)
            for item in it[1]:
                self.bind_target(s.target, item, env, s)
                r = self.block(s.body, env)
                if r is not None:
                    raise Untranslatable('return inside a loop', s)
            return None
        if isinstance(s, ast.While):
            if self.shape_only_test(s.test) and self.shape_only_body(s.body, env):
                self.stats['shape_branches_skipped'] += 1
                return None
            if self.loop_mode:
                # redraw-until-accepted loop: record guard (as a function of the candidate), first draw and redraw
                guard = self.cond(s.test, env)
                env_b = dict(env)
                if self.block(s.body, env_b) is not None:
                    raise Untranslatable('return inside a redraw loop', s)
                changed = [k for k in env_b if env_b[k] != env.get(k) and '[' not in k and not k.startswith('self.')]
                if len(changed) != 1 or env.get(changed[0], ('x',))[0] != 'var':
                    raise Untranslatable('redraw loop does not update exactly one candidate variable', s)
                var = changed[0]
                self.loops.append({'var': var, 'candidate': env[var][1], 'guard': guard, 'redraw': env_b[var]})
                acc = self.fresh(var + '_accepted')
                self.extra_params.append(acc)
                env[var] = ('var', acc)
                return None
            raise Untranslatable('while loop', s)
        if isinstance(s, ast.With):
            return self.block_result(s.body, env)
        if isinstance(s, ast.Try) and self.prefer_handler and s.handlers:
            self.stats['handler_taken_by_spec'] = self.stats.get('handler_taken_by_spec', 0) + 1
            return self.block_result(s.handlers[-1].body, env)
        if isinstance(s, ast.Try):
            # a try whose body touches a module folded to None/False takes the handler
            if self.mentions_dead_module(s.body, env):
                self.stats['dead_branches_folded'] += 1
                if len(s.handlers) < 1:
                    raise Untranslatable('try without handler', s)
                # handlers: first one that is not ImportError-only
                return self.block_result(s.handlers[-1].body, env)
            return self.block_result(s.body, env)
        if isinstance(s, ast.Raise):
            raise Untranslatable('reachable raise', s)
        raise Untranslatable('statement %s' % type(s).__name__, s)

    def masked_update(self, target, value, op, env, s):
        """x[mask] = v / x[:, mask] op= v on a symbolic array: elementwise `if mask then new else old`"""
        nm = target.value.id
        cur = env[nm]
        parts = target.slice.elts if isinstance(target.slice, ast.Tuple) else [target.slice]
        try:
            idx = [self.static_index(p_, env) for p_ in parts]
            val = self.expr(value, env)
            if cur.ndim == 1 and len(idx) == 1 and isinstance(idx[0], int) and not isinstance(idx[0], bool) and not isinstance(val, A):
                # x[i] = v / x[i] op= v with a constant index: functional update of one element
                i = idx[0] + (cur.shape[0] if idx[0] < 0 else 0)
                if not (0 <= i < cur.shape[0]):
                    raise Untranslatable('constant index out of range', s)
                data = list(cur.data)
                data[i] = self.bind(nm, val if op is None else self.fold(('bin', op, data[i], val)))
                env[nm] = A(cur.shape, data, cur.ismat)
                return
            masks = [i for i in idx if isinstance(i, A)]
            if len(masks) != 1 or any(i is None for i in idx) or any(not (isinstance(i, A) or i == 'all') for i in idx):
                raise Untranslatable('only boolean-mask updates of arrays are supported', s)
            mask = masks[0]
            # orient the mask: a mask in the last position of a 2-d index selects columns
            if cur.ndim == 2 and len(idx) == 2 and isinstance(idx[1], A):
                m2 = A((1, len(mask.data)), mask.data)
            elif cur.ndim == 2 and len(idx) == 1 and mask.ndim <= 1 and len(mask.data) == cur.shape[0]:
                m2 = A((len(mask.data), 1), mask.data)
            else:
                m2 = mask
            new = cur if op is None else None
            if op is None:
                newv = val
            else:
                newv = symarr.elementwise(self._bin(op), cur.as_array() if isinstance(cur, A) else cur, val)
            sel = symarr.elementwise(lambda c, pair: pair, m2, symarr.elementwise(lambda a_, b_: ('pair', a_, b_), newv, cur.as_array()))
            out = symarr.elementwise(lambda c, pr_: c, m2, sel)
            data = []
            mb = symarr.elementwise(lambda c, x: c, m2, cur.as_array())
            nb = symarr.elementwise(lambda x, y: x, newv, cur.as_array()) if isinstance(newv, A) or True else newv
            for c, nv, ov in zip(mb.data, (nb.data if isinstance(nb, A) else [nb] * len(cur.data)), cur.data):
                if c[0] == 'const':
                    data.append(nv if c[1] else ov)
                else:
                    data.append(('if', c, nv, ov))
            env[nm] = self.bind(nm, A(cur.shape, data, cur.ismat))
        except NotImplementedError as e:
            raise Untranslatable('array semantics: %s' % e, s)

    def bind_target(self, target, value, env, s):
        if isinstance(target, ast.Name):
            env[target.id] = value if (not isinstance(value, A) and value[0] == 'tuple') else self.bind(target.id, value)
            return
        if isinstance(target, ast.Tuple) and value[0] == 'tuple' and len(value[1]) == len(target.elts):
            for t, v in zip(target.elts, value[1]):
                self.bind_target(t, v, env, s)
            return
        raise Untranslatable('loop/unpacking target', s)

    def block_result(self, stmts, env):
        r = self.block(stmts, env)
        return None if r is None else (r,)

    def nested(self, stmts, env, rest):
        """a nested block; `rest` (what follows it in the enclosing block) is remembered so that an early return in
        one branch of a value-dependent `if` inside can be completed with the enclosing continuation"""
        self.cont_stack.append(rest)
        try:
            return self.block_result(stmts, env)
        finally:
            self.cont_stack.pop()

    def mentions_dead_module(self, stmts, env):
        for n in ast.walk(ast.Module(body=stmts, type_ignores=[])):
            if isinstance(n, ast.Attribute) and isinstance(n.value, ast.Name):
                v = env.get(n.value.id, self.lookup_global(n.value.id))
                if v is not None and v[0] == 'const' and v[1] in (None, False):
                    return True
        return False

    def lookup_global(self, name):
        if name in self.consts:
            return _const_ir(self.consts[name])
        return self.tr.module_consts.get(name)

    def count_assign(self, name, val):
        k = self.assign_count.get(name, 0)
        self.assign_count[name] = k + 1
        c = self.capture
        if c is not None and c[0] == 'assign' and c[1] == name and c[2] == k:
            if len(c) > 3:
                if not (val[0] == 'call' and val[1] == c[3]):
                    raise Untranslatable('capture expected a call to %s' % c[3])
                val = val[2][0]
            raise _Captured(val)

    def assign(self, target, value, env, s):
        if isinstance(target, ast.Name):
            # abstracted reductions (tensordot): the target becomes a fresh parameter
            if isinstance(value, ast.Call) and _dotted(value.func) in self.free_on_call:
                v = self.fresh(target.id)
                self.extra_params.append(v)
                env[target.id] = ('var', v)
                return
            val = self.expr(value, env)
            if isinstance(val, A) or val[0] in ('argsort', 'sortdesc', 'unique', 'pylist'):
                env[target.id] = self.bind(target.id, val) if isinstance(val, A) else val
                return
            if val[0] == 'dict':
                env[target.id] = val
                return
            if val[0] == 'tuple':
                env[target.id] = ('tuple', [v if v[0] == 'tuple' else self.bind(target.id, v) for v in val[1]])
                return
            if val[0] not in ('const', 'inf'):
                self.count_assign(target.id, val)
            env[target.id] = self.bind(target.id, val) if val[0] != 'inf' else val
            return
        if isinstance(target, ast.Tuple) and not isinstance(value, ast.Tuple):
            val = self.expr(value, env)
            if not isinstance(val, A) and val[0] in ('tuple', 'pylist') and len(val[1]) == len(target.elts):
                self.bind_target(target, ('tuple', val[1]), env, s)
                return
            raise Untranslatable('unpacking of a non-tuple value', s)
        if isinstance(target, ast.Subscript) and isinstance(target.value, ast.Name) and \
                env.get(target.value.id, ('x',))[0] == 'dict' and isinstance(target.slice, ast.Constant):
            dct = dict(env[target.value.id][1])
            dct[target.slice.value] = self.bind('%s_%s' % (target.value.id, target.slice.value), self.expr(value, env))
            env[target.value.id] = ('dict', dct)
            return
        if isinstance(target, ast.Subscript) and isinstance(target.value, ast.Name) and \
                env.get(target.value.id, ('x',))[0] == 'tuple':
            idx = self.expr(target.slice, env)
            if idx[0] == 'num' and idx[1].denominator == 1:
                cur = list(env[target.value.id][1])
                cur[int(idx[1])] = self.bind(target.value.id, self.expr(value, env))
                env[target.value.id] = ('tuple', cur)
                return
            raise Untranslatable('list item assignment with a non-constant index', s)
        if isinstance(target, ast.Tuple) and isinstance(value, ast.Tuple) and len(target.elts) == len(value.elts):
            vals = [self.expr(v, env) for v in value.elts]
            for t, v in zip(target.elts, vals):
                if not isinstance(t, ast.Name):
                    raise Untranslatable('tuple target', s)
                env[t.id] = self.bind(t.id, v)
            return
        if isinstance(target, ast.Subscript) and isinstance(target.value, ast.Name) and isinstance(env.get(target.value.id), A):
            self.masked_update(target, value, None, env, s)
            return
        if isinstance(target, ast.Subscript) and isinstance(target.value, ast.Name):
            # x[mask(x)] = v   ->   x := if mask then v else x
            nm = target.value.id
            idx = target.slice
            cur = env.get(nm)
            if cur is None:
                raise Untranslatable('masked assignment to unknown name', s)
            if isinstance(idx, ast.Call) and _dotted(idx.func) == 'np.isnan':
                self.stats['nan_sanitise_skipped'] += 1
                return
            if isinstance(idx, ast.Compare):
                cond = self.cond(idx, env)
                val = self.expr(value, env)
                new = ('if', cond, val, cur)
                self.count_assign(nm, new)
                env[nm] = self.bind(nm, new)
                return
        raise Untranslatable('assignment target', s)

    def if_stmt(self, s, env, rest):
        # input validation: body is a bare raise
        if all(isinstance(b, ast.Raise) for b in s.body) and not s.orelse:
            self.stats['guards_skipped'] += 1
            return None
        if self.array_mode:
            # with shape-exact symbolic arrays, shape/type tests are decided statically
            try:
                n_before = len(self.lets)
                c0 = self.cond(s.test, env)
                del self.lets[n_before:]
            except Untranslatable:
                c0 = None
            if c0 is not None and c0[0] == 'const':
                self.stats['dead_branches_folded'] += 1
                return self.nested(s.body if c0[1] else s.orelse, env, rest)
            if c0 is not None and ast.unparse(s.test) not in self.test_overrides:
                return self.value_if(s, c0, env, rest)
        key = ast.unparse(s.test)
        if key in self.test_overrides:
            self.stats['tests_decided_by_spec'] = self.stats.get('tests_decided_by_spec', 0) + 1
            return self.block_result(s.body if self.test_overrides[key] else s.orelse, env)
        if self.shape_query(s.test):
            # `if np.prod(x.shape):` / `if np.ndim(s):` -- non-empty input / array-valued shift: body taken
            self.stats['shape_conditions_assumed_true'] = self.stats.get('shape_conditions_assumed_true', 0) + 1
            return self.block_result(s.body, env)
        if self.shape_only_test(s.test):
            if self.skip_shape_returns and self.shape_return_chain(s, env):
                self.stats['shape_special_cases_skipped'] = self.stats.get('shape_special_cases_skipped', 0) + 1
                return None
            if self.shape_only_body(s.body, env) and self.shape_only_body(s.orelse, env):
                self.stats['shape_branches_skipped'] += 1
                return None
            raise Untranslatable('shape-dependent branch with a non-shape body', s)
        c = self.cond(s.test, env)
        if c[0] == 'const':
            self.stats['dead_branches_folded'] += 1
            return self.nested(s.body if c[1] else s.orelse, env, rest)
        return self.value_if(s, c, env, rest)

    def value_if(self, s, c, env, rest):
        env_t, env_e = dict(env), dict(env)
        # an `if` nested in either branch (an elif chain) whose own branches do not all return continues with what follows this one
        self.cont_stack.append(rest)
        try:
            r_t = self.block(s.body, env_t)
            r_e = self.block(s.orelse, env_e)
        finally:
            self.cont_stack.pop()
        if r_t is not None and r_e is not None:
            return (self.merge_results(c, r_t, r_e, s),)
        if r_t is not None or r_e is not None:
            # one side returned: the other side continues with the rest of the block
            cont_env = env_e if r_t is not None else env_t
            r_rest = self.block(rest, cont_env)
            for frame in reversed(self.cont_stack):
                if r_rest is not None:
                    break
                r_rest = self.block(frame, cont_env)
            if r_rest is None:
                raise Untranslatable('branch returns but continuation does not', s)
            return (self.merge_results(c, r_t, r_rest, s) if r_t is not None else self.merge_results(c, r_rest, r_e, s),)
        for k in sorted(set(list(env_t.keys()) + list(env_e.keys()))):     # sorted: the generated text does not depend on the hash seed
            a, b = env_t.get(k), env_e.get(k)
            if isinstance(a, A) or isinstance(b, A):
                if isinstance(a, A) and isinstance(b, A) and a.shape == b.shape:
                    env[k] = a if a.data == b.data and a.ismat == b.ismat else \
                        self.bind(k, A(a.shape, [x if x == y else ('if', c, x, y) for x, y in zip(a.data, b.data)], a.ismat))
                else:
                    env.pop(k, None)
                continue
            if a == b:
                env[k] = a
            elif a is not None and b is not None and (a[0] == 'tuple' or b[0] == 'tuple'):
                if a[0] == b[0] == 'tuple' and len(a[1]) == len(b[1]):
                    env[k] = ('tuple', [x if x == y else self.bind(k, ('if', c, x, y)) for x, y in zip(a[1], b[1])])
                else:
                    env.pop(k, None)
            elif a is None or b is None:
                env.pop(k, None)  # defined on one side only: unusable afterwards
            else:
                new = ('if', c, a, b)
                self.count_assign(k, new)
                env[k] = self.bind(k, new)
        return None

    def merge_results(self, c, a, b, s):
        """`if c then a else b` on return values; tuples / arrays are merged componentwise (a length-1 array and a
        scalar are identified: the model is about the numbers returned, the harness compares flattened outputs)"""
        def flat(v):
            if isinstance(v, A):
                return list(v.data)
            if v[0] in ('tuple', 'pylist'):
                out = []
                for x in v[1]:
                    out += flat(x)
                return out
            return [v]
        structured = lambda v: isinstance(v, A) or v[0] in ('tuple', 'pylist')
        if not structured(a) and not structured(b):
            return ('if', c, a, b)
        fa, fb = flat(a), flat(b)
        if len(fa) != len(fb):
            raise Untranslatable('branches return %d and %d values' % (len(fa), len(fb)), s)
        return ('pylist', [x if x == y else ('if', c, x, y) for x, y in zip(fa, fb)])

    def shape_return_chain(self, s, env):
        """if/elif chain on shapes whose bodies only return a reshaped argument (degenerate
        single-row inputs): outside the per-slice model, covered by the correspondence run."""
        def ok_body(body):
            if len(body) == 1 and isinstance(body[0], ast.Return):
                try:
                    n_before = len(self.lets)
                    v = self.expr(body[0].value, dict(env))
                    del self.lets[n_before:]
                except Untranslatable:
                    return False
                return v[0] in ('var', 'num') or (v[0] == 'tuple' and all(x[0] == 'num' for x in v[1]))
            if len(body) == 1 and isinstance(body[0], ast.If):
                return self.shape_return_chain(body[0], env)
            return False
        return ok_body(s.body) and (not s.orelse or ok_body(s.orelse))

    def shape_query(self, t):
        """np.prod(x.shape) / np.ndim(x) / x.shape used as a truth value (non-empty input)"""
        if isinstance(t, ast.Call) and _dotted(t.func) in ('np.prod', 'np.ndim', 'len'):
            return True
        return False

    def shape_only_test(self, t):
        """a test that only inspects shapes/types (isinstance, .ndim, .shape, len)"""
        ok = False
        for n in ast.walk(t):
            if isinstance(n, ast.Call) and _dotted(n.func) in ('isinstance', 'len'):
                ok = True
            if isinstance(n, ast.Attribute) and n.attr in ('ndim', 'shape'):
                ok = True
        if not ok:
            return False
        # must not mention a value comparison on data other than shapes
        for n in ast.walk(t):
            if isinstance(n, ast.Compare):
                src = ast.dump(n)
                if 'ndim' not in src and 'shape' not in src and 'len' not in src:
                    return False
        return True

    def shape_only_body(self, stmts, env):
        for b in stmts:
            if isinstance(b, ast.Assign) and len(b.targets) == 1:
                t = b.targets[0]
                if isinstance(t, ast.Name):
                    try:
                        e_env = dict(env)
                        n_before = len(self.lets)
                        v = self.expr(b.value, e_env)
                        del self.lets[n_before:]
                    except Untranslatable:
                        return False
                    if v == env.get(t.id):
                        continue
                    return False
                if isinstance(t, ast.Subscript) and isinstance(t.slice, ast.Call) and _dotted(t.slice.func) == 'np.isnan':
                    self.stats['nan_sanitise_skipped'] += 1
                    continue
                if isinstance(t, ast.Attribute) and _dotted(t) is not None:
                    try:
                        n_before = len(self.lets)
                        old = self.expr(t, env)
                        v = self.expr(b.value, env)
                        del self.lets[n_before:]
                    except Untranslatable:
                        return False
                    if v == old:
                        continue
                    return False
                if isinstance(t, ast.Subscript) and isinstance(t.slice, ast.Constant) and isinstance(t.slice.value, str):
                    try:
                        n_before = len(self.lets)
                        v = self.expr(b.value, dict(env))
                        old = self.expr(t, dict(env))
                        del self.lets[n_before:]
                    except Untranslatable:
                        return False
                    if v == old:
                        continue
                return False
            if isinstance(b, (ast.While, ast.If)) and self.shape_only_test(b.test):
                if self.shape_only_body(b.body, env) and self.shape_only_body(b.orelse, env):
                    continue
                return False
            return False
        return True

    # ---------------------------------------------------------------- conditions
    def cond(self, t, env):
        if isinstance(t, ast.BoolOp):
            vals = []
            isand = isinstance(t.op, ast.And)
            for v in t.values:
                if self.shape_query(v):
                    self.stats['shape_conditions_assumed_true'] = self.stats.get('shape_conditions_assumed_true', 0) + 1
                    vals.append(('const', True))
                else:
                    vals.append(self.cond(v, env))
                if vals[-1][0] == 'const' and bool(vals[-1][1]) != isand:
                    break      # short circuit, as Python does
            out = None
            for v in vals:
                if v[0] == 'const':
                    if isand and not v[1]:
                        return ('const', False)
                    if (not isand) and v[1]:
                        return ('const', True)
                    continue
                out = v if out is None else (('and' if isand else 'or'), out, v)
            return out if out is not None else ('const', isand)
        if isinstance(t, ast.UnaryOp) and isinstance(t.op, ast.Not):
            v = self.cond(t.operand, env)
            return ('const', not v[1]) if v[0] == 'const' else ('not', v)
        if isinstance(t, ast.Compare) and len(t.ops) == 1 and isinstance(t.left, ast.Call) and _dotted(t.left.func) == 'len' \
                and self.array_mode and isinstance(t.ops[0], ast.Eq):
            inner = self.expr(t.left.args[0], env)
            rhs = self.expr(t.comparators[0], env)
            if not isinstance(inner, A) and inner[0] == 'unique' and rhs == ir.num(1):
                v = inner[1].data
                c = None
                for x, y in zip(v, v[1:]):
                    e_ = ('cmp', '==', x, y)
                    c = e_ if c is None else ('and', c, e_)
                return c if c is not None else ('const', True)
        if isinstance(t, ast.Compare) and len(t.ops) == 1:
            op = {ast.Lt: '<', ast.LtE: '<=', ast.Gt: '>', ast.GtE: '>=', ast.Eq: '==', ast.NotEq: '!=',
                  ast.Is: '==', ast.IsNot: '!='}.get(type(t.ops[0]))
            if op is None:
                raise Untranslatable('comparison operator', t)
            a, b = self.expr(t.left, env), self.expr(t.comparators[0], env)
            # numpy: the truth value of a one-element array is that of its element
            if isinstance(a, A) and len(a.data) == 1:
                a = a.data[0]
            if isinstance(b, A) and len(b.data) == 1:
                b = b.data[0]
            if isinstance(a, A) or isinstance(b, A):
                raise Untranslatable('truth value of an array comparison', t)
            if a[0] == 'inf' or b[0] == 'inf':
                # a real-valued (finite) quantity compared with an infinity: decided statically; the
                # infinite case itself is outside the real-valued model (covered by the correspondence run)
                self.stats['finite_vs_infinity_folded'] = self.stats.get('finite_vs_infinity_folded', 0) + 1
                if a[0] == 'inf' and b[0] == 'inf':
                    x, y = a[1], b[1]
                    return ('const', {'<': x < y, '<=': x <= y, '>': x > y, '>=': x >= y, '==': x == y, '!=': x != y}[op])
                if b[0] == 'inf':
                    lt = b[1] > 0      # a < +inf is true, a < -inf is false
                else:
                    lt = a[1] < 0      # -inf < b is true, +inf < b is false
                return ('const', {'<': lt, '<=': lt, '>': not lt, '>=': not lt, '==': False, '!=': True}[op])
            ca, cb = _pyconst(a), _pyconst(b)
            if ca is not _NOCONST and cb is not _NOCONST:
                try:
                    return ('const', {'<': lambda: ca < cb, '<=': lambda: ca <= cb, '>': lambda: ca > cb,
                                      '>=': lambda: ca >= cb, '==': lambda: ca == cb, '!=': lambda: ca != cb}[op]())
                except TypeError:
                    raise Untranslatable('comparison of constants', t)
            if a[0] == 'const' or b[0] == 'const':
                raise Untranslatable('comparison of a non-numeric constant with data', t)
            return ('cmp', op, a, b)
        if isinstance(t, ast.Call) and _dotted(t.func) == 'isinstance':
            if self.array_mode:
                v = self.expr(t, env)
                if not isinstance(v, A) and v[0] == 'const':
                    return v
            raise Untranslatable('isinstance in a value condition', t)
        v = self.expr(t, env)
        if v[0] == 'const':
            return ('const', bool(v[1]))
        if v[0] == 'num':
            return ('const', v[1] != 0)
        raise Untranslatable('truth value of data', t)

    # ---------------------------------------------------------------- expressions
    def fold(self, e):
        """constant folding on exact rationals (keeps the structure otherwise)."""
        if e[0] == 'bin' and e[2][0] == 'num' and e[3][0] == 'num':
            a, b = e[2][1], e[3][1]
            if e[1] == '+':
                return ('num', a + b)
            if e[1] == '-':
                return ('num', a - b)
            if e[1] == '*':
                return ('num', a * b)
            if e[1] == '/' and b != 0:
                return ('num', a / b)
        if e[0] == 'neg' and e[1][0] == 'num':
            return ('num', -e[1][1])
        return e

    def expr(self, n, env):
        if self.array_mode:
            try:
                r = self.aexpr(n, env)
            except NotImplementedError as e:
                raise Untranslatable('array semantics: %s' % e, n)
            if r is not NotImplemented:
                return r
        return self.expr_scalar(n, env)

    # ------------------------------------------------------------ arrays (symarr)
    def _bin(self, op):
        return lambda x, y: self.fold(('bin', op, x, y))

    def arith(self, op, a, b, node):
        if isinstance(a, A) and isinstance(b, A) and (a.ismat or b.ismat) and op == '*':
            # numpy: `*` with a matrix operand is the matrix product (the other operand is converted with asmatrix)
            a, b = a.as_matrix(), b.as_matrix()
            return symarr.matmul(self.bind('m', a), self.bind('m', b), self._bin('+'), self._bin('*'), ir.num(0))
        na = len(a.data) if isinstance(a, A) else 1
        nb = len(b.data) if isinstance(b, A) else 1
        if na < nb:
            a = self.bind('t', a)     # the operand that is broadcast is shared, not duplicated
        elif nb < na:
            b = self.bind('t', b)
        return symarr.elementwise(self._bin(op), a, b)

    def amap(self, f, v):
        return v.map(f) if isinstance(v, A) else f(v)

    def static_index(self, node, env):
        """index expression -> int | 'all' | list of ints | A of conditions (mask) | None"""
        if isinstance(node, ast.Slice):
            if node.lower is None and node.upper is None and node.step is None:
                return 'all'
            return None
        v = self.expr(node, env)
        if isinstance(v, A):
            if all(x[0] == 'num' for x in v.data):
                return [int(x[1]) for x in v.data]
            return v     # mask of conditions
        if v[0] == 'num' and v[1].denominator == 1:
            return int(v[1])
        if v[0] == 'tuple' and all(x[0] == 'num' for x in v[1]):
            return [int(x[1]) for x in v[1]]
        if v[0] in ('cmp', 'and', 'or', 'not', 'const'):
            return A((), [v])
        return None

    def aexpr(self, n, env):
        if isinstance(n, ast.Attribute):
            if n.attr in ('T',):
                v = self.expr(n.value, env)
                if isinstance(v, A):
                    return v.T()
                return NotImplemented
            if n.attr == 'shape':
                v = self.expr(n.value, env)
                if isinstance(v, A):
                    return ('tuple', [ir.num(x) for x in v.shape])
                return NotImplemented
            if n.attr == 'ndim':
                v = self.expr(n.value, env)
                if isinstance(v, A):
                    return ir.num(v.ndim)
                return NotImplemented
            return NotImplemented
        if isinstance(n, ast.UnaryOp) and isinstance(n.op, (ast.USub, ast.Invert)):
            v = self.expr(n.operand, env)
            if isinstance(v, A):
                if isinstance(n.op, ast.USub):
                    return v.map(lambda x: self.fold(('neg', x)))
                return v.map(lambda c: ('not', c))
            return NotImplemented
        if isinstance(n, ast.BinOp):
            if isinstance(n.op, ast.Pow):
                a = self.expr(n.left, env)
                if isinstance(a, A):
                    k = self.expr(n.right, env)
                    if k[0] == 'num' and k[1].denominator == 1 and 0 <= k[1] <= 8:
                        return a.map(lambda x: ('pow', x, int(k[1])))
                    raise NotImplementedError('array power')
                return NotImplemented
            op = {ast.Add: '+', ast.Sub: '-', ast.Mult: '*', ast.Div: '/'}.get(type(n.op))
            if op is None:
                return NotImplemented
            a, b = self.expr(n.left, env), self.expr(n.right, env)
            if isinstance(a, A) or isinstance(b, A):
                if op == '*' and ((isinstance(a, A) and a.data and a.data[0][0] in ('cmp', 'and', 'or', 'not')) or
                                  (isinstance(b, A) and b.data and b.data[0][0] in ('cmp', 'and', 'or', 'not'))):
                    return symarr.elementwise(lambda x, y: ('and', x, y), a, b)    # product of boolean masks
                return self.arith(op, a, b, n)
            if op == '*' and a[0] in ('cmp', 'and', 'or', 'not') and b[0] in ('cmp', 'and', 'or', 'not'):
                return ('and', a, b)
            return NotImplemented
        if isinstance(n, ast.Compare) and len(n.ops) == 1:
            a, b = self.expr(n.left, env), self.expr(n.comparators[0], env)
            if isinstance(a, A) or isinstance(b, A):
                op = {ast.Lt: '<', ast.LtE: '<=', ast.Gt: '>', ast.GtE: '>=', ast.Eq: '==', ast.NotEq: '!='}.get(type(n.ops[0]))
                if op is None:
                    raise NotImplementedError('array comparison')
                return symarr.elementwise(lambda x, y: ('cmp', op, x, y), a, b)
            return NotImplemented
        if isinstance(n, ast.Subscript):
            base = self.expr(n.value, env)
            if not isinstance(base, A) and base[0] == 'argsort':
                sl = n.slice
                if isinstance(sl, ast.Slice) and sl.lower is None and sl.upper is None and isinstance(sl.step, ast.UnaryOp) \
                        and isinstance(sl.step.op, ast.USub) and isinstance(sl.step.operand, ast.Constant) and sl.step.operand.value == 1:
                    return ('sortdesc', base[1])
                raise NotImplementedError('slice of argsort')
            if not isinstance(base, A):
                return NotImplemented
            if isinstance(n.slice, ast.Name) and not isinstance(env.get(n.slice.id), A) and env.get(n.slice.id, ('x',))[0] == 'sortdesc':
                src = env[n.slice.id][1]
                if src.data != base.data or len(base.data) != 3:
                    raise NotImplementedError('reordering by the sort order of another array')
                a_, b_, c_ = base.data
                mx = ('call', 'max', [('call', 'max', [a_, b_]), c_])
                mn = ('call', 'min', [('call', 'min', [a_, b_]), c_])
                mid = ('bin', '-', ('bin', '-', ('bin', '+', ('bin', '+', a_, b_), c_), mx), mn)
                self.stats['sorted_descending'] = self.stats.get('sorted_descending', 0) + 1
                return self.bind('sorted', A(base.shape, [mx, mid, mn], base.ismat))
            sl = n.slice
            parts = sl.elts if isinstance(sl, ast.Tuple) else [sl]
            idx = [self.static_index(p_, env) for p_ in parts]
            if any(i is None for i in idx):
                raise NotImplementedError('array index')
            if any(isinstance(i, A) for i in idx):
                self.stats['masked_reads'] = self.stats.get('masked_reads', 0) + 1
                return base      # masked read: only meaningful on the right of a masked assignment
            return symarr.index(base, tuple(idx) if len(idx) > 1 else idx[0])
        if isinstance(n, (ast.List, ast.Tuple)):
            items = [self.expr(x, env) for x in n.elts]
            if any(isinstance(x, A) for x in items):
                return ('pylist', items)
            return NotImplemented
        if isinstance(n, ast.Call):
            return self.acall(n, env)
        return NotImplemented

    def _nested(self, node, env):
        """python list literal (possibly nested) -> nested python lists of values"""
        if isinstance(node, (ast.List, ast.Tuple)):
            return [self._nested(x, env) for x in node.elts]
        v = self.expr(node, env)
        if not isinstance(v, A) and v[0] == 'tuple':
            return list(v[1])
        if not isinstance(v, A) and v[0] == 'pylist':
            return list(v[1])
        return v

    def acall(self, n, env):
        d = _dotted(n.func)
        args = n.args
        kw = dict((k.arg, k.value) for k in n.keywords)
        if isinstance(n.func, ast.Attribute) and d is not None and not d.startswith('np.'):
            meth = n.func.attr
            if meth == 'argsort' and not args:
                recv = self.expr(n.func.value, env)
                if isinstance(recv, A):
                    return ('argsort', recv)
                return NotImplemented
            if meth in ('flatten', 'copy', 'squeeze', 'transpose', 'astype'):
                recv = self.expr(n.func.value, env)
                if isinstance(recv, A):
                    if meth == 'flatten':
                        return recv.flatten()
                    if meth == 'squeeze':
                        return recv.squeeze()
                    if meth == 'transpose':
                        return recv.T()
                    return recv
                return NotImplemented
            return NotImplemented
        if d is None and isinstance(n.func, ast.Attribute) and n.func.attr in ('flatten', 'copy', 'squeeze', 'transpose'):
            recv = self.expr(n.func.value, env)
            if isinstance(recv, A):
                return {'flatten': recv.flatten, 'copy': lambda: recv, 'squeeze': recv.squeeze, 'transpose': recv.T}[n.func.attr]()
            return NotImplemented
        if d is None:
            return NotImplemented
        mod, _, f = d.rpartition('.')
        if d == 'isinstance' and len(args) == 2:
            v = self.expr(args[0], env)
            cls = _dotted(args[1])
            if not isinstance(v, A) and v[0] in ('tuple', 'pylist') and cls == 'bool':
                return ('const', False)
            if not isinstance(v, A) and v[0] == 'const' and cls == 'bool':
                return ('const', isinstance(v[1], bool))
            if isinstance(v, A):
                if cls in ('np.matrixlib.defmatrix.matrix', 'np.matrix'):
                    return ('const', v.ismat)
                if cls == 'np.ndarray':
                    return ('const', True)
            if isinstance(args[1], ast.Tuple):
                names = [_dotted(x) for x in args[1].elts]
                if all(x in ('list', 'np.ndarray', 'tuple') for x in names):
                    if isinstance(v, A):
                        return ('const', 'np.ndarray' in names)
                    if v[0] in ('var', 'bin', 'neg', 'call', 'num', 'if', 'pi', 'pow'):
                        return ('const', False)      # a python/numpy scalar
            return NotImplemented
        if d == 'len' and len(args) == 1:
            v = self.expr(args[0], env)
            if isinstance(v, A):
                return ir.num(v.shape[0])
            return NotImplemented
        if mod not in ('np', 'numpy'):
            return NotImplemented
        if f in ('array', 'matrix', 'asarray', 'ascontiguousarray'):
            if isinstance(args[0], (ast.List, ast.Tuple)):
                nested = self._nested(args[0], env)
                return symarr.from_nested(nested, f == 'matrix')
            v = self.expr(args[0], env)
            if isinstance(v, A):
                return v.as_matrix() if f == 'matrix' else v.as_array()
            if not isinstance(v, A) and v[0] in ('tuple', 'pylist'):
                return symarr.from_nested(list(v[1]), f == 'matrix')
            if self.scalars_are_arrays and f in ('array', 'matrix') and v[0] not in ('const',):
                return A((), [v]).as_matrix() if f == 'matrix' else A((), [v])
            return NotImplemented
        vals = None
        if f in NP_UNARY and len(args) == 1:
            v = self.expr(args[0], env)
            if isinstance(v, A):
                return v.map(lambda x: ('call', NP_UNARY[f], [x]))
            if v[0] == 'unique':
                # only reached in the branch where all elements are equal: the single distinct value
                return ('call', NP_UNARY[f], [v[1].data[0]])
            return NotImplemented
        if f in NP_BINARY and len(args) == 2:
            a, b = self.expr(args[0], env), self.expr(args[1], env)
            if isinstance(a, A) or isinstance(b, A):
                return symarr.elementwise(self._bin(NP_BINARY[f]), a, b)     # np.multiply is elementwise even for matrices
            return NotImplemented
        if f == 'clip' and len(args) == 3 and not n.keywords:
            # numpy.clip(x, lo, hi) = minimum(maximum(x, lo), hi)
            x, lo, hi = [self.expr(a, env) for a in args]
            if isinstance(lo, A) or isinstance(hi, A):
                return NotImplemented
            cl = lambda v: ('call', 'min', [('call', 'max', [v, lo]), hi])
            return x.map(cl) if isinstance(x, A) else cl(x)
        if f in ('arctan2', 'mod') and len(args) == 2:
            a, b = self.expr(args[0], env), self.expr(args[1], env)
            if isinstance(a, A) or isinstance(b, A):
                fn = 'atan2' if f == 'arctan2' else 'rmod'
                return symarr.elementwise(lambda x, y: ('call', fn, [x, y]), a, b)
            return NotImplemented
        if f == 'sum' and len(args) >= 1:
            v = self.expr(args[0], env)
            if isinstance(v, A):
                axis = None
                if len(args) > 1:
                    axis = self.static_index(args[1], env)
                if 'axis' in kw:
                    axis = self.static_index(kw['axis'], env)
                return symarr.reduce_sum(v, axis, self._bin('+'), ir.num(0))
            return NotImplemented
        if f == 'einsum' and len(args) == 3 and isinstance(args[0], ast.Constant) and args[0].value == 'ij,ij->j':
            a, b = self.expr(args[1], env), self.expr(args[2], env)
            if isinstance(a, A) and isinstance(b, A) and a.shape == b.shape and a.ndim == 2:
                prod = symarr.elementwise(self._bin('*'), a.as_array(), b.as_array())
                s_ = symarr.reduce_sum(prod, 0, self._bin('+'), ir.num(0))
                return s_.as_array() if isinstance(s_, A) else s_
            raise NotImplementedError('einsum operands')
        if f == 'cross' and len(args) == 2:
            a, b = self.expr(args[0], env), self.expr(args[1], env)
            if isinstance(a, A) and isinstance(b, A):
                return symarr.cross(a, b, self._bin('-'), self._bin('*'))
            return NotImplemented
        if f == 'diag' and len(args) == 1:
            v = self.expr(args[0], env)
            if isinstance(v, A):
                return symarr.diag(v)
            return NotImplemented
        if f in ('squeeze', 'real', 'transpose') and len(args) >= 1:
            v = self.expr(args[0], env)
            if isinstance(v, A):
                return {'squeeze': v.squeeze, 'real': lambda: v, 'transpose': v.T}[f]()
            return NotImplemented
        if f == 'prod' and len(args) == 1:
            v = self.expr(args[0], env)
            if not isinstance(v, A) and v[0] == 'tuple' and all(x[0] == 'num' for x in v[1]):
                p_ = Fraction(1)
                for x in v[1]:
                    p_ *= x[1]
                return ('num', p_)
            return NotImplemented
        if f == 'unique' and len(args) == 1:
            v = self.expr(args[0], env)
            if isinstance(v, A):
                return ('unique', v)
            return NotImplemented
        return NotImplemented

    def expr_scalar(self, n, env):
        if isinstance(n, ast.Constant):
            if isinstance(n.value, bool) or n.value is None or isinstance(n.value, str):
                return ('const', n.value)
            if isinstance(n.value, int):
                return ('num', Fraction(n.value))
            if isinstance(n.value, float):
                seg = ast.get_source_segment(self.tr.src, n)
                return ('num', Fraction(seg))
            raise Untranslatable('constant', n)
        if isinstance(n, ast.Name):
            if n.id in env:
                return env[n.id]
            g = self.lookup_global(n.id)
            if g is not None:
                return g
            raise Untranslatable('unknown name %s' % n.id, n)
        if isinstance(n, ast.Attribute):
            d = _dotted(n)
            if d in ('np.pi', 'math.pi', 'numpy.pi'):
                return ('pi',)
            if d in ('np.inf', 'numpy.inf', 'math.inf'):
                return ('inf', 1)
            if n.attr in ('T', '_ln_pdf'):
                self.stats['shape_ops'] += 1
                return self.expr(n.value, env)
            if d is not None and d.startswith('self.') and d in self.consts:
                return _const_ir(self.consts[d])
            if d is not None and d.startswith('self.') and d[5:] in self.state_params:
                nm = d[5:]
                if nm not in self.state_vars:
                    self.state_vars.append(nm)
                    self.used.add(nm)
                    self.extra_params.append(nm)
                return ('var', nm)
            if d is not None and d.startswith('self.'):
                key = d
                if key in env:
                    return env[key]
                v = self.fresh(d.replace('self.', '').replace('.', '_'))
                self.extra_params.append(v)
                env[key] = ('var', v)
                return env[key]
            raise Untranslatable('attribute %s' % d, n)
        if isinstance(n, ast.UnaryOp):
            if isinstance(n.op, ast.USub):
                v = self.expr(n.operand, env)
                if v[0] == 'inf':
                    return ('inf', -v[1])
                return self.fold(('neg', v))
            if isinstance(n.op, ast.UAdd):
                return self.expr(n.operand, env)
            if isinstance(n.op, ast.Not):
                return self.cond(n, env)
        if isinstance(n, ast.BinOp):
            if isinstance(n.op, ast.Pow):
                k = self.expr(n.right, env)
                a = self.expr(n.left, env)
                if k[0] == 'num' and k[1].denominator == 1 and 0 <= k[1] <= 8:
                    return ('pow', a, int(k[1]))
                if k[0] == 'num' and k[1] == Fraction(1, 2):
                    return ('call', 'sqrt', [a])
                raise Untranslatable('power with non-integer exponent', n)
            op = {ast.Add: '+', ast.Sub: '-', ast.Mult: '*', ast.Div: '/'}.get(type(n.op))
            if op is None:
                raise Untranslatable('binary operator %s' % type(n.op).__name__, n)
            a, b = self.expr(n.left, env), self.expr(n.right, env)
            if a[0] == 'const' or b[0] == 'const':
                raise Untranslatable('arithmetic on a non-numeric constant', n)
            return self.fold(('bin', op, a, b))
        if isinstance(n, ast.IfExp):
            c = self.cond(n.test, env)
            if c[0] == 'const':
                return self.expr(n.body if c[1] else n.orelse, env)
            return ('if', c, self.expr(n.body, env), self.expr(n.orelse, env))
        if isinstance(n, ast.Compare) or isinstance(n, ast.BoolOp):
            return self.cond(n, env)
        if isinstance(n, (ast.Tuple, ast.List)):
            return ('tuple', [self.expr(x, env) for x in n.elts])
        if isinstance(n, ast.Dict) and not n.keys:
            return ('dict', {})
        if isinstance(n, ast.Subscript):
            base = n.value
            if isinstance(n.slice, ast.Constant) and isinstance(n.slice.value, str):
                bd = _dotted(base)
                if bd is not None and (bd in self.state_params or (bd.startswith('self.') and bd[5:] in self.state_params)):
                    b = self.expr(base, env)
                    return ('field', n.slice.value, b)
                if bd is not None and bd.startswith('self.') and bd in self.consts and isinstance(self.consts[bd], dict):
                    return _const_ir(self.consts[bd][n.slice.value])
                if bd is not None and bd.startswith('self.'):
                    key = '%s[%s]' % (bd, n.slice.value)
                    if key not in env:
                        v = self.fresh('%s_%s' % (bd[5:], n.slice.value))
                        self.extra_params.append(v)
                        env[key] = ('var', v)
                    return env[key]
            if isinstance(n.slice, ast.Constant) and isinstance(n.slice.value, str) and isinstance(base, ast.Name):
                key = '%s[%s]' % (base.id, n.slice.value)
                if key not in env:
                    if base.id not in env:
                        raise Untranslatable('unknown name %s' % base.id, n)
                    v = self.fresh('%s_%s' % (base.id, n.slice.value))
                    self.extra_params.append(v)
                    env[key] = ('var', v)
                return env[key]
            b = self.expr(base, env)
            if isinstance(n.slice, ast.Tuple):
                idxs = [self.index_value(x, env) for x in n.slice.elts]
                if b[0] == 'tuple' and all(isinstance(i, int) for i in idxs):
                    v = b
                    for i in idxs:
                        # a column vector indexed [i, 0]: the trailing 0 is a shape artefact
                        if v[0] != 'tuple':
                            if i == 0:
                                continue
                            raise Untranslatable('index into a scalar', n)
                        v = v[1][i]
                    return v
                raise Untranslatable('subscript', n)
            i = self.index_value(n.slice, env)
            if isinstance(i, int) and b[0] == 'tuple':
                return b[1][i]
            if i == 0 and i is not True and b[0] not in ('tuple', 'const'):
                self.stats['shape_ops'] += 1
                return b      # element 0 of a flattened scalar
            if i is True:
                self.stats['masked_reads_of_all'] = self.stats.get('masked_reads_of_all', 0) + 1
                return b     # x[mask] with a mask that is statically all-true (finite-entry model)
            raise Untranslatable('subscript', n)
        if isinstance(n, ast.Call):
            return self.call(n, env)
        raise Untranslatable('expression %s' % type(n).__name__, n)

    def index_value(self, node, env):
        v = self.expr(node, env)
        if v[0] == 'num' and v[1].denominator == 1:
            return int(v[1])
        if v[0] == 'const' and v[1] is True:
            return True
        return None

    def call(self, n, env):
        d = _dotted(n.func)
        args = n.args
        if d == 'copy.copy' and len(args) == 1:
            return self.expr(args[0], env)
        if self.loop_mode and d in ('np.random.randn', 'np.random.rand'):
            self.n_random += 1
            v = self.fresh(('z%d' if d.endswith('randn') else 'u%d') % self.n_random)
            self.extra_params.append(v)
            return ('var', v)
        # string helpers on constants (phase normalisation)
        if isinstance(n.func, ast.Attribute):
            recv = n.func.value
            meth = n.func.attr
            if meth in ('lower', 'upper', 'rstrip', 'lstrip', 'strip', 'split', 'replace'):
                r = self.expr(recv, env)
                if r[0] == 'const' and isinstance(r[1], str):
                    a = [self.expr(x, env) for x in args]
                    if all(x[0] == 'const' for x in a):
                        out = getattr(r[1], meth)(*[x[1] for x in a])
                        if isinstance(out, list):
                            return ('tuple', [('const', o) for o in out])
                        return ('const', out)
                raise Untranslatable('string method on data', n)
            if meth == 'max' and not args and isinstance(recv, ast.Name) and recv.id in self.list_params:
                return ('lmax', recv.id)
            if meth in ('exp', 'sum', 'max') and not args and self.list_params and not (d or '').startswith('np.'):
                body = self.expr(recv, env)
                ls = [v[:-4] for v in ir.free_vars(body, []) if v.endswith('_elt') and v[:-4] in self.list_params]
                if meth == 'exp':
                    return ('call', 'exp', [body])
                if len(ls) == 1 and meth == 'sum':
                    return ('lsum', ls[0], body)
                if len(ls) == 1 and meth == 'max' and body == ('var', ls[0] + '_elt'):
                    return ('lmax', ls[0])
                raise Untranslatable('reduction method on a non-elementwise value', n)
            if meth in SHAPE_METHODS and (d is None or not d.startswith('np.')):
                self.stats['shape_ops'] += 1
                return self.expr(recv, env)
        if d is None and isinstance(n.func, ast.Attribute) and isinstance(n.func.value, ast.Call) and \
                _dotted(n.func.value.func) == 'super' and ('super.' + n.func.attr) in self.methods:
            cname, npos = self.methods['super.' + n.func.attr]
            return ('ucall', cname, (), [self.expr(a, env) for a in args[:npos]])
        if d is None:
            raise Untranslatable('call of a computed function', n)
        if d == 'len':
            a = self.expr(args[0], env)
            if a[0] == 'tuple':
                return ('num', Fraction(len(a[1])))
            if a[0] == 'const' and isinstance(a[1], str):
                return ('num', Fraction(len(a[1])))
            raise Untranslatable('len of data', n)
        mod, _, f = d.rpartition('.')
        if mod in ('np', 'numpy', 'math'):
            if f in NP_UNARY and len(args) == 1:
                return ('call', NP_UNARY[f], [self.expr(args[0], env)])
            if f in NP_BINARY and len(args) == 2:
                return self.fold(('bin', NP_BINARY[f], self.expr(args[0], env), self.expr(args[1], env)))
            if f == 'arctan2' and len(args) == 2:
                return ('call', 'atan2', [self.expr(args[0], env), self.expr(args[1], env)])
            if f == 'mod' and len(args) == 2:
                return ('call', 'rmod', [self.expr(args[0], env), self.expr(args[1], env)])
            if f == 'fmod' and len(args) == 2:
                return ('call', 'fmod', [self.expr(args[0], env), self.expr(args[1], env)])
            if f == 'power' and len(args) == 2:
                k = self.expr(args[1], env)
                if k[0] == 'num' and k[1].denominator == 1 and 0 <= k[1] <= 8:
                    return ('pow', self.expr(args[0], env), int(k[1]))
                if not isinstance(k, A):
                    # real exponent: Rpower (defined for a positive base; the theorems using it say so)
                    return ('call', 'rpow', [self.expr(args[0], env), k])
            if f == 'sum' and len(args) >= 1 and self.list_params:
                body = self.expr(args[0], env)
                ls = [v[:-4] for v in ir.free_vars(body, []) if v.endswith('_elt') and v[:-4] in self.list_params]
                if len(ls) == 1:
                    return ('lsum', ls[0], body)
                raise Untranslatable('np.sum of a non-elementwise expression', n)
            if f == 'max' and len(args) >= 1 and self.list_params:
                body = self.expr(args[0], env)
                if body[0] == 'var' and body[1].endswith('_elt') and body[1][:-4] in self.list_params:
                    return ('lmax', body[1][:-4])
                raise Untranslatable('np.max of an expression', n)
            if f == 'isfinite' and len(args) == 1:
                self.expr(args[0], env)
                self.stats['isfinite_assumed_true'] = self.stats.get('isfinite_assumed_true', 0) + 1
                return ('const', True)   # the real-valued model covers finite values; -inf is K's subject
            if f == 'where' and len(args) == 3:
                c = self.cond(args[0], env)
                if c[0] == 'const':
                    return self.expr(args[1] if c[1] else args[2], env)
                return ('if', c, self.expr(args[1], env), self.expr(args[2], env))
            if f in ('ndim', 'shape', 'prod') and len(args) == 1:
                raise Untranslatable('shape query in a value position', n)
            if f == 'reshape' and len(args) == 2:
                self.stats['shape_ops'] += 1
                return self.expr(args[0], env)
            if f == 'real' and len(args) == 1:
                return self.expr(args[0], env)
            if f in SHAPE_FUNCS and len(args) >= 1:
                self.stats['shape_ops'] += 1
                if isinstance(args[0], ast.List) and len(args[0].elts) == 1:
                    return self.expr(args[0].elts[0], env)   # np.array([x]): a one-element wrapper
                return self.expr(args[0], env)
            raise Untranslatable('numpy function %s' % f, n)
        if d == 'erf' and len(args) == 1:
            return ('call', 'erf', [self.expr(args[0], env)])
        if d == 'float' and len(args) == 1:
            self.stats['shape_ops'] += 1
            return self.expr(args[0], env)
        if d in ('abs',) and len(args) == 1:
            return ('call', 'abs', [self.expr(args[0], env)])
        if d in ('min', 'max') and len(args) == 1 and isinstance(args[0], (ast.List, ast.Tuple)) and len(args[0].elts) == 2:
            a0, a1 = [self.expr(x, env) for x in args[0].elts]
            if a0[0] == 'inf' and ((d == 'max' and a0[1] < 0) or (d == 'min' and a0[1] > 0)):
                return a1    # max([-inf, x]) = x
            if a0[0] == 'inf' or a1[0] == 'inf':
                raise Untranslatable('infinity in min/max', n)
            return ('call', d, [a0, a1])
        if d in ('tuple', 'list') and len(args) == 1:
            v = self.expr(args[0], env)
            if v[0] == 'tuple':
                return v
            raise Untranslatable('tuple() of a non-list', n)
        if d == 'enumerate' and len(args) == 1:
            v = self.expr(args[0], env)
            if v[0] == 'tuple':
                return ('tuple', [('tuple', [('num', Fraction(i)), x]) for i, x in enumerate(v[1])])
            raise Untranslatable('enumerate of a non-list', n)
        if d == 'range' and len(args) == 1:
            v = self.expr(args[0], env)
            if v[0] == 'num' and v[1].denominator == 1:
                return ('tuple', [('num', Fraction(i)) for i in range(int(v[1]))])
            raise Untranslatable('range of a non-constant', n)
        if d == 'copy.copy' and len(args) == 1:
            return self.expr(args[0], env)
        if d == 'LnPDF' and len(args) == 1:
            self.stats['shape_ops'] += 1
            return self.expr(args[0], env)
        if d in ('min', 'max') and len(args) == 2 and not n.keywords:
            return ('call', d, [self.expr(args[0], env), self.expr(args[1], env)])
        # (a definition of the same name in the translated file that the spec asks to inline takes precedence over the library mapping)
        if d == 'gaussian_cdf' and len(args) == 3 and d not in self.inline:
            x, mu, s = [self.expr(a, env) for a in args]
            return ('call', 'Phi', [self.fold_affine(x, mu, s)])
        if d == 'gaussian_pdf' and len(args) == 3 and d not in self.inline:
            x, mu, s = [self.expr(a, env) for a in args]
            z = self.fold_affine(x, mu, s)
            return ('bin', '/', ('call', 'exp', [('neg', ('bin', '/', ('bin', '*', z, z), ir.num(2)))]),
                    ('bin', '*', s, ('call', 'sqrt', [('bin', '*', ir.num(2), ('pi',))])))
        if d is not None and d.startswith('self.') and d[5:] in self.methods:
            cname, npos = self.methods[d[5:]]
            if len(args) < npos:
                raise Untranslatable('call of %s with too few arguments' % d, n)
            return ('ucall', cname, (), [self.expr(a, env) for a in args[:npos]])
        if d in self.oracle_calls:
            # an external routine (eigen-solver): its outputs become fresh parameters of the definition; what is
            # assumed about them is a hypothesis of the theorems, and the correspondence run feeds the real outputs
            self.oracle_args.setdefault(d, []).append([self.expr(a, env) for a in args])
            outs = []
            spec = self.oracle_calls[d]
            single = isinstance(spec, tuple)
            for oname, shape, ismat in ([spec] if single else spec):
                data = []
                def mk(prefix, dims):
                    if not dims:
                        v = self.fresh(prefix)
                        self.extra_params.append(v)
                        data.append(('var', v))
                        return
                    for i in range(dims[0]):
                        mk('%s_%d' % (prefix, i), dims[1:])
                mk(oname, list(shape))
                outs.append(A(shape, data, ismat))
            return outs[0] if single else ('tuple', outs)
        if d in self.callees:
            cname, extras, npos = self.callees[d]
            if len(args) != npos or n.keywords:
                raise Untranslatable('call of %s with an unexpected argument list' % d, n)
            return ('ucall', cname, tuple(extras), [self.bind('arg', self.expr(a, env)) for a in args])
        if d in self.inline:
            callee = self.tr.find(d)
            names = [x.arg for x in callee.args.args if x.arg != 'self']
            cenv = {}
            defaults = callee.args.defaults
            for nm, dflt in zip(names[len(names) - len(defaults):], defaults):
                cenv[nm] = self.expr(dflt, {})
            for nm, a in zip(names, args):
                cenv[nm] = self.bind(nm, self.expr(a, env))
            for kw in n.keywords:
                cenv[kw.arg] = self.bind(kw.arg, self.expr(kw.value, env))
            for nm in names:
                if nm not in cenv:
                    raise Untranslatable('missing argument %s in inlined call %s' % (nm, d), n)
            saved_capture, self.capture = self.capture, None
            saved_counts, self.assign_count = self.assign_count, {}
            r = self.block(callee.body, cenv)
            self.capture, self.assign_count = saved_capture, saved_counts
            if r is None:
                raise Untranslatable('inlined %s does not return' % d, n)
            return r
        raise Untranslatable('call to %s' % d, n)

    def fold_affine(self, x, mu, s):
        z = x
        if not (mu[0] == 'num' and mu[1] == 0):
            z = ('bin', '-', z, mu)
        if not (s[0] == 'num' and s[1] == 1):
            z = ('bin', '/', z, s)
        return z


_NOCONST = object()


def _pyconst(e):
    if e[0] == 'const':
        return e[1]
    if e[0] == 'num':
        return e[1]
    return _NOCONST
