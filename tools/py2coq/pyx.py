"""Fail-closed conversion of simple Cython kernels (cdef functions over doubles: declarations with initialisers,
if/elif/else, arithmetic, libc.math calls, writes through pointer or memoryview parameters) into plain Python source
that tools/py2coq/translate.py can translate.  Anything outside that fragment raises PyxError."""
import re


class PyxError(Exception):
    pass


TYPE = r'(?:DTYPE_t|double)'
MATH = {'fabs': 'abs', 'sqrt': 'np.sqrt', 'cos': 'np.cos', 'sin': 'np.sin', 'acos': 'np.arccos', 'atan2': 'np.arctan2', 'fmod': 'np.fmod',
        'exp': 'np.exp', 'log': 'np.log'}


def find_function(text, name):
    lines = text.split('\n')
    start = None
    for i, l in enumerate(lines):
        if re.match(r'^c?p?def\s+(inline\s+)?[\w\[\]:,\s\*]*\b%s\s*\(' % re.escape(name), l):
            start = i
            break
    if start is None:
        raise PyxError('kernel %s not found' % name)
    body = []
    for l in lines[start + 1:]:
        if l.strip() and not l.startswith((' ', '\t')):
            break
        body.append(l)
    return lines[start], body


def params_of(header):
    inside = header[header.index('(') + 1:header.rindex(')')]
    out = []
    for p in inside.split(','):
        p = p.strip()
        m = re.match(r'^%s\s*\[[:,\s1]*\]\s*(\w+)$' % TYPE, p)
        if m:
            out.append((m.group(1), 'array'))
            continue
        m = re.match(r'^%s\s*\*\s*(\w+)$' % TYPE, p)
        if m:
            out.append((m.group(1), 'pointer'))
            continue
        m = re.match(r'^%s\s+(\w+)$' % TYPE, p)
        if m:
            out.append((m.group(1), 'scalar'))
            continue
        raise PyxError('parameter %r' % p)
    return out


def kernel_to_python(text, name, returns, consts):
    """returns: list of python expressions (over the parameters / pointer names) that the generated function returns.
    consts: module-level constants of the pyx file as python source (e.g. {'PI2': '2*np.pi'})."""
    header, body = find_function(text, name)
    params = params_of(header)
    pointers = [n for n, k in params if k == 'pointer']
    single = [p for p in pointers if not re.search(r'\b%s\s*\[\s*[1-9]' % re.escape(p), '\n'.join(body))]
    out = ['def %s(%s):' % (name, ', '.join(n for n, k in params if n not in single))]
    for p in single:
        out.append('    %s = 0' % p)       # a pointer to one double that the kernel writes: becomes a local, returned
    for l in body:
        code = l.split('#')[0].rstrip()
        if not code.strip():
            continue
        code = code.rstrip(';')
        if re.match(r'^\s*cdef\s+%s\s+[\w\s,]+$' % TYPE, code):
            continue          # declaration without initialiser
        code = re.sub(r'^(\s*)cdef\s+%s\s+' % TYPE, r'\1', code)
        if re.match(r'^\s*(cdef|with|for|while|try|except|raise|import|from)\b', code):
            raise PyxError('statement outside the fragment in %s: %r' % (name, code.strip()))
        for p in single:
            code = re.sub(r'\b%s\s*\[\s*0\s*\]' % re.escape(p), p, code)
        if '&' in code or '<' in code and re.search(r'<\s*\w+\s*>', code):
            raise PyxError('address-of / cast in %s: %r' % (name, code.strip()))
        for k, v in MATH.items():
            code = re.sub(r'(?<![\w.])%s\s*\(' % k, v + '(', code)
        code = re.sub(r'(?<![\w.])pi\b', 'np.pi', code)
        for k, v in consts.items():
            code = re.sub(r'(?<![\w.])%s\b' % re.escape(k), '(%s)' % v, code)
        if re.match(r'^\s*return\b', code):
            if returns is None:
                out.append(code)
            continue
        out.append(code)
    if returns is not None:
        out.append('    return %s' % ', '.join(returns))
    return '\n'.join(out) + '\n'
