"""Fail-closed conversion of simple Cython kernels (cdef functions over doubles: declarations with initialisers,
if/elif/else, arithmetic, libc.math calls, writes through pointer or memoryview parameters) into plain Python source
that tools/py2coq/translate.py can translate.  Anything outside that fragment raises PyxError."""
import re


class PyxError(Exception):
    pass


TYPE = r'(?:DTYPE_t|double)'
MATH = {'fabs': 'abs', 'sqrt': 'np.sqrt', 'cos': 'np.cos', 'sin': 'np.sin', 'acos': 'np.arccos', 'atan2': 'np.arctan2', 'fmod': 'np.fmod',
        'exp': 'np.exp', 'log': 'np.log', 'pow': 'np.power', 'fmin': 'min'}


def find_function(text, name, occurrence=0):
    """header line and (dedented) body of the occurrence-th definition of `name`; definitions inside compile-time IF/ELSE blocks
    are indented and are found too"""
    lines = text.split('\n')
    starts = [i for i, l in enumerate(lines) if re.match(r'^\s*c?p?def\s+(inline\s+)?[\w\[\]:,\s\*]*\b%s\s*\(' % re.escape(name), l)]
    if len(starts) <= occurrence:
        raise PyxError('kernel %s (occurrence %d) not found' % (name, occurrence))
    start = starts[occurrence]
    ind = len(lines[start]) - len(lines[start].lstrip())
    body = []
    for l in lines[start + 1:]:
        if l.strip() and len(l) - len(l.lstrip()) <= ind:
            break
        body.append(l[ind:] if l.strip() else l)
    return lines[start].strip(), body


def params_of(header):
    inside = header[header.index('(') + 1:header.rindex(')')]
    out = []
    for p in inside.split(','):
        p = p.strip()
        m = re.match(r'^%s\s*\[[:,\s1]*\]\s*(\w+)$' % TYPE, p)
        if m:
            out.append((m.group(1), 'array'))
            continue
        m = re.match(r'^%s\s*\*\s*(\w+)$' % TYPE, p)
        if m:
            out.append((m.group(1), 'pointer'))
            continue
        m = re.match(r'^%s\s+(\w+)$' % TYPE, p)
        if m:
            out.append((m.group(1), 'scalar'))
            continue
        m = re.match(r'^int\s+(\w+)$', p)
        if m:
            out.append((m.group(1), 'scalar'))
            continue
        m = re.match(r'^\w+_ptr\s+(\w+)$', p)
        if m:
            out.append((m.group(1), 'function'))
            continue
        raise PyxError('parameter %r' % p)
    return out


def kernel_to_python(text, name, returns, consts, occurrence=0, bind=None, thread=None, rename=None):
    """returns: list of python expressions (over the parameters / pointer names) that the generated function returns.
    consts: module-level constants of the pyx file as python source (e.g. {'PI2': '2*np.pi'}).
    bind: function-pointer parameter -> name of the kernel it is bound to by the callers (the parameter is dropped).
    thread: {module-level value: [kernels]}: the value becomes a leading parameter of those kernels and a leading argument of calls to them.
    rename: name of the generated python function (several specialisations of one kernel)."""
    header, body = find_function(text, name, occurrence)
    params = params_of(header)
    bind = bind or {}
    # a function-pointer parameter that is not bound stays a parameter (the translator turns it into a function binder)
    params = [(n, k) for n, k in params if not (k == 'function' and n in bind)]
    lead = [v for v, fs in (thread or {}).items() if name in fs]
    pointers = [n for n, k in params if k == 'pointer']
    single = [p for p in pointers if not re.search(r'\b%s\s*\[\s*[1-9]' % re.escape(p), '\n'.join(body))]
    out = ['def %s(%s):' % (rename or name, ', '.join(lead + [n for n, k in params if n not in single]))]
    for p in single:
        out.append('    %s = 0' % p)       # a pointer to one double that the kernel writes: becomes a local, returned
    for l in body:
        code = l.split('#')[0].rstrip()
        if not code.strip():
            continue
        code = code.rstrip(';')
        if re.match(r'^\s*cdef\s+%s\s+[\w\s,]+$' % TYPE, code):
            continue          # declaration without initialiser
        code = re.sub(r'^(\s*)cdef\s+%s\s+' % TYPE, r'\1', code)
        if re.match(r'^\s*(cdef|with|for|while|try|except|raise|import|from)\b', code):
            raise PyxError('statement outside the fragment in %s: %r' % (name, code.strip()))
        for p in single:
            code = re.sub(r'\b%s\s*\[\s*0\s*\]' % re.escape(p), p, code)
        if '&' in code or '<' in code and re.search(r'<\s*\w+\s*>', code):
            raise PyxError('address-of / cast in %s: %r' % (name, code.strip()))
        for fp, target in bind.items():
            code = re.sub(r'(?<![\w.])%s\s*\(' % re.escape(fp), target + '(', code)
        for v, fs in (thread or {}).items():
            for f in fs:
                code = re.sub(r'(?<![\w.])%s\s*\(' % re.escape(f), '%s(%s, ' % (f, v), code)
        for k, v in MATH.items():
            code = re.sub(r'(?<![\w.])%s\s*\(' % k, v + '(', code)
        code = re.sub(r'(?<![\w.])pi\b', 'np.pi', code)
        for k, v in consts.items():
            code = re.sub(r'(?<![\w.])%s\b' % re.escape(k), '(%s)' % v, code)
        if re.match(r'^\s*return\b', code):
            if returns is None:
                out.append(code)
            continue
        out.append(code)
    if returns is not None:
        out.append('    return %s' % ', '.join(returns))
    return '\n'.join(out) + '\n'
