"""Symbolic numpy arrays for the translator: shape-exact arrays of IR scalars.

Only what the translated MTfit code uses is implemented; anything else raises NotImplementedError,
which the translator turns into Untranslatable (fail closed).  np.matrix semantics are kept
(always 2-D, `*` is the matrix product) because the code under translation relies on them."""
from fractions import Fraction


class A(object):
    def __init__(self, shape, data, ismat=False):
        self.shape = tuple(shape)
        self.data = list(data)
        self.ismat = ismat
        n = 1
        for s in self.shape:
            n *= s
        if n != len(self.data):
            raise NotImplementedError('array data of length %d for shape %r' % (len(self.data), self.shape))
        if ismat and len(self.shape) != 2:
            raise NotImplementedError('matrix with %d dimensions' % len(self.shape))

    @property
    def ndim(self):
        return len(self.shape)

    def __getitem__(self, i):
        # lets scalar-IR code paths test `v[0] == 'const'` etc. on an array without crashing
        if i == 0:
            return 'arr'
        raise IndexError(i)

    def __repr__(self):
        return 'A(%r, ismat=%r)' % (self.shape, self.ismat)

    def at(self, *idx):
        if len(idx) != len(self.shape):
            raise NotImplementedError('index arity')
        off = 0
        for i, s in zip(idx, self.shape):
            if i < 0:
                i += s
            if not (0 <= i < s):
                raise NotImplementedError('index %r out of range for shape %r' % (idx, self.shape))
            off = off * s + i
        return self.data[off]

    def map(self, f):
        return A(self.shape, [f(x) for x in self.data], self.ismat)

    def T(self):
        if self.ndim < 2:
            return self
        r, c = self.shape
        return A((c, r), [self.at(i, j) for j in range(c) for i in range(r)], self.ismat)

    def flatten(self):
        return A((len(self.data),), self.data, False)

    def as_array(self):
        return A(self.shape, self.data, False)

    def as_matrix(self):
        if self.ndim == 0:
            return A((1, 1), self.data, True)
        if self.ndim == 1:
            return A((1, self.shape[0]), self.data, True)
        if self.ndim == 2:
            return A(self.shape, self.data, True)
        raise NotImplementedError('matrix from %d-d array' % self.ndim)

    def squeeze(self):
        sh = tuple(s for s in self.shape if s != 1)
        if self.ismat:
            return A(self.shape, self.data, True)   # numpy: a matrix stays 2-D
        return A(sh, self.data, False)


def is_scalar(v):
    return not isinstance(v, A)


def from_nested(items, ismat):
    """np.array / np.matrix of a (nested) python list whose leaves are IR scalars or arrays"""
    def build(x):
        if isinstance(x, A):
            return x.as_array() if True else x
        if isinstance(x, list):
            subs = [build(y) for y in x]
            if all(is_scalar(s) for s in subs):
                return A((len(subs),), subs)
            subs = [s if isinstance(s, A) else A((), [s]) for s in subs]
            sh = subs[0].shape
            if any(s.shape != sh for s in subs):
                raise NotImplementedError('ragged array literal')
            data = []
            for s in subs:
                data += s.data
            return A((len(subs),) + sh, data)
        return x
    out = build(items)
    if is_scalar(out):
        out = A((), [out])
    if ismat:
        if out.ndim > 2:
            # np.matrix([[a],[b]]) where a, b are (1,) arrays gives (2,1): trailing singleton axes collapse
            sh = [s for s in out.shape]
            while len(sh) > 2 and sh[-1] == 1:
                sh.pop()
            if len(sh) > 2:
                raise NotImplementedError('matrix literal with shape %r' % (out.shape,))
            out = A(sh, out.data)
        return out.as_matrix()
    return out


def broadcast(a, b):
    """numpy broadcasting of two shapes; returns (shape, index maps)"""
    sa, sb = a.shape, b.shape
    n = max(len(sa), len(sb))
    pa, pb = (1,) * (n - len(sa)) + sa, (1,) * (n - len(sb)) + sb
    sh = []
    for x, y in zip(pa, pb):
        if x == y or y == 1:
            sh.append(x)
        elif x == 1:
            sh.append(y)
        else:
            raise NotImplementedError('cannot broadcast %r with %r' % (sa, sb))
    return tuple(sh), pa, pb


def elementwise(f, a, b):
    """f on IR scalars, lifted with broadcasting; scalars are 0-d"""
    if is_scalar(a) and is_scalar(b):
        return f(a, b)
    ismat = (isinstance(a, A) and a.ismat) or (isinstance(b, A) and b.ismat)
    a2 = a if isinstance(a, A) else A((), [a])
    b2 = b if isinstance(b, A) else A((), [b])
    sh, pa, pb = broadcast(a2, b2)
    out = []

    def rec(prefix):
        if len(prefix) == len(sh):
            ia = tuple(0 if s == 1 else i for i, s in zip(prefix, pa))[len(pa) - a2.ndim:] if a2.ndim else ()
            ib = tuple(0 if s == 1 else i for i, s in zip(prefix, pb))[len(pb) - b2.ndim:] if b2.ndim else ()
            out.append(f(a2.at(*ia) if a2.ndim else a2.data[0], b2.at(*ib) if b2.ndim else b2.data[0]))
            return
        for i in range(sh[len(prefix)]):
            rec(prefix + (i,))
    rec(())
    res = A(sh, out, False)
    if ismat:
        res = res.as_matrix() if res.ndim <= 2 else res
    return res


def matmul(a, b, add, mul, zero):
    if a.ndim != 2 or b.ndim != 2 or a.shape[1] != b.shape[0]:
        raise NotImplementedError('matrix product of shapes %r and %r' % (a.shape, b.shape))
    r, k, c = a.shape[0], a.shape[1], b.shape[1]
    data = []
    for i in range(r):
        for j in range(c):
            acc = None
            for t in range(k):
                term = mul(a.at(i, t), b.at(t, j))
                acc = term if acc is None else add(acc, term)
            data.append(acc if acc is not None else zero)
    return A((r, c), data, True)


def reduce_sum(a, axis, add, zero):
    if axis is None:
        acc = None
        for x in a.data:
            acc = x if acc is None else add(acc, x)
        return acc if acc is not None else zero
    if a.ndim == 1 and axis in (0, -1):
        return reduce_sum(a, None, add, zero)
    if a.ndim == 2:
        r, c = a.shape
        if axis == 0:
            data = [reduce_sum(A((r,), [a.at(i, j) for i in range(r)]), None, add, zero) for j in range(c)]
            return A((1, c), data, True) if a.ismat else A((c,), data)
        if axis in (1, -1):
            data = [reduce_sum(A((c,), [a.at(i, j) for j in range(c)]), None, add, zero) for i in range(r)]
            return A((r, 1), data, True) if a.ismat else A((r,), data)
    raise NotImplementedError('sum over axis %r of shape %r' % (axis, a.shape))


def cross(a, b, sub, mul):
    """np.cross of two (1,3) / (3,) operands -> same leading shape"""
    fa, fb = a.flatten(), b.flatten()
    if len(fa.data) != 3 or len(fb.data) != 3:
        raise NotImplementedError('cross product of shapes %r, %r' % (a.shape, b.shape))
    x1, y1, z1 = fa.data
    x2, y2, z2 = fb.data
    data = [sub(mul(y1, z2), mul(z1, y2)), sub(mul(z1, x2), mul(x1, z2)), sub(mul(x1, y2), mul(y1, x2))]
    if a.ndim == 2:
        return A((1, 3), data, False)
    return A((3,), data, False)


def index(a, idx):
    """idx: tuple of ints / 'all' / list-of-ints; numpy basic+integer-array indexing on 1-d and 2-d arrays"""
    if not isinstance(idx, tuple):
        idx = (idx,)
    if a.ndim == 1:
        if len(idx) != 1:
            raise NotImplementedError('index %r into shape %r' % (idx, a.shape))
        i = idx[0]
        if i == 'all':
            return a
        if isinstance(i, list):
            return A((len(i),), [a.at(j) for j in i], False)
        return a.at(i)
    if a.ndim == 2:
        r, c = a.shape
        if len(idx) == 1:
            i = idx[0]
            if isinstance(i, list):
                return A((len(i), c), [a.at(j, k) for j in i for k in range(c)], a.ismat)
            if i == 'all':
                return a
            row = [a.at(i, k) for k in range(c)]
            return A((1, c), row, True) if a.ismat else A((c,), row)
        i, j = idx
        if isinstance(i, int) and isinstance(j, int):
            return a.at(i, j)
        if i == 'all' and isinstance(j, int):
            col = [a.at(k, j) for k in range(r)]
            return A((r, 1), col, True) if a.ismat else A((r,), col)
        if isinstance(i, int) and j == 'all':
            row = [a.at(i, k) for k in range(c)]
            return A((1, c), row, True) if a.ismat else A((c,), row)
        if i == 'all' and j == 'all':
            return a
    raise NotImplementedError('index %r into shape %r' % (idx, a.shape))


def diag(a):
    if a.ndim == 1:
        n = a.shape[0]
        return A((n, n), [a.data[i] if i == j else ('num', Fraction(0)) for i in range(n) for j in range(n)], False)
    if a.ndim == 2 and a.shape[0] == a.shape[1]:
        n = a.shape[0]
        d = [a.at(i, i) for i in range(n)]
        return A((n,), d, False)
    raise NotImplementedError('diag of shape %r' % (a.shape,))
