"""Intermediate representation shared by the two renderers (Coq text over R, Python callable).

Every node is a tuple whose first element is a tag:
  ('num', Fraction)            exact rational literal
  ('var', name)
  ('pi',)
  ('bin', op, a, b)            op in + - * /
  ('neg', a)
  ('pow', a, k)                integer k >= 0
  ('call', fn, [args])         fn from FUNS
  ('if', cond, a, b)
  ('cmp', op, a, b)            op in < <= > >= == !=
  ('and', a, b) ('or', a, b) ('not', a)
  ('tuple', [items])
  ('const', pyvalue)           str / bool / None, only alive during partial evaluation
"""
from fractions import Fraction
import math

FUNS = {
    # name: (coq text, arity)
    'sqrt': ('sqrt', 1), 'exp': ('exp', 1), 'ln': ('ln', 1), 'cos': ('cos', 1), 'sin': ('sin', 1),
    'tan': ('tan', 1), 'acos': ('acos', 1), 'asin': ('asin', 1), 'atan': ('atan', 1),
    'atan2': ('atan2', 2), 'abs': ('Rabs', 1), 'erf': ('erf', 1), 'sign': ('sgn', 1),
    'Phi': ('Phi', 1), 'min': ('Rmin', 2), 'max': ('Rmax', 2), 'rmod': ('rmod', 2), 'fmod': ('Rfmod', 2),
    'floor': ('Rfloor', 1), 'rpow': ('Rpower', 2),
}


def num(x):
    return ('num', Fraction(x))


def is_num(e):
    return e[0] == 'num'


def free_vars(e, acc=None):
    if acc is None:
        acc = []
    t = e[0]
    if t == 'var':
        if e[1] not in acc:
            acc.append(e[1])
    elif t in ('num', 'pi', 'const'):
        pass
    elif t == 'call':
        for a in e[2]:
            free_vars(a, acc)
    elif t == 'tuple':
        for a in e[1]:
            free_vars(a, acc)
    elif t == 'ucall':
        for a in e[3]:
            free_vars(a, acc)
    elif t == 'field':
        free_vars(e[2], acc)
    elif t == 'lsum':
        if e[1] not in acc:
            acc.append(e[1])
        for v in free_vars(e[2], []):
            if v != e[1] + '_elt' and v not in acc:
                acc.append(v)
    elif t == 'lmax':
        if e[1] not in acc:
            acc.append(e[1])
    elif t == 'pow':
        free_vars(e[1], acc)
    else:
        for a in e[1:]:
            if isinstance(a, tuple):
                free_vars(a, acc)
    return acc


def uses(e, fn):
    """does expression e call function fn?"""
    t = e[0]
    if t == 'call':
        return e[1] == fn or any(uses(a, fn) for a in e[2])
    if t == 'tuple':
        return any(uses(a, fn) for a in e[1])
    if t == 'ucall':
        return any(uses(a, fn) for a in e[3])
    if t == 'field':
        return False
    if t == 'lsum':
        return uses(e[2], fn)
    if t in ('num', 'pi', 'const', 'var', 'lmax'):
        return False
    return any(uses(a, fn) for a in e[1:] if isinstance(a, tuple))


# --------------------------------------------------------------------------- Coq

def coq_num(fr):
    n, d = fr.numerator, fr.denominator
    if d == 1:
        return str(n) if n >= 0 else '(- %d)' % (-n)
    # powers of ten are written with Rpower-free syntax n / d ; huge denominators as 10^k
    s = str(d)
    if s[0] == '1' and set(s[1:]) <= {'0'} and len(s) > 7:
        body = '%d / (10 ^ %d)' % (abs(n), len(s) - 1)
    else:
        body = '%d / %d' % (abs(n), d)
    return '(%s)' % body if n >= 0 else '(- (%s))' % body


def to_coq(e):
    t = e[0]
    if t == 'num':
        return coq_num(e[1])
    if t == 'var':
        return e[1]
    if t == 'pi':
        return 'PI'
    if t == 'bin':
        return '(%s %s %s)' % (to_coq(e[2]), e[1], to_coq(e[3]))
    if t == 'neg':
        return '(- %s)' % to_coq(e[1])
    if t == 'pow':
        return '(%s ^ %d)' % (to_coq(e[1]), e[2])
    if t == 'call':
        return '(%s %s)' % (FUNS[e[1]][0], ' '.join(to_coq(a) for a in e[2]))
    if t == 'if':
        return '(if %s then %s else %s)' % (cond_coq(e[1]), to_coq(e[2]), to_coq(e[3]))
    if t == 'tuple':
        return '(%s)' % ', '.join(to_coq(a) for a in e[1])
    if t == 'field':
        return '(s_%s %s)' % (e[1], to_coq(e[2]))
    if t == 'lsum':
        return '(Rlist_sum (map (fun %s_elt => %s) %s))' % (e[1], to_coq(e[2]), e[1])
    if t == 'lmax':
        return '(Rlist_max %s)' % e[1]
    if t == 'ucall':
        # call of a previously generated definition: e = ('ucall', name, extra_binders, [args])
        return '(%s %s)' % (e[1], ' '.join(list(e[2]) + [to_coq(a) for a in e[3]]))
    raise ValueError('cannot render %r' % (e,))


def cond_coq(c):
    t = c[0]
    if t == 'cmp':
        a, b = to_coq(c[2]), to_coq(c[3])
        op = c[1]
        if op == '<':
            return '(Rlt_dec %s %s)' % (a, b)
        if op == '<=':
            return '(Rle_dec %s %s)' % (a, b)
        if op == '>':
            return '(Rlt_dec %s %s)' % (b, a)
        if op == '>=':
            return '(Rle_dec %s %s)' % (b, a)
        if op == '==':
            return '(Req_EM_T %s %s)' % (a, b)
        if op == '!=':
            return '(Rneq_dec %s %s)' % (a, b)
    if t == 'and':
        return '(sumbool_and _ _ _ _ %s %s)' % (cond_coq(c[1]), cond_coq(c[2]))
    if t == 'or':
        return '(sumbool_or _ _ _ _ %s %s)' % (cond_coq(c[1]), cond_coq(c[2]))
    if t == 'not':
        return '(sumbool_not _ _ %s)' % cond_coq(c[1])
    raise ValueError('cannot render condition %r' % (c,))


# --------------------------------------------------------------------------- Python

def _sgn(x):
    return (x > 0) - (x < 0)


def _Phi(x):
    return 0.5 * math.erfc(-x / math.sqrt(2.0))


def _rmod(x, m):
    return x - m * math.floor(x / m)


PYENV = {'sqrt': math.sqrt, 'exp': math.exp, 'ln': math.log, 'cos': math.cos, 'sin': math.sin,
         'tan': math.tan, 'acos': math.acos, 'asin': math.asin, 'atan': math.atan,
         'atan2': math.atan2, 'abs': abs, 'erf': math.erf, 'sign': _sgn, 'Phi': _Phi,
         'min': min, 'max': max, 'rmod': _rmod, 'floor': math.floor, 'fmod': math.fmod, 'rpow': math.pow}


def evaluate(e, env, funs=None):
    """Float evaluation of the IR (the second rendering, used to validate the translator)."""
    F = PYENV if funs is None else funs
    t = e[0]
    if t == 'num':
        return e[1].numerator / e[1].denominator
    if t == 'var':
        return env[e[1]]
    if t == 'pi':
        return math.pi
    if t == 'bin':
        a, b = evaluate(e[2], env, F), evaluate(e[3], env, F)
        if e[1] == '+':
            return a + b
        if e[1] == '-':
            return a - b
        if e[1] == '*':
            return a * b
        if e[1] == '/':
            try:
                return a / b
            except ZeroDivisionError:   # IEEE semantics, as numpy has them
                if a == 0 or a != a:
                    return float('nan')
                return math.copysign(math.inf, a) * math.copysign(1.0, b)
    if t == 'neg':
        return -evaluate(e[1], env, F)
    if t == 'pow':
        return evaluate(e[1], env, F) ** e[2]
    if t == 'call':
        return F[e[1]](*[evaluate(a, env, F) for a in e[2]])
    if t == 'if':
        return evaluate(e[2], env, F) if evalc(e[1], env, F) else evaluate(e[3], env, F)
    if t == 'tuple':
        return tuple(evaluate(a, env, F) for a in e[1])
    if t == 'ucall':
        return F['user:' + e[1]]([evaluate(a, env, F) for a in e[3]])
    if t == 'field':
        return evaluate(e[2], env, F)[e[1]]
    if t == 'lsum':
        tot = 0.0
        for x in env[e[1]]:
            env2 = _Overlay(env, e[1] + '_elt', x)
            tot += evaluate(e[2], env2, F)
        return tot
    if t == 'lmax':
        return max(env[e[1]])
    raise ValueError('cannot evaluate %r' % (e,))


class _Overlay(object):
    def __init__(self, base, k, v):
        self.base, self.k, self.v = base, k, v

    def __getitem__(self, k):
        return self.v if k == self.k else self.base[k]


def lifted(e, lists):
    return any(v.endswith('_elt') and v[:-4] in lists for v in free_vars(e, []))


def evalc(c, env, F):
    t = c[0]
    if t == 'cmp':
        a, b = evaluate(c[2], env, F), evaluate(c[3], env, F)
        return {'<': a < b, '<=': a <= b, '>': a > b, '>=': a >= b, '==': a == b, '!=': a != b}[c[1]]
    if t == 'and':
        return evalc(c[1], env, F) and evalc(c[2], env, F)
    if t == 'or':
        return evalc(c[1], env, F) or evalc(c[2], env, F)
    if t == 'not':
        return not evalc(c[1], env, F)
    raise ValueError(c)
