#!/bin/sh
# Runs the repository's baseline suite on /repo (guard off) and compares with the 184 stable tests.
OUT=${1:-/tmp/baseline_junit.xml}
cd /repo && env -u DJPUGH_MTFIT_VERIF /venv/bin/python -m pytest -ra -q -p no:cacheprovider --timeout=900 --continue-on-collection-errors --junitxml=$OUT > /tmp/baseline_pytest.log 2>&1
python3 - $OUT <<'PY'
import json,sys,xml.etree.ElementTree as ET
base=json.load(open('/root/.vp/BASELINE.json'))
stable=set(base['stable_pass'])
t=ET.parse(sys.argv[1])
passed=set()
for tc in t.iter('testcase'):
    ok=not any(ch.tag in ('failure','error','skipped') for ch in tc)
    if ok: passed.add('%s::%s'%(tc.get('classname'),tc.get('name')))
norm=lambda s: s.replace('::','.')
p2=set(norm(x) for x in passed)
missing=[s for s in stable if norm(s) not in p2]
print('passed',len(passed),'stable missing',len(missing)); print('\n'.join(sorted(missing)))
PY
