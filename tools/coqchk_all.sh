#!/bin/sh
# Re-checks every compiled property file (and everything it depends on) with the independent checker coqchk and
# prints the axioms each relies on.  Not part of the registered commands (takes 15-25 minutes in total).
cd /verif/coq || exit 2
rc=0
for f in Props/C*.v; do
  m=MTV.Props.$(basename $f .v)
  out=$(timeout 1500 coqchk -silent -o -R . MTV $m 2>&1)
  if echo "$out" | grep -q "Fatal Error"; then echo "$m: COQCHK FAILED"; rc=1; continue; fi
  echo "$m: ok; axioms: $(echo "$out" | sed -n '/^\* Axioms:/,/^\* Constants/p' | grep -v '^\*' | tr -s ' \n' ' ')"
done
exit $rc
