"""Writes /verif/MANIFEST.json from the table below (run after adding a check)."""
import json
import os

VERIF = os.path.dirname(os.path.dirname(os.path.abspath(__file__)))
ALL = [json.loads(l)['id'] for l in open(os.path.join(VERIF, 'properties.jsonl'))]

AX_R = ('axioms: the three real-number axioms of the Coq standard library (ClassicalDedekindReals.sig_not_dec, '
        'sig_forall_dec, FunctionalExtensionality.functional_extensionality_dep) where Reals are used; ')

CHECKS = {
    'C20': dict(
        technique='Coq proof over R that Cython kernels and the Python routines they replace are the same function, both sides regenerated from source on every run (pyx kernels through a textual pyx->Python conversion, then py2coq); converted kernels executed against the pure-Python implementation',
        text='PARTIAL (source level; the extensions cannot be built here). Theorems in coq/Props/C20.v about definitions regenerated from '
             'cmoment_tensor_conversion.pyx, cprobability.pyx and the Python modules: the Hudson (u,v) kernel equals tk_uv for all tau, k; '
             'the (tau,k) kernel equals E_tk on sorted eigenvalues; the lune kernel (no clip, E0==E2 test) equals E_GD on sorted non-zero '
             'eigenvalues; the Tape-parameter -> six-vector kernel equals Tape_MT6 for all parameters with |h| <= 1; the strike/dip/rake '
             'kernel equals FP_SDR on unit vectors whose normal points upwards; the polarity kernel '
             'equals the Python per-station polarity likelihood; the polarity-probability kernel equals it for X != 0 or p+ + p- = 1 '
             '(and provably differs otherwise: known finding); the amplitude-ratio kernel on signed amplitudes equals the Python kernel '
             'for every odd erf with Phi = (1+erf(./sqrt2))/2; the scale-combination kernels equal the combine_mu step; the per-station '
             'scale-factor kernel estimate_scale_mu_s equals the mean/deviation formulas of scale_estimator for all inputs; of '
             'cmarkov_chain_monte_carlo.pyx: the transition-ratio kernel is the ratio of the Python proposal densities (full-tensor and '
             'double-couple states), the balancing-density kernels equal jump_params, the uniform-prior ratio equals the ratio of the Python '
             'priors (all four model combinations), the acceptance kernel with its three function pointers takes the shift / jump-down / '
             'jump-up formula in exactly the stated cases, and composed: the compiled shift acceptance with the uniform prior IS the Python '
             'Metropolis-Hastings acceptance and the compiled jump-up / jump-down acceptances with the Gaussian balancing draw ARE the Python '
             'jump acceptances; the flat-prior ratio across a model jump is proved different (known finding). For every real '
             'input, where the (skipped) *_cython tests compare a few fixed inputs.',
        note=AX_R + 'NOT covered: the compiled binaries, C arithmetic and memory views, the station/sample loops and dispatch wrappers, '
             'random number generation (new_samples, random_mt/dc), log-domain reductions, the module constant ND (a parameter of the model with the stated beta-density hypothesis), and the extension '
             'module cscatangle and the loops / sample generation of cmarkov_chain_monte_carlo - no Cython toolchain exists in this environment and those are loops over '
             'typed memory views outside the translated fragment. tools/py2coq/pyx.py is trusted textual glue.',
        design='6 C20'),
    'C08': dict(
        technique='Coq proof over R (field/ring/lra, Lagrange identity) about a hand-written model, over abstract arithmetic, of one random sample as a function of the normal draws it consumes; bit-exact PrimFloat correspondence against the real generators fed with recorded draws',
        text='Theorems in coq/Props/C08.v: the normalised six Gaussian draws have unit norm and the joint density of the draws depends only on '
             'their sum of squares, hence is invariant under every rotation of the sqrt2-weighted six-vector space (uniformity on the '
             '6-sphere); for every pair of non-parallel vector draws the three axes are orthonormal; the assembled six-vector has unit '
             'norm and, as a tensor, exactly the prescribed eigenvalues on those axes (double-couple, CLVD, any pattern), also as one '
             'composed statement about a whole sample; the axes commute with every proper rotation applied to both vector draws (nsatz, '
             'no hypothesis on the draws) and the joint density of those draws is unchanged by it, so the law of the orientation is '
             'rotation invariant; a joint draw for several events returns one sample set per event, each with one sample per column of its own block of draws and depending on that block alone. All for every value of the draws, i.e. every state of the generator. The unit tests check shape and norm of one draw.',
        note=AX_R + 'the model is hand-written and tied by correspondence only: every returned sample must equal bit for bit the model on the '
             'draws of its own column (this also shows that samples use independent draws). The step from a rotation-invariant density '
             'to the law of the normalised vector, and from a rotation-invariant law of the frame to the uniform (Haar) one, is the standard argument and is '
             'not formalised measure-theoretically; the equivariance theorem is also run on the real generators (recorded draws turned by a random rotation must turn the returned tensor); numpy.random is trusted; distributions are additionally sampled (7-sigma bands); '
             'consecutive calls must not repeat a sample, results held across later calls must not change, the events of a joint draw differ. '
             'The compiled generators are unavailable (C20).',
        design='6 C08'),
    'C17': dict(
        technique='Coq proof (list induction) about hand-written executable models of header-driven CSV event parsing, of the NonLinLoc hyp parser (event splitting, PHASE section, positional fields, first-motion table, per-phase accumulation) and of the binary moment-tensor record codec; vm_compute correspondence against parse_csv and parse_hyp on generated files and against the bytes written by _convert_mt_space_to_struct / read by read_binary_output',
        text='Theorems in coq/Props/C17.v: a CSV row is read back field for field for every column order (extra columns allowed); an event '
             'with any number of data types, each with its own header order, is parsed back to its UID and, type by type and row by row, '
             'to the data of the file whatever state the previous event left; a binary record decodes to what was encoded for any number '
             'of samples, with or without converted parameters, also as one of several concatenated records, and occupies exactly 41 + '
             'n*64 (or n*168) bytes; NonLinLoc hyp files (Model/Hyp.v): whatever stands before and after the PHASE section of an event, its picks come back per phase type with stations, polarities, errors and angles, row for row in file order, only those with a non-zero first motion; a phase type is listed at most once for every sequence of lines; splitting at END_NLLOC recovers any number of events (the last may be unterminated) and each is parsed on its own. The unit tests parse one embedded example each.',
        note='closed under the global context (no axioms). Models are hand-written, tied by correspondence only; tokenising text and cutting '
             'bytes into items is trusted harness glue. The pickled inversion file, the numeric value of hyp tokens (float()) and the value-level binary '
             'round trip are judged on the implementation against the generator\'s own data (direct oracle), not modelled. Well-formed files '
             'only.',
        design='6 C17'),
    'C16': dict(
        technique='Coq proof (induction over operation sequences, lia) about a hand-written executable model of the JobPool: an interleaving state machine and the collection functions over every arrival order; vm_compute correspondence replaying the arrival orders observed on real worker processes',
        text='Theorems in coq/Props/C16.v: under EVERY interleaving of submissions, worker starts and finishes and result pops each task is '
             'accounted for exactly once and number_jobs equals the outstanding count; when nothing is outstanding each non-status task '
             'has been delivered exactly as often as submitted and nothing else; for EVERY order in which results can arrive, all_results '
             'terminates and returns precisely the outstanding non-status results (exceptions included), and result() never blocks while '
             'something is outstanding. The unit test runs a few tasks on one schedule.',
        note='closed under the global context (no axioms). The model is hand-written and tied by correspondence only: the arrival order seen '
             'by the parent in each real run is replayed through the model. Liveness assumes tasks terminate and a fair OS scheduler; '
             'process creation, pipes and pickling are trusted; single-life mode is out of scope (documented as able to block). '
             'A theorem cannot exhibit a real deadlock: blocking is detected on the runs by a time limit.',
        design='6 C16'),
    'C15': dict(
        technique='Coq proof (list induction, lia; Reals field/nra) about a hand-written executable model of the joint multi-event sum with the station-intersection rule and of combine_mu over abstract arithmetic; vm_compute / bit-exact PrimFloat correspondence against the real task (with coded stubs) and combine_mu',
        text='Theorems in coq/Props/C15.v for every number of events, station lists and minimum: without relative data the joint log-probability '
             'is the sum of the events\' own; each further event adds its own term and one term per earlier event; a pair sharing fewer '
             'stations than the minimum contributes nothing and otherwise contributes its term on exactly the shared stations, which do not '
             'depend on the order in which the other event lists them; the scale factor combined over stations is the inverse-variance '
             'weighted mean of the per-station estimates (variance: harmonic combination) and is independent of station order, for any '
             'number of stations and positive uncertainties; the per-station estimate regenerated from scale_estimator on every run '
             '(py_scale_mu) differs from the noise-free ratio mu_y z / mu_x by exactly (A s1^2 - C mu1)/N and by at most '
             '(py^2 mu_y^2 z^2 + px^2 mu_x^2)/(mu_x mu_y z) + 2 sqrt(2/pi) py mu_x/(mu_y z), which tends to zero with the fractional errors '
             '(zero-noise limit, for all positive amplitudes, ratios and errors). The unit test runs one two-event case and checks types and shapes.',
        note='joint theorems closed under the global context; ' + AX_R + 'for the combination theorems. Models are hand-written: tied by running '
             'the real MultipleEventsForwardTask with integer-coded stubs for the per-event task and the pair likelihood (combine=True, '
             'return_zero=True) and by bit-exact execution of combine_mu. The regenerated per-station estimate is validated against scale_estimator and '
             'the proved bound is checked on the implementation; the zero-noise behaviour of the whole estimator is also judged on the implementation; zero-filtering branches are not exercised; joint tasks with several location samples are exercised by one fixed probe (known finding).',
        design='6 C15'),
    'C18': dict(
        technique='Coq proof (list induction, lia) about a hand-written executable model of the scatangle block parser, writer and greedy binning; vm_compute correspondence against the real functions on generated files',
        text='Theorems in coq/Props/C18.v for every sample list, station count and bin size: the weights of the bins add up to the weights of '
             'all input samples; every bin keeps one original record; every input sample is kept or was merged into a kept sample all of '
             'whose station angles are within half the bin size; no two kept samples could have been merged; a zero bin size merges '
             'nothing; reading what the writer wrote returns the same records, with or without the trailing blank line. No unit test '
             'bins samples and compares total weight or round-trips the writer.',
        note='closed under the global context (no axioms). The model is hand-written: tied to the code only by the correspondence run '
             '(parse, bin and write-read of generated files compared inside Coq, integer-coded tenths of a degree). Text splitting and '
             'float() are trusted glue; all records of a file are assumed to list the same stations; sub-sampling uses numpy.random and '
             'only its size/membership is checked; the compiled cscatangle path is unavailable (C20).',
        design='6 C18'),
    'C19': dict(
        technique='Coq proof about hand-written executable models: projection over abstract arithmetic (theorems at R, bit-exact PrimFloat execution against spherical_projection.py) and an integer-coded result container (list induction; vm_compute correspondence against MTData / unique_columns)',
        text='Theorems in coq/Props/C19.v: every unit vector that is shown keeps its azimuth and lands at radius 2 sin(t/2) (equal area) or '
             'tan(t/2) (equal angle) for all angles t in [0, pi) and all option combinations; a hidden-hemisphere vector gives nan or, '
             'with back projection, exactly the projection of its antipode; the upper-hemisphere option is the mirror image; indexing '
             'the container by index lists or masks selects the same samples in tensors, probabilities and converted parameters; '
             'maximum-probability selection returns exactly the samples attaining the maximum, in order, never empty; the unique-sample '
             'reduction lists each distinct tensor once with counts adding up to the chain length. All for every container size and '
             'content, which the fixed small data sets of the unit tests cannot show.',
        note='closed under the global context for the container theorems; ' + AX_R + 'for the projection theorems. The models are hand-written: '
             'tied to the code only by the correspondence runs (bit-exact floats; integer-coded containers incl. near-ties of one unit in '
             '2^-30 at the maximum). Mean, covariance and derived parameters (agreement with the stand-alone conversions, C12-C14) are judged '
             'on the implementation, including that a parameter read from the container does not depend on which of the 22 derived '
             'parameters were requested before it, is the same when read again and on a slice taken afterwards. The projection_axis branch is not modelled.',
        design='6 C19'),
    'C12': dict(
        technique='Coq proof over R (field/nsatz/ring, conversion check of the inlined definitions against the composition of their parts) about MT33_MT6, MT6_MT33, GD_E, E_GD, Tape_MT33, Tape_MT6, SDR_TNP, FP_SDR translated from moment_tensor_conversion.py on every run',
        text='Theorems in coq/Props/C12.v about the regenerated definitions: six-vector -> 3x3 -> six-vector and 3x3 -> six-vector -> 3x3 '
             'return the normalised original for every vector/symmetric tensor; the generated Tape_MT33/Tape_MT6 are, by the kernel\'s '
             'conversion check, eigenvalues(GD_E) rotated by the axes of (strike, acos h, slip), symmetric with unit norm for every '
             'parameter value; E_GD(GD_E(gamma, delta)) = (gamma, delta) on the whole open lune; strike/dip/slip are recovered exactly '
             'from the normal/slip frame; produced parameters lie in their documented ranges for any eigenvalues and axes; '
             'double-couples map to (0, 0). The unit tests compare one tensor with stored numbers.',
        note=AX_R + 'numpy.linalg.eig/eigh is external, so the end-to-end round trips (tensor -> parameters -> tensor and back, nodal-plane '
             'switch for |slip| > pi/2, batched MT6_Tape / Tape_MT6 / output_convert) are theorems only piecewise and are judged '
             'end-to-end on the implementation for every source class and every face of the parameter domain; h -> dip uses acos '
             'whose range facts are used only through sin^2 + cos^2 = 1; a call on n columns at once (n = 1..9, so that 6 x 6 and 3 x 3 '
             'blocks occur, arrays and matrices) must return column by column what it returns for the column alone (also C13, C14).',
        design='6 C12'),
    'C13': dict(
        technique='Coq proof over R (nsatz modulo sin^2+cos^2=1, atan2 polar-inverse lemma, numpy.mod lemmas) about SDR_TNP, SDR_FP, TP_FP and FP_SDR translated from moment_tensor_conversion.py on every run',
        text='Theorems in coq/Props/C13.v about the regenerated definitions: for every strike, dip and rake the T/N/P axes are orthonormal; '
             'normal and slip are exactly the Aki-Richards frame (unit, perpendicular); axes and both orderings of normal/slip rebuild '
             'the same double-couple tensor; the axes convert back to that normal/slip pair; FP_SDR of the frame returns the original '
             'strike in [0,2pi), dip in (0,pi/2], rake in (-pi,pi] exactly; the angles returned for any pair of vectors lie in the documented '
             'ranges. The unit tests check one or two literal triples.',
        note=AX_R + 'the auxiliary-plane routine SDR_SDR (strike-difference heuristic), its involution, the batched forms and the two planes '
             'reported by output_convert are NOT theorems (the inlined definition is too large for the kernel to relate to its parts '
             'in reasonable time): they are judged on the implementation against an independent construction of the two nodal '
             'planes, including rake = +-pi, vertical and near-horizontal planes and planes with strikes closer than one radian; sequences of '
             'conversions on one normal/slip pair (normal_SD, FP_SDSD, then FP_SDR / FP_TNP on the same matrix or array objects) must still '
             'describe the same source.',
        design='6 C13'),
    'C14': dict(
        technique='Coq proof over R (lra/nra/field, atan2/acos lemmas of Lib/Trig.v) about E_GD, GD_E, E_tk, tk_uv, basic_cdc_GD, GD_basic_cdc, MT6c_D6 and the system it hands to the solver, all translated from moment_tensor_conversion.py on every run (symbolic numpy arrays)',
        text='Theorems in coq/Props/C14.v about the definitions regenerated from the current source: lune coordinates are invariant under every '
             'permutation of the eigenvalues and every positive scaling (zero tensor included), lie in [-pi/6,pi/6]x[-pi/2,pi/2] for all real '
             'eigenvalues, invert GD_E on the whole open lune including the boundary meridians, put double-couples at (0,0) and isotropic '
             'sources at the poles; Hudson (u,v) are permutation and scale invariant, lie in |u|<=4/3, |v|<=1 for every non-zero spectrum, '
             'with double-couple at (0,0), isotropic at (0,+-1), CLVD at (-+1,0); whatever solves the linear system the code passes to the '
             'solver is the potency tensor D with c_ijkl D_kl = M_ij for all 21 stiffness constants; the opening angle of the '
             'crack+double-couple map is recovered. Unit tests check single literal cases.',
        note=AX_R + 'numpy.linalg.eig/eigh and numpy.linalg.solve are external: their contracts are hypotheses (checked on the real routines by '
             'the oracle run: orthonormality, ordering, reconstruction, for degenerate spectra too); the Poisson-ratio component of the '
             'crack+double-couple round trip and all floating-point effects (scales 1e-12..1e12, near-isotropic spectra) are judged on the '
             'implementation only; sorting is modelled by max / min / sum-minus-both.',
        design='6 C14'),
    'C11': dict(
        technique='Coq proof (nsatz over R) of terms translated from station_angles on every run + list-induction proofs about a hand model of the matrix builders tied by vm_compute correspondence',
        text='Theorems in coq/Props/C11.v: the six coefficients translated from the current source of station_angles, dotted with '
             'any symmetric tensor, equal g.M.g / phi.M.g / theta.M.g for all real angles (degrees and radians entry points) and '
             'are invariant under joint rotation about the vertical; the row-alignment theorems are proved by induction for all '
             'data dictionaries and location records over an executable Gallina model of the builders, which is compared, inside '
             'Coq, with the implementation on integer-coded dictionaries. A proof settles every angle and tensor, which the '
             'unit tests (a few literal values) cannot.',
        note=AX_R + 'translator py2coq and its validation run; numpy indexing/broadcasting of the builders is modelled by hand '
             '(Model/Matrices.v) and tied by correspondence only; location records are assumed to share one station order; ratio phases '
             '(numerator, denominator pair, degrees and radians) are judged on the implementation against g.M.g / phi.M.g / theta.M.g.',
        design='6 C11'),
    'C02': dict(
        technique='Coq proof over R (lra/nra) about kernels translated from the argument of np.log in polarity_ln_pdf and polarity_probability_ln_pdf on every run, erf as a section variable with stated hypotheses',
        text='Theorems in coq/Props/C02.v about pol_p/polprob_p as regenerated from the current source: documented formula, range [0,1], '
             'the two polarities sum to one, monotone in the amplitude for w<1/2, zero uncertainty gives the hard 0/1 limit (given the '
             'saturation of the binary64 erf), documented Heaviside mixture with its three cases. Holds for every real amplitude, '
             'uncertainty and mispick probability, which three literal test values cannot establish.',
        note=AX_R + 'erf hypotheses (odd, non-decreasing, in [-1,1], erf t = 1 for t >= 6) validated on samples only; NaN-freedom is not a '
             'theorem (no float model of erf/log): it is judged on the implementation by the extreme-input stream; array plumbing '
             '(sum over stations, broadcasting of per-station values) is tied by correspondence only.',
        design='6 C02'),
    'C04': dict(
        technique='Coq proof over R (list induction, ln/exp lemmas) about the per-slice term translated from ln_marginalise / ln_normalise on every run (np.sum, np.max lifted to list operators)',
        text='Theorems in coq/Props/C04.v: the translated per-slice computation equals ln(dV * sum exp x) for every non-empty slice and '
             'dV>0, commutes with adding a constant, normalised values times dV sum to one and are shift invariant, and the shift '
             'used is minus the slice maximum so that all exp arguments are <= 0 with one equal to 0 (sum in [dV, n dV]): no overflow '
             'or total underflow for any magnitudes; composition: marginalising a slice in parts combines by log-sum-exp, marginalising one axis after another equals marginalising both at once with the product cell size (any number/lengths of non-empty rows), a normalised slice is a fixed point of normalisation. The unit tests use four small values.',
        note=AX_R + 'finite entries only in the real-valued model; -inf entries, container types (ndarray/matrix/LnPDF), axes and rounding '
             'are judged on the implementation against 40-digit mpmath; one known finding (axis of length 1 ignores dV).',
        design='6 C04'),
    'C10': dict(
        technique='Coq proof over R (list induction, ln/exp lemmas, Gibbs inequality) about terms translated on every run from ln_bayesian_evidence, model_probabilities (unrolled for 2..5 models) and dkl_estimate',
        text='Theorems in coq/Props/C10.v: the translated evidence equals ln(p * sum exp l / N), shifts with the likelihoods, is '
             'permutation invariant and exponentiates only arguments <= ln p; the translated model probabilities (2,3,4,5 models, the '
             'quantified range) are positive, sum to one, have ratios exp(e_i - e_j) and are shift invariant; the translated divergence '
             'estimate equals ln N + sum w ln w for the normalised weights and lies in [0, ln N] whenever N >= number of non-zero '
             'samples (Gibbs inequality proved in Lib/Rlist.v). All for arbitrary real vectors, which single literal tests cannot give.',
        note=AX_R + 'finite log-likelihoods in the lists (zero-probability samples are counted in N only); prior factor p > 0 as a parameter; '
             'the two-PDF dkl(p, q) is not regenerated (the translator does not walk two arrays element by element): its two theorems (non-negative by the Gibbs inequality, zero for identical inputs) are about the definition sum p ln(p/q) dV of the normalised PDFs, and the implementation is compared with that definition at 40 digits by the oracle (+inf where q vanishes and p does not); rounding is judged against mpmath.',
        design='6 C10'),
    'C09': dict(
        technique='Coq proof by induction over arbitrary batch histories about an executable Gallina model of Sample.append/output selection/termination, tied to the implementation by vm_compute correspondence on replayed histories',
        text='Theorems in coq/Props/C09.v (axiom-free): for every storage increment k>0 and every list of batches the model run '
             'never fails and exposes exactly the non-zero candidates in order with their own log-probabilities and scale factors, '
             'the tried count is the sum of the batch sizes, growth preserves earlier content, an exact fill still leaves a spare '
             'column, an all-zero history is empty, the discard removes exactly the samples more than the threshold below the '
             'maximum, and sample-count-limited sampling stops at the first batch reaching the limit. Unbounded in history length '
             'and sizes; the implementation is compared with the model (inside Coq) on exhaustive small and random histories.',
        note='no axioms; hand model of numpy slicing/append (Model/Store.v) tied by correspondence only; integer-valued log-probabilities '
             'in the correspondence; normalisation to unit total and multi-row marginals are judged numerically by the oracle.',
        design='6 C09'),
    'C01': dict(
        technique='Coq proof for every commutative semiring (ring, list induction, Permutation) about an executable Gallina model of ForwardTask, the same terms executed at Q by vm_compute against the implementation',
        text='Theorems in coq/Props/C01.v (axiom-free for the generic statements): in the model of the pure-Python ForwardTask branch the '
             'value of a tensor at a location sample is the product of the per-station terms of exactly the selected data types, adding a '
             'type multiplies by its product, station order is irrelevant (Permutation), the marginal is the weight-multiplied sum over '
             'location samples, invariant under reordering the samples and under replacing a duplicated sample by added weights, batch '
             'independent, and zero filtering returns exactly the non-zero columns with their own values. Proved once from the semiring '
             'laws (hence for R); the same definitions are run at Q inside Coq against ForwardTask on generated configurations '
             '(atoms = the implementation\'s per-station probabilities evaluated one station/sample/tensor at a time).',
        note='generic theorems are closed under the global context; the R instance uses the three real-number axioms; numpy broadcasting, '
             'try/except flow and LnPDF plumbing are modelled by hand and tied by correspondence; exp/log comparisons use 1e-8 (wider for '
             'fractional errors below 1e-2, loose in the float underflow regime), zero/non-zero status exact; kernels themselves are '
             'C02/C03; builders are C11. Composition theorem (Model/FrontEnd.v = Model/Matrices.v feeding Model/Forward.v): for every event, '
             'location records that list their stations alike and every tensor, the value at record k is the product over the supplied '
             'observations whose station the records list of that observation\'s probability at its own station\'s ray (matched by name). '
             'Whole front-end cases (event dictionary -> Inversion._station_angles -> ForwardTask) are tied to that model at Q inside Coq '
             '(integer-coded angles, atoms = per-observation probabilities of the implementation) and judged by a direct oracle.',
        design='6 C01'),
    'C05': dict(
        technique='Coq proof over R (field/lra, Coquelicot FTC, Interval) about acceptance rules, proposal density and priors translated on every run from markov_chain_monte_carlo.py, generic in the proposal density and prior',
        text='Theorems in coq/Props/C05.v: for EVERY strictly positive proposal density q and non-negative prior, the translated '
             'Metropolis-Hastings acceptance satisfies prior(x) e^L q(x\'|x) a(x->x\') = prior(x\') e^L\' q(x|x\') a(x\'->x) (zero-prior boundary '
             'states included) and lies in [0,1]; the translated zero-likelihood branches are 0 and 1; joint states balance as the product; '
             'the translated jump-up/jump-down acceptances balance with the model priors and the balancing density; the translated '
             'transition_pdf is the product of truncated Gaussians over exactly the documented bounds and each factor integrates to one '
             '(FTC); the balancing density equals the density of its draw iff its stored normalisation is the truncation mass, which is '
             'refuted for the code (known finding, certified numerically by Interval).',
        note=AX_R + 'Classical_Prop.classic (Coquelicot integrals); primitive-float operations used by the Interval tactic; Phi is a parameter whose '
             'derivative is the normal density; scipy.stats mapped to phi/Phi by the translator; multi-event loop and dict plumbing are '
             'covered by the oracle (balance identity evaluated on the implementation with an independent truncated-Gaussian q), which '
             'also runs the kernel as a chain composes it: a model jump proposed by _new_sample_single and taken through _add_new, then a '
             'within-model proposal from the state it left, acceptance probabilities read inside _acceptance_check as iterate() calls it '
             '(configured dc_prior).',
        design='6 C05'),
    'C03': dict(
        technique='Coq proof over R with Coquelicot (field/nra, derivative of an explicit antiderivative, FTC on finite windows, limit of the tail) about ratio_pdf and the amplitude-ratio likelihood translated from source on every run',
        text='Theorems in coq/Props/C03.v about the translated ratio_pdf/ar_p: its coefficients are those of the completed square of the '
             'joint Gaussian exponent; by Cauchy-Schwarz the large exponential always has a non-positive argument; an explicit '
             'antiderivative gives the integral of |y| N(zy) N(y) over every window [-Y, Y] in closed form (FTC), the closed form of the '
             'code equals that window plus an explicit tail, and the tail tends to 0: the closed form IS the limit of the windows of the '
             'defining integral (improper integral); it is non-negative for a non-decreasing Phi; the likelihood uses both signs of the '
             'ratio, absolute amplitudes and errors = fraction x |amplitude|, hence depends on the amplitudes only through magnitudes.',
        note=AX_R + 'Classical_Prop.classic (Coquelicot); Phi is a parameter: derivative = normal density, Phi(-t) = 1 - Phi(t), limits 0/1, monotone; '
             'normalisation over r (integral = 1) is NOT proved, it is validated numerically (scipy quadrature of the implementation, < 1e-6) '
             'on every run; NaN-freedom/finiteness down to fractional error 1e-5 judged on the implementation; comparison with 22-digit '
             'quadrature of the defining integral with a conditioning-aware tolerance; batched calls (1-6 stations x 1-6 location samples x '
             '1-12 tensors, including 6 x 6 tensor blocks) are compared cell by cell with the one-station one-tensor value.',
        design='6 C03'),
    'C06': dict(
        technique='Coq proof: redraw-loop lemmas over arbitrary draw streams applied to draw expressions/guards translated from _new_sample_single on every run; invariant by induction over all window-rate histories on a generic arithmetic model instantiated at R (proof) and at binary64 PrimFloat (bit-exact vm_compute correspondence)',
        text='Theorems in coq/Props/C06.v: for every current state, width and stream of standard draws, the value returned by each translated '
             'redraw loop lies in [-pi/6,pi/6], [-pi/2,pi/2], [0,1], [-pi/2,pi/2], strike lies in [0,2pi), it is the first in-range Gaussian '
             'candidate alpha*z + current value, the loop terminates as soon as a draw fits, the constrained chain proposes exactly (0,0), '
             'and the acceptance intervals are the truncation intervals of the proposal density of C05; for EVERY sequence of window '
             'acceptance rates the adaptation model keeps every width present, positive and at most max(initial, configured maximum).',
        note=AX_R + 'the law of numpy.random (i.i.d. standard normals) is assumed: "follows the truncated Gaussian" = first-acceptable-draw theorem + C05; '
             'Model/Adapt.v is hand-written, tied bit-exactly (primitive floats in the Coq kernel) on exhaustive short and random long '
             'histories; unit norm / double-couple eigenvalues of proposals and jump behaviour through whole iterations are judged on the '
             'implementation (proved for the conversion itself in C12); a direct oracle on scripted draw streams (every proposed coordinate '
             '= current value + its own width x one of the draws made) supplies the failing input when the translation breaks.',
        design='6 C06'),
    'C07': dict(
        technique='Coq proof by induction over arbitrary proposal/decision histories about an executable Gallina model of the chain bookkeeping (three-phase invariant), tied by vm_compute correspondence on whole iterations of the real algorithm objects; stationarity from detailed balance as a theorem',
        text='Theorems in coq/Props/C07.v (axiom-free except the stationarity statement over R): for every learning length, window, chain length, '
             'start and list of (proposal, accept/reject) pairs the model of iterate/_add/_add_new/_add_old/first-sample/termination records '
             'nothing during learning, afterwards holds exactly tried+1 entries (first state twice), last entry = current state, '
             '0 <= accepted <= tried, each step adds one entry and counts the acceptance, every entry is the start or a proposal with its own '
             'likelihood, the double-couple counter equals the number of double-couple entries, a constrained chain holds only double-couples, '
             'the run ends exactly when tried reaches the chain length; detailed balance implies stationarity on any finite state space; the kernel '
             'the chain actually runs (propose, accept with probability a, otherwise stay) has unit rows, is non-negative and leaves pi invariant '
             'whenever the acceptance rule balances, and so does the mixture of a jump kernel and a shift kernel for every jump probability.',
        note='accept/reject decisions are model inputs (their probabilities are C05); "samples the posterior" = C05 + stationarity theorem + assumed '
             'ergodicity and generator law; validated on every run by whole chains (trans-dimensional, constrained; thorough: full tensor, '
             'peaked posterior, dc_prior 0.3, uniform balancing draw) on a smooth synthetic likelihood against likelihood-weighted prior '
             'sampling (numpy seeds drawn from VERIF_SEED, alarm at 6 batch-means standard errors + 0.01, 7 + 0.02 for the overall expectation of a trans-dimensional chain; over 12 further seeds the largest deviations were 5.2 standard errors for that overall expectation, 2.8 for the constrained chain, 2.2 for pDC); the model odds a trans-dimensional chain targets are '
             'computed by quadrature of the code\'s own densities (known finding: scaled by 1.0826 / 0.703); model hand-written, tied on bounded-exhaustive '
             'decision strings and random histories through the four chain classes with random and grid initialisation and zero-likelihood '
             'proposals; multiple-try batches are not generated on the pure-Python path.',
        design='6 C07'),
}

NA_REASON = 'check not built yet (work in progress; see DESIGN.md section 6)'
NOT_APPLICABLE_REASONS = {}     # property id -> reason, for properties the technique genuinely cannot express (none)


def main():
    m = {'version': 1,
         'setup_cmd': 'cd /verif && bin/setup',
         'hooks': {'guard': 'DJPUGH_MTFIT_VERIF',
                   'enable': 'no source hooks: checks import /repo/src of the working tree directly (bin/check sets DJPUGH_MTFIT_VERIF=1, which no source line reads)',
                   'baseline_off_cmd': 'cd /repo && /venv/bin/python -m pytest -ra -q -p no:cacheprovider --timeout=900 --continue-on-collection-errors',
                   'source_commits': [], 'add_only': True},
         'engines': [{'name': 'coq-proof', 'path': 'bin/check', 'serves_properties': sorted(CHECKS),
                      'kind_free_text': 'Coq 8.16.1 theorems over models regenerated from /repo (py2coq) or hand-written and tied by vm_compute correspondence'}],
         'checks': [], 'not_applicable': []}
    # every property has an entry: a property silently missing from CHECKS once slipped into not_applicable
    missing = [cid for cid in ALL if cid not in CHECKS and cid not in NOT_APPLICABLE_REASONS]
    if missing:
        raise SystemExit('mk_manifest: no CHECKS entry and no not-applicable reason for %s' % missing)
    for cid in ALL:
        if cid in CHECKS:
            c = CHECKS[cid]
            m['checks'].append({
                'property_id': cid,
                'quick_cmd': 'bin/check %s quick' % cid,
                'thorough_cmd': 'bin/check %s thorough' % cid,
                'evidence_file': '/verif/evidence/%s.json' % cid,
                'replay_cmd_template': 'bin/check %s quick --replay {path}' % cid,
                'engine': 'coq-proof',
                'level_claimed': {'category': 'proof', 'text': c['text'], 'design_ref': c['design']},
                'level_note': c['note'],
                'technique': c['technique']})
        else:
            m['not_applicable'].append({'property_id': cid, 'reason': NA_REASON})
    m['notes'] = 'See DESIGN.md. known_findings.txt lists repaired defects (fixed:) and recorded findings (finding:).'
    with open(os.path.join(VERIF, 'MANIFEST.json'), 'w') as f:
        json.dump(m, f, indent=1)


if __name__ == '__main__':
    main()
