#!/bin/sh
# usage: tools/seed_eval.sh <Cxx> <seed dir containing patch.diff demo.py> [check ids...]
# Applies the seeded change to a fresh scratch worktree of /repo's HEAD, confirms the demo fails
# with it and passes without it, runs the named checks against the scratch tree, removes the tree.
CID="$1"; SEED="$2"; shift 2
CHECKS="${*:-$CID}"
WT=/tmp/seed/ev_$CID
git -C /repo worktree remove --force "$WT" 2>/dev/null
git -C /repo worktree add -q "$WT" HEAD || exit 2
PY="env PYTHONPATH=$WT/src PYTHONHASHSEED=0 /venv/bin/python -W ignore"
( cd "$WT" && $PY "$SEED/demo.py" >/tmp/seed/ev_$CID.base.log 2>&1 ); echo "demo on unchanged HEAD: exit $?"
if ! git -C "$WT" apply --3way "$SEED/patch.diff" 2>/tmp/seed/ev_$CID.apply.log; then echo "PATCH DOES NOT APPLY"; cat /tmp/seed/ev_$CID.apply.log; git -C /repo worktree remove --force "$WT"; exit 3; fi
( cd "$WT" && $PY "$SEED/demo.py" >/tmp/seed/ev_$CID.mut.log 2>&1 ); echo "demo with the change:   exit $?"
for c in $CHECKS; do
  ( cd /verif && VERIF_EVIDENCE_DIR=/tmp/seed/evidence VERIF_REPO="$WT" bin/check "$c" quick > /tmp/seed/ev_$CID.$c.log 2>&1 ); rc=$?
  echo "check $c on the changed tree: exit $rc"; grep -E "VIOLATION|KNOWN-FINDING|CHECK-ERROR" /tmp/seed/ev_$CID.$c.log | head -5
done
git -C /repo worktree remove --force "$WT"
# restore generated Coq files for /repo itself
( cd /verif && python3 tools/harness/gen.py >/dev/null )
