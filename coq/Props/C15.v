(* C15 -- Joint multi-event posterior adds per-event and relative-amplitude terms.
   Property theorems only: each is closed by [exact] of a lemma from Proofs/, followed by Print Assumptions.
   Model/Joint.v is hand-written and tied to MTfit/inversion.py (MultipleEventsForwardTask, _intersect_stations) and
   MTfit/probability/probability.py (combine_mu) by the correspondence runs. *)
From Coq Require Import ZArith List Reals Sorting.Permutation.
From MTV.Model Require Import Joint.
From MTV.Gen Require Import Kernels.
From MTV.Proofs Require Import C15_joint C15_scale.
Import ListNotations.

(* without relative data the events are independent *)
Theorem C15_independent_without_relative_data : forall term minimum events,
  joint term minimum false events = sum_own events.
Proof. exact joint_independent. Qed.
Print Assumptions C15_independent_without_relative_data.

(* one more event adds its own log-probability and one term per earlier event (so n events have one term per pair) *)
Theorem C15_additive : forall term minimum rel events e,
  joint term minimum rel (events ++ [e]) =
  (joint term minimum rel events + own e +
   (if rel then with_earlier term minimum (length events) e 0%nat events else 0))%Z.
Proof. exact joint_add_event. Qed.
Print Assumptions C15_additive.

(* the station-intersection rule *)
Theorem C15_below_minimum_contributes_nothing : forall term minimum i j ei ej,
  (Z.of_nat (length (shared (stations ei) (stations ej))) < minimum)%Z -> pair_term term minimum i j ei ej = 0%Z.
Proof. exact below_minimum_contributes_nothing. Qed.
Print Assumptions C15_below_minimum_contributes_nothing.

Theorem C15_pair_term_on_shared_stations : forall term minimum i j ei ej,
  (minimum <= Z.of_nat (length (shared (stations ei) (stations ej))))%Z ->
  pair_term term minimum i j ei ej = term i j (shared (stations ei) (stations ej)).
Proof. exact at_least_minimum_contributes_its_term. Qed.
Print Assumptions C15_pair_term_on_shared_stations.

Theorem C15_no_overlap_is_independent : forall term minimum events,
  (forall e1 e2, In e1 events -> In e2 events -> (Z.of_nat (length (shared (stations e1) (stations e2))) < minimum)%Z) ->
  joint term minimum true events = sum_own events.
Proof. exact joint_no_overlap. Qed.
Print Assumptions C15_no_overlap_is_independent.

(* the shared stations are exactly the common ones, whatever the order in which the other event lists them *)
Theorem C15_shared_stations : forall si sj sj' x,
  (In x (shared si sj) <-> In x si /\ In x sj) /\ (Permutation sj sj' -> shared si sj = shared si sj').
Proof. intros; split; [exact (shared_exactly_the_common_stations si sj x) | exact (shared_order_independent si sj sj')]. Qed.
Print Assumptions C15_shared_stations.

(* the scale factor combined over stations is the inverse-variance weighted mean of the per-station estimates ... *)
Theorem C15_scale_is_inverse_variance_weighting : forall l, l <> [] -> positive l ->
  exists fm fs, rcombine l = Some (fm, fs) /\ (0 < fs)%R /\ (/ (fs * fs) = wsum l)%R /\ (fm = msum l / wsum l)%R.
Proof. exact combine_is_inverse_variance_weighting. Qed.
Print Assumptions C15_scale_is_inverse_variance_weighting.

(* ... and therefore independent of the station order *)
Theorem C15_scale_station_order_independent : forall l l', l <> [] -> positive l -> Permutation l l' ->
  exists fm fs fs', rcombine l = Some (fm, fs) /\ rcombine l' = Some (fm, fs') /\ (fs * fs = fs' * fs')%R.
Proof. exact combine_station_order_independent. Qed.
Print Assumptions C15_scale_station_order_independent.


(* ---- the per-station estimate (regenerated from probability.scale_estimator on every run: Gen/Kernels.v, py_scale_mu) and the
   noise-free ratio mu_y z / mu_x: exact distance, and an explicit bound that tends to zero with the two fractional errors *)
Theorem C15_scale_estimate_distance_from_the_noise_free_ratio : forall z mx my px py,
  (0 < z)%R -> (0 < mx)%R -> (0 < my)%R -> (0 < px)%R -> (0 < py)%R ->
  (py_scale_mu z mx my px py - mu1 z mx my = (cA z mx my py * s12 z mx my px py - cC z mx my px py * mu1 z mx my) / cN z mx my px py)%R.
Proof. exact scale_estimate_error. Qed.
Print Assumptions C15_scale_estimate_distance_from_the_noise_free_ratio.

Theorem C15_scale_estimate_converges_to_the_true_ratio : forall z mx my px py,
  (0 < z)%R -> (0 < mx)%R -> (0 < my)%R -> (0 < px)%R -> (0 < py)%R ->
  (Rabs (py_scale_mu z mx my px py - my * z / mx) <=
   (py * py * (my * my) * (z * z) + px * px * (mx * mx)) / (mx * my * z) + 2 * sqrt (2 / PI) * py * mx / (my * z))%R.
Proof. exact scale_estimate_converges. Qed.
Print Assumptions C15_scale_estimate_converges_to_the_true_ratio.

Example C15_nonvacuous :
  joint coded_term 2 true [mkEv 5 [1; 2; 3]; mkEv 7 [3; 2; 9]; mkEv 11 [9]]%Z
  = (5 + 7 + 11 + coded_term 1 0 [3; 2]%Z)%Z.
Proof. reflexivity. Qed.
