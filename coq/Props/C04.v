(* C04 -- Log-domain marginalisation and normalisation are exact and stable.
   marg_slice / norm_elt are regenerated on every run from ln_marginalise / ln_normalise
   (per marginalised slice; np.sum and np.max become Rlist_sum and Rlist_max). *)
From Coq Require Import Reals List.
From MTV.Lib Require Import Base Rlist.
From MTV.Gen Require Import LogDomain.
From MTV.Proofs Require Import C04_logdomain C04_tower.
Import ListNotations.
Open Scope R_scope.

Theorem C04_marginalise_is_exact_log_sum_exp : forall xs dV, xs <> [] -> 0 < dV ->
  marg_slice xs dV = ln (dV * Rlist_sum (map exp xs)).
Proof. exact marg_slice_exact. Qed.
Print Assumptions C04_marginalise_is_exact_log_sum_exp.

Theorem C04_marginalise_commutes_with_constant : forall xs dV c, xs <> [] -> 0 < dV ->
  marg_slice (map (fun x => x + c) xs) dV = marg_slice xs dV + c.
Proof. exact marg_slice_shift. Qed.
Print Assumptions C04_marginalise_commutes_with_constant.

(* the shift applied is minus the maximum of the slice itself, for every sign of that maximum;
   hence every argument of exp is <= 0, one is exactly 0, and the sum passed to log lies in
   [dV, n dV]: neither overflow nor total underflow for entries of any magnitude *)
Theorem C04_marginalise_stable : forall xs dV, xs <> [] -> 0 < dV ->
  marg_slice xs dV = ln (Rlist_sum (map (fun x => exp (x + - Rlist_max xs) * dV) xs)) - - Rlist_max xs /\
  (forall x, In x xs -> x + - Rlist_max xs <= 0) /\
  (exists x, In x xs /\ x + - Rlist_max xs = 0) /\
  dV <= Rlist_sum (map (fun x => exp (x + - Rlist_max xs) * dV) xs) <= INR (length xs) * dV.
Proof.
  intros xs dV Hne HdV. split; [exact (marg_slice_uses_max_shift xs dV)|].
  destruct (marg_slice_exp_args xs Hne) as [H1 H2]. split; [exact H1|]. split; [exact H2|].
  exact (marg_slice_sum_range xs dV Hne HdV).
Qed.
Print Assumptions C04_marginalise_stable.

Theorem C04_normalise_sums_to_one : forall xs dV, xs <> [] -> 0 < dV ->
  Rlist_sum (map (fun x => exp (norm_elt xs dV x) * dV) xs) = 1.
Proof. exact norm_sums_to_one. Qed.
Print Assumptions C04_normalise_sums_to_one.

Theorem C04_normalise_unchanged_by_constant : forall xs dV x c, xs <> [] -> 0 < dV ->
  norm_elt (map (fun y => y + c) xs) dV (x + c) = norm_elt xs dV x.
Proof. exact norm_shift_invariant. Qed.
Print Assumptions C04_normalise_unchanged_by_constant.

Theorem C04_normalise_stable : forall xs dV x, xs <> [] -> 0 < dV ->
  norm_elt xs dV x = x - (ln (Rlist_sum (map (fun y => exp (y + - Rlist_max xs) * dV) xs)) - - Rlist_max xs) /\
  dV <= Rlist_sum (map (fun y => exp (y + - Rlist_max xs) * dV) xs) <= INR (length xs) * dV.
Proof.
  intros xs dV x Hne HdV. split; [exact (norm_uses_max_shift xs dV x)|exact (marg_slice_sum_range xs dV Hne HdV)].
Qed.
Print Assumptions C04_normalise_stable.

(* composition: a slice marginalised in two parts combines by log-sum-exp; marginalising one axis after the other
   (cell sizes dV1, dV2) is marginalising both at once with cell size dV1 dV2, for any number and lengths of non-empty
   rows; a normalised slice is a fixed point of normalisation.  Nothing is lost or gained between steps. *)
Theorem C04_marginalise_in_parts : forall xs ys dV, xs <> [] -> ys <> [] -> 0 < dV ->
  marg_slice (xs ++ ys) dV = ln (exp (marg_slice xs dV) + exp (marg_slice ys dV)).
Proof. exact marg_slice_split. Qed.
Print Assumptions C04_marginalise_in_parts.

Theorem C04_marginalise_successive_axes : forall rows dV1 dV2,
  rows <> [] -> (forall r, In r rows -> r <> []) -> 0 < dV1 -> 0 < dV2 ->
  marg_slice (map (fun r => marg_slice r dV1) rows) dV2 = marg_slice (concat rows) (dV1 * dV2).
Proof. exact marg_successive_axes. Qed.
Print Assumptions C04_marginalise_successive_axes.

Theorem C04_normalise_idempotent : forall xs dV x, xs <> [] -> 0 < dV ->
  norm_elt (map (norm_elt xs dV) xs) dV (norm_elt xs dV x) = norm_elt xs dV x.
Proof. exact norm_idempotent. Qed.
Print Assumptions C04_normalise_idempotent.
