(* C04 -- Log-domain marginalisation and normalisation are exact and stable.
   marg_slice / norm_elt are regenerated on every run from ln_marginalise / ln_normalise
   (per marginalised slice; np.sum and np.max become Rlist_sum and Rlist_max). *)
From Coq Require Import Reals List.
From MTV.Lib Require Import Base Rlist.
From MTV.Gen Require Import LogDomain.
From MTV.Proofs Require Import C04_logdomain.
Import ListNotations.
Open Scope R_scope.

Theorem C04_marginalise_is_exact_log_sum_exp : forall xs dV, xs <> [] -> 0 < dV ->
  marg_slice xs dV = ln (dV * Rlist_sum (map exp xs)).
Proof. exact marg_slice_exact. Qed.
Print Assumptions C04_marginalise_is_exact_log_sum_exp.

Theorem C04_marginalise_commutes_with_constant : forall xs dV c, xs <> [] -> 0 < dV ->
  marg_slice (map (fun x => x + c) xs) dV = marg_slice xs dV + c.
Proof. exact marg_slice_shift. Qed.
Print Assumptions C04_marginalise_commutes_with_constant.

(* the shift applied is minus the maximum of the slice itself, for every sign of that maximum;
   hence every argument of exp is <= 0, one is exactly 0, and the sum passed to log lies in
   [dV, n dV]: neither overflow nor total underflow for entries of any magnitude *)
Theorem C04_marginalise_stable : forall xs dV, xs <> [] -> 0 < dV ->
  marg_slice xs dV = ln (Rlist_sum (map (fun x => exp (x + - Rlist_max xs) * dV) xs)) - - Rlist_max xs /\
  (forall x, In x xs -> x + - Rlist_max xs <= 0) /\
  (exists x, In x xs /\ x + - Rlist_max xs = 0) /\
  dV <= Rlist_sum (map (fun x => exp (x + - Rlist_max xs) * dV) xs) <= INR (length xs) * dV.
Proof.
  intros xs dV Hne HdV. split; [exact (marg_slice_uses_max_shift xs dV)|].
  destruct (marg_slice_exp_args xs Hne) as [H1 H2]. split; [exact H1|]. split; [exact H2|].
  exact (marg_slice_sum_range xs dV Hne HdV).
Qed.
Print Assumptions C04_marginalise_stable.

Theorem C04_normalise_sums_to_one : forall xs dV, xs <> [] -> 0 < dV ->
  Rlist_sum (map (fun x => exp (norm_elt xs dV x) * dV) xs) = 1.
Proof. exact norm_sums_to_one. Qed.
Print Assumptions C04_normalise_sums_to_one.

Theorem C04_normalise_unchanged_by_constant : forall xs dV x c, xs <> [] -> 0 < dV ->
  norm_elt (map (fun y => y + c) xs) dV (x + c) = norm_elt xs dV x.
Proof. exact norm_shift_invariant. Qed.
Print Assumptions C04_normalise_unchanged_by_constant.

Theorem C04_normalise_stable : forall xs dV x, xs <> [] -> 0 < dV ->
  norm_elt xs dV x = x - (ln (Rlist_sum (map (fun y => exp (y + - Rlist_max xs) * dV) xs)) - - Rlist_max xs) /\
  dV <= Rlist_sum (map (fun y => exp (y + - Rlist_max xs) * dV) xs) <= INR (length xs) * dV.
Proof.
  intros xs dV x Hne HdV. split; [exact (norm_uses_max_shift xs dV x)|exact (marg_slice_sum_range xs dV Hne HdV)].
Qed.
Print Assumptions C04_normalise_stable.
