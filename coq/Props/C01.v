(* C01 -- Posterior of a source is the product of its independent data likelihoods.
   Theorems about the executable model Model/Forward.v (hand-written from the pure-Python branch of
   ForwardTask.__call__), for EVERY commutative semiring -- hence for the reals, where the terms
   are probabilities; the same definitions are executed at Q against the implementation. *)
From Coq Require Import List Bool Arith Ring Sorting.Permutation Reals.
From Coq Require Import ZArith.
From MTV.Model Require Import Matrices Forward FrontEnd.
From MTV.Proofs Require Import C01_forward C01_frontend.
Import ListNotations.

Section Generic.
Context {T : Type} (zero one : T) (add mul : T -> T -> T) (is_zero : T -> bool).
Hypothesis SR : semi_ring_theory zero one add mul (@eq T).

Theorem C01_posterior_is_product_of_selected_likelihoods : forall d k m,
  likelihood one mul d k m = prodl one mul (sel_pol d ++ sel_ar d) k m.
Proof. exact (likelihood_is_product zero one add mul SR). Qed.

Theorem C01_marginal_is_weighted_sum_over_location_samples : forall d ws m,
  marginal zero one add mul d ws m =
  suml zero add (map (fun kw => mul (snd kw) (likelihood one mul d (fst kw) m)) (combine (seq 0 (length ws)) ws)).
Proof. exact (marginal_is_weighted_sum zero one add mul). Qed.

Theorem C01_adding_a_type_multiplies_by_its_product : forall ts pol prob ar k m,
  likelihood one mul (mkData pol prob (Some ts)) k m = mul (likelihood one mul (mkData pol prob None) k m) (prodl one mul ts k m) /\
  likelihood one mul (mkData (Some ts) None ar) k m = mul (prodl one mul ts k m) (likelihood one mul (mkData None None ar) k m) /\
  likelihood one mul (mkData None (Some ts) ar) k m = mul (prodl one mul ts k m) (likelihood one mul (mkData None None ar) k m).
Proof.
  intros. split; [exact (add_amplitude_ratios one mul pol prob ts k m)|].
  split; [exact (add_polarities zero one add mul SR ts ar k m)|exact (add_polarity_probabilities zero one add mul SR ts ar k m)].
Qed.

Theorem C01_station_order_irrelevant : forall pol pol' prob prob' ar ar' k m,
  (match pol, pol' with Some a, Some b => Permutation a b | None, None => True | _, _ => False end) ->
  (match prob, prob' with Some a, Some b => Permutation a b | None, None => True | _, _ => False end) ->
  (match ar, ar' with Some a, Some b => Permutation a b | None, None => True | _, _ => False end) ->
  likelihood one mul (mkData pol prob ar) k m = likelihood one mul (mkData pol' prob' ar') k m.
Proof. exact (likelihood_station_perm zero one add mul SR). Qed.

Theorem C01_batch_independent : forall d ws batch i m,
  nth_error batch i = Some m ->
  nth_error (forward_marginalised zero one add mul d ws batch) i = Some (marginal zero one add mul d ws m).
Proof. exact (batch_independent zero one add mul). Qed.

Theorem C01_location_order_and_duplication : forall d kws kws' k w1 w2 r m,
  (Permutation kws kws' -> marginal_pairs zero one add mul d kws m = marginal_pairs zero one add mul d kws' m) /\
  marginal_pairs zero one add mul d ((k, w1) :: (k, w2) :: r) m = marginal_pairs zero one add mul d ((k, add w1 w2) :: r) m.
Proof.
  intros. split; [exact (marginal_location_perm zero one add mul SR d kws kws' m)|
                  exact (marginal_duplicate_vs_weight zero one add mul SR d k w1 w2 r m)].
Qed.

Theorem C01_zero_filtering_keeps_columns_aligned : forall d ws batch m p,
  (In (m, p) (filtered zero one add mul is_zero d ws batch) ->
     In m batch /\ p = marginal zero one add mul d ws m /\ is_zero p = false) /\
  (In m batch -> is_zero (marginal zero one add mul d ws m) = false ->
     In (m, marginal zero one add mul d ws m) (filtered zero one add mul is_zero d ws batch)).
Proof.
  intros. split; [exact (filtered_sound zero one add mul is_zero d ws batch m p)|
                  exact (filtered_complete zero one add mul is_zero d ws batch m)].
Qed.
End Generic.

Print Assumptions C01_posterior_is_product_of_selected_likelihoods.
Print Assumptions C01_marginal_is_weighted_sum_over_location_samples.
Print Assumptions C01_adding_a_type_multiplies_by_its_product.
Print Assumptions C01_station_order_irrelevant.
Print Assumptions C01_batch_independent.
Print Assumptions C01_location_order_and_duplication.
Print Assumptions C01_zero_filtering_keeps_columns_aligned.

(* the real-number instance: probabilities *)
Theorem C01_real_instance : forall d k m,
  likelihood 1%R Rmult d k m = prodl 1%R Rmult (sel_pol d ++ sel_ar d) k m.
Proof. exact (C01_posterior_is_product_of_selected_likelihoods 0%R 1%R Rplus Rmult R_semi_ring). Qed.
Print Assumptions C01_real_instance.

(* ---- from the event dictionary: the observation-matrix builders (model of C11) feeding the forward task.
   For every event (any number of data types per family, each with its own stations in its own order), any location records that
   list their stations alike (record k consistent with the first), every tensor: the value at location record k is the product over
   the SUPPLIED OBSERVATIONS whose station the records list of that observation's probability at its own station's ray in record k
   (matched by name); manual polarities take precedence over polarity probabilities; amplitude ratios multiply in. *)
Theorem C01_value_is_product_over_the_supplied_observations :
  forall (T : Type) (zero one : T) (add mul : T -> T -> T), semi_ring_theory zero one add mul (@eq T) ->
  forall (atom : nat -> obs -> Z * Z -> nat -> T) pol prob ar samples k m,
  (forall d, In d (pol ++ prob ++ ar) -> NoDup (map FrontEnd.dname d)) ->
  records_consistent samples k ->
  likelihood one mul (front atom pol prob ar samples) k m =
  mul (match pol with [] => spec_from one mul atom 100 prob samples k m | _ => spec_from one mul atom 0 pol samples k m end)
      (spec_from one mul atom 200 ar samples k m).
Proof. intros T zero one add mul SR. exact (front_end_posterior zero one add mul SR). Qed.
Print Assumptions C01_value_is_product_over_the_supplied_observations.

(* the hypotheses are satisfiable: two location records listing three stations in another order than the data *)
Example C01_front_end_hypotheses_hold_somewhere :
  let d := [ob 7 10 20; ob 3 30 40] in
  let samples := [[mkSt 3 31 41; mkSt 9 0 0; mkSt 7 11 21]; [mkSt 3 32 42; mkSt 9 1 1; mkSt 7 12 22]] in
  NoDup (map FrontEnd.dname d) /\ records_consistent samples 1 /\
  taking_part d samples = d /\ ray_of 7 (nth 1 samples []) = (12, 22)%Z.
Proof.
  cbv zeta. split; [|split; [|split; reflexivity]].
  - repeat constructor; simpl; intuition discriminate.
  - right. eexists. eexists. split; [reflexivity|]. split; [simpl; auto|reflexivity].
Qed.
