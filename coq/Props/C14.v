(* C14 -- Eigen-decomposition and source-type coordinates are faithful and scale-free.
   Property theorems only: each is closed by [exact] of a lemma from Proofs/, followed by
   Print Assumptions.  E_GD, GD_E, E_tk, tk_uv, ... are regenerated from
   MTfit/convert/moment_tensor_conversion.py on every run (Gen/Convert.v). *)
From Coq Require Import Reals.
From MTV.Lib Require Import Base.
From MTV.Gen Require Import Convert.
From MTV.Proofs Require Import Conv_lune.
Open Scope R_scope.

(* lune coordinates do not depend on the order of the eigenvalues ... *)
Theorem C14_lune_permutation_invariant : forall a b c,
  E_GD a c b = E_GD a b c /\ E_GD b a c = E_GD a b c /\ E_GD b c a = E_GD a b c /\
  E_GD c a b = E_GD a b c /\ E_GD c b a = E_GD a b c.
Proof. exact E_GD_permutation_invariant. Qed.
Print Assumptions C14_lune_permutation_invariant.

(* ... nor on any positive scaling (no restriction on the eigenvalues, zero tensor included) *)
Theorem C14_lune_scale_invariant : forall k a b c, 0 < k -> E_GD (k * a) (k * b) (k * c) = E_GD a b c.
Proof. exact E_GD_scale_invariant. Qed.
Print Assumptions C14_lune_scale_invariant.

Theorem C14_lune_range : forall a b c,
  - (PI / 6) <= fst (E_GD a b c) <= PI / 6 /\ - (PI / 2) <= snd (E_GD a b c) <= PI / 2.
Proof. exact E_GD_range. Qed.
Print Assumptions C14_lune_range.

(* lune coordinates invert the eigenvalue map on the whole open lune, boundary meridians included *)
Theorem C14_lune_inverts_eigenvalue_map : forall g d,
  - (PI / 6) <= g <= PI / 6 -> - (PI / 2) < d < PI / 2 ->
  (let '(e0, e1, e2) := GD_E g d in E_GD e0 e1 e2) = (g, d).
Proof. exact E_GD_GD_E. Qed.
Print Assumptions C14_lune_inverts_eigenvalue_map.

Theorem C14_double_couple_at_origin : forall l, 0 < l -> E_GD l 0 (- l) = (0, 0).
Proof. exact double_couple_at_origin. Qed.
Print Assumptions C14_double_couple_at_origin.

Theorem C14_isotropic_at_poles : forall l, l <> 0 -> E_GD l l l = (0, sgn l * PI / 2).
Proof. exact isotropic_at_poles. Qed.
Print Assumptions C14_isotropic_at_poles.
