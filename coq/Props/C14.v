(* C14 -- Eigen-decomposition and source-type coordinates are faithful and scale-free.
   Property theorems only: each is closed by [exact] of a lemma from Proofs/, followed by
   Print Assumptions.  E_GD, GD_E, E_tk, tk_uv, ... are regenerated from
   MTfit/convert/moment_tensor_conversion.py on every run (Gen/Convert.v). *)
From Coq Require Import Reals Lra.
From MTV.Lib Require Import Base.
From MTV.Gen Require Import Convert.
From MTV.Proofs Require Import Conv_lune Conv_hudson Conv_stiffness Conv_cdc.
Open Scope R_scope.

(* lune coordinates do not depend on the order of the eigenvalues ... *)
Theorem C14_lune_permutation_invariant : forall a b c,
  E_GD a c b = E_GD a b c /\ E_GD b a c = E_GD a b c /\ E_GD b c a = E_GD a b c /\
  E_GD c a b = E_GD a b c /\ E_GD c b a = E_GD a b c.
Proof. exact E_GD_permutation_invariant. Qed.
Print Assumptions C14_lune_permutation_invariant.

(* ... nor on any positive scaling (no restriction on the eigenvalues, zero tensor included) *)
Theorem C14_lune_scale_invariant : forall k a b c, 0 < k -> E_GD (k * a) (k * b) (k * c) = E_GD a b c.
Proof. exact E_GD_scale_invariant. Qed.
Print Assumptions C14_lune_scale_invariant.

Theorem C14_lune_range : forall a b c,
  - (PI / 6) <= fst (E_GD a b c) <= PI / 6 /\ - (PI / 2) <= snd (E_GD a b c) <= PI / 2.
Proof. exact E_GD_range. Qed.
Print Assumptions C14_lune_range.

(* lune coordinates invert the eigenvalue map on the whole open lune, boundary meridians included *)
Theorem C14_lune_inverts_eigenvalue_map : forall g d,
  - (PI / 6) <= g <= PI / 6 -> - (PI / 2) < d < PI / 2 ->
  (let '(e0, e1, e2) := GD_E g d in E_GD e0 e1 e2) = (g, d).
Proof. exact E_GD_GD_E. Qed.
Print Assumptions C14_lune_inverts_eigenvalue_map.

Theorem C14_double_couple_at_origin : forall l, 0 < l -> E_GD l 0 (- l) = (0, 0).
Proof. exact double_couple_at_origin. Qed.
Print Assumptions C14_double_couple_at_origin.

Theorem C14_isotropic_at_poles : forall l, l <> 0 -> E_GD l l l = (0, sgn l * PI / 2).
Proof. exact isotropic_at_poles. Qed.
Print Assumptions C14_isotropic_at_poles.

(* ---- Hudson coordinates: E_uv is the composition the code applies to every result, tk_uv (E_tk E) *)
Theorem C14_hudson_permutation_invariant : forall a b c,
  E_uv a c b = E_uv a b c /\ E_uv b a c = E_uv a b c /\ E_uv b c a = E_uv a b c /\
  E_uv c a b = E_uv a b c /\ E_uv c b a = E_uv a b c.
Proof. exact E_uv_permutation_invariant. Qed.
Print Assumptions C14_hudson_permutation_invariant.

Theorem C14_hudson_scale_invariant : forall k a b c, 0 < k -> 0 < a * a + b * b + c * c ->
  E_uv (k * a) (k * b) (k * c) = E_uv a b c.
Proof. exact E_uv_scale_invariant. Qed.
Print Assumptions C14_hudson_scale_invariant.

Theorem C14_hudson_bounds : forall a b c, 0 < a * a + b * b + c * c ->
  Rabs (fst (E_uv a b c)) <= 4 / 3 /\ Rabs (snd (E_uv a b c)) <= 1.
Proof. exact E_uv_bounds. Qed.
Print Assumptions C14_hudson_bounds.

Theorem C14_hudson_double_couple : forall l, 0 < l -> E_uv l 0 (- l) = (0, 0).
Proof. exact hudson_double_couple. Qed.
Print Assumptions C14_hudson_double_couple.

Theorem C14_hudson_isotropic : forall l, l <> 0 -> E_uv l l l = (0, sgn l).
Proof. exact hudson_isotropic. Qed.
Print Assumptions C14_hudson_isotropic.

Theorem C14_hudson_clvd : forall l, 0 < l -> E_uv (2 * l) (- l) (- l) = (-1, 0) /\ E_uv l l (- (2 * l)) = (1, 0).
Proof. exact hudson_clvd. Qed.
Print Assumptions C14_hudson_clvd.

(* ---- potency tensor: whatever solves the system the code hands to numpy.linalg.solve is the tensor D with
   c_ijkl D_kl = M_ij (all 21 constants arbitrary; existence of the solution is the solver's business) *)
Theorem C14_potency_inverts_stiffness :
  forall c0 c1 c2 c3 c4 c5 c6 c7 c8 c9 c10 c11 c12 c13 c14 c15 c16 c17 c18 c19 c20 m0 m1 m2 m3 m4 m5 x0 x1 x2 x3 x4 x5,
  solves c0 c1 c2 c3 c4 c5 c6 c7 c8 c9 c10 c11 c12 c13 c14 c15 c16 c17 c18 c19 c20 m0 m1 m2 m3 m4 m5 x0 x1 x2 x3 x4 x5 ->
  let '(d0, d1, d2, d3, d4, d5) := MT6c_D6 x0 x1 x2 x3 x4 x5 in
  six_of (contract c0 c1 c2 c3 c4 c5 c6 c7 c8 c9 c10 c11 c12 c13 c14 c15 c16 c17 c18 c19 c20 (ten d0 d1 d2 d3 d4 d5))
  = (m0, m1, m2, m3, m4, m5).
Proof. exact potency_inverts_stiffness. Qed.
Print Assumptions C14_potency_inverts_stiffness.

(* ---- crack + double-couple: opening angle recovered, longitude in range (Poisson ratio: oracle run only) *)
Theorem C14_cdc_opening_angle_partial : forall alpha nu, 0 <= alpha <= PI ->
  fst (let '(g, d) := basic_cdc_GD alpha nu in GD_basic_cdc g d) = alpha.
Proof. exact cdc_opening_angle_roundtrip. Qed.
Print Assumptions C14_cdc_opening_angle_partial.

Theorem C14_cdc_gamma_range : forall alpha nu, 0 <= alpha <= PI / 2 -> - (PI / 6) <= fst (basic_cdc_GD alpha nu) <= 0.
Proof. exact cdc_gamma_range. Qed.
Print Assumptions C14_cdc_gamma_range.

(* non-vacuity: the hypotheses are met by ordinary sources *)
Example C14_nonvacuous : 0 < 2 * 2 + 1 * 1 + (-1) * (-1) /\ - (PI / 6) <= 0 <= PI / 6 /\ - (PI / 2) < 0 < PI / 2.
Proof. pose proof PI_RGT_0. repeat split; lra. Qed.
