(* C09 -- Sample store keeps each non-zero sample once, aligned, and counts every try.
   Theorems about the executable model Model/Store.v (hand-written from MTfit/sampling.py:Sample,
   LnPDF.nonzero, IterationSample.check_finished); the model is compared with the implementation
   on generated batch histories by the correspondence run (vm_compute inside Coq). *)
From Coq Require Import ZArith List Bool.
From MTV.Model Require Import Store.
From MTV.Proofs Require Import C09_store.
Import ListNotations.
Open Scope Z_scope.

Theorem C09_store_is_exactly_the_nonzero_candidates : forall k ops, (0 < k)%nat ->
  exists st, run (init k) ops = Some st /\
    exposed st = spec_ids ops /\ lnps st = spec_lnps ops /\ scales st = spec_scales ops /\
    tried st = spec_tried ops /\ used st = length (spec_ids ops) /\ (used st <= cap st)%nat /\
    length (mts st) = cap st.
Proof. exact store_is_concat_nonzero. Qed.
Print Assumptions C09_store_is_exactly_the_nonzero_candidates.

Theorem C09_growth_preserves_earlier_samples : forall k ops1 ops2, (0 < k)%nat ->
  forall st1 st2, run (init k) ops1 = Some st1 -> run (init k) (ops1 ++ ops2) = Some st2 ->
  exists rest, exposed st2 = exposed st1 ++ rest /\
               lnps st2 = lnps st1 ++ map c_lnp (flat_map (fun o => filter nonzero (fst o)) ops2).
Proof. exact growth_preserves_prefix. Qed.
Print Assumptions C09_growth_preserves_earlier_samples.

Theorem C09_exact_fill_keeps_a_spare_column : forall k ops b n, (0 < k)%nat -> filter nonzero b <> [] ->
  forall st, run (init k) (ops ++ [(b, n)]) = Some st -> (used st < cap st)%nat.
Proof. exact spare_column_kept. Qed.
Print Assumptions C09_exact_fill_keeps_a_spare_column.

Theorem C09_all_zero_history_is_empty_result : forall k ops, (0 < k)%nat ->
  (forall o, In o ops -> filter nonzero (fst o) = []) ->
  exists st, run (init k) ops = Some st /\ exposed st = [] /\ lnps st = [] /\ used st = 0%nat /\ tried st = spec_tried ops.
Proof. exact all_zero_is_empty. Qed.
Print Assumptions C09_all_zero_history_is_empty_result.

Theorem C09_discard_only_below_threshold : forall t vals i z,
  nth_error vals i = Some (Some z) ->
  let m := zmax (flat_map (fun v => match v with Some z => [z] | None => [] end) vals) in
  nth_error (keep (Some t) vals) i = Some (m - z <=? t) /\ z <= m.
Proof. exact discard_only_below. Qed.
Print Assumptions C09_discard_only_below_threshold.

Theorem C09_without_discard_every_finite_sample_is_kept : forall vals i,
  nth_error (keep None vals) i = option_map (fun v => match v with Some _ => true | None => false end) (nth_error vals i).
Proof. exact no_discard_keeps_all_finite. Qed.
Print Assumptions C09_without_discard_every_finite_sample_is_kept.

Theorem C09_sampling_stops_at_first_batch_reaching_limit : forall maxs sizes acc j,
  mc_stop maxs acc sizes = Some (S j) ->
  maxs <= acc + fold_right Z.add 0 (firstn (S j) sizes) /\
  (forall i, (i <= j)%nat -> (0 < i)%nat -> acc + fold_right Z.add 0 (firstn i sizes) < maxs).
Proof. exact mc_stops_first_reaching. Qed.
Print Assumptions C09_sampling_stops_at_first_batch_reaching_limit.
