(* C06 -- Markov-chain proposals stay in the source domain; width adaptation keeps widths positive
   and bounded.  The draw expressions and loop guards are regenerated on every run from
   MarginalisedMetropolisHastingsGaussianTape._new_sample_single; the adaptation is the hand model
   Model/Adapt.v (proved at R, executed at binary64 against the implementation). *)
From Coq Require Import Reals List Lra.
From MTV.Lib Require Import Base State Redraw.
From MTV.Gen Require Import Proposal.
From MTV.Model Require Import Adapt.
From MTV.Proofs Require Import C06_proposal C06_adapt.
Import ListNotations.
Open Scope R_scope.

(* for every current state, width and stream of standard draws: whatever the loops return lies in
   the documented domain *)
Theorem C06_proposal_in_domain : forall ag ad ah asg ak xi zs1 zs2 zs3 zs4 z g d h s,
  gamma_proposal ag xi zs1 = Some g -> delta_proposal ad xi zs2 = Some d ->
  h_proposal ah xi zs3 = Some h -> sigma_proposal asg xi zs4 = Some s ->
  - (PI / 6) <= g <= PI / 6 /\ - (PI / 2) <= d <= PI / 2 /\ 0 <= h <= 1 /\ - (PI / 2) <= s <= PI / 2 /\
  0 <= prop_kappa ak xi z < 2 * PI.
Proof.
  intros. split; [exact (gamma_in_range _ _ _ _ H)|]. split; [exact (delta_in_range _ _ _ _ H0)|].
  split; [exact (h_in_range _ _ _ _ H1)|]. split; [exact (sigma_in_range _ _ _ _ H2)|exact (kappa_in_range _ _ _)].
Qed.
Print Assumptions C06_proposal_in_domain.

Theorem C06_proposal_is_first_in_range_gaussian_draw : forall a xi zs v,
  gamma_proposal a xi zs = Some v ->
  exists pre z post, zs = pre ++ z :: post /\ v = a * z + s_gamma xi /\
                     (forall y, In y pre -> PI / 6 < Rabs (a * y + s_gamma xi)).
Proof. exact gamma_is_first_acceptable. Qed.
Print Assumptions C06_proposal_is_first_in_range_gaussian_draw.

Theorem C06_redraw_terminates_when_a_draw_fits : forall a xi zs,
  (exists z, In z zs /\ - (PI / 6) <= a * z + s_gamma xi <= PI / 6) -> exists v, gamma_proposal a xi zs = Some v.
Proof. exact gamma_terminates. Qed.
Print Assumptions C06_redraw_terminates_when_a_draw_fits.

Theorem C06_double_couple_constrained_is_exact : prop_dc_gamma = 0 /\ prop_dc_delta = 0.
Proof. exact dc_exact. Qed.
Print Assumptions C06_double_couple_constrained_is_exact.

(* the loops accept exactly the truncation intervals assumed by the proposal density (C05) *)
Theorem C06_acceptance_intervals_match_density : forall v,
  ((~ PI / 6 < Rabs v) <-> - PI / 6 <= v <= PI / 6) /\
  ((~ PI / 2 < Rabs v) <-> - PI / 2 <= v <= PI / 2) /\
  ((~ (1 < v \/ v < 0)) <-> 0 <= v <= 1).
Proof. exact acceptance_intervals. Qed.
Print Assumptions C06_acceptance_intervals_match_density.

(* width adaptation, along EVERY sequence of window acceptance rates *)
Theorem C06_widths_stay_positive_present_and_bounded : forall (c : @cfg R) a0 r0 rates,
  0 < minr c -> 0 < maxr c -> length a0 = length (maxa c) -> Forall (fun x => 0 < x) a0 ->
  let s := runR c (mkSt a0 r0 None None) rates in
  length (alpha s) = length a0 /\ Forall (fun x => 0 < x) (alpha s) /\
  Forall2 (fun x b => x <= b) (alpha s) (bounds a0 (maxa c)).
Proof. exact adapt_positive_bounded. Qed.
Print Assumptions C06_widths_stay_positive_present_and_bounded.
