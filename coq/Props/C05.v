(* C05 -- Markov-chain acceptance satisfies detailed balance for shifts and model jumps.
   mh_acc, jump_up_acc, jump_down_acc, q_mt, q_dc, qb_gauss, qb_flat and the priors are regenerated on
   every run from MTfit/algorithms/markov_chain_monte_carlo.py. *)
From Coq Require Import Reals Lra.
From Coquelicot Require Import Coquelicot.
From MTV.Lib Require Import Base State.
From MTV.Gen Require Import MCMC.
From MTV.Proofs Require Import C05_balance.
Open Scope R_scope.

(* q a b: proposal density of a from b (strictly positive: Gaussian); prior >= 0 *)
Theorem C05_detailed_balance : forall (q : state -> state -> R) (prior : state -> R),
  (forall a b, 0 < q a b) -> (forall a, 0 <= prior a) ->
  forall x x' L L',
  prior x * exp L * q x' x * mh_acc q prior x' L' x L =
  prior x' * exp L' * q x x' * mh_acc q prior x L x' L'.
Proof. exact mh_balance. Qed.
Print Assumptions C05_detailed_balance.

Theorem C05_acceptance_is_a_probability : forall (q : state -> state -> R) (prior : state -> R),
  (forall a b, 0 < q a b) -> (forall a, 0 <= prior a) ->
  forall x' L' x L, 0 <= mh_acc q prior x' L' x L <= 1.
Proof. exact mh_acc_range. Qed.
Print Assumptions C05_acceptance_is_a_probability.

Theorem C05_zero_likelihood_rules : forall q prior,
  mh_acc_zero_proposal q prior = 0 /\ mh_acc_zero_start q prior = 1.
Proof. intros. split; reflexivity. Qed.
Print Assumptions C05_zero_likelihood_rules.

Theorem C05_joint_events_balance : forall p1 p1' p2 p2', 0 < p1 -> 0 < p1' -> 0 < p2 -> 0 < p2' ->
  (p1 * p2) * Rmin 1 ((p1' / p1) * (p2' / p2)) = (p1' * p2') * Rmin 1 ((p1 / p1') * (p2 / p2')).
Proof. exact mh_core_product. Qed.
Print Assumptions C05_joint_events_balance.

Theorem C05_model_jump_balance : forall (qb prior : state -> R) (mh : state -> R -> R),
  (forall a, 0 < qb a) -> (forall a, 0 < prior a) ->
  forall s x Ls Lx pdc, 0 < pdc < 1 ->
  pdc * prior s * exp Ls * qb x * jump_up_acc qb prior mh x Lx s Ls pdc =
  (1 - pdc) * prior x * exp Lx * jump_down_acc qb prior mh s Ls x Lx pdc.
Proof. exact jump_balance. Qed.
Print Assumptions C05_model_jump_balance.

Theorem C05_proposal_density_is_truncated_gaussian : forall Phi x x1 ag ad ah asg,
  q_mt Phi x x1 ag ad ah asg =
    tg Phi (s_gamma x) (s_gamma x1) ag (- PI / 6) (PI / 6) * tg Phi (s_delta x) (s_delta x1) ad (- PI / 2) (PI / 2) *
    tg Phi (s_h x) (s_h x1) ah 0 1 * tg Phi (s_sigma x) (s_sigma x1) asg (- PI / 2) (PI / 2) /\
  q_dc Phi x x1 ah asg = tg Phi (s_h x) (s_h x1) ah 0 1 * tg Phi (s_sigma x) (s_sigma x1) asg (- PI / 2) (PI / 2).
Proof. intros. split; [exact (q_mt_is_truncated_gaussian _ _ _ _ _ _ _)|exact (q_dc_is_truncated_gaussian _ _ _ _ _)]. Qed.
Print Assumptions C05_proposal_density_is_truncated_gaussian.

Theorem C05_truncated_gaussian_factor_is_a_density : forall Phi,
  (forall t, is_derive Phi t (exp (- (t * t / 2)) / sqrt (2 * PI))) ->
  forall mu a lo hi, 0 < a -> Phi ((hi - mu) / a) - Phi ((lo - mu) / a) <> 0 ->
  is_RInt (fun x => tg Phi x mu a lo hi) lo hi 1.
Proof. exact tg_integrates_to_one. Qed.
Print Assumptions C05_truncated_gaussian_factor_is_a_density.

(* the balancing density: equals the density of the draw exactly when the stored normalisation is
   the product of the two truncation masses -- which the code's value is not (known finding) *)
Theorem C05_balancing_density_condition : forall Phi x ag ad pn, 0 < ag -> 0 < ad -> pn <> 0 ->
  let Zg := Phi ((PI / 6 - 0) / ag) - Phi ((- PI / 6 - 0) / ag) in
  let Zd := Phi ((PI / 2 - 0) / ad) - Phi ((- PI / 2 - 0) / ad) in
  Zg <> 0 -> Zd <> 0 ->
  (qb_gauss x ag ad pn = tg Phi (s_gamma x) 0 ag (- PI / 6) (PI / 6) * tg Phi (s_delta x) 0 ad (- PI / 2) (PI / 2)
   <-> pn = Zg * Zd).
Proof. exact qb_gauss_is_density_iff. Qed.
Print Assumptions C05_balancing_density_condition.

Theorem C05_balancing_density_refuted :
  qb_flat <> 1 / ((PI / 3) * PI) /\
  RInt (fun d => cos d * phi02 d) (- PI / 2) (PI / 2) * RInt phi02 (- PI / 6) (PI / 6)
  < RInt phi02 (- PI / 2) (PI / 2) * RInt phi02 (- PI / 6) (PI / 6).
Proof. split; [exact qb_flat_is_not_the_uniform_density|exact code_normalisation_differs_from_truncation_mass]. Qed.
Print Assumptions C05_balancing_density_refuted.
