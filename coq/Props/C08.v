(* C08 -- Random source sampling draws from the stated prior.
   Property theorems only: each is closed by [exact] of a lemma from Proofs/, followed by Print Assumptions.
   Model/Sampling.v is hand-written (one sample as a function of the standard normal draws it consumes) and tied to
   MTfit/algorithms/base.py by bit-exact execution against the real generators fed with recorded draws. *)
From Coq Require Import Reals Lra List.
From MTV.Model Require Import Sampling.
From MTV.Proofs Require Import C08_sampling C08_rotation.
Open Scope R_scope.

(* full moment tensors: unit six-vectors *)
Theorem C08_random_mt_unit : forall m, 0 < r_sumsq6 m -> r_sumsq6 (r_random_mt m) = 1.
Proof. exact random_mt_unit. Qed.
Print Assumptions C08_random_mt_unit.

(* ... whose direction is uniformly (rotation-invariantly) distributed: the joint density of the six independent
   standard normal draws is a function of their sum of squares alone, so it is invariant under every rotation of the
   sqrt2-weighted six-vector space; normalising removes exactly that radial coordinate *)
Theorem C08_gaussian_draw_is_rotation_invariant : forall m m', r_sumsq6 m = r_sumsq6 m' -> density6 m = density6 m'.
Proof. exact gaussian_density_rotation_invariant. Qed.
Print Assumptions C08_gaussian_draw_is_rotation_invariant.

(* double-couple / CLVD: the three axes built from two vector draws are orthonormal (whenever the two draws are not
   parallel, which has probability one and is what the redraw loop enforces) *)
Theorem C08_triad_orthonormal : forall ar x, 0 < r_sumsq3 ar -> 0 < r_sumsq3 (r_cross (r_normalise3 ar) x) ->
  let '(a, b, c) := r_triad ar x in
  r_sumsq3 a = 1 /\ r_sumsq3 b = 1 /\ r_sumsq3 c = 1 /\ dot a b = 0 /\ dot a c = 0 /\ dot b c = 0.
Proof. exact triad_orthonormal. Qed.
Print Assumptions C08_triad_orthonormal.

(* the assembled six-vector has unit norm and, as a tensor, exactly the prescribed eigenvalue pattern on those axes
   (double-couple: (1, 0, -1)/sqrt2; CLVD: +-(2, -1, -1)/sqrt6), for any unit-normalisable eigenvalue triple *)
Theorem C08_assembled_tensor_pattern : forall l a b c,
  r_sumsq3 a = 1 -> r_sumsq3 b = 1 -> r_sumsq3 c = 1 -> dot a b = 0 -> dot a c = 0 -> dot b c = 0 -> 0 < r_sumsq3 l ->
  let m := r_assemble l (a, b, c) in let '(l0, l1, l2) := l in let n := sqrt (r_sumsq3 l) in
  r_sumsq6 m = 1 /\ apply33 m a = smul (l0 / n) a /\ apply33 m b = smul (l1 / n) b /\ apply33 m c = smul (l2 / n) c.
Proof. exact assembled_tensor. Qed.
Print Assumptions C08_assembled_tensor_pattern.

(* one whole double-couple / CLVD sample, the two stages composed: for every pair of non-parallel vector draws (and any
   unit-normalisable eigenvalue triple) the returned six-vector is unit and has the eigenvalue pattern on the axes that
   the construction made from those draws *)
Theorem C08_random_type_sample : forall l ar x,
  0 < r_sumsq3 ar -> 0 < r_sumsq3 (r_cross (r_normalise3 ar) x) -> 0 < r_sumsq3 l ->
  let m := r_random_type l ar x in let '(a, b, c) := r_triad ar x in
  let '(l0, l1, l2) := l in let n := sqrt (r_sumsq3 l) in
  r_sumsq6 m = 1 /\ apply33 m a = smul (l0 / n) a /\ apply33 m b = smul (l1 / n) b /\ apply33 m c = smul (l2 / n) c.
Proof. exact random_type_sample. Qed.
Print Assumptions C08_random_type_sample.

(* uniformly random orientation: the axes commute with every proper rotation applied to both vector draws (for all
   draws, no hypothesis) ... *)
Theorem C08_triad_rotation_equivariant : forall Q ar x, is_rotation Q ->
  r_triad (rapply Q ar) (rapply Q x) = let '(a, b, c) := r_triad ar x in (rapply Q a, rapply Q b, rapply Q c).
Proof. exact triad_equivariant. Qed.
Print Assumptions C08_triad_rotation_equivariant.

(* ... and the joint density of the two draws (six independent standard normals) is unchanged by that rotation, so the
   law of the axes is invariant under every rotation of space *)
Theorem C08_axis_draws_rotation_invariant : forall Q ar x, is_rotation Q ->
  axis_draw_density (rapply Q ar) (rapply Q x) = axis_draw_density ar x.
Proof. exact axis_draw_density_rotation_invariant. Qed.
Print Assumptions C08_axis_draws_rotation_invariant.

(* several events at once: as many sample sets as events, each with one sample per column of its own block of draws and
   depending on that block alone *)
Theorem C08_joint_draw_counts : forall (D S : Type) (f : D -> S) blocks,
  length (joint_draw f blocks) = length blocks /\
  forall e, length (nth e (joint_draw f blocks) nil) = length (nth e blocks nil).
Proof. exact joint_draw_counts. Qed.
Print Assumptions C08_joint_draw_counts.

Theorem C08_joint_draw_events_use_their_own_draws : forall (D S : Type) (f : D -> S) blocks blocks' e,
  nth e blocks nil = nth e blocks' nil -> nth e (joint_draw f blocks) nil = nth e (joint_draw f blocks') nil.
Proof. exact joint_draw_own_block. Qed.
Print Assumptions C08_joint_draw_events_use_their_own_draws.

Example C08_rotation_nonvacuous : is_rotation ((0, -1, 0), (1, 0, 0), (0, 0, 1)).
Proof. exact quarter_turn_is_rotation. Qed.

Example C08_nonvacuous : 0 < r_sumsq6 (1, 0, 0, 0, 0, 2) /\ 0 < r_sumsq3 (1, 2, 3).
Proof. unfold r_sumsq6, r_sumsq3, sumsq6, sumsq3. split; lra. Qed.
