(* C17 -- Input parsing and binary result files preserve the data they carry.
   Property theorems only: each is closed by [exact] of a lemma from Proofs/, followed by Print Assumptions.
   Model/FileIO.v and Model/Hyp.v are hand-written and tied to MTfit/utilities/file_io.py by the correspondence runs. *)
From Coq Require Import ZArith List.
From Coq Require Import Bool.
From MTV.Model Require Import FileIO Hyp.
From MTV.Proofs Require Import C17_fileio C17_hyp.
Import ListNotations.
Open Scope Z_scope.

(* a CSV row is read back field for field whatever the column order of its header (extra columns allowed) *)
Theorem C17_csv_row_roundtrip : forall h r, complete_header h -> read_row (idx_of_header h) (map (render_field r) h) = r.
Proof. exact row_roundtrip. Qed.
Print Assumptions C17_csv_row_roundtrip.

(* an event with any number of data types, each with its own header order and at least one station, is parsed back to
   its UID and, type by type and row by row, to the stations, angles, measurements and errors of the file, whatever
   column indices and type key were left over from the previous event *)
Theorem C17_csv_event_roundtrip : forall ix0 key0 u ts, Forall good_type ts ->
  let '(u', types, _, _) := parse_event ix0 key0 (render_event u ts) in u' = u /\ types = map data_of ts.
Proof. exact event_roundtrip. Qed.
Print Assumptions C17_csv_event_roundtrip.

(* binary records: what is written is what is read, also for several concatenated records and any number of samples *)
Theorem C17_binary_record_roundtrip : forall r rest, well_shaped r -> decode_one (encode r ++ rest) = Some (r, rest).
Proof. exact decode_encode. Qed.
Print Assumptions C17_binary_record_roundtrip.

Theorem C17_binary_concatenated_records : forall rs fuel, Forall well_shaped rs -> (length rs <= fuel)%nat ->
  decode_all fuel (flat_map encode rs) = Some rs.
Proof. exact decode_concatenated. Qed.
Print Assumptions C17_binary_concatenated_records.

Theorem C17_binary_record_size : forall r, well_shaped r -> stream_bytes (encode r) = byte_size r.
Proof. exact record_size. Qed.
Print Assumptions C17_binary_record_size.

Example C17_nonvacuous :
  complete_header [CErr; COther 9; CMeas; CName; CToa; CAz] /\
  well_shaped (mkRec 100 false 0 0 [[1; 2; 3; 4; 5; 6; 7; 8]]).
Proof. split; [unfold complete_header; cbn; tauto|]. intros s [<-|[]]. reflexivity. Qed.

(* NonLinLoc hypocentre files.  One event: whatever stands before and after its PHASE ... END_PHASE section (also lines
   of 24 and more tokens), the picks come back per phase type with their stations, polarities, errors (3 x time error)
   and angles, row for row in file order, and only those with a non-zero first motion.  A phase line is read when it
   has at least 24 tokens; the azimuth and dip are tokens 23 and 24, so well-formed lines (27 tokens in the NonLinLoc
   format) have at least 25 -- a line of exactly 24 tokens makes the real parser raise IndexError and is excluded. *)
Theorem C17_hyp_event_picks : forall pre ps post k,
  Forall not_phase pre -> Forall not_phase post -> Forall (fun np => (25 <= fst np)%nat) ps ->
  hlookup k (parse_hyp_event (render_hyp_event pre ps post)) = map obs_of (filter (wanted k) (map snd ps)).
Proof. exact hyp_event_picks. Qed.
Print Assumptions C17_hyp_event_picks.

(* for every sequence of lines at all, a phase type is listed at most once in the parsed event *)
Theorem C17_hyp_event_keys_distinct : forall ls, NoDup (hkeys (parse_hyp_event ls)).
Proof. exact hyp_event_keys_distinct. Qed.
Print Assumptions C17_hyp_event_keys_distinct.

(* a file: splitting at END_NLLOC recovers the events for any number of events, the last of which may lack its
   END_NLLOC line, and each is then parsed on its own *)
Theorem C17_hyp_split_recovers_events : forall events tail, Forall no_endloc events -> no_endloc tail ->
  split_events (concat (map (fun e => e ++ [HEndLoc]) events) ++ tail) [] =
  map (fun e => e ++ [HEndLoc]) events ++ (match tail with [] => [] | _ => [tail] end).
Proof. exact hyp_split_recovers_events. Qed.
Print Assumptions C17_hyp_split_recovers_events.

Theorem C17_hyp_file : forall events k, Forall no_endloc events ->
  map (hlookup k) (parse_hyp (concat (map (fun e => e ++ [HEndLoc]) events))) =
  map (fun e => hlookup k (parse_hyp_event (e ++ [HEndLoc]))) events.
Proof. exact hyp_parse_file. Qed.
Print Assumptions C17_hyp_file.

Example C17_hyp_nonvacuous :
  parse_hyp [HLine 27 (mkPick 7 0 0 2 100 200); HPhase; HLine 27 (mkPick 1 0 0 2 100 200); HLine 27 (mkPick 2 1 2 3 110 210);
             HLine 27 (mkPick 3 0 1 4 120 220); HLine 27 (mkPick 4 0 5 5 130 230); HEndPhase; HEndLoc; HPhase; HLine 27 (mkPick 5 1 3 1 0 0)] =
  [[(0, [mkObs 1 1 6 100 200; mkObs 4 (-1) 15 130 230]); (1, [mkObs 2 (-1) 9 110 210])]; [(1, [mkObs 5 1 3 0 0])]].
Proof. vm_compute. reflexivity. Qed.
