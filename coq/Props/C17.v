(* C17 -- Input parsing and binary result files preserve the data they carry.
   Property theorems only: each is closed by [exact] of a lemma from Proofs/, followed by Print Assumptions.
   Model/FileIO.v is hand-written and tied to MTfit/utilities/file_io.py by the correspondence runs. *)
From Coq Require Import ZArith List.
From MTV.Model Require Import FileIO.
From MTV.Proofs Require Import C17_fileio.
Import ListNotations.
Open Scope Z_scope.

(* a CSV row is read back field for field whatever the column order of its header (extra columns allowed) *)
Theorem C17_csv_row_roundtrip : forall h r, complete_header h -> read_row (idx_of_header h) (map (render_field r) h) = r.
Proof. exact row_roundtrip. Qed.
Print Assumptions C17_csv_row_roundtrip.

(* an event with any number of data types, each with its own header order and at least one station, is parsed back to
   its UID and, type by type and row by row, to the stations, angles, measurements and errors of the file, whatever
   column indices and type key were left over from the previous event *)
Theorem C17_csv_event_roundtrip : forall ix0 key0 u ts, Forall good_type ts ->
  let '(u', types, _, _) := parse_event ix0 key0 (render_event u ts) in u' = u /\ types = map data_of ts.
Proof. exact event_roundtrip. Qed.
Print Assumptions C17_csv_event_roundtrip.

(* binary records: what is written is what is read, also for several concatenated records and any number of samples *)
Theorem C17_binary_record_roundtrip : forall r rest, well_shaped r -> decode_one (encode r ++ rest) = Some (r, rest).
Proof. exact decode_encode. Qed.
Print Assumptions C17_binary_record_roundtrip.

Theorem C17_binary_concatenated_records : forall rs fuel, Forall well_shaped rs -> (length rs <= fuel)%nat ->
  decode_all fuel (flat_map encode rs) = Some rs.
Proof. exact decode_concatenated. Qed.
Print Assumptions C17_binary_concatenated_records.

Theorem C17_binary_record_size : forall r, well_shaped r -> stream_bytes (encode r) = byte_size r.
Proof. exact record_size. Qed.
Print Assumptions C17_binary_record_size.

Example C17_nonvacuous :
  complete_header [CErr; COther 9; CMeas; CName; CToa; CAz] /\
  well_shaped (mkRec 100 false 0 0 [[1; 2; 3; 4; 5; 6; 7; 8]]).
Proof. split; [unfold complete_header; cbn; tauto|]. intros s [<-|[]]. reflexivity. Qed.
