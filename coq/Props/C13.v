(* C13 -- Strike/dip/rake, principal axes and normal/slip describe one and the same source.
   Property theorems only: each is closed by [exact] of a lemma from Proofs/, followed by
   Print Assumptions.  SDR_TNP, SDR_FP, TP_FP, FP_SDR are regenerated from
   MTfit/convert/moment_tensor_conversion.py on every run (Gen/Convert.v). *)
From Coq Require Import Reals Lra.
From MTV.Lib Require Import Base.
From MTV.Gen Require Import Convert.
From MTV.Proofs Require Import Conv_planes.
Open Scope R_scope.

(* the axes derived from any strike, dip and rake are orthonormal *)
Theorem C13_axes_orthonormal : forall s d r,
  let '(t0, t1, t2, b0, b1, b2, p0, p1, p2) := SDR_TNP s d r in
  t0 * t0 + t1 * t1 + t2 * t2 = 1 /\ b0 * b0 + b1 * b1 + b2 * b2 = 1 /\ p0 * p0 + p1 * p1 + p2 * p2 = 1 /\
  t0 * b0 + t1 * b1 + t2 * b2 = 0 /\ t0 * p0 + t1 * p1 + t2 * p2 = 0 /\ b0 * p0 + b1 * p1 + b2 * p2 = 0.
Proof. exact SDR_TNP_orthonormal. Qed.
Print Assumptions C13_axes_orthonormal.

(* normal and slip are exactly the Aki & Richards frame of the angles, hence unit and perpendicular *)
Theorem C13_normal_slip_closed_form : forall s d r,
  SDR_FP s d r = (let '(u0, u1, u2) := slipv s d r in let '(n0, n1, n2) := normv s d in (u0, u1, u2, n0, n1, n2)).
Proof. exact SDR_FP_closed_form. Qed.
Print Assumptions C13_normal_slip_closed_form.

Theorem C13_normal_slip_unit_perpendicular : forall s d r,
  dot3 (slipv s d r) (slipv s d r) = 1 /\ dot3 (normv s d) (normv s d) = 1 /\ dot3 (slipv s d r) (normv s d) = 0.
Proof. exact frame_orthonormal. Qed.
Print Assumptions C13_normal_slip_unit_perpendicular.

(* axes and normal/slip reconstruct the same double-couple tensor: T T^t - P P^t = u n^t + n u^t (symmetric in u, n:
   both orderings of normal and slip, i.e. both nodal planes, give this tensor) *)
Theorem C13_same_tensor : forall s d r,
  let '(t0, t1, t2, b0, b1, b2, p0, p1, p2) := SDR_TNP s d r in
  let '(u0, u1, u2) := slipv s d r in let '(n0, n1, n2) := normv s d in
  t0 * t0 - p0 * p0 = u0 * n0 + n0 * u0 /\ t1 * t1 - p1 * p1 = u1 * n1 + n1 * u1 /\
  t2 * t2 - p2 * p2 = u2 * n2 + n2 * u2 /\ t0 * t1 - p0 * p1 = u0 * n1 + n0 * u1 /\
  t0 * t2 - p0 * p2 = u0 * n2 + n0 * u2 /\ t1 * t2 - p1 * p2 = u1 * n2 + n1 * u2.
Proof. exact SDR_TNP_tensor. Qed.
Print Assumptions C13_same_tensor.

(* converting the axes back gives the normal / slip pair of the angles *)
Theorem C13_axes_to_normal_slip : forall s d r,
  (let '(t0, t1, t2, _, _, _, p0, p1, p2) := SDR_TNP s d r in TP_FP t0 t1 t2 p0 p1 p2) =
  (let '(u0, u1, u2) := slipv s d r in let '(n0, n1, n2) := normv s d in (u0, u1, u2, n0, n1, n2)).
Proof. exact TP_FP_of_axes. Qed.
Print Assumptions C13_axes_to_normal_slip.

(* converting normal and slip back gives the original angles, on the whole domain except the horizontal plane
   (dip 0, where the strike is not defined) *)
Theorem C13_normal_slip_to_angles : forall s d r, 0 <= s < 2 * PI -> 0 < d <= PI / 2 -> - PI < r <= PI ->
  (let '(n0, n1, n2) := normv s d in let '(u0, u1, u2) := slipv s d r in FP_SDR n0 n1 n2 u0 u1 u2) = (s, d, r).
Proof. exact FP_SDR_of_frame. Qed.
Print Assumptions C13_normal_slip_to_angles.

(* the angles returned for ANY pair of vectors lie in the documented ranges *)
Theorem C13_angle_ranges : forall n0 n1 n2 u0 u1 u2,
  let '(s, d, r) := FP_SDR n0 n1 n2 u0 u1 u2 in 0 <= s < 2 * PI /\ 0 <= d <= PI / 2 /\ - PI <= r <= PI.
Proof. exact FP_SDR_range. Qed.
Print Assumptions C13_angle_ranges.

Example C13_nonvacuous : 0 <= 1 < 2 * PI /\ 0 < 1 <= PI / 2 /\ - PI < -3 <= PI.
Proof. pose proof PI_RGT_0. pose proof PI2_3_2. pose proof PI_4. repeat split; lra. Qed.
