(* C19 -- Result post-processing (statistics, projections) is consistent with the samples.
   Property theorems only: each is closed by [exact] of a lemma from Proofs/, followed by Print Assumptions.
   Model/Projection.v and Model/Results.v are hand-written and tied to the code by the correspondence run
   (bit-exact binary64 execution of the projection model; integer-coded containers). *)
From Coq Require Import Reals ZArith List.
From MTV.Model Require Import Projection Results.
From MTV.Proofs Require Import C19_projection C19_results.
Import ListNotations.

(* projections: same azimuth, radius 2 sin(t/2) (equal area) / tan(t/2) (equal angle) for every unit vector that is shown *)
Theorem C19_projection_radius_law : forall area full back (t a : R),
  (0 <= t < PI)%R -> (full = true \/ (t <= PI / 2)%R) ->
  rproject area true full back (sin t * cos a) (sin t * sin a) (cos t)
  = (Some (radius area t * cos a)%R, Some (radius area t * sin a)%R).
Proof. exact lower_hemisphere_law. Qed.
Print Assumptions C19_projection_radius_law.

(* an upper-hemisphere vector: not at all, or at its antipode *)
Theorem C19_projection_hidden_hemisphere : forall area (x y z : R), (z < 0)%R ->
  rproject area true false false x y z = (None, None) /\
  rproject area true false true x y z = rproject area true false false (- x)%R (- y)%R (- z)%R.
Proof. exact hidden_hemisphere. Qed.
Print Assumptions C19_projection_hidden_hemisphere.

Theorem C19_projection_upper_option : forall area full back (x y z : R),
  rproject area false full back x y z = rproject area true full back x y (- z)%R.
Proof. exact upper_option_is_mirror. Qed.
Print Assumptions C19_projection_upper_option.

(* the container: indexing with index lists or masks selects the same samples in tensors, probabilities and
   converted parameters *)
Theorem C19_indexing_keeps_alignment : forall idx m cs,
  map mt (take idx cs) = take_of idx (map mt cs) /\ map prob (take idx cs) = take_of idx (map prob cs) /\
  map conv (take idx cs) = take_of idx (map conv cs) /\
  map mt (mask m cs) = mask_of m (map mt cs) /\ map prob (mask m cs) = mask_of m (map prob cs) /\
  map conv (mask m cs) = mask_of m (map conv cs).
Proof. exact indexing_keeps_alignment. Qed.
Print Assumptions C19_indexing_keeps_alignment.

(* maximum probability: exactly the samples attaining the maximum, in their original order, never empty *)
Theorem C19_max_probability_exact : forall cs c, In c (max_prob cs) <-> (In c cs /\ prob c = pmax cs).
Proof. exact max_prob_exact. Qed.
Print Assumptions C19_max_probability_exact.

Theorem C19_max_probability_order_nonempty : forall cs,
  (exists m, max_prob cs = mask m cs) /\ (cs <> [] -> (forall c, In c cs -> (0 <= prob c)%Z) -> max_prob cs <> []).
Proof. intros cs; split; [exact (max_prob_order cs) | exact (max_prob_nonempty cs)]. Qed.
Print Assumptions C19_max_probability_order_nonempty.

(* unique samples of a chain: each distinct tensor once, counts adding up to the chain length *)
Theorem C19_unique_counts : forall vs,
  ucount (unique_columns vs) = Z.of_nat (length vs) /\ NoDup (keys (unique_columns vs)) /\
  (forall x, In x (keys (unique_columns vs)) <-> In x vs).
Proof.
  intros vs; split; [exact (unique_counts_sum vs) | split; [exact (unique_keys_distinct vs) | exact (unique_keys_are_the_columns vs)]].
Qed.
Print Assumptions C19_unique_counts.

Example C19_nonvacuous :
  max_prob [mkCol [1] 3 7; mkCol [2] 5 8; mkCol [3] 5 9]%Z = [mkCol [2] 5 8; mkCol [3] 5 9]%Z /\
  map (fun e => snd (fst e)) (unique_columns [[1]; [2]; [1]; [1]]%Z) = [3; 1]%Z.
Proof. split; reflexivity. Qed.
