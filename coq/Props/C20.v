(* C20 -- Compiled accelerators compute the same functions as the pure-Python paths (source level).
   Property theorems only: each is closed by [exact] of a lemma from Proofs/, followed by Print Assumptions.
   Both sides are regenerated on every run: Gen/Kernels.v from the Cython kernels of
   MTfit/convert/cmoment_tensor_conversion.pyx and MTfit/probability/cprobability.pyx (through tools/py2coq/pyx.py),
   Gen/KernelsMC.v from the acceptance kernels of MTfit/algorithms/cmarkov_chain_monte_carlo.pyx,
   Gen/Convert.v, Gen/Polarity.v, Gen/Ratio.v, Gen/MCMC.v from the Python routines. *)
From Coq Require Import Reals.
From MTV.Lib Require Import State.
From MTV.Gen Require Import Convert Polarity Ratio Kernels MCMC KernelsMC.
From MTV.Model Require Joint.
From MTV.Proofs Require Import C20_kernels C20_likelihood C20_mcmc.
Open Scope R_scope.

Theorem C20_hudson_uv_kernel : forall tau k, ctk_uv k tau = tk_uv tau k.
Proof. exact ctk_uv_equiv. Qed.
Print Assumptions C20_hudson_uv_kernel.

Theorem C20_hudson_tk_kernel : forall a b c, c <= b <= a -> cE_tk a b c = (snd (E_tk a b c), fst (E_tk a b c)).
Proof. exact cE_tk_equiv. Qed.
Print Assumptions C20_hudson_tk_kernel.

Theorem C20_lune_kernel : forall a b c, c <= b <= a -> 0 < a * a + b * b + c * c -> cE_gd a b c = E_GD a b c.
Proof. exact cE_gd_equiv. Qed.
Print Assumptions C20_lune_kernel.

Theorem C20_tape_tensor_kernel : forall g d k h s, -1 <= h <= 1 -> cTape_MT6 g d k h s = Tape_MT6 g d k h s.
Proof. exact cTape_MT6_equiv. Qed.
Print Assumptions C20_tape_tensor_kernel.

Theorem C20_strike_dip_rake_kernel_partial : forall n0 n1 n2 u0 u1 u2,
  n0 * n0 + n1 * n1 + n2 * n2 = 1 -> u0 * u0 + u1 * u1 + u2 * u2 = 1 -> n2 <= 0 ->
  cN_SDR n0 n1 n2 u0 u1 u2 = FP_SDR n0 n1 n2 u0 u1 u2.
Proof. exact cN_SDR_equiv. Qed.
Print Assumptions C20_strike_dip_rake_kernel_partial.

(* ---- likelihood kernels of cprobability.pyx *)
Theorem C20_polarity_kernel : forall erf x s i, s <> 0 -> pol_pdf erf x s i = pol_p erf x s i.
Proof. exact pol_pdf_equiv. Qed.
Print Assumptions C20_polarity_kernel.

Theorem C20_polarity_probability_kernel : forall x p n i, x <> 0 \/ p + n = 1 -> pol_prob_pdf x p n i = polprob_p x p n i.
Proof. exact pol_prob_pdf_equiv. Qed.
Print Assumptions C20_polarity_probability_kernel.

(* the full statement (for all x, p, n) is false of the sources: recorded as a known finding *)
Theorem C20_polarity_probability_kernel_at_zero_refuted : exists p n i, pol_prob_pdf 0 p n i <> polprob_p 0 p n i.
Proof. exact pol_prob_pdf_at_zero_refuted. Qed.
Print Assumptions C20_polarity_probability_kernel_at_zero_refuted.

(* amplitude ratio: the compiled kernel on the signed theoretical amplitudes equals the Python kernel (absolute values,
   Phi) for any odd erf with Phi t = (1 + erf (t / sqrt 2)) / 2 *)
Theorem C20_amplitude_ratio_kernel : forall erf Phi, (forall t, erf (- t) = - erf t) -> (forall t, Phi t = (1 + erf (t / sqrt 2)) / 2) ->
  forall z mux muy psx psy, mux <> 0 -> muy <> 0 -> 0 < psx -> 0 < psy ->
  ar_pdf erf z mux muy psx psy = ar_p Phi z mux muy psx psy.
Proof. exact ar_pdf_equiv_signed. Qed.
Print Assumptions C20_amplitude_ratio_kernel.

Theorem C20_scale_combination_kernel : forall mu1 mu2 s1 s2, 0 < s1 -> 0 < s2 ->
  (Kernels.combine_mu mu1 mu2 s1 s2, combine_s s1 s2) = Joint.combine_step Rplus Rmult Rdiv sqrt (mu1, s1) (mu2, s2).
Proof. exact combine_equiv. Qed.
Print Assumptions C20_scale_combination_kernel.

(* scale factor of the relative-amplitude likelihood: the compiled per-station kernel equals the per-station formulas of the
   pure-Python scale_estimator at the magnitudes the compiled code takes (no side condition: both sides share every denominator) *)
Theorem C20_scale_estimate_kernel : forall x y mux muy psx psy,
  estimate_scale_mu_s x y mux muy psx psy =
  (py_scale_mu (Rabs (x / y)) (Rabs mux) (Rabs muy) psx psy, py_scale_s (Rabs (x / y)) (Rabs mux) (Rabs muy) psx psy).
Proof. exact estimate_scale_equiv. Qed.
Print Assumptions C20_scale_estimate_kernel.

(* ---- acceptance kernels of cmarkov_chain_monte_carlo.pyx (Gen/KernelsMC.v) against markov_chain_monte_carlo.py (Gen/MCMC.v) *)
(* the compiled transition ratio is the ratio of the Python proposal densities (any erf with Phi = (1 + erf(./sqrt2))/2) *)
Theorem C20_transition_ratio_kernel : forall erf Phi, (forall t, Phi t = (1 + erf (t / sqrt 2)) / 2) ->
  forall g d h s g0 gs d0 ds h0 hs s0 ss k k0,
  ~ (g = 0 /\ d = 0 /\ g0 = 0 /\ d0 = 0) -> gs <> 0 -> ds <> 0 -> hs <> 0 -> ss <> 0 ->
  Nhs Phi h hs s ss <> 0 -> Nhs Phi h0 hs s0 ss <> 0 -> Ngd Phi g gs d ds <> 0 -> Ngd Phi g0 gs d0 ds <> 0 ->
  gaussian_transition_ratio erf g d h s g0 gs d0 ds h0 hs s0 ss =
  q_mt Phi (mkState g0 d0 k0 h0 s0) (mkState g d k h s) gs ds hs ss / q_mt Phi (mkState g d k h s) (mkState g0 d0 k0 h0 s0) gs ds hs ss.
Proof. exact transition_ratio_mt. Qed.
Print Assumptions C20_transition_ratio_kernel.

Theorem C20_transition_ratio_kernel_double_couple : forall erf Phi, (forall t, Phi t = (1 + erf (t / sqrt 2)) / 2) ->
  forall h s h0 hs s0 ss k k0, hs <> 0 -> ss <> 0 -> Nhs Phi h hs s ss <> 0 -> Nhs Phi h0 hs s0 ss <> 0 ->
  gaussian_transition_ratio erf 0 0 h s 0 hs 0 ss h0 hs s0 ss =
  q_dc Phi (mkState 0 0 k0 h0 s0) (mkState 0 0 k h s) hs ss / q_dc Phi (mkState 0 0 k h s) (mkState 0 0 k0 h0 s0) hs ss.
Proof. exact transition_ratio_dc. Qed.
Print Assumptions C20_transition_ratio_kernel_double_couple.

(* the balancing densities and the uniform-prior ratio *)
Theorem C20_balancing_density_kernel : forall x sg sd pn,
  gaussian_jump_prob (s_gamma x) (s_delta x) sg sd pn = qb_gauss x sg sd pn /\ flat_jump_prob = qb_flat.
Proof. intros. split; [apply jump_prob_qb|exact flat_jump_prob_qb]. Qed.
Print Assumptions C20_balancing_density_kernel.

Theorem C20_uniform_prior_ratio_kernel : forall betapdf ND,
  (forall u, betapdf u (1149 / 200) (1149 / 200) * (11045219407152909 / 10 ^ 16) = ND * Rpower (u * (1 - u)) (949 / 200)) ->
  forall g d g0 d0, py_prior betapdf g0 d0 <> 0 -> uniform_prior_ratio ND g d g0 d0 = py_prior betapdf g d / py_prior betapdf g0 d0.
Proof. exact uniform_prior_ratio_is_prior_ratio. Qed.
Print Assumptions C20_uniform_prior_ratio_kernel.

(* the acceptance kernel, its three function pointers as parameters: which formula is taken in which case *)
Theorem C20_acceptance_kernel_cases : forall tr pr jp g d h s g0 gs d0 ds h0 hs s0 ss lp lp0 jump qg qd sg sd pn pdc,
  (jump <= 0 \/ ~ (g = 0 /\ d = 0) /\ ~ (g0 = 0 /\ d0 = 0) ->
   acceptance tr pr jp g d h s g0 gs d0 ds h0 hs s0 ss lp lp0 jump qg qd sg sd pn pdc =
   Rmin 1 (exp (lp - lp0) * tr g d h s g0 gs d0 ds h0 hs s0 ss * pr g d g0 d0)) /\
  (0 < jump -> acceptance tr pr jp 0 0 h s g0 gs d0 ds h0 hs s0 ss lp lp0 jump qg qd sg sd pn pdc =
   Rmin 1 (exp (lp - lp0) * pr 0 0 g0 d0 * jp qg qd sg sd pn * (pdc / (1 - pdc)))) /\
  (0 < jump -> ~ (g = 0 /\ d = 0) -> acceptance tr pr jp g d h s 0 gs 0 ds h0 hs s0 ss lp lp0 jump qg qd sg sd pn pdc =
   Rmin 1 (exp (lp - lp0) * pr g d 0 0 / jp qg qd sg sd pn * ((1 - pdc) / pdc))).
Proof.
  intros. split; [|split].
  - apply acceptance_shift.
  - apply acceptance_jump_down.
  - apply acceptance_jump_up.
Qed.
Print Assumptions C20_acceptance_kernel_cases.

(* composed: the compiled shift acceptance of a full-tensor chain with the uniform prior IS the Python Metropolis-Hastings acceptance *)
Theorem C20_shift_acceptance_kernel : forall erf Phi, (forall t, Phi t = (1 + erf (t / sqrt 2)) / 2) ->
  forall betapdf ND, (forall u, betapdf u (1149 / 200) (1149 / 200) * (11045219407152909 / 10 ^ 16) = ND * Rpower (u * (1 - u)) (949 / 200)) ->
  forall jp g d h s g0 gs d0 ds h0 hs s0 ss k k0 lp lp0 jump qg qd sg sd pn pdc,
  let x := mkState g d k h s in let x0 := mkState g0 d0 k0 h0 s0 in
  let q := fun a b => q_mt Phi a b gs ds hs ss in
  let prior := fun st => py_prior betapdf (s_gamma st) (s_delta st) in
  jump <= 0 -> ~ (g = 0 /\ d = 0 /\ g0 = 0 /\ d0 = 0) -> gs <> 0 -> ds <> 0 -> hs <> 0 -> ss <> 0 ->
  Nhs Phi h hs s ss <> 0 -> Nhs Phi h0 hs s0 ss <> 0 -> Ngd Phi g gs d ds <> 0 -> Ngd Phi g0 gs d0 ds <> 0 ->
  0 < q x x0 * prior x0 ->
  acceptance (gaussian_transition_ratio erf) (uniform_prior_ratio ND) jp g d h s g0 gs d0 ds h0 hs s0 ss lp lp0 jump qg qd sg sd pn pdc =
  mh_acc q prior x lp x0 lp0.
Proof. exact acceptance_shift_uniform_mt. Qed.
Print Assumptions C20_shift_acceptance_kernel.


(* composed, model jumps: with the uniform prior and the Gaussian balancing draw (the defaults) the compiled jump acceptances ARE the
   Python ones; tr is arbitrary (a jump does not use the transition ratio) *)
Theorem C20_jump_acceptance_kernels : forall tr betapdf ND,
  (forall u, betapdf u (1149 / 200) (1149 / 200) * (11045219407152909 / 10 ^ 16) = ND * Rpower (u * (1 - u)) (949 / 200)) ->
  forall mh,
  (forall g d h s gs ds h0 hs s0 ss k lp lp0 jump sg sd pn pdc,
   let prior := fun st => py_prior betapdf (s_gamma st) (s_delta st) in
   0 < jump -> ~ (g = 0 /\ d = 0) ->
   acceptance tr (uniform_prior_ratio ND) gaussian_jump_prob g d h s 0 gs 0 ds h0 hs s0 ss lp lp0 jump g d sg sd pn pdc =
   jump_up_acc (fun st => qb_gauss st sg sd pn) prior mh (mkState g d k h s) lp (mkState 0 0 k h s) lp0 pdc) /\
  (forall h s g0 gs d0 ds h0 hs s0 ss k0 lp lp0 jump sg sd pn pdc,
   let prior := fun st => py_prior betapdf (s_gamma st) (s_delta st) in
   0 < jump -> prior (mkState g0 d0 k0 h0 s0) <> 0 ->
   acceptance tr (uniform_prior_ratio ND) gaussian_jump_prob 0 0 h s g0 gs d0 ds h0 hs s0 ss lp lp0 jump g0 d0 sg sd pn pdc =
   jump_down_acc (fun st => qb_gauss st sg sd pn) prior mh (mkState 0 0 k0 h0 s0) lp (mkState g0 d0 k0 h0 s0) lp0 pdc).
Proof.
  intros tr betapdf ND Hb mh. split.
  - intros. apply acceptance_jump_up_uniform_gaussian; assumption.
  - intros. apply acceptance_jump_down_uniform_gaussian; assumption.
Qed.
Print Assumptions C20_jump_acceptance_kernels.

(* with the flat prior the compiled prior ratio is 1 also across a model jump, where the Python priors give 3/pi^2: known finding *)
Theorem C20_flat_prior_ratio_on_jumps_refuted : forall betapdf, flat_prior_ratio <> flat_prior_mt betapdf / 1.
Proof. exact flat_prior_ratio_on_jumps_refuted. Qed.
Print Assumptions C20_flat_prior_ratio_on_jumps_refuted.
