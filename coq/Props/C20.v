(* C20 -- Compiled accelerators compute the same functions as the pure-Python paths (source level).
   Property theorems only: each is closed by [exact] of a lemma from Proofs/, followed by Print Assumptions.
   Both sides are regenerated on every run: Gen/Kernels.v from the Cython kernels of
   MTfit/convert/cmoment_tensor_conversion.pyx and MTfit/probability/cprobability.pyx (through tools/py2coq/pyx.py),
   Gen/Convert.v, Gen/Polarity.v, Gen/Ratio.v from the Python routines. *)
From Coq Require Import Reals.
From MTV.Gen Require Import Convert Polarity Ratio Kernels.
From MTV.Model Require Joint.
From MTV.Proofs Require Import C20_kernels C20_likelihood.
Open Scope R_scope.

Theorem C20_hudson_uv_kernel : forall tau k, ctk_uv k tau = tk_uv tau k.
Proof. exact ctk_uv_equiv. Qed.
Print Assumptions C20_hudson_uv_kernel.

Theorem C20_hudson_tk_kernel : forall a b c, c <= b <= a -> cE_tk a b c = (snd (E_tk a b c), fst (E_tk a b c)).
Proof. exact cE_tk_equiv. Qed.
Print Assumptions C20_hudson_tk_kernel.

Theorem C20_lune_kernel : forall a b c, c <= b <= a -> 0 < a * a + b * b + c * c -> cE_gd a b c = E_GD a b c.
Proof. exact cE_gd_equiv. Qed.
Print Assumptions C20_lune_kernel.

Theorem C20_tape_tensor_kernel : forall g d k h s, -1 <= h <= 1 -> cTape_MT6 g d k h s = Tape_MT6 g d k h s.
Proof. exact cTape_MT6_equiv. Qed.
Print Assumptions C20_tape_tensor_kernel.

Theorem C20_strike_dip_rake_kernel_partial : forall n0 n1 n2 u0 u1 u2,
  n0 * n0 + n1 * n1 + n2 * n2 = 1 -> u0 * u0 + u1 * u1 + u2 * u2 = 1 -> n2 <= 0 ->
  cN_SDR n0 n1 n2 u0 u1 u2 = FP_SDR n0 n1 n2 u0 u1 u2.
Proof. exact cN_SDR_equiv. Qed.
Print Assumptions C20_strike_dip_rake_kernel_partial.

(* ---- likelihood kernels of cprobability.pyx *)
Theorem C20_polarity_kernel : forall erf x s i, s <> 0 -> pol_pdf erf x s i = pol_p erf x s i.
Proof. exact pol_pdf_equiv. Qed.
Print Assumptions C20_polarity_kernel.

Theorem C20_polarity_probability_kernel : forall x p n i, x <> 0 \/ p + n = 1 -> pol_prob_pdf x p n i = polprob_p x p n i.
Proof. exact pol_prob_pdf_equiv. Qed.
Print Assumptions C20_polarity_probability_kernel.

(* the full statement (for all x, p, n) is false of the sources: recorded as a known finding *)
Theorem C20_polarity_probability_kernel_at_zero_refuted : exists p n i, pol_prob_pdf 0 p n i <> polprob_p 0 p n i.
Proof. exact pol_prob_pdf_at_zero_refuted. Qed.
Print Assumptions C20_polarity_probability_kernel_at_zero_refuted.

(* amplitude ratio: the compiled kernel on the signed theoretical amplitudes equals the Python kernel (absolute values,
   Phi) for any odd erf with Phi t = (1 + erf (t / sqrt 2)) / 2 *)
Theorem C20_amplitude_ratio_kernel : forall erf Phi, (forall t, erf (- t) = - erf t) -> (forall t, Phi t = (1 + erf (t / sqrt 2)) / 2) ->
  forall z mux muy psx psy, mux <> 0 -> muy <> 0 -> 0 < psx -> 0 < psy ->
  ar_pdf erf z mux muy psx psy = ar_p Phi z mux muy psx psy.
Proof. exact ar_pdf_equiv_signed. Qed.
Print Assumptions C20_amplitude_ratio_kernel.

Theorem C20_scale_combination_kernel : forall mu1 mu2 s1 s2, 0 < s1 -> 0 < s2 ->
  (Kernels.combine_mu mu1 mu2 s1 s2, combine_s s1 s2) = Joint.combine_step Rplus Rmult Rdiv sqrt (mu1, s1) (mu2, s2).
Proof. exact combine_equiv. Qed.
Print Assumptions C20_scale_combination_kernel.

(* scale factor of the relative-amplitude likelihood: the compiled per-station kernel equals the per-station formulas of the
   pure-Python scale_estimator at the magnitudes the compiled code takes (no side condition: both sides share every denominator) *)
Theorem C20_scale_estimate_kernel : forall x y mux muy psx psy,
  estimate_scale_mu_s x y mux muy psx psy =
  (py_scale_mu (Rabs (x / y)) (Rabs mux) (Rabs muy) psx psy, py_scale_s (Rabs (x / y)) (Rabs mux) (Rabs muy) psx psy).
Proof. exact estimate_scale_equiv. Qed.
Print Assumptions C20_scale_estimate_kernel.
