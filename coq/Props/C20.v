(* C20 -- Compiled accelerators compute the same functions as the pure-Python paths (source level).
   Property theorems only: each is closed by [exact] of a lemma from Proofs/, followed by Print Assumptions.
   Both sides are regenerated on every run: Gen/Kernels.v from the Cython kernels of
   MTfit/convert/cmoment_tensor_conversion.pyx (through tools/py2coq/pyx.py), Gen/Convert.v from the Python routines. *)
From Coq Require Import Reals.
From MTV.Gen Require Import Convert Kernels.
From MTV.Proofs Require Import C20_kernels.
Open Scope R_scope.

Theorem C20_hudson_uv_kernel : forall tau k, ctk_uv k tau = tk_uv tau k.
Proof. exact ctk_uv_equiv. Qed.
Print Assumptions C20_hudson_uv_kernel.

Theorem C20_hudson_tk_kernel : forall a b c, c <= b <= a -> cE_tk a b c = (snd (E_tk a b c), fst (E_tk a b c)).
Proof. exact cE_tk_equiv. Qed.
Print Assumptions C20_hudson_tk_kernel.

Theorem C20_lune_kernel : forall a b c, c <= b <= a -> 0 < a * a + b * b + c * c -> cE_gd a b c = E_GD a b c.
Proof. exact cE_gd_equiv. Qed.
Print Assumptions C20_lune_kernel.

Theorem C20_strike_dip_rake_kernel_partial : forall n0 n1 n2 u0 u1 u2,
  n0 * n0 + n1 * n1 + n2 * n2 = 1 -> u0 * u0 + u1 * u1 + u2 * u2 = 1 -> n2 <= 0 ->
  cN_SDR n0 n1 n2 u0 u1 u2 = FP_SDR n0 n1 n2 u0 u1 u2.
Proof. exact cN_SDR_equiv. Qed.
Print Assumptions C20_strike_dip_rake_kernel_partial.
