(* C02 -- Polarity likelihoods are valid two-outcome probability models.
   pol_p and polprob_p are regenerated on every run from the argument of np.log in
   polarity_ln_pdf and polarity_probability_ln_pdf (MTfit/probability/probability.py).
   erf is a parameter with exactly the stated hypotheses (oddness, monotonicity, range;
   saturation only for the zero-uncertainty limit). *)
From Coq Require Import Reals.
From MTV.Lib Require Import Base.
From MTV.Gen Require Import Polarity.
From MTV.Proofs Require Import C02_polarity.
Open Scope R_scope.

Definition erf_ok (erf : R -> R) : Prop :=
  (forall x, erf (- x) = - erf x) /\ (forall x y, x <= y -> erf x <= erf y) /\ (forall x, -1 <= erf x <= 1).

Theorem C02_polarity_formula : forall erf X s w,
  pol_p erf X s w =
  1 / 2 * (1 + erf (X / (sqrt 2 * sigma0 s))) * (1 - w) + 1 / 2 * (1 + erf (- X / (sqrt 2 * sigma0 s))) * w.
Proof. exact pol_p_is_documented. Qed.
Print Assumptions C02_polarity_formula.

Theorem C02_polarity_in_unit_interval : forall erf, erf_ok erf -> forall X s w,
  0 <= w <= 1 -> 0 <= pol_p erf X s w <= 1.
Proof. intros erf [Ho [Hm Hb]]. exact (pol_p_range erf Ho Hb). Qed.
Print Assumptions C02_polarity_in_unit_interval.

Theorem C02_two_polarities_sum_to_one : forall erf, erf_ok erf -> forall X s w,
  pol_p erf X s w + pol_p erf (- X) s w = 1.
Proof. intros erf [Ho [Hm Hb]]. exact (pol_p_complement erf Ho). Qed.
Print Assumptions C02_two_polarities_sum_to_one.

Theorem C02_monotone_in_amplitude : forall erf, erf_ok erf -> forall X X' s w,
  0 <= s -> w < 1 / 2 -> X <= X' -> pol_p erf X s w <= pol_p erf X' s w.
Proof. intros erf [Ho [Hm Hb]]. exact (pol_p_monotone erf Ho Hm). Qed.
Print Assumptions C02_monotone_in_amplitude.

Theorem C02_zero_uncertainty_is_hard_limit : forall erf, erf_ok erf -> (forall t, 6 <= t -> erf t = 1) ->
  forall X w, (1 / 10 ^ 22 <= X -> pol_p erf X 0 w = 1 - w) /\ (X <= - (1 / 10 ^ 22) -> pol_p erf X 0 w = w).
Proof.
  intros erf [Ho [Hm Hb]] Hs X w. split.
  - exact (pol_p_hard_limit_pos erf Ho Hs X w).
  - exact (pol_p_hard_limit_neg erf Ho Hs X w).
Qed.
Print Assumptions C02_zero_uncertainty_is_hard_limit.

Theorem C02_polarity_probability_formula : forall X pp pn w,
  polprob_p X pp pn w =
  (heaviside X * pp + heaviside (- X) * pn) * (1 - w) + (heaviside X * pn + heaviside (- X) * pp) * w
  /\ (0 < X -> heaviside X = 1) /\ (X < 0 -> heaviside X = 0) /\ heaviside 0 = 1 / 2.
Proof.
  intros. split; [exact (polprob_p_is_documented X pp pn w)|].
  split; [exact (heaviside_pos X)|]. split; [exact (heaviside_neg X)|exact heaviside_0].
Qed.
Print Assumptions C02_polarity_probability_formula.

Theorem C02_polarity_probability_in_unit_interval : forall X pp pn w,
  0 <= pp <= 1 -> 0 <= pn <= 1 -> 0 <= w <= 1 -> 0 <= polprob_p X pp pn w <= 1.
Proof. exact polprob_range. Qed.
Print Assumptions C02_polarity_probability_in_unit_interval.

Theorem C02_polarity_probability_cases : forall X pp pn w,
  (0 < X -> polprob_p X pp pn w = pp * (1 - w) + pn * w) /\
  (X < 0 -> polprob_p X pp pn w = pn * (1 - w) + pp * w) /\
  polprob_p 0 pp pn w = (pp + pn) / 2.
Proof.
  intros. split; [exact (polprob_pos X pp pn w)|]. split; [exact (polprob_neg X pp pn w)|exact (polprob_zero pp pn w)].
Qed.
Print Assumptions C02_polarity_probability_cases.
