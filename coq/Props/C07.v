(* C07 -- A Markov-chain run returns a correctly counted chain that samples the posterior.
   Theorems about the executable model Model/Chain.v (hand-written from iterate / _add / _add_new /
   _add_old / learning_check / the first-sample rule / termination), over EVERY list of proposals and
   accept/reject decisions; the model is compared with the implementation inside Coq (vm_compute).
   "Samples the posterior" is reduced to detailed balance (C05) by the stationarity theorem below;
   ergodicity and the law of the random generator are assumed. *)
From Coq Require Import ZArith List Bool Lia Reals.
From MTV.Model Require Import Chain.
From MTV.Lib Require Import Rlist Markov.
From MTV.Proofs Require Import C07_chain.
Import ListNotations.
Open Scope Z_scope.

Theorem C07_bookkeeping_of_every_run : forall ll w cl x0 ops, finite x0 -> all_finite ops ->
  let '(s, e) := run (init ll w cl x0) ops in
  (* learning period (and the moment right after it): nothing recorded, counters untouched *)
  ((chain s = [] /\ tried s = -1 /\ accepted s = -1 /\ p_dc s = 0) \/
  (* afterwards: one entry per tried proposal plus the first state held once more; the last entry is
     the current state; accepted <= tried; the double-couple counter counts the double-couple entries *)
   (learning_length s <= n_learn s /\ 1 <= tried s /\ 0 <= accepted s <= tried s /\
    Z.of_nat (length (chain s)) = tried s + 1 /\ last (chain s) (cur s) = cur s /\
    (exists x r, chain s = x :: x :: r) /\ p_dc s = count_dc (chain s))) /\
  (* every entry is the initial state or one of the proposals, with that source's own likelihood *)
  (forall en, In en (chain s) -> In en (x0 :: map fst ops)) /\
  (* termination: raised only once the tried count has reached the chain length *)
  (e = true -> cl <= tried s) /\ (e = false -> tried s < cl \/ ops = []).
Proof.
  intros ll w cl x0 ops F0 Fa.
  pose proof (run_invariant ops (init ll w cl x0) F0 Fa (init_inv ll w cl x0)) as H.
  destruct (run (init ll w cl x0) ops) as [s e]. destruct H as [I [_ [Hen [He1 [He2 [Hcl _]]]]]].
  simpl in Hcl. split; [|split; [|split]].
  - destruct I as [[_ [A [B [C D]]]]|[[_ [A [B [C D]]]]|I]]; [left; auto|left; auto|right; exact I].
  - intros en H. destruct (Hen en H) as [H1|[H1|H1]]; [destruct H1|right; exact H1|left; symmetry; exact H1].
  - intros E. rewrite <- Hcl. exact (He1 E).
  - intros E. rewrite <- Hcl. exact (He2 E).
Qed.
Print Assumptions C07_bookkeeping_of_every_run.

Theorem C07_stops_exactly_at_chain_length : forall ll w cl x0 ops, finite x0 -> all_finite ops -> 1 <= cl ->
  let '(s, e) := run (init ll w cl x0) ops in e = true -> tried s = cl.
Proof.
  intros ll w cl x0 ops F0 Fa Hc.
  exact (stops_exactly_at_chain_length ops (init ll w cl x0) F0 Fa (init_inv ll w cl x0) ltac:(simpl; lia) Hc).
Qed.
Print Assumptions C07_stops_exactly_at_chain_length.

Theorem C07_each_chain_step_records_one_entry : forall s x a, in_chain s ->
  accepted (fst (iterate s x a)) = accepted s + (if a then 1 else 0) /\ tried (fst (iterate s x a)) = tried s + 1.
Proof. exact accepted_counts_acceptances. Qed.
Print Assumptions C07_each_chain_step_records_one_entry.

Theorem C07_double_couple_constrained_chain_is_all_double_couple : forall ll w cl x0 ops, finite x0 -> all_finite ops ->
  s_dc x0 = true -> (forall o, In o ops -> s_dc (fst o) = true) ->
  forall en, In en (chain (fst (run (init ll w cl x0) ops))) -> s_dc en = true.
Proof.
  intros ll w cl x0 ops F0 Fa D0 Da en Hen.
  pose proof (C07_bookkeeping_of_every_run ll w cl x0 ops F0 Fa) as H.
  destruct (run (init ll w cl x0) ops) as [s e]. simpl in Hen. destruct H as [_ [H _]].
  destruct (H en Hen) as [<-|Hin]; [exact D0|]. apply in_map_iff in Hin. destruct Hin as [o [<- Ho]]. apply Da. exact Ho.
Qed.
Print Assumptions C07_double_couple_constrained_chain_is_all_double_couple.

Open Scope R_scope.
Theorem C07_detailed_balance_gives_stationarity : forall (S : Type) (states : list S) (pi : S -> R) (P : S -> S -> R),
  (forall i, In i states -> Rlist_sum (map (fun j => P i j) states) = 1) ->
  (forall i j, In i states -> In j states -> pi i * P i j = pi j * P j i) ->
  forall j, In j states -> Rlist_sum (map (fun i => pi i * P i j) states) = pi j.
Proof. exact detailed_balance_stationary. Qed.
Print Assumptions C07_detailed_balance_gives_stationarity.
