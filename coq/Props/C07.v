(* C07 -- A Markov-chain run returns a correctly counted chain that samples the posterior.
   Theorems about the executable model Model/Chain.v (hand-written from iterate / _add / _add_new /
   _add_old / learning_check / the first-sample rule / termination), over EVERY list of proposals and
   accept/reject decisions; the model is compared with the implementation inside Coq (vm_compute).
   "Samples the posterior" is reduced to detailed balance (C05) by the stationarity theorem below;
   ergodicity and the law of the random generator are assumed. *)
From Coq Require Import ZArith List Bool Lia Reals.
From MTV.Model Require Import Chain.
From MTV.Lib Require Import Rlist Markov MarkovMH.
From MTV.Proofs Require Import C07_chain.
Import ListNotations.
Open Scope Z_scope.

Theorem C07_bookkeeping_of_every_run : forall ll w cl x0 ops, finite x0 -> all_finite ops ->
  let '(s, e) := run (init ll w cl x0) ops in
  (* learning period (and the moment right after it): nothing recorded, counters untouched *)
  ((chain s = [] /\ tried s = -1 /\ accepted s = -1 /\ p_dc s = 0) \/
  (* afterwards: one entry per tried proposal plus the first state held once more; the last entry is
     the current state; accepted <= tried; the double-couple counter counts the double-couple entries *)
   (learning_length s <= n_learn s /\ 1 <= tried s /\ 0 <= accepted s <= tried s /\
    Z.of_nat (length (chain s)) = tried s + 1 /\ last (chain s) (cur s) = cur s /\
    (exists x r, chain s = x :: x :: r) /\ p_dc s = count_dc (chain s))) /\
  (* every entry is the initial state or one of the proposals, with that source's own likelihood *)
  (forall en, In en (chain s) -> In en (x0 :: map fst ops)) /\
  (* termination: raised only once the tried count has reached the chain length *)
  (e = true -> cl <= tried s) /\ (e = false -> tried s < cl \/ ops = []).
Proof.
  intros ll w cl x0 ops F0 Fa.
  pose proof (run_invariant ops (init ll w cl x0) F0 Fa (init_inv ll w cl x0)) as H.
  destruct (run (init ll w cl x0) ops) as [s e]. destruct H as [I [_ [Hen [He1 [He2 [Hcl _]]]]]].
  simpl in Hcl. split; [|split; [|split]].
  - destruct I as [[_ [A [B [C D]]]]|[[_ [A [B [C D]]]]|I]]; [left; auto|left; auto|right; exact I].
  - intros en H. destruct (Hen en H) as [H1|[H1|H1]]; [destruct H1|right; exact H1|left; symmetry; exact H1].
  - intros E. rewrite <- Hcl. exact (He1 E).
  - intros E. rewrite <- Hcl. exact (He2 E).
Qed.
Print Assumptions C07_bookkeeping_of_every_run.

Theorem C07_stops_exactly_at_chain_length : forall ll w cl x0 ops, finite x0 -> all_finite ops -> 1 <= cl ->
  let '(s, e) := run (init ll w cl x0) ops in e = true -> tried s = cl.
Proof.
  intros ll w cl x0 ops F0 Fa Hc.
  exact (stops_exactly_at_chain_length ops (init ll w cl x0) F0 Fa (init_inv ll w cl x0) ltac:(simpl; lia) Hc).
Qed.
Print Assumptions C07_stops_exactly_at_chain_length.

Theorem C07_each_chain_step_records_one_entry : forall s x a, in_chain s ->
  accepted (fst (iterate s x a)) = accepted s + (if a then 1 else 0) /\ tried (fst (iterate s x a)) = tried s + 1.
Proof. exact accepted_counts_acceptances. Qed.
Print Assumptions C07_each_chain_step_records_one_entry.

Theorem C07_double_couple_constrained_chain_is_all_double_couple : forall ll w cl x0 ops, finite x0 -> all_finite ops ->
  s_dc x0 = true -> (forall o, In o ops -> s_dc (fst o) = true) ->
  forall en, In en (chain (fst (run (init ll w cl x0) ops))) -> s_dc en = true.
Proof.
  intros ll w cl x0 ops F0 Fa D0 Da en Hen.
  pose proof (C07_bookkeeping_of_every_run ll w cl x0 ops F0 Fa) as H.
  destruct (run (init ll w cl x0) ops) as [s e]. simpl in Hen. destruct H as [_ [H _]].
  destruct (H en Hen) as [<-|Hin]; [exact D0|]. apply in_map_iff in Hin. destruct Hin as [o [<- Ho]]. apply Da. exact Ho.
Qed.
Print Assumptions C07_double_couple_constrained_chain_is_all_double_couple.

Open Scope R_scope.
Theorem C07_detailed_balance_gives_stationarity : forall (S : Type) (states : list S) (pi : S -> R) (P : S -> S -> R),
  (forall i, In i states -> Rlist_sum (map (fun j => P i j) states) = 1) ->
  (forall i j, In i states -> In j states -> pi i * P i j = pi j * P j i) ->
  forall j, In j states -> Rlist_sum (map (fun i => pi i * P i j) states) = pi j.
Proof. exact detailed_balance_stationary. Qed.
Print Assumptions C07_detailed_balance_gives_stationarity.

(* The kernel the chain actually runs: propose j with probability Q i j, move with probability a i j, otherwise stay (the
   bookkeeping theorems above: a rejection repeats the current state).  If the acceptance rule balances (C05) then that kernel,
   rejection mass included, has rows summing to one, is non-negative and leaves pi invariant. *)
Theorem C07_metropolis_kernel_with_rejections_is_stationary :
  forall (S : Type) (eq_dec : forall a b : S, {a = b} + {a <> b}) (states : list S), NoDup states ->
  forall (pi : S -> R) (Q a : S -> S -> R),
  (forall i, In i states -> Rlist_sum (map (fun j => Q i j) states) = 1) ->
  (forall i j, In i states -> In j states -> i <> j -> pi i * (Q i j * a i j) = pi j * (Q j i * a j i)) ->
  (forall i, In i states -> Rlist_sum (map (fun j => MH S eq_dec states Q a i j) states) = 1) /\
  (forall j, In j states -> Rlist_sum (map (fun i => pi i * MH S eq_dec states Q a i j) states) = pi j) /\
  ((forall i j, 0 <= Q i j) -> (forall i j, 0 <= a i j <= 1) -> forall i j, In i states -> 0 <= MH S eq_dec states Q a i j).
Proof.
  intros S eq_dec states ND pi Q a HQ HB. split; [|split].
  - intros i Hi. exact (MH_rows S eq_dec states ND Q a i Hi).
  - intros j Hj. exact (MH_stationary S eq_dec states ND pi Q a HB j Hj).
  - intros Qp A i j Hi. exact (MH_nonneg S eq_dec states Q a HQ Qp A i j Hi).
Qed.
Print Assumptions C07_metropolis_kernel_with_rejections_is_stationary.

(* A trans-dimensional chain draws a model jump with probability p and a shift otherwise: the mixture of two kernels that each
   balance with pi balances with pi and leaves it invariant. *)
Theorem C07_mixture_of_jump_and_shift_kernels_is_stationary :
  forall (S : Type) (states : list S) (pi : S -> R) (Pjump Pshift : S -> S -> R) (p : R),
  (forall i, In i states -> Rlist_sum (map (fun j => Pjump i j) states) = 1) ->
  (forall i, In i states -> Rlist_sum (map (fun j => Pshift i j) states) = 1) ->
  (forall i j, In i states -> In j states -> pi i * Pjump i j = pi j * Pjump j i) ->
  (forall i j, In i states -> In j states -> pi i * Pshift i j = pi j * Pshift j i) ->
  (forall i j, In i states -> In j states -> pi i * mix S Pjump Pshift p i j = pi j * mix S Pjump Pshift p j i) /\
  (forall j, In j states -> Rlist_sum (map (fun i => pi i * mix S Pjump Pshift p i j) states) = pi j).
Proof.
  intros S states pi P1 P2 p R1 R2 B1 B2. split.
  - intros i j Hi Hj. exact (mix_balance S states pi P1 P2 p B1 B2 i j Hi Hj).
  - intros j Hj. exact (mix_stationary S states pi P1 P2 p R1 R2 B1 B2 j Hj).
Qed.
Print Assumptions C07_mixture_of_jump_and_shift_kernels_is_stationary.
