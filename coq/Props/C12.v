(* C12 -- Tape-parameter and six-vector descriptions of a source are mutually inverse.
   Property theorems only: each is closed by [exact] of a lemma from Proofs/, followed by
   Print Assumptions.  MT33_MT6, MT6_MT33, GD_E, E_GD, Tape_MT33, Tape_MT6, SDR_TNP, FP_SDR are regenerated from
   MTfit/convert/moment_tensor_conversion.py on every run (Gen/Convert.v). *)
From Coq Require Import Reals Lra.
From MTV.Lib Require Import Base.
From MTV.Gen Require Import Convert.
From MTV.Proofs Require Import Conv_lune Conv_planes Conv_tensor.
Open Scope R_scope.

(* the 3x3 and six-vector forms convert into each other preserving the (normalised) tensor *)
Theorem C12_six_vector_roundtrip : forall v0 v1 v2 v3 v4 v5,
  let n := norm6 v0 v1 v2 v3 v4 v5 in
  (let '(a00, a01, a02, a10, a11, a12, a20, a21, a22) := MT6_MT33 v0 v1 v2 v3 v4 v5 in
   MT33_MT6 a00 a01 a02 a11 a12 a22) = (v0 / n, v1 / n, v2 / n, v3 / n, v4 / n, v5 / n).
Proof. exact MT6_MT33_MT6. Qed.
Print Assumptions C12_six_vector_roundtrip.

Theorem C12_tensor_roundtrip : forall m00 m01 m02 m11 m12 m22,
  let f := sqrt (m00 * m00 + m11 * m11 + m22 * m22 + 2 * (m01 * m01) + 2 * (m02 * m02) + 2 * (m12 * m12)) in
  0 < f ->
  (let '(v0, v1, v2, v3, v4, v5) := MT33_MT6 m00 m01 m02 m11 m12 m22 in MT6_MT33 v0 v1 v2 v3 v4 v5)
  = (m00 / f, m01 / f, m02 / f, m01 / f, m11 / f, m12 / f, m02 / f, m12 / f, m22 / f).
Proof. exact MT33_MT6_MT33. Qed.
Print Assumptions C12_tensor_roundtrip.

(* the tensor produced from Tape parameters: the generated code is literally eigenvalues(GD_E) rotated by the axes
   (SDR_TNP with dip = acos h), it is symmetric and has unit norm for every parameter value *)
Theorem C12_tape_tensor_structure : forall g d k h s,
  Tape_MT33 g d k h s = rebuild (GD_E g d) (SDR_TNP k (acos h) s) /\
  Tape_MT6 g d k h s =
  (let '(m00, m01, m02, m10, m11, m12, m20, m21, m22) := Tape_MT33 g d k h s in MT33_MT6 m00 m01 m02 m11 m12 m22).
Proof. intros; split; [exact (Tape_MT33_struct _ _ _ _ _) | exact (Tape_MT6_struct _ _ _ _ _)]. Qed.
Print Assumptions C12_tape_tensor_structure.

Theorem C12_tape_tensor_symmetric_unit : forall g d k h s,
  let '(m00, m01, m02, m10, m11, m12, m20, m21, m22) := Tape_MT33 g d k h s in
  m10 = m01 /\ m20 = m02 /\ m21 = m12 /\
  m00 * m00 + m11 * m11 + m22 * m22 + 2 * (m01 * m01) + 2 * (m02 * m02) + 2 * (m12 * m12) = 1.
Proof. exact Tape_MT33_symmetric_unit. Qed.
Print Assumptions C12_tape_tensor_symmetric_unit.

Theorem C12_tape_six_vector_unit : forall g d k h s,
  let '(v0, v1, v2, v3, v4, v5) := Tape_MT6 g d k h s in v0 * v0 + v1 * v1 + v2 * v2 + v3 * v3 + v4 * v4 + v5 * v5 = 1.
Proof. exact Tape_MT6_unit. Qed.
Print Assumptions C12_tape_six_vector_unit.

(* source-type part of the round trip: parameters -> eigenvalues -> parameters, on the whole open lune *)
Theorem C12_source_type_roundtrip : forall g d,
  - (PI / 6) <= g <= PI / 6 -> - (PI / 2) < d < PI / 2 ->
  (let '(e0, e1, e2) := GD_E g d in E_GD e0 e1 e2) = (g, d).
Proof. exact E_GD_GD_E. Qed.
Print Assumptions C12_source_type_roundtrip.

(* orientation part: strike, dip = acos h, slip -> fault normal and slip vector -> the same angles *)
Theorem C12_orientation_roundtrip : forall k dip s, 0 <= k < 2 * PI -> 0 < dip <= PI / 2 -> - PI < s <= PI ->
  (let '(n0, n1, n2) := normv k dip in let '(u0, u1, u2) := slipv k dip s in FP_SDR n0 n1 n2 u0 u1 u2) = (k, dip, s).
Proof. exact FP_SDR_of_frame. Qed.
Print Assumptions C12_orientation_roundtrip.

(* documented ranges of the parameters produced, for any eigenvalues and any axes *)
Theorem C12_parameter_ranges : forall a b c n0 n1 n2 u0 u1 u2,
  (- (PI / 6) <= fst (E_GD a b c) <= PI / 6 /\ - (PI / 2) <= snd (E_GD a b c) <= PI / 2) /\
  (let '(k, dip, s) := FP_SDR n0 n1 n2 u0 u1 u2 in 0 <= k < 2 * PI /\ 0 <= dip <= PI / 2 /\ - PI <= s <= PI).
Proof. intros; split; [exact (E_GD_range a b c) | exact (FP_SDR_range n0 n1 n2 u0 u1 u2)]. Qed.
Print Assumptions C12_parameter_ranges.

(* double-couple tensors map to zero longitude and latitude *)
Theorem C12_double_couple_zero : forall l, 0 < l -> E_GD l 0 (- l) = (0, 0).
Proof. exact double_couple_at_origin. Qed.
Print Assumptions C12_double_couple_zero.

Example C12_nonvacuous : - (PI / 6) <= 0 <= PI / 6 /\ - (PI / 2) < 0 < PI / 2 /\ 0 < 1.
Proof. pose proof PI_RGT_0. repeat split; lra. Qed.
