(* C11 -- Station coefficients reproduce P/SH/SV radiation and stay aligned with the data.
   Property theorems only: each is closed by [exact] of a lemma from Proofs/, followed by
   Print Assumptions.  The coefficient rows are regenerated from
   MTfit/inversion.py:station_angles on every run. *)
From Coq Require Import Reals ZArith List Sorting.Permutation Sorting.Sorted.
From MTV.Lib Require Import Base.
From MTV.Gen Require Import StationAngles.
From MTV.Model Require Import Matrices.
From MTV.Proofs Require Import C11_coeffs C11_rows.
Import ListNotations.

Open Scope R_scope.

Theorem C11_coeff_P : forall az toa mxx myy mzz mxy mxz myz,
  dot6 (coeff_P az toa) (six mxx myy mzz mxy mxz myz)
  = bil mxx myy mzz mxy mxz myz (ray (rad az) (rad toa)) (ray (rad az) (rad toa)).
Proof. intros; rewrite coeff_P_degrees; exact (coeff_P_rad_correct _ _ _ _ _ _ _ _). Qed.
Print Assumptions C11_coeff_P.

Theorem C11_coeff_SH : forall az toa mxx myy mzz mxy mxz myz,
  dot6 (coeff_SH az toa) (six mxx myy mzz mxy mxz myz)
  = bil mxx myy mzz mxy mxz myz (e_phi (rad az) (rad toa)) (ray (rad az) (rad toa)).
Proof. intros; rewrite coeff_SH_degrees; exact (coeff_SH_rad_correct _ _ _ _ _ _ _ _). Qed.
Print Assumptions C11_coeff_SH.

Theorem C11_coeff_SV : forall az toa mxx myy mzz mxy mxz myz,
  dot6 (coeff_SV az toa) (six mxx myy mzz mxy mxz myz)
  = bil mxx myy mzz mxy mxz myz (e_theta (rad az) (rad toa)) (ray (rad az) (rad toa)).
Proof. intros; rewrite coeff_SV_degrees; exact (coeff_SV_rad_correct _ _ _ _ _ _ _ _). Qed.
Print Assumptions C11_coeff_SV.

(* radians entry points: same rows without the degree conversion *)
Theorem C11_coeff_P_radians : forall az toa mxx myy mzz mxy mxz myz,
  dot6 (coeff_P_rad az toa) (six mxx myy mzz mxy mxz myz)
  = bil mxx myy mzz mxy mxz myz (ray az toa) (ray az toa).
Proof. exact coeff_P_rad_correct. Qed.
Print Assumptions C11_coeff_P_radians.

(* rotating source and stations together about the vertical leaves every amplitude unchanged *)
Theorem C11_rotation_invariance : forall az toa psi mxx myy mzz mxy mxz myz,
  let M' := six (rotz_xx psi mxx myy mxy) (rotz_yy psi mxx myy mxy) mzz
                (rotz_xy psi mxx myy mxy) (rotz_xz psi mxz myz) (rotz_yz psi mxz myz) in
  let M := six mxx myy mzz mxy mxz myz in
  dot6 (coeff_P_rad (az + psi) toa) M' = dot6 (coeff_P_rad az toa) M /\
  dot6 (coeff_SH_rad (az + psi) toa) M' = dot6 (coeff_SH_rad az toa) M /\
  dot6 (coeff_SV_rad (az + psi) toa) M' = dot6 (coeff_SV_rad az toa) M.
Proof.
  intros. split; [exact (rotation_P _ _ _ _ _ _ _ _ _)|].
  split; [exact (rotation_SH _ _ _ _ _ _ _ _ _)|exact (rotation_SV _ _ _ _ _ _ _ _ _)].
Qed.
Print Assumptions C11_rotation_invariance.

Open Scope Z_scope.

(* every output row pairs one station's angles (in every location sample) with that same
   station's measurement, error and mispick value *)
Theorem C11_rows_aligned : forall data samples r,
  In r (rows_loc data samples) ->
  In (r_obs r) data /\ dname (r_obs r) = r_name r /\
  In (r_name r) (map s_name (hd [] samples)) /\
  length (r_angles r) = length samples /\
  (forall k s, nth_error samples k = Some s -> map s_name s = map s_name (hd [] samples) ->
     exists st, In st s /\ s_name st = r_name r /\ nth_error (r_angles r) k = Some (angles_of st)).
Proof. exact rows_loc_aligned. Qed.
Print Assumptions C11_rows_aligned.

Theorem C11_rows_are_shared_stations_sorted : forall data samples,
  map r_name (rows_loc data samples) = selected (map s_name (hd [] samples)) (map dname data)
  /\ StronglySorted Z.lt (selected (map s_name (hd [] samples)) (map dname data))
  /\ (forall n, In n (selected (map s_name (hd [] samples)) (map dname data))
               <-> In n (map s_name (hd [] samples)) /\ In n (map dname data)).
Proof.
  intros. split; [exact (rows_loc_names _ _)|]. split; [exact (selected_sorted _ _)|].
  intros n; exact (selected_In _ _ n).
Qed.
Print Assumptions C11_rows_are_shared_stations_sorted.

Theorem C11_rows_data_order_irrelevant : forall data data' samples,
  NoDup (map dname data) -> Permutation data data' ->
  rows_loc data samples = rows_loc data' samples.
Proof. exact rows_loc_data_perm. Qed.
Print Assumptions C11_rows_data_order_irrelevant.

Theorem C11_rows_without_location_samples : forall data k o,
  nth_error data k = Some o ->
  nth_error (rows_plain data) k = Some (mkRow (dname o) [angles_of (o_st o)] o).
Proof. exact rows_plain_aligned. Qed.
Print Assumptions C11_rows_without_location_samples.

Theorem C11_types_concatenate_with_aligned_mispick : forall types samples,
  length (fst (build types samples)) = length (snd (build types samples)) /\
  (forall k r, nth_error (fst (build types samples)) k = Some r ->
     exists w, nth_error (snd (build types samples)) k = Some w /\ (w = o_w (r_obs r) \/ w = 0)).
Proof. intros. split; [exact (build_lengths _ _)|exact (build_mispick_aligned _ _)]. Qed.
Print Assumptions C11_types_concatenate_with_aligned_mispick.
