(* C03 -- Amplitude-ratio likelihood is the density of |X/Y| for two independent Gaussians.
   ratio_pdf and ar_p are regenerated on every run from ratio_pdf / amplitude_ratio_ln_pdf
   (MTfit/probability/probability.py).  Phi is a parameter: the standard normal distribution
   function (derivative = normal density, symmetric, limits 0 and 1, non-decreasing). *)
From Coq Require Import Reals Lra.
From Coquelicot Require Import Coquelicot.
From MTV.Lib Require Import Base.
From MTV.Gen Require Import Ratio.
From MTV.Proofs Require Import C03_ratio C03_limit.
Open Scope R_scope.

(* the code's coefficients are those of the completed square of the joint Gaussian exponent *)
Theorem C03_coefficients_complete_the_square : forall z mx my sx sy y, sx <> 0 -> sy <> 0 ->
  (z * y - mx) * (z * y - mx) / (sx * sx) + (y - my) * (y - my) / (sy * sy)
  = cf_a2 z sx sy * (y * y) - 2 * cf_b z mx my sx sy * y + cf_c mx my sx sy.
Proof. exact complete_square. Qed.
Print Assumptions C03_coefficients_complete_the_square.

Theorem C03_closed_form_uses_those_coefficients : forall Phi z mx my sx sy,
  let a := sqrt (cf_a2 z sx sy) in
  let b := cf_b z mx my sx sy in
  let c := cf_c mx my sx sy in
  ratio_pdf Phi z mx my sx sy =
  b * exp ((b * b - c * (a * a)) / (2 * (a * a))) / (sqrt (2 * PI) * (sx * sy * (a * (a * a)))) *
    (Phi (b / (sqrt 1 * a)) - Phi (- b / (sqrt 1 * a)))
  + sqrt 1 / (PI * (sx * sy * (a * a))) * exp (- c / 2).
Proof. exact ratio_pdf_unfold. Qed.
Print Assumptions C03_closed_form_uses_those_coefficients.

(* Cauchy-Schwarz: the only exponential of a possibly large argument has a non-positive argument *)
Theorem C03_exponent_never_positive : forall z mx my sx sy, sx <> 0 -> sy <> 0 ->
  cf_b z mx my sx sy * cf_b z mx my sx sy - cf_c mx my sx sy * cf_a2 z sx sy <= 0.
Proof. exact exponent_nonpos. Qed.
Print Assumptions C03_exponent_never_positive.

(* finite window of the defining integral, in closed form *)
Theorem C03_window_of_the_defining_integral : forall Phi,
  (forall t, is_derive Phi t (exp (- (t * t / 2)) / sqrt (2 * PI))) ->
  forall z mx my sx sy, 0 < sx -> 0 < sy -> forall Y, 0 <= Y ->
  is_RInt (integrand z mx my sx sy) (- Y) Y
    (1 / (2 * PI * sx * sy) * ((G Phi z mx my sx sy Y - G Phi z mx my sx sy 0) - (G Phi z mx my sx sy 0 - G Phi z mx my sx sy (- Y)))).
Proof. exact window_integral. Qed.
Print Assumptions C03_window_of_the_defining_integral.

(* the closed form IS the defining integral of |y| N(z y) N(y) dy over the real line *)
Theorem C03_closed_form_is_the_defining_integral : forall Phi,
  (forall t, is_derive Phi t (exp (- (t * t / 2)) / sqrt (2 * PI))) ->
  (forall t, Phi (- t) = 1 - Phi t) -> is_lim Phi p_infty 1 -> is_lim Phi m_infty 0 ->
  forall z mx my sx sy, 0 < sx -> 0 < sy ->
  is_lim (fun Y => RInt (integrand z mx my sx sy) (- Y) Y) p_infty (ratio_pdf Phi z mx my sx sy).
Proof. exact closed_form_is_the_improper_integral. Qed.
Print Assumptions C03_closed_form_is_the_defining_integral.

Theorem C03_nonnegative : forall Phi, (forall s t, s <= t -> Phi s <= Phi t) ->
  (forall z mx my sx sy, 0 < sx -> 0 < sy -> 0 <= ratio_pdf Phi z mx my sx sy) /\
  (forall r mx my px py, mx <> 0 -> my <> 0 -> 0 <= ar_p Phi r mx my px py).
Proof. intros Phi H. split; [exact (ratio_pdf_nonneg Phi H)|exact (ar_p_nonneg Phi H)]. Qed.
Print Assumptions C03_nonnegative.

(* the likelihood of an observed ratio: density at +r plus density at -r, with absolute modelled
   amplitudes and errors = fraction x |amplitude|; it depends on the amplitudes only through
   their magnitudes *)
Theorem C03_likelihood_of_observed_ratio : forall Phi r mx my px py,
  ar_p Phi r mx my px py =
    (let px' := Rabs (if Req_EM_T px 0 then 1 / 10 ^ 24 else px) in
     let py' := Rabs (if Req_EM_T py 0 then 1 / 10 ^ 24 else py) in
     ratio_pdf Phi r (Rabs mx) (Rabs my) (px' * Rabs mx) (py' * Rabs my)
     + ratio_pdf Phi (- r) (Rabs mx) (Rabs my) (px' * Rabs mx) (py' * Rabs my)) /\
  ar_p Phi r (- mx) my px py = ar_p Phi r mx my px py /\
  ar_p Phi r mx (- my) px py = ar_p Phi r mx my px py /\
  ar_p Phi r (Rabs mx) (Rabs my) px py = ar_p Phi r mx my px py.
Proof. intros. split; [exact (ar_p_unfold Phi r mx my px py)|exact (ar_p_abs_only Phi r mx my px py)]. Qed.
Print Assumptions C03_likelihood_of_observed_ratio.
