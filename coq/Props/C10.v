(* C10 -- Evidence, model probabilities and divergences obey their defining identities.
   ln_evidence, model_probs_2..5 and dkl_est are regenerated on every run from
   ln_bayesian_evidence (sampling.py), model_probabilities and dkl_estimate (probability.py).
   Lists hold the finite log-likelihoods; zero-probability samples are the ones counted in N
   (n_samples) but absent from the list. *)
From Coq Require Import Reals List Lra Sorting.Permutation.
From MTV.Lib Require Import Base Rlist.
From MTV.Gen Require Import Evidence.
From MTV.Proofs Require Import C10_evidence C10_gibbs.
Import ListNotations.
Open Scope R_scope.

Theorem C10_evidence_is_log_mean_likelihood : forall ls p n, ls <> [] -> 0 < p -> 0 < n ->
  ln_evidence ls p n = ln (p * Rlist_sum (map exp ls) / n).
Proof. exact evidence_is_log_mean. Qed.
Print Assumptions C10_evidence_is_log_mean_likelihood.

Theorem C10_evidence_shifts_with_likelihoods : forall ls p n c, ls <> [] -> 0 < p -> 0 < n ->
  ln_evidence (map (fun l => l + c) ls) p n = ln_evidence ls p n + c.
Proof. exact evidence_shift. Qed.
Print Assumptions C10_evidence_shifts_with_likelihoods.

Theorem C10_evidence_order_independent : forall ls ls' p n, ls <> [] -> 0 < p -> 0 < n ->
  Permutation ls ls' -> ln_evidence ls p n = ln_evidence ls' p n.
Proof. exact evidence_perm. Qed.
Print Assumptions C10_evidence_order_independent.

Theorem C10_evidence_exponents_bounded : forall ls p l, In l ls -> l + ln p - Rlist_max ls <= ln p.
Proof. exact evidence_safe. Qed.
Print Assumptions C10_evidence_exponents_bounded.

Theorem C10_model_probabilities_2 : forall a b c,
  (let '(p, q) := model_probs_2 a b in p + q = 1 /\ 0 < p /\ 0 < q) /\
  (let '(p, q) := model_probs_2 a b in p / q = exp (a - b)) /\
  model_probs_2 (a + c) (b + c) = model_probs_2 a b.
Proof. intros. split; [exact (mp2_sum a b)|]. split; [exact (mp2_ratio a b)|exact (mp2_shift a b c)]. Qed.
Print Assumptions C10_model_probabilities_2.

Theorem C10_model_probabilities_3 : forall a b c k,
  (let '(p, q, r) := model_probs_3 a b c in p + q + r = 1 /\ 0 < p /\ 0 < q /\ 0 < r) /\
  (let '(p, q, r) := model_probs_3 a b c in p / q = exp (a - b) /\ q / r = exp (b - c)) /\
  model_probs_3 (a + k) (b + k) (c + k) = model_probs_3 a b c.
Proof. intros. split; [exact (mp3_sum a b c)|]. split; [exact (mp3_ratio a b c)|exact (mp3_shift a b c k)]. Qed.
Print Assumptions C10_model_probabilities_3.

Theorem C10_model_probabilities_4 : forall a b c d,
  (let '(p, q, r, s) := model_probs_4 a b c d in p + q + r + s = 1 /\ 0 < p /\ 0 < q /\ 0 < r /\ 0 < s) /\
  (let '(p, q, r, s) := model_probs_4 a b c d in p / q = exp (a - b) /\ q / r = exp (b - c) /\ r / s = exp (c - d)).
Proof. intros. split; [exact (mp4_sum a b c d)|exact (mp4_ratio a b c d)]. Qed.
Print Assumptions C10_model_probabilities_4.

Theorem C10_model_probabilities_5 : forall a b c d e,
  (let '(p, q, r, s, t) := model_probs_5 a b c d e in
     p + q + r + s + t = 1 /\ 0 < p /\ 0 < q /\ 0 < r /\ 0 < s /\ 0 < t) /\
  (let '(p, q, r, s, t) := model_probs_5 a b c d e in
     p / q = exp (a - b) /\ q / r = exp (b - c) /\ r / s = exp (c - d) /\ s / t = exp (d - e)).
Proof. intros. split; [exact (mp5_sum a b c d e)|exact (mp5_ratio a b c d e)]. Qed.
Print Assumptions C10_model_probabilities_5.

Theorem C10_dkl_is_lnN_minus_entropy : forall ls V N, ls <> [] -> 0 < V -> 0 < N ->
  dkl_est ls V N = ln N + Rlist_sum (map (fun l => weight ls l * ln (weight ls l)) ls)
  /\ Rlist_sum (map (weight ls) ls) = 1.
Proof. intros. split; [exact (dkl_est_formula ls V N H H0 H1)|exact (weights_sum_one ls H)]. Qed.
Print Assumptions C10_dkl_is_lnN_minus_entropy.

Theorem C10_dkl_bounds : forall ls V N, ls <> [] -> 0 < V -> INR (length ls) <= N ->
  0 <= dkl_est ls V N <= ln N.
Proof.
  intros ls V N Hne HV HN. split; [exact (dkl_est_lower ls V N Hne HV HN)|].
  apply dkl_est_upper; [exact Hne|exact HV|].
  assert (0 < INR (length ls)); [|lra].
  destruct ls; [contradiction|]. apply lt_0_INR. simpl. apply Nat.lt_0_succ.
Qed.
Print Assumptions C10_dkl_bounds.

(* the divergence between two sampled PDFs (spec level, see Proofs/C10_gibbs.v: a theorem about the definition
   sum p ln(p/q) dV with both PDFs normalised, not about regenerated code -- dkl(p, q) walks two arrays element by element,
   which the translator does not handle; the implementation is compared with this definition at 40 digits by the check):
   non-negative for all finite log-values and dV > 0, zero for identical inputs *)
Theorem C10_two_pdf_divergence_nonnegative : forall pq dV, pq <> [] -> 0 < dV -> 0 <= dkl_def pq dV.
Proof. exact dkl_def_nonneg. Qed.
Print Assumptions C10_two_pdf_divergence_nonnegative.

Theorem C10_two_pdf_divergence_zero_for_identical : forall ls dV, dkl_def (map (fun x => (x, x)) ls) dV = 0.
Proof. exact dkl_def_identical. Qed.
Print Assumptions C10_two_pdf_divergence_zero_for_identical.
