(* C18 -- Reading and binning location-uncertainty samples conserves probability mass.
   Property theorems only: each is closed by [exact] of a lemma from Proofs/, followed by Print Assumptions.
   Model/Scatangle.v is hand-written and tied to MTfit/extensions/scatangle.py by the correspondence run. *)
From Coq Require Import ZArith List.
From MTV.Model Require Import Scatangle.
From MTV.Proofs Require Import C18_scatangle.
Import ListNotations.
Open Scope Z_scope.

(* the weights of the bins add up to the weights of all input samples, for every sample list and bin size *)
Theorem C18_binning_conserves_weight : forall b l, total (bin_samples b l) = total l.
Proof. exact binning_conserves_weight. Qed.
Print Assumptions C18_binning_conserves_weight.

(* one original record per bin; every sample is kept or merged into a kept sample all of whose station angles are
   within half the bin size of it *)
Theorem C18_binning_merges_only_close : forall b l, b <> 0 ->
  (forall r, In r (recs (bin_samples b l)) -> In r (recs l)) /\
  (forall s, In s (recs l) -> exists r, In r (recs (bin_samples b l)) /\ (r = s \/ close b r s = true)).
Proof. exact binning_merges_only_close. Qed.
Print Assumptions C18_binning_merges_only_close.

(* no two retained samples could have been merged: a later retained sample is not close to any earlier one *)
Theorem C18_kept_samples_apart : forall b l, b <> 0 -> apart b (recs (bin_samples b l)).
Proof. exact kept_samples_apart. Qed.
Print Assumptions C18_kept_samples_apart.

Theorem C18_zero_bin_merges_nothing : forall l, bin_samples 0 l = l.
Proof. exact zero_bin_merges_nothing. Qed.
Print Assumptions C18_zero_bin_merges_nothing.

(* writing records and reading them again returns the same records (non-empty blocks, non-zero weights), with or
   without the trailing blank line *)
Theorem C18_parse_inverts_write : forall rs, well_formed rs -> parse (write rs) = rs.
Proof. exact parse_inverts_write. Qed.
Print Assumptions C18_parse_inverts_write.

Theorem C18_parse_without_trailing_blank : forall rs r w, well_formed (rs ++ [(r, w)]) ->
  parse (write rs ++ Weight w :: map Sta r) = rs ++ [(r, w)].
Proof. exact parse_without_trailing_blank. Qed.
Print Assumptions C18_parse_without_trailing_blank.

Example C18_nonvacuous :
  bin_samples 20 [([(1, 100, 200)], 3); ([(1, 105, 203)], 4); ([(1, 300, 200)], 5)] = [([(1, 100, 200)], 7); ([(1, 300, 200)], 5)]
  /\ well_formed [([(1, 100, 200)], 3)].
Proof. split; [reflexivity|]. intros r w [E|[]]. inversion E. split; discriminate. Qed.
