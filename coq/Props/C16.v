(* C16 -- The worker pool returns every submitted task result exactly once.
   Property theorems only: each is closed by [exact] of a lemma from Proofs/, followed by Print Assumptions.
   Model/Pool.v is hand-written and tied to MTfit/utilities/multiprocessing_helper.py by the correspondence run
   (real worker processes; the observed arrival order is replayed through the model inside Coq). *)
From Coq Require Import ZArith List.
From MTV.Model Require Import Pool.
From MTV.Proofs Require Import C16_pool.
Import ListNotations.
Open Scope Z_scope.

(* every interleaving of submissions, worker starts/finishes and result pops keeps every task accounted for exactly
   once (queued, running, waiting in the result queue, delivered, or skipped as a status code), and number_jobs equal
   to the number of outstanding tasks *)
Theorem C16_every_schedule_accounts_each_task_once : forall ops, Inv (run ops).
Proof. exact every_schedule_accounts_each_task_once. Qed.
Print Assumptions C16_every_schedule_accounts_each_task_once.

Theorem C16_quiescent_exactly_once : forall ops, let s := run ops in
  queue s = [] -> running s = [] -> results s = [] ->
  jobs s = 0 /\ (forall o, is_code o = false -> cnt o (delivered s) = cnt o (submitted s)) /\
  (forall o, In o (delivered s) -> is_code o = false).
Proof. exact quiescent_exactly_once. Qed.
Print Assumptions C16_quiescent_exactly_once.

(* collecting all results: for every order in which the outstanding results arrive it terminates and returns
   precisely those that are not status codes (an exception is a result like any other) *)
Theorem C16_all_results_returns_outstanding : forall arr, all_results arr = Done (filter noncode arr).
Proof. exact all_results_returns_outstanding. Qed.
Print Assumptions C16_all_results_returns_outstanding.

Theorem C16_result_never_blocks_while_outstanding : forall arr, arr <> [] -> result_fn arr (Z.of_nat (length arr)) <> None.
Proof. exact result_never_blocks. Qed.
Print Assumptions C16_result_never_blocks_while_outstanding.

(* the collection loop as it was before the repair (recorded in known_findings.txt): refuted by a one-task history *)
Theorem C16_unrepaired_collection_refuted : exists arr, all_results_old arr = Blocked [].
Proof. exact all_results_old_refuted. Qed.
Print Assumptions C16_unrepaired_collection_refuted.

Example C16_nonvacuous :
  all_results [Val 3; Code 10; Exc 7; Code 20] = Done [Val 3; Exc 7] /\
  delivered (run [Submit (Val 1); Submit (Code 10); Start; Start; Finish 1; Finish 0; Pop; Pop]) = [Val 1].
Proof. split; reflexivity. Qed.
