(* C03: the amplitude-ratio likelihood translated from ratio_pdf / amplitude_ratio_ln_pdf is the
   density of |X/Y| for independent Gaussians X ~ N(mu_x, s_x), Y ~ N(mu_y, s_y). *)
From Coq Require Import Reals Lra Psatz.
From Coquelicot Require Import Coquelicot.
From MTV.Lib Require Import Base Rlist State.
From MTV.Gen Require Import Ratio.
Open Scope R_scope.

(* the coefficients the code computes (Hinkley 1969), as functions *)
Definition cf_a2 (z sx sy : R) : R := z * z / (sx * sx) + 1 / (sy * sy).
Definition cf_b (z mx my sx sy : R) : R := mx * z / (sx * sx) + my / (sy * sy).
Definition cf_c (mx my sx sy : R) : R := mx * mx / (sx * sx) + my * my / (sy * sy).

Lemma cf_a2_pos z sx sy : sx <> 0 -> sy <> 0 -> 0 < cf_a2 z sx sy.
Proof.
  intros Hx Hy. unfold cf_a2.
  assert (0 < sx * sx) by nra. assert (0 < sy * sy) by nra.
  assert (0 <= z * z / (sx * sx)) by (apply Rmult_le_pos; [nra|left; apply Rinv_0_lt_compat; assumption]).
  assert (0 < 1 / (sy * sy)) by (apply Rdiv_lt_0_compat; lra).
  lra.
Qed.

(* the joint exponent of N(z y; mu_x, s_x) N(y; mu_y, s_y) is the code's quadratic in y *)
Lemma complete_square z mx my sx sy y : sx <> 0 -> sy <> 0 ->
  (z * y - mx) * (z * y - mx) / (sx * sx) + (y - my) * (y - my) / (sy * sy)
  = cf_a2 z sx sy * (y * y) - 2 * cf_b z mx my sx sy * y + cf_c mx my sx sy.
Proof. intros Hx Hy. unfold cf_a2, cf_b, cf_c. field. split; assumption. Qed.

(* Cauchy-Schwarz: the exponent of the code's d is never positive, so exp cannot overflow *)
Lemma exponent_nonpos z mx my sx sy : sx <> 0 -> sy <> 0 ->
  cf_b z mx my sx sy * cf_b z mx my sx sy - cf_c mx my sx sy * cf_a2 z sx sy <= 0.
Proof.
  intros Hx Hy. unfold cf_a2, cf_b, cf_c.
  set (u1 := mx / sx). set (u2 := my / sy). set (v1 := z / sx). set (v2 := 1 / sy).
  replace (mx * z / (sx * sx)) with (u1 * v1) by (unfold u1, v1; field; assumption).
  replace (my / (sy * sy)) with (u2 * v2) by (unfold u2, v2; field; assumption).
  replace (mx * mx / (sx * sx)) with (u1 * u1) by (unfold u1; field; assumption).
  replace (my * my / (sy * sy)) with (u2 * u2) by (unfold u2; field; assumption).
  replace (z * z / (sx * sx)) with (v1 * v1) by (unfold v1; field; assumption).
  replace (1 / (sy * sy)) with (v2 * v2) by (unfold v2; field; assumption).
  pose proof (Rle_0_sqr (u1 * v2 - u2 * v1)) as H. unfold Rsqr in H. nra.
Qed.

(* the translated function in terms of those coefficients *)
Lemma ratio_pdf_unfold Phi z mx my sx sy :
  let a := sqrt (cf_a2 z sx sy) in
  let b := cf_b z mx my sx sy in
  let c := cf_c mx my sx sy in
  ratio_pdf Phi z mx my sx sy =
  b * exp ((b * b - c * (a * a)) / (2 * (a * a))) / (sqrt (2 * PI) * (sx * sy * (a * (a * a)))) *
    (Phi (b / (sqrt 1 * a)) - Phi (- b / (sqrt 1 * a)))
  + sqrt 1 / (PI * (sx * sy * (a * a))) * exp (- c / 2).
Proof.
  unfold ratio_pdf, cf_a2, cf_b, cf_c. cbv zeta.
  replace (mx * z / (sx * sx) - 0 * (sx * sx / (sx * sy)) + my / (sy * sy)) with (mx * z / (sx * sx) + my / (sy * sy)) by ring.
  reflexivity.
Qed.

Section PhiFacts.
Variable Phi : R -> R.
Hypothesis Phi_mono : forall s t, s <= t -> Phi s <= Phi t.

(* non-negative for positive standard deviations *)
Lemma ratio_pdf_nonneg z mx my sx sy : 0 < sx -> 0 < sy -> 0 <= ratio_pdf Phi z mx my sx sy.
Proof.
  intros Hx Hy. rewrite ratio_pdf_unfold. cbv zeta. rewrite sqrt_1, !Rmult_1_l.
  pose proof (cf_a2_pos z sx sy ltac:(lra) ltac:(lra)) as Ha2.
  set (a := sqrt (cf_a2 z sx sy)). set (b := cf_b z mx my sx sy). set (c := cf_c mx my sx sy).
  assert (Ha : 0 < a) by (apply sqrt_lt_R0; exact Ha2).
  assert (Hs : 0 < sqrt (2 * PI)) by (apply sqrt_lt_R0, Rmult_lt_0_compat; [lra|apply PI_RGT_0]).
  pose proof PI_RGT_0 as Hpi.
  assert (Hden1 : 0 < sqrt (2 * PI) * (sx * sy * (a * (a * a)))) by (repeat apply Rmult_lt_0_compat; lra).
  assert (Hden2 : 0 < PI * (sx * sy * (a * a))) by (apply Rmult_lt_0_compat; [lra|repeat apply Rmult_lt_0_compat; lra]).
  assert (He : 0 < exp ((b * b - c * (a * a)) / (2 * (a * a)))) by apply exp_pos.
  assert (Hbp : 0 <= b * (Phi (b / a) - Phi (- b / a))).
  { destruct (Rle_lt_dec 0 b) as [Hb|Hb].
    - apply Rmult_le_pos; [exact Hb|].
      assert (- b / a <= b / a).
      { unfold Rdiv. apply Rmult_le_compat_r; [left; apply Rinv_0_lt_compat; exact Ha|lra]. }
      pose proof (Phi_mono _ _ H). lra.
    - assert (b / a <= - b / a).
      { unfold Rdiv. apply Rmult_le_compat_r; [left; apply Rinv_0_lt_compat; exact Ha|lra]. }
      pose proof (Phi_mono _ _ H). nra. }
  assert (T1 : 0 <= b * exp ((b * b - c * (a * a)) / (2 * (a * a))) / (sqrt (2 * PI) * (sx * sy * (a * (a * a)))) * (Phi (b / a) - Phi (- b / a))).
  { replace (b * exp ((b * b - c * (a * a)) / (2 * (a * a))) / (sqrt (2 * PI) * (sx * sy * (a * (a * a)))) * (Phi (b / a) - Phi (- b / a)))
      with (b * (Phi (b / a) - Phi (- b / a)) * (exp ((b * b - c * (a * a)) / (2 * (a * a))) / (sqrt (2 * PI) * (sx * sy * (a * (a * a))))))
      by (field; repeat split; lra).
    apply Rmult_le_pos; [exact Hbp|]. left. apply Rdiv_lt_0_compat; assumption. }
  assert (T2 : 0 < 1 / (PI * (sx * sy * (a * a))) * exp (- c / 2)).
  { apply Rmult_lt_0_compat; [apply Rdiv_lt_0_compat; [lra|exact Hden2]|apply exp_pos]. }
  lra.
Qed.

(* the likelihood of the observed ratio: both signs of the quotient, absolute modelled amplitudes *)
Lemma ar_p_unfold r mx my px py :
  ar_p Phi r mx my px py =
  let px' := Rabs (if Req_EM_T px 0 then 1 / 10 ^ 24 else px) in
  let py' := Rabs (if Req_EM_T py 0 then 1 / 10 ^ 24 else py) in
  ratio_pdf Phi r (Rabs mx) (Rabs my) (px' * Rabs mx) (py' * Rabs my)
  + ratio_pdf Phi (- r) (Rabs mx) (Rabs my) (px' * Rabs mx) (py' * Rabs my).
Proof. reflexivity. Qed.

(* depends on the modelled amplitudes only through their magnitudes *)
Lemma ar_p_abs_only r mx my px py :
  ar_p Phi r (- mx) my px py = ar_p Phi r mx my px py /\
  ar_p Phi r mx (- my) px py = ar_p Phi r mx my px py /\
  ar_p Phi r (Rabs mx) (Rabs my) px py = ar_p Phi r mx my px py.
Proof. rewrite !ar_p_unfold. cbv zeta. rewrite !Rabs_Ropp, !Rabs_Rabsolu. repeat split; reflexivity. Qed.

Lemma small_frac_pos p : 0 < Rabs (if Req_EM_T p 0 then 1 / 10 ^ 24 else p).
Proof.
  apply Rabs_pos_lt. destruct (Req_EM_T p 0); [|assumption].
  apply Rgt_not_eq. apply Rdiv_lt_0_compat; [lra|apply pow_lt; lra].
Qed.

Lemma ar_p_nonneg r mx my px py : mx <> 0 -> my <> 0 -> 0 <= ar_p Phi r mx my px py.
Proof.
  intros Hx Hy. rewrite ar_p_unfold. cbv zeta.
  pose proof (small_frac_pos px). pose proof (small_frac_pos py).
  assert (0 < Rabs mx) by (apply Rabs_pos_lt; exact Hx). assert (0 < Rabs my) by (apply Rabs_pos_lt; exact Hy).
  assert (A : forall z, 0 <= ratio_pdf Phi z (Rabs mx) (Rabs my)
       (Rabs (if Req_EM_T px 0 then 1 / 10 ^ 24 else px) * Rabs mx) (Rabs (if Req_EM_T py 0 then 1 / 10 ^ 24 else py) * Rabs my)).
  { intros z. apply ratio_pdf_nonneg; apply Rmult_lt_0_compat; assumption. }
  pose proof (A r). pose proof (A (- r)). lra.
Qed.
End PhiFacts.

(* ---- the defining integral ------------------------------------------------------------------------ *)
(* integrand of the density of X/Y at z:  |y| N(z y; mu_x, s_x) N(y; mu_y, s_y) *)
Definition gauss (x mu s : R) : R := exp (- ((x - mu) * (x - mu) / (s * s) / 2)) / (s * sqrt (2 * PI)).
Definition integrand (z mx my sx sy y : R) : R := Rabs y * gauss (z * y) mx sx * gauss y my sy.

Section Integral.
Variable Phi : R -> R.
Hypothesis Phi_derive : forall t, is_derive Phi t (exp (- (t * t / 2)) / sqrt (2 * PI)).
Hypothesis Phi_sym : forall t, Phi (- t) = 1 - Phi t.
Variables z mx my sx sy : R.
Hypothesis Hsx : 0 < sx.
Hypothesis Hsy : 0 < sy.

Let a2 := cf_a2 z sx sy.
Let a := sqrt a2.
Let b := cf_b z mx my sx sy.
Let c := cf_c mx my sx sy.
Let K := 1 / (2 * PI * sx * sy).
Let d := exp ((b * b - c * (a * a)) / (2 * (a * a))).

Lemma a2_pos : 0 < a2. Proof. apply cf_a2_pos; lra. Qed.
Lemma a_pos : 0 < a. Proof. apply sqrt_lt_R0, a2_pos. Qed.
Lemma a_sq : a * a = a2. Proof. apply sqrt_sqrt. left. apply a2_pos. Qed.

(* g y = exp(-(a^2 y^2 - 2 b y + c)/2): the joint Gaussian factor without its constant *)
Definition g (y : R) : R := exp (- ((a * a) * (y * y) - 2 * b * y + c) / 2).

Lemma integrand_is_K_absy_g y : integrand z mx my sx sy y = K * (Rabs y * g y).
Proof.
  unfold integrand, gauss, g, K.
  assert (Hs : 0 < sqrt (2 * PI)) by (apply sqrt_lt_R0, Rmult_lt_0_compat; [lra|apply PI_RGT_0]).
  assert (Hss : sqrt (2 * PI) * sqrt (2 * PI) = 2 * PI) by (apply sqrt_sqrt; pose proof PI_RGT_0; lra).
  rewrite a_sq. unfold a2.
  replace (- (cf_a2 z sx sy * (y * y) - 2 * b * y + c) / 2)
    with (- ((z * y - mx) * (z * y - mx) / (sx * sx) / 2) + - ((y - my) * (y - my) / (sy * sy) / 2)).
  2:{ unfold b, c. pose proof (complete_square z mx my sx sy y ltac:(lra) ltac:(lra)) as E. lra. }
  rewrite exp_plus. pose proof PI_RGT_0.
  replace (1 / (2 * PI * sx * sy)) with (1 / (sqrt (2 * PI) * sqrt (2 * PI) * sx * sy)) by (rewrite Hss; reflexivity).
  field. repeat split; lra.
Qed.

(* antiderivative of y g(y) *)
Definition G (y : R) : R := - (1 / (a * a)) * g y + b * d * sqrt (2 * PI) / (a * (a * a)) * Phi (a * y - b / a).

Lemma G_derive (y : R) : is_derive G y (y * g y).
Proof.
  pose proof a_pos as Ha.
  assert (Hs : 0 < sqrt (2 * PI)) by (apply sqrt_lt_R0, Rmult_lt_0_compat; [lra|apply PI_RGT_0]).
  unfold G.
  apply (is_derive_ext (fun y => plus (scal (- (1 / (a * a))) (g y)) (scal (b * d * sqrt (2 * PI) / (a * (a * a))) (Phi (a * y - b / a))))).
  { intros t. unfold plus, scal; simpl; unfold mult; simpl. reflexivity. }
  evar_last.
  - apply @is_derive_plus.
    + apply @is_derive_scal. unfold g. auto_derive; [exact I|reflexivity].
    + apply @is_derive_scal. apply (is_derive_comp Phi (fun t => a * t - b / a)).
      * apply Phi_derive.
      * auto_derive; [exact I|reflexivity].
  - unfold plus, scal; simpl; unfold mult; simpl. unfold g, d.
    replace (exp (- ((a * y - b / a) * (a * y - b / a) / 2)))
      with (exp (- (a * a * (y * y) - 2 * b * y + c) / 2) * / exp ((b * b - c * (a * a)) / (2 * (a * a)))).
    2:{ rewrite <- exp_Ropp, <- exp_plus. f_equal. clear d K. clearbody a b c. field. lra. }
    pose proof (exp_pos ((b * b - c * (a * a)) / (2 * (a * a)))).
    replace (- (a * a * (y * y) + - (2 * b * y) + c) * / 2) with (- (a * a * (y * y) - 2 * b * y + c) / 2) by (unfold Rdiv, Rminus; ring).
    field. repeat split; lra.
Qed.

Lemma yg_continuous (y : R) : continuous (fun t => t * g t) y.
Proof.
  apply (ex_derive_continuous (fun t => t * g t)). unfold g. auto_derive. exact I.
Qed.

(* the finite window: int_{-Y}^{Y} |y| g(y) dy in closed form *)
Lemma window_pos Y : 0 <= Y -> is_RInt (fun y => Rabs y * g y) 0 Y (G Y - G 0).
Proof.
  intros HY.
  apply (is_RInt_ext (fun y => y * g y)).
  - intros y Hy. rewrite Rmin_left, Rmax_right in Hy by lra. rewrite Rabs_pos_eq by lra. reflexivity.
  - apply (is_RInt_derive G (fun y => y * g y)).
    + intros y _. apply G_derive.
    + intros y _. apply yg_continuous.
Qed.

Lemma window_neg Y : 0 <= Y -> is_RInt (fun y => Rabs y * g y) (- Y) 0 (- (G 0 - G (- Y))).
Proof.
  intros HY.
  apply (is_RInt_ext (fun y => opp (y * g y))).
  - intros y Hy. rewrite Rmin_left, Rmax_right in Hy by lra. rewrite Rabs_left1 by lra. unfold opp; simpl. ring.
  - apply (is_RInt_opp (fun y => y * g y)).
    apply (is_RInt_derive G (fun y => y * g y)).
    + intros y _. apply G_derive.
    + intros y _. apply yg_continuous.
Qed.

Theorem window_integral Y : 0 <= Y ->
  is_RInt (integrand z mx my sx sy) (- Y) Y (K * ((G Y - G 0) - (G 0 - G (- Y)))).
Proof.
  intros HY.
  apply (is_RInt_ext (fun y => scal K (Rabs y * g y))).
  - intros y _. rewrite integrand_is_K_absy_g. reflexivity.
  - apply (is_RInt_scal (fun y => Rabs y * g y)).
    replace (G Y - G 0 - (G 0 - G (- Y))) with (plus (- (G 0 - G (- Y))) (G Y - G 0)) by (unfold plus; simpl; ring).
    apply (is_RInt_Chasles (fun y => Rabs y * g y) (- Y) 0 Y); [apply window_neg|apply window_pos]; exact HY.
Qed.

(* the closed form the code evaluates is the value of that window with the tail terms set to their
   limits (g -> 0, Phi -> 1 at +infinity, Phi -> 0 at -infinity); the remainder is explicit *)
Theorem closed_form_is_window_plus_tail Y :
  ratio_pdf Phi z mx my sx sy =
  K * ((G Y - G 0) - (G 0 - G (- Y)))
  + K * ((1 / (a * a)) * (g Y + g (- Y))
         + b * d * sqrt (2 * PI) / (a * (a * a)) * ((1 - Phi (a * Y - b / a)) - Phi (a * (- Y) - b / a))).
Proof.
  pose proof a_pos as Ha.
  assert (Hs : 0 < sqrt (2 * PI)) by (apply sqrt_lt_R0, Rmult_lt_0_compat; [lra|apply PI_RGT_0]).
  assert (Hss : sqrt (2 * PI) * sqrt (2 * PI) = 2 * PI) by (apply sqrt_sqrt; pose proof PI_RGT_0; lra).
  pose proof PI_RGT_0 as Hpi.
  rewrite ratio_pdf_unfold. cbv zeta. fold a2. fold a. fold b. fold c. rewrite sqrt_1, !Rmult_1_l. fold d.
  unfold G, K.
  replace (g 0) with (exp (- c / 2)) by (unfold g; f_equal; field).
  replace (a * 0 - b / a) with (- b / a) by (field; lra).
  replace (Phi (b / a)) with (1 - Phi (- b / a)).
  2:{ rewrite <- Phi_sym. f_equal. field. lra. }
  set (s := sqrt (2 * PI)) in *.
  assert (HPI : PI = s * s / 2) by lra.
  rewrite HPI. clear HPI Hss Hpi. clearbody s.
  generalize (g Y) (g (- Y)) (Phi (a * Y - b / a)) (Phi (a * - Y - b / a)) (Phi (- b / a)) (exp (- c / 2)).
  intros gY gmY PY PmY Pb e0. clear K. clearbody d. clearbody a b c.
  field. repeat split; lra.
Qed.

End Integral.
