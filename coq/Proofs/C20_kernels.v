(* Source-level equivalence of Cython kernels and the pure-Python routines they replace: both sides are regenerated
   from the current sources (Gen/Kernels.v from cmoment_tensor_conversion.pyx, Gen/Convert.v from
   moment_tensor_conversion.py) and proved equal over the reals. *)
From Coq Require Import Reals Lra Sumbool.
From MTV.Lib Require Import Base Trig Redraw.
From MTV.Gen Require Import Convert Kernels.
From MTV.Proofs Require Import Conv_lune Conv_hudson Conv_planes.
Open Scope R_scope.

(* ---- Hudson u, v: identical branch structure (slot 5 carries k then u, slot 6 carries tau then v) *)
Theorem ctk_uv_equiv tau k : ctk_uv k tau = tk_uv tau k.
Proof.
  unfold ctk_uv, tk_uv. cbv zeta.
  repeat match goal with
  | |- context [sumbool_and _ _ _ _ ?p ?q] => destruct (sumbool_and _ _ _ _ p q) as [[? ?]|[?|?]]
  | |- context [Rlt_dec ?a ?b] => destruct (Rlt_dec a b)
  end; try reflexivity; try lra.
Qed.

(* ---- Hudson tau, k: the compiled kernel expects eigenvalues sorted from largest to smallest (as its caller provides) *)
Theorem cE_tk_equiv a b c : c <= b <= a -> cE_tk a b c = (snd (E_tk a b c), fst (E_tk a b c)).
Proof.
  intros H. rewrite hud_sorted by exact H. unfold cE_tk, hud. cbv zeta. cbn [fst snd].
  replace ((a + c + b) / 3) with ((a + b + c) / 3) by field.
  repeat match goal with
  | |- context [Rlt_dec ?x ?y] => destruct (Rlt_dec x y)
  end; try reflexivity; try lra.
Qed.

(* ---- lune coordinates: the compiled kernel has no clip and tests E0 = E2 on sorted eigenvalues *)
Theorem cE_gd_equiv a b c : c <= b <= a -> 0 < a * a + b * b + c * c -> cE_gd a b c = E_GD a b c.
Proof.
  intros Hs Hq. rewrite E_GD_char.
  assert (Hx : mx a b c = a) by (unfold mx; rewrite (Rmax_left a b) by lra; rewrite Rmax_left by lra; reflexivity).
  assert (Hn : mn a b c = c) by (unfold mn; rewrite (Rmin_right a b) by lra; rewrite Rmin_right by lra; reflexivity).
  assert (Hm : md a b c = b) by (unfold md; rewrite Hx, Hn; ring).
  rewrite Hx, Hn, Hm. unfold cE_gd. cbv zeta.
  iso_cases a b c Hni.
  - subst. destruct (Req_EM_T c c) as [_|N]; [|contradiction N; reflexivity].
    assert (c <> 0) by (intros Z; subst; lra).
    unfold sgn. destruct (Rlt_dec 0 c); [f_equal; lra|]. destruct (Rlt_dec c 0); [f_equal; lra|]. lra.
  - destruct (Req_EM_T a c) as [E|_]; [exfalso; destruct Hni; lra|].
    unfold lune. f_equal. f_equal. f_equal.
    rewrite clip1_id by (apply ratio_bound; exact Hq). reflexivity.
Qed.

(* ---- strike, dip, rake of a unit normal / slip pair whose normal already points upwards (z <= 0): the C kernel
   (atan2, conditional +2pi) and the Python routine (numpy.mod) agree *)
Theorem cN_SDR_equiv n0 n1 n2 u0 u1 u2 :
  n0 * n0 + n1 * n1 + n2 * n2 = 1 -> u0 * u0 + u1 * u1 + u2 * u2 = 1 -> n2 <= 0 ->
  cN_SDR n0 n1 n2 u0 u1 u2 = FP_SDR n0 n1 n2 u0 u1 u2.
Proof.
  intros Hn Hu Hz. rewrite FP_SDR_unit by assumption. unfold cN_SDR, sdr_of. cbv zeta.
  destruct (Rlt_dec 0 n2) as [F|_]; [lra|].
  pose proof (dip_quadrant n1 n0 ((n0 * n2) ^ 2 + (n1 * n2) ^ 2)) as Hdip.
  pose proof (atan2_range (- u2) (u0 * n1 - u1 * n0)) as Hrake.
  pose proof (atan2_range (- n0) n1) as Hst.
  pose proof PI_RGT_0 as Hpi.
  set (S := atan2 (- n0) n1) in *.
  set (D := atan2 (n1 ^ 2 + n0 ^ 2) (sqrt ((n0 * n2) ^ 2 + (n1 * n2) ^ 2))) in *.
  set (K := atan2 (- u2) (u0 * n1 - u1 * n0)) in *.
  destruct (Rlt_dec (PI / 2) D) as [F|_]; [lra|].
  assert (HabsS : Rabs S <= PI) by (apply Rabs_le; lra).
  destruct (Rlt_dec (2 * PI) (Rabs S)) as [F|_]; [lra|].
  destruct (Rlt_dec PI K) as [F|_]; [lra|].
  destruct (Rlt_dec K (- PI)) as [F|_]; [lra|].
  f_equal. f_equal.
  destruct (Rlt_dec S 0) as [Neg|Pos].
  - rewrite rmod_neg by lra. reflexivity.
  - rewrite rmod_small by lra. reflexivity.
Qed.
