(* Source-level equivalence of Cython kernels and the pure-Python routines they replace: both sides are regenerated
   from the current sources (Gen/Kernels.v from cmoment_tensor_conversion.pyx, Gen/Convert.v from
   moment_tensor_conversion.py) and proved equal over the reals. *)
From Coq Require Import Reals Lra Sumbool Nsatz.
From MTV.Lib Require Import Base Trig Redraw Linalg.
From MTV.Gen Require Import Convert Kernels.
From MTV.Proofs Require Import Conv_lune Conv_hudson Conv_planes Conv_tensor.
Open Scope R_scope.

(* ---- Hudson u, v: identical branch structure (slot 5 carries k then u, slot 6 carries tau then v) *)
Theorem ctk_uv_equiv tau k : ctk_uv k tau = tk_uv tau k.
Proof.
  unfold ctk_uv, tk_uv. cbv zeta.
  repeat match goal with
  | |- context [sumbool_and _ _ _ _ ?p ?q] => destruct (sumbool_and _ _ _ _ p q) as [[? ?]|[?|?]]
  | |- context [Rlt_dec ?a ?b] => destruct (Rlt_dec a b)
  end; try reflexivity; try lra.
Qed.

(* ---- Hudson tau, k: the compiled kernel expects eigenvalues sorted from largest to smallest (as its caller provides) *)
Theorem cE_tk_equiv a b c : c <= b <= a -> cE_tk a b c = (snd (E_tk a b c), fst (E_tk a b c)).
Proof.
  intros H. rewrite hud_sorted by exact H. unfold cE_tk, hud. cbv zeta. cbn [fst snd].
  replace ((a + c + b) / 3) with ((a + b + c) / 3) by field.
  repeat match goal with
  | |- context [Rlt_dec ?x ?y] => destruct (Rlt_dec x y)
  end; try reflexivity; try lra.
Qed.

(* ---- lune coordinates: the compiled kernel has no clip and tests E0 = E2 on sorted eigenvalues *)
Theorem cE_gd_equiv a b c : c <= b <= a -> 0 < a * a + b * b + c * c -> cE_gd a b c = E_GD a b c.
Proof.
  intros Hs Hq. rewrite E_GD_char.
  assert (Hx : mx a b c = a) by (unfold mx; rewrite (Rmax_left a b) by lra; rewrite Rmax_left by lra; reflexivity).
  assert (Hn : mn a b c = c) by (unfold mn; rewrite (Rmin_right a b) by lra; rewrite Rmin_right by lra; reflexivity).
  assert (Hm : md a b c = b) by (unfold md; rewrite Hx, Hn; ring).
  rewrite Hx, Hn, Hm. unfold cE_gd. cbv zeta.
  iso_cases a b c Hni.
  - subst. destruct (Req_EM_T c c) as [_|N]; [|contradiction N; reflexivity].
    assert (c <> 0) by (intros Z; subst; lra).
    unfold sgn. destruct (Rlt_dec 0 c); [f_equal; lra|]. destruct (Rlt_dec c 0); [f_equal; lra|]. lra.
  - destruct (Req_EM_T a c) as [E|_]; [exfalso; destruct Hni; lra|].
    unfold lune. f_equal. f_equal. f_equal.
    rewrite clip1_id by (apply ratio_bound; exact Hq). reflexivity.
Qed.

(* ---- strike, dip, rake of a unit normal / slip pair whose normal already points upwards (z <= 0): the C kernel
   (atan2, conditional +2pi) and the Python routine (numpy.mod) agree *)
Theorem cN_SDR_equiv n0 n1 n2 u0 u1 u2 :
  n0 * n0 + n1 * n1 + n2 * n2 = 1 -> u0 * u0 + u1 * u1 + u2 * u2 = 1 -> n2 <= 0 ->
  cN_SDR n0 n1 n2 u0 u1 u2 = FP_SDR n0 n1 n2 u0 u1 u2.
Proof.
  intros Hn Hu Hz. rewrite FP_SDR_unit by assumption. unfold cN_SDR, sdr_of. cbv zeta.
  destruct (Rlt_dec 0 n2) as [F|_]; [lra|].
  pose proof (dip_quadrant n1 n0 ((n0 * n2) ^ 2 + (n1 * n2) ^ 2)) as Hdip.
  pose proof (atan2_range (- u2) (u0 * n1 - u1 * n0)) as Hrake.
  pose proof (atan2_range (- n0) n1) as Hst.
  pose proof PI_RGT_0 as Hpi.
  set (S := atan2 (- n0) n1) in *.
  set (D := atan2 (n1 ^ 2 + n0 ^ 2) (sqrt ((n0 * n2) ^ 2 + (n1 * n2) ^ 2))) in *.
  set (K := atan2 (- u2) (u0 * n1 - u1 * n0)) in *.
  destruct (Rlt_dec (PI / 2) D) as [F|_]; [lra|].
  assert (HabsS : Rabs S <= PI) by (apply Rabs_le; lra).
  destruct (Rlt_dec (2 * PI) (Rabs S)) as [F|_]; [lra|].
  destruct (Rlt_dec PI K) as [F|_]; [lra|].
  destruct (Rlt_dec K (- PI)) as [F|_]; [lra|].
  f_equal. f_equal.
  destruct (Rlt_dec S 0) as [Neg|Pos].
  - rewrite rmod_neg by lra. reflexivity.
  - rewrite rmod_small by lra. reflexivity.
Qed.

(* ---- Tape parameters -> six-vector: the C kernel (explicit axes, sqrt(1-h^2), no final normalisation) and the Python
   routine (GD_E, SDR_TNP with dip = acos h, L D L^t, MT33_MT6) *)
Lemma Tape_MT6_closed g d k h s :
  Tape_MT6 g d k h s =
  (let '(m00, m01, m02, m10, m11, m12, m20, m21, m22) := rebuild (GD_E g d) (SDR_TNP k (acos h) s) in
   (m00, m11, m22, sqrt 2 * m01, sqrt 2 * m02, sqrt 2 * m12)).
Proof.
  rewrite Tape_MT6_struct. pose proof (Tape_MT33_symmetric_unit g d k h s) as H.
  rewrite Tape_MT33_struct in *.
  destruct (rebuild (GD_E g d) (SDR_TNP k (acos h) s)) as [[[[[[[[m00 m01] m02] m10] m11] m12] m20] m21] m22].
  destruct H as (_ & _ & _ & HF).
  unfold MT33_MT6. cbv zeta. pose proof sqrt2_sq as S.
  match goal with |- context [sqrt ?e] =>
    lazymatch e with 2 => fail | _ => replace e with 1 by (rewrite <- HF; nra) end end.
  rewrite sqrt_1. unfold Rdiv. rewrite Rinv_1, !Rmult_1_r. reflexivity.
Qed.

Definition cform (L1 L2 L3 T1 T2 T3 N1 N2 N3 P1 P2 P3 : R) : R * R * R * R * R * R :=
  (L1 * T1 * T1 + L2 * N1 * N1 + L3 * P1 * P1, L1 * T2 * T2 + L2 * N2 * N2 + L3 * P2 * P2,
   L1 * T3 * T3 + L2 * N3 * N3 + L3 * P3 * P3, sqrt 2 * (L1 * T1 * T2 + L2 * N1 * N2 + L3 * P1 * P2),
   sqrt 2 * (L1 * T1 * T3 + L2 * N1 * N3 + L3 * P1 * P3), sqrt 2 * (L1 * T2 * T3 + L2 * N2 * N3 + L3 * P2 * P3)).

Lemma rebuild_cform e0 e1 e2 t0 t1 t2 b0 b1 b2 p0 p1 p2 :
  (let '(m00, m01, m02, m10, m11, m12, m20, m21, m22) := rebuild (e0, e1, e2) (t0, t1, t2, b0, b1, b2, p0, p1, p2) in
   (m00, m11, m22, sqrt 2 * m01, sqrt 2 * m02, sqrt 2 * m12)) = cform e0 e1 e2 t0 t1 t2 (- b0) (- b1) (- b2) p0 p1 p2.
Proof. unfold rebuild, cform. repeat match goal with |- (_, _) = (_, _) => apply f_equal2 end; ring. Qed.

Lemma cTape_cform g d k h s :
  cTape_MT6 g d k h s =
  (let ck := cos k in let cs := cos s in let sk := sin k in let ss := sin s in let sh := sqrt (1 - h * h) in
   let NT := sqrt ((ck*cs+sk*h*ss-sk*sh)*(ck*cs+sk*h*ss-sk*sh)+(sk*cs-ck*h*ss+ck*sh)*(sk*cs-ck*h*ss+ck*sh)+(-sh*ss-h)*(-sh*ss-h)) in
   let NP := sqrt ((ck*cs+sk*h*ss+sk*sh)*(ck*cs+sk*h*ss+sk*sh)+(sk*cs-ck*h*ss-ck*sh)*(sk*cs-ck*h*ss-ck*sh)+(-sh*ss+h)*(-sh*ss+h)) in
   let T1 := (ck*cs+sk*h*ss-sk*sh)/NT in let T2 := (sk*cs-ck*h*ss+ck*sh)/NT in let T3 := (-sh*ss-h)/NT in
   let P1 := (ck*cs+sk*h*ss+sk*sh)/NP in let P2 := (sk*cs-ck*h*ss-ck*sh)/NP in let P3 := (-sh*ss+h)/NP in
   cform ((sqrt 3*cos g*cos d-sin g*cos d+sqrt 2*sin d)/sqrt 6) ((2*sin g*cos d+sqrt 2*sin d)/sqrt 6)
         ((-sqrt 3*cos g*cos d-sin g*cos d+sqrt 2*sin d)/sqrt 6)
         T1 T2 T3 (T2*P3-P2*T3) (-T1*P3+P1*T3) (T1*P2-T2*P1) P1 P2 P3).
Proof. reflexivity. Qed.

Theorem cTape_MT6_equiv g d k h s : -1 <= h <= 1 -> cTape_MT6 g d k h s = Tape_MT6 g d k h s.
Proof.
  intros Hh. rewrite cTape_cform, Tape_MT6_closed, SDR_TNP_closed_form.
  unfold GD_E, slipv, normv. cbv zeta.
  rewrite rebuild_cform.
  rewrite (cos_acos h Hh). rewrite (sin_acos h Hh). try unfold Rsqr.
  rewrite !sin_shift, !cos_shift.
  assert (Hsh : sqrt (1 - h * h) * sqrt (1 - h * h) = 1 - h * h) by (apply sqrt_sqrt; nra).
  set (sh := sqrt (1 - h * h)) in *. clearbody sh.
  pose proof (sin2_cos2 k) as Tk. pose proof (sin2_cos2 s) as Ts. unfold Rsqr in Tk, Ts.
  (* the two normalisations are sqrt 2 *)
  replace ((cos k * cos s + sin k * h * sin s - sin k * sh) * (cos k * cos s + sin k * h * sin s - sin k * sh) +
           (sin k * cos s - cos k * h * sin s + cos k * sh) * (sin k * cos s - cos k * h * sin s + cos k * sh) +
           (- sh * sin s - h) * (- sh * sin s - h)) with 2
    by (generalize dependent (cos k); generalize dependent (sin k); generalize dependent (cos s); generalize dependent (sin s); intros; nsatz).
  replace ((cos k * cos s + sin k * h * sin s + sin k * sh) * (cos k * cos s + sin k * h * sin s + sin k * sh) +
           (sin k * cos s - cos k * h * sin s - cos k * sh) * (sin k * cos s - cos k * h * sin s - cos k * sh) +
           (- sh * sin s + h) * (- sh * sin s + h)) with 2
    by (generalize dependent (cos k); generalize dependent (sin k); generalize dependent (cos s); generalize dependent (sin s); intros; nsatz).
  assert (P2 : 0 < sqrt 2) by exact sqrt2_pos.
  assert (P3 : 0 < sqrt 3) by (apply sqrt_lt_R0; lra).
  assert (P6 : 0 < sqrt 6) by (apply sqrt_lt_R0; lra).
  unfold cform.
  repeat match goal with |- (_, _) = (_, _) => apply f_equal2 end; field; lra.
Qed.
