(* Potency tensor (MT6c_D6 of Gen/Convert.v): the linear system that the code hands to the solver is the
   contraction M_ij = c_ijkl D_kl written in six-vector form, so a solution of it is the potency tensor. *)
From Coq Require Import Reals Lra Nsatz.
From MTV.Lib Require Import Base.
From MTV.Gen Require Import Convert.
Open Scope R_scope.

Section Stiffness.
  (* the 21 constants: upper triangle of the Voigt matrix, row by row *)
  Variables c0 c1 c2 c3 c4 c5 c6 c7 c8 c9 c10 c11 c12 c13 c14 c15 c16 c17 c18 c19 c20 : R.

  Definition V (I J : nat) : R :=
    match I, J with
    | 0, 0 => c0 | 0, 1 => c1 | 0, 2 => c2 | 0, 3 => c3 | 0, 4 => c4 | 0, 5 => c5
    | 1, 0 => c1 | 1, 1 => c6 | 1, 2 => c7 | 1, 3 => c8 | 1, 4 => c9 | 1, 5 => c10
    | 2, 0 => c2 | 2, 1 => c7 | 2, 2 => c11 | 2, 3 => c12 | 2, 4 => c13 | 2, 5 => c14
    | 3, 0 => c3 | 3, 1 => c8 | 3, 2 => c12 | 3, 3 => c15 | 3, 4 => c16 | 3, 5 => c17
    | 4, 0 => c4 | 4, 1 => c9 | 4, 2 => c13 | 4, 3 => c16 | 4, 4 => c18 | 4, 5 => c19
    | 5, 0 => c5 | 5, 1 => c10 | 5, 2 => c14 | 5, 3 => c17 | 5, 4 => c19 | 5, 5 => c20
    | _, _ => 0%R
    end%nat.

  (* Voigt index of a pair of cartesian indices: xx yy zz yz xz xy *)
  Definition vo (i j : nat) : nat :=
    match i, j with
    | 0, 0 => 0 | 1, 1 => 1 | 2, 2 => 2 | 1, 2 => 3 | 2, 1 => 3 | 0, 2 => 4 | 2, 0 => 4 | 0, 1 => 5 | 1, 0 => 5
    | _, _ => 6
    end%nat.

  (* the fourth-order tensor with all its symmetries *)
  Definition cten (i j k l : nat) : R := V (vo i j) (vo k l).

  (* the symmetric tensor of a six-vector (xx, yy, zz, sqrt2 xy, sqrt2 xz, sqrt2 yz) *)
  Definition ten (d0 d1 d2 d3 d4 d5 : R) (i j : nat) : R :=
    match i, j with
    | 0, 0 => d0 | 1, 1 => d1 | 2, 2 => d2
    | 0, 1 => (d3 / sqrt 2)%R | 1, 0 => (d3 / sqrt 2)%R
    | 0, 2 => (d4 / sqrt 2)%R | 2, 0 => (d4 / sqrt 2)%R
    | 1, 2 => (d5 / sqrt 2)%R | 2, 1 => (d5 / sqrt 2)%R
    | _, _ => 0%R
    end%nat.

  Definition sum3 (f : nat -> R) : R := f 0%nat + f 1%nat + f 2%nat.
  Definition contract (D : nat -> nat -> R) (i j : nat) : R := sum3 (fun k => sum3 (fun l => cten i j k l * D k l)).

  Definition six_of (M : nat -> nat -> R) : R * R * R * R * R * R :=
    (M 0%nat 0%nat, M 1%nat 1%nat, M 2%nat 2%nat, sqrt 2 * M 0%nat 1%nat, sqrt 2 * M 0%nat 2%nat, sqrt 2 * M 1%nat 2%nat).

  Definition dot6 (a0 a1 a2 a3 a4 a5 x0 x1 x2 x3 x4 x5 : R) := a0 * x0 + a1 * x1 + a2 * x2 + a3 * x3 + a4 * x4 + a5 * x5.

  (* x solves the system the code passes to numpy.linalg.solve *)
  Definition solves (m0 m1 m2 m3 m4 m5 x0 x1 x2 x3 x4 x5 : R) : Prop :=
    let '(a00, a01, a02, a03, a04, a05, a10, a11, a12, a13, a14, a15, a20, a21, a22, a23, a24, a25,
          a30, a31, a32, a33, a34, a35, a40, a41, a42, a43, a44, a45, a50, a51, a52, a53, a54, a55,
          b0, b1, b2, b3, b4, b5) :=
      MT6c_D6_solve_args m0 m1 m2 m3 m4 m5 c0 c1 c2 c3 c4 c5 c6 c7 c8 c9 c10 c11 c12 c13 c14 c15 c16 c17 c18 c19 c20 in
    dot6 a00 a01 a02 a03 a04 a05 x0 x1 x2 x3 x4 x5 = b0 /\
    dot6 a10 a11 a12 a13 a14 a15 x0 x1 x2 x3 x4 x5 = b1 /\
    dot6 a20 a21 a22 a23 a24 a25 x0 x1 x2 x3 x4 x5 = b2 /\
    dot6 a30 a31 a32 a33 a34 a35 x0 x1 x2 x3 x4 x5 = b3 /\
    dot6 a40 a41 a42 a43 a44 a45 x0 x1 x2 x3 x4 x5 = b4 /\
    dot6 a50 a51 a52 a53 a54 a55 x0 x1 x2 x3 x4 x5 = b5.

  Theorem potency_inverts_stiffness m0 m1 m2 m3 m4 m5 x0 x1 x2 x3 x4 x5 :
    solves m0 m1 m2 m3 m4 m5 x0 x1 x2 x3 x4 x5 ->
    let '(d0, d1, d2, d3, d4, d5) := MT6c_D6 x0 x1 x2 x3 x4 x5 in
    six_of (contract (ten d0 d1 d2 d3 d4 d5)) = (m0, m1, m2, m3, m4, m5).
  Proof.
    unfold solves, MT6c_D6_solve_args, MT6c_D6, dot6. cbv zeta.
    intros (H0 & H1 & H2 & H3 & H4 & H5).
    unfold six_of, contract, sum3, cten, ten, vo, V.
    assert (S : sqrt 2 * sqrt 2 = 2) by exact sqrt2_sq.
    assert (Sp : 0 < sqrt 2) by exact sqrt2_pos.
    set (s := sqrt 2) in *.
    assert (I : / s = s / 2) by (apply Rmult_eq_reg_l with s; [rewrite Rinv_r by lra; lra | lra]).
    unfold Rdiv at 1 2 3 4 5 6 7 8 9 10 11 12 13 14 15 16 17 18 19 20 21 22 23 24 25 26 27 28 29 30 31 32 33 34 35 36.
    rewrite !I. clearbody s.
    repeat f_equal.
    - rewrite <- H0. field.
    - rewrite <- H1. field.
    - rewrite <- H2. field.
    - rewrite <- H5. clear -S. field_simplify. replace (s ^ 2) with 2 by (simpl; lra). field.
    - rewrite <- H4. clear -S. field_simplify. replace (s ^ 2) with 2 by (simpl; lra). field.
    - rewrite <- H3. clear -S. field_simplify. replace (s ^ 2) with 2 by (simpl; lra). field.
  Qed.
End Stiffness.
