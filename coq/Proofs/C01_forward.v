(* C01: laws of the forward-task combination model (Model/Forward.v), proved for every
   commutative semiring and instantiated at the reals. *)
From Coq Require Import List Bool Arith Ring Sorting.Permutation Reals.
From MTV.Model Require Import Forward.
Import ListNotations.

Section Laws.
Context {T : Type} (zero one : T) (add mul : T -> T -> T) (is_zero : T -> bool).
Hypothesis SR : semi_ring_theory zero one add mul (@eq T).
Add Ring Tring : SR.

Notation prodl := (prodl one mul).
Notation likelihood := (likelihood one mul).
Notation suml := (suml zero add).
Notation marginal := (marginal zero one add mul).

(* the stations of the polarity-type data actually used: manual polarities, else probabilities *)
Definition sel_pol (d : data (T := T)) : list term :=
  match d_pol d with Some ts => ts | None => match d_prob d with Some ts => ts | None => [] end end.
Definition sel_ar (d : data (T := T)) : list term := match d_ar d with Some ts => ts | None => [] end.

Lemma prodl_app a b k m : prodl (a ++ b) k m = mul (prodl a k m) (prodl b k m).
Proof. induction a as [|t a IH]; simpl; [ring|]. rewrite IH. ring. Qed.

(* posterior of one location sample = product over the selected types of the per-station terms *)
Lemma likelihood_is_product d k m :
  likelihood d k m = prodl (sel_pol d ++ sel_ar d) k m.
Proof.
  rewrite prodl_app. unfold Forward.likelihood, sel_pol, sel_ar.
  destruct (d_pol d), (d_prob d), (d_ar d); simpl; ring.
Qed.

Lemma prodl_perm a b k m : Permutation a b -> prodl a k m = prodl b k m.
Proof.
  induction 1 as [|x l l' _ IH|x y l|l l' l'' _ IH1 _ IH2]; simpl.
  - reflexivity.
  - rewrite IH. reflexivity.
  - ring.
  - rewrite IH1. exact IH2.
Qed.

(* station order is irrelevant, type by type *)
Lemma likelihood_station_perm pol pol' prob prob' ar ar' k m :
  (match pol, pol' with Some a, Some b => Permutation a b | None, None => True | _, _ => False end) ->
  (match prob, prob' with Some a, Some b => Permutation a b | None, None => True | _, _ => False end) ->
  (match ar, ar' with Some a, Some b => Permutation a b | None, None => True | _, _ => False end) ->
  likelihood (mkData pol prob ar) k m = likelihood (mkData pol' prob' ar') k m.
Proof.
  intros H1 H2 H3. unfold Forward.likelihood. simpl.
  destruct pol, pol'; try contradiction; destruct prob, prob'; try contradiction; destruct ar, ar'; try contradiction;
    repeat match goal with H : Permutation ?a ?b |- _ => rewrite (prodl_perm a b k m H); clear H end; reflexivity.
Qed.

(* adding a data type multiplies by exactly that type's product *)
Lemma add_amplitude_ratios pol prob ts k m :
  likelihood (mkData pol prob (Some ts)) k m = mul (likelihood (mkData pol prob None) k m) (prodl ts k m).
Proof. unfold Forward.likelihood. simpl. reflexivity. Qed.

Lemma add_polarities ts ar k m :
  likelihood (mkData (Some ts) None ar) k m = mul (prodl ts k m) (likelihood (mkData None None ar) k m).
Proof. unfold Forward.likelihood. simpl. destruct ar; ring. Qed.

Lemma add_polarity_probabilities ts ar k m :
  likelihood (mkData None (Some ts) ar) k m = mul (prodl ts k m) (likelihood (mkData None None ar) k m).
Proof. unfold Forward.likelihood. simpl. destruct ar; ring. Qed.

(* only the selected types contribute: polarity probabilities are ignored next to manual polarities *)
Lemma manual_polarities_take_precedence ts ps ar k m :
  likelihood (mkData (Some ts) (Some ps) ar) k m = likelihood (mkData (Some ts) None ar) k m.
Proof. reflexivity. Qed.

(* ---- location samples ----------------------------------------------------------------------- *)
Definition marginal_pairs (d : data) (kws : list (nat * T)) (m : nat) : T :=
  suml (map (fun kw => mul (snd kw) (likelihood d (fst kw) m)) kws).

Lemma marginal_is_weighted_sum d ws m :
  marginal d ws m = marginal_pairs d (combine (seq 0 (length ws)) ws) m.
Proof. reflexivity. Qed.

Lemma suml_perm a b : Permutation a b -> suml a = suml b.
Proof.
  induction 1 as [|x l l' _ IH|x y l|l l' l'' _ IH1 _ IH2]; simpl.
  - reflexivity.
  - rewrite IH. reflexivity.
  - ring.
  - rewrite IH1. exact IH2.
Qed.

(* the order of the location samples (each with its weight) is irrelevant *)
Lemma marginal_location_perm d kws kws' m : Permutation kws kws' -> marginal_pairs d kws m = marginal_pairs d kws' m.
Proof. intros H. unfold marginal_pairs. apply suml_perm. apply Permutation_map. exact H. Qed.

(* a sample listed twice is the same as the sample listed once with the weights added *)
Lemma marginal_duplicate_vs_weight d k w1 w2 r m :
  marginal_pairs d ((k, w1) :: (k, w2) :: r) m = marginal_pairs d ((k, add w1 w2) :: r) m.
Proof. unfold marginal_pairs. simpl. ring. Qed.

(* scaling all weights scales the marginal: only relative weights matter after normalisation *)
Lemma marginal_weight_scale d kws c m :
  marginal_pairs d (map (fun kw => (fst kw, mul c (snd kw))) kws) m = mul c (marginal_pairs d kws m).
Proof. unfold marginal_pairs. induction kws as [|kw r IH]; simpl; [ring|]. rewrite IH. ring. Qed.

(* ---- batches and zero filtering ---------------------------------------------------------------- *)
Notation forward_marginalised := (forward_marginalised zero one add mul).
Notation filtered := (filtered zero one add mul is_zero).

(* the value attached to a tensor does not depend on what else is in the batch *)
Lemma batch_independent d ws batch i m :
  nth_error batch i = Some m -> nth_error (forward_marginalised d ws batch) i = Some (marginal d ws m).
Proof. intros H. unfold Forward.forward_marginalised. rewrite nth_error_map, H. reflexivity. Qed.

Lemma singleton_batch d ws m : forward_marginalised d ws [m] = [marginal d ws m].
Proof. reflexivity. Qed.

(* zero filtering returns exactly the non-zero columns, each with its own value, in batch order *)
Lemma filtered_sound d ws batch m p :
  In (m, p) (filtered d ws batch) -> In m batch /\ p = marginal d ws m /\ is_zero p = false.
Proof.
  unfold Forward.filtered. rewrite filter_In, in_map_iff. intros [[m' [E Hin]] Hz].
  inversion E. subst. simpl in Hz. split; [exact Hin|]. split; [reflexivity|].
  destruct (is_zero (marginal d ws m)); [discriminate|reflexivity].
Qed.

Lemma filtered_complete d ws batch m :
  In m batch -> is_zero (marginal d ws m) = false -> In (m, marginal d ws m) (filtered d ws batch).
Proof.
  intros Hin Hz. unfold Forward.filtered. rewrite filter_In. split.
  - apply in_map_iff. exists m. split; [reflexivity|exact Hin].
  - simpl. rewrite Hz. reflexivity.
Qed.

Lemma filtered_values_unchanged d ws batch :
  forall mp, In mp (filtered d ws batch) -> In (snd mp) (forward_marginalised d ws batch).
Proof.
  intros [m p] H. apply filtered_sound in H. destruct H as [Hin [-> _]]. simpl.
  unfold Forward.forward_marginalised. apply in_map. exact Hin.
Qed.

End Laws.

(* instantiation at the reals *)
Lemma R_semi_ring : semi_ring_theory 0%R 1%R Rplus Rmult (@eq R).
Proof. constructor; intros; ring. Qed.
