(* Lune coordinates (E_GD / GD_E of Gen/Convert.v): permutation and scale invariance, ranges,
   double-couple at the origin, and E_GD inverts GD_E on the fundamental lune. *)
From Coq Require Import Reals Lra Lia Sumbool.
From MTV.Lib Require Import Base Trig.
From MTV.Gen Require Import Convert.
Open Scope R_scope.

Ltac iso_cases a b c H :=
  destruct (sumbool_and _ _ _ _ (Req_EM_T a b) (Req_EM_T b c)) as [[? ?]|H].

(* ---- the sorted view of E_GD *)
Definition ratio (M mid m : R) : R := (M + mid + m) / (sqrt 3 * sqrt (M * M + mid * mid + m * m)).
Definition clip1 (q : R) : R := Rmin (Rmax q (- 1)) 1.
Definition lune (M mid m : R) : R * R :=
  (atan2 (- M + 2 * mid - m) (sqrt 3 * (M - m)), PI / 2 - acos (clip1 (ratio M mid m))).

Lemma clip1_id q : - 1 <= q <= 1 -> clip1 q = q.
Proof. intros [H1 H2]. unfold clip1. rewrite Rmax_left by lra. apply Rmin_left; lra. Qed.
Lemma clip1_range q : - 1 <= clip1 q <= 1.
Proof.
  unfold clip1. pose proof (Rmin_r (Rmax q (- 1)) 1). pose proof (Rmax_r q (- 1)).
  split; [|lra]. unfold Rmin. destruct (Rle_dec (Rmax q (- 1)) 1); lra.
Qed.

(* Cauchy-Schwarz: the clip in the source only removes round-off, it never changes a real value *)
Lemma ratio_bound M mid m : 0 < M * M + mid * mid + m * m -> - 1 <= ratio M mid m <= 1.
Proof.
  intros Hq. unfold ratio. set (q := M * M + mid * mid + m * m) in *.
  assert (H3 : 0 < sqrt 3) by (apply sqrt_lt_R0; lra).
  assert (Hs : 0 < sqrt q) by (apply sqrt_lt_R0; exact Hq).
  assert (H33 : sqrt 3 * sqrt 3 = 3) by (apply sqrt_sqrt; lra).
  assert (Hqq : sqrt q * sqrt q = q) by (apply sqrt_sqrt; lra).
  set (D := sqrt 3 * sqrt q). assert (HD : 0 < D) by (unfold D; nra).
  assert (HDD : D * D = 3 * q) by (unfold D; nra).
  assert (CS : (M + mid + m) * (M + mid + m) <= D * D).
  { rewrite HDD. unfold q.
    pose proof (Rle_0_sqr (M - mid)) as S1. pose proof (Rle_0_sqr (M - m)) as S2. pose proof (Rle_0_sqr (mid - m)) as S3.
    unfold Rsqr in *. lra. }
  assert (Hb : - D <= M + mid + m <= D).
  { set (s := M + mid + m) in *. split.
    - destruct (Rle_dec (- D) s) as [L|L]; [exact L|exfalso]. assert (0 < - s - D) by lra. assert (0 < - s + D) by lra. nra.
    - destruct (Rle_dec s D) as [L|L]; [exact L|exfalso]. assert (0 < s - D) by lra. assert (0 < s + D) by lra. nra. }
  split.
  - apply Rmult_le_reg_r with D; [exact HD|]. unfold Rdiv. rewrite Rmult_assoc, Rinv_l by lra. lra.
  - apply Rmult_le_reg_r with D; [exact HD|]. unfold Rdiv. rewrite Rmult_assoc, Rinv_l by lra. lra.
Qed.

Definition mx (a b c : R) := Rmax (Rmax a b) c.
Definition mn (a b c : R) := Rmin (Rmin a b) c.
Definition md (a b c : R) := a + b + c - mx a b c - mn a b c.

Lemma E_GD_char a b c :
  E_GD a b c = if sumbool_and _ _ _ _ (Req_EM_T a b) (Req_EM_T b c) then (0, sgn a * PI / 2)
               else lune (mx a b c) (md a b c) (mn a b c).
Proof.
  unfold E_GD, lune, ratio, clip1, mx, mn, md. cbv zeta.
  iso_cases a b c H; [reflexivity|].
  unfold mx, mn. reflexivity.
Qed.

Lemma mx_perm1 a b c : mx b a c = mx a b c.
Proof. unfold mx; rewrite (Rmax_comm b a); reflexivity. Qed.
Lemma mx_perm2 a b c : mx a c b = mx a b c.
Proof. unfold mx. rewrite <- !Rmax_assoc. rewrite (Rmax_comm c b). reflexivity. Qed.
Lemma mn_perm1 a b c : mn b a c = mn a b c.
Proof. unfold mn; rewrite (Rmin_comm b a); reflexivity. Qed.
Lemma mn_perm2 a b c : mn a c b = mn a b c.
Proof. unfold mn. rewrite <- !Rmin_assoc. rewrite (Rmin_comm c b). reflexivity. Qed.
Lemma md_perm1 a b c : md b a c = md a b c.
Proof. unfold md; rewrite mx_perm1, mn_perm1; ring. Qed.
Lemma md_perm2 a b c : md a c b = md a b c.
Proof. unfold md; rewrite mx_perm2, mn_perm2; ring. Qed.

(* the two generators of the permutations of three eigenvalues *)
Lemma E_GD_swap12 a b c : E_GD b a c = E_GD a b c.
Proof.
  rewrite !E_GD_char, mx_perm1, mn_perm1, md_perm1.
  iso_cases b a c H; iso_cases a b c H'; try reflexivity; subst; try reflexivity.
  - exfalso; destruct H' as [H'|H']; apply H'; reflexivity.
  - exfalso; destruct H as [H|H]; apply H; reflexivity.
Qed.
Lemma E_GD_swap23 a b c : E_GD a c b = E_GD a b c.
Proof.
  rewrite !E_GD_char, mx_perm2, mn_perm2, md_perm2.
  iso_cases a c b H; iso_cases a b c H'; try reflexivity; subst; try reflexivity.
  - exfalso; destruct H' as [H'|H']; apply H'; reflexivity.
  - exfalso; destruct H as [H|H]; apply H; reflexivity.
Qed.

Theorem E_GD_permutation_invariant a b c :
  E_GD a c b = E_GD a b c /\ E_GD b a c = E_GD a b c /\ E_GD b c a = E_GD a b c /\
  E_GD c a b = E_GD a b c /\ E_GD c b a = E_GD a b c.
Proof.
  repeat split.
  - apply E_GD_swap23.
  - apply E_GD_swap12.
  - rewrite E_GD_swap23. apply E_GD_swap12.
  - rewrite E_GD_swap12. apply E_GD_swap23.
  - rewrite E_GD_swap12, E_GD_swap23. apply E_GD_swap12.
Qed.

(* ---- sorted facts *)
Lemma mx_ge a b c : a <= mx a b c /\ b <= mx a b c /\ c <= mx a b c.
Proof. unfold mx. pose proof (Rmax_l a b); pose proof (Rmax_r a b); pose proof (Rmax_l (Rmax a b) c); pose proof (Rmax_r (Rmax a b) c). lra. Qed.
Lemma mn_le a b c : mn a b c <= a /\ mn a b c <= b /\ mn a b c <= c.
Proof. unfold mn. pose proof (Rmin_l a b); pose proof (Rmin_r a b); pose proof (Rmin_l (Rmin a b) c); pose proof (Rmin_r (Rmin a b) c). lra. Qed.

Lemma sorted_cases a b c :
  (mx a b c = a \/ mx a b c = b \/ mx a b c = c).
Proof. unfold mx, Rmax. destruct (Rle_dec a b); destruct (Rle_dec _ c); auto. Qed.
Lemma sorted_cases_mn a b c :
  (mn a b c = a \/ mn a b c = b \/ mn a b c = c).
Proof. unfold mn, Rmin. destruct (Rle_dec a b); destruct (Rle_dec _ c); auto. Qed.

Lemma md_between a b c : mn a b c <= md a b c <= mx a b c.
Proof.
  unfold md. pose proof (mx_ge a b c) as [? [? ?]]. pose proof (mn_le a b c) as [? [? ?]].
  unfold mx, mn, Rmax, Rmin in *.
  destruct (Rle_dec a b); destruct (Rle_dec a b); try lra;
  repeat (match goal with |- context [Rle_dec ?x ?y] => destruct (Rle_dec x y) end); lra.
Qed.

Lemma not_iso_spread a b c : (a <> b \/ b <> c) -> mn a b c < mx a b c.
Proof.
  intros H. pose proof (mx_ge a b c) as [? [? ?]]. pose proof (mn_le a b c) as [? [? ?]].
  destruct (Rlt_dec (mn a b c) (mx a b c)) as [L|L]; [exact L|].
  exfalso. assert (a = b /\ b = c) by lra. destruct H; lra.
Qed.

(* ---- scale invariance *)
Lemma mx_scale k a b c : 0 < k -> mx (k * a) (k * b) (k * c) = k * mx a b c.
Proof. intros; unfold mx; rewrite !Rmax_scale by lra; reflexivity. Qed.
Lemma mn_scale k a b c : 0 < k -> mn (k * a) (k * b) (k * c) = k * mn a b c.
Proof. intros; unfold mn; rewrite !Rmin_scale by lra; reflexivity. Qed.
Lemma md_scale k a b c : 0 < k -> md (k * a) (k * b) (k * c) = k * md a b c.
Proof. intros; unfold md; rewrite mx_scale, mn_scale by assumption; ring. Qed.

Lemma lune_scale k M mid m : 0 < k -> 0 < M * M + mid * mid + m * m ->
  lune (k * M) (k * mid) (k * m) = lune M mid m.
Proof.
  intros Hk Hq. unfold lune. f_equal.
  - replace (- (k * M) + 2 * (k * mid) - k * m) with (k * (- M + 2 * mid - m)) by ring.
    replace (sqrt 3 * (k * M - k * m)) with (k * (sqrt 3 * (M - m))) by ring.
    apply atan2_scale; exact Hk.
  - f_equal. f_equal. f_equal. unfold ratio.
    replace (k * M * (k * M) + k * mid * (k * mid) + k * m * (k * m)) with (k * k * (M * M + mid * mid + m * m)) by ring.
    rewrite sqrt_mult by nra. rewrite sqrt_square by lra.
    assert (0 < sqrt (M * M + mid * mid + m * m)) by (apply sqrt_lt_R0; exact Hq).
    assert (0 < sqrt 3) by (apply sqrt_lt_R0; lra).
    field. repeat split; lra.
Qed.

Theorem E_GD_scale_invariant k a b c : 0 < k -> E_GD (k * a) (k * b) (k * c) = E_GD a b c.
Proof.
  intros Hk. rewrite !E_GD_char, mx_scale, mn_scale, md_scale by exact Hk.
  iso_cases (k * a) (k * b) (k * c) H; iso_cases a b c H'.
  - rewrite sgn_scale by exact Hk. reflexivity.
  - exfalso. assert (a = b) by nra. assert (b = c) by nra. destruct H'; contradiction.
  - exfalso. subst. destruct H as [H|H]; apply H; reflexivity.
  - apply lune_scale; [exact Hk|].
    pose proof (not_iso_spread a b c H') as S.
    assert (mx a b c <> 0 \/ mn a b c <> 0) as [N|N] by lra; nra.
Qed.

(* ---- ranges *)
Lemma lune_range M mid m : m <= mid <= M -> m < M ->
  - (PI / 6) <= fst (lune M mid m) <= PI / 6 /\ - (PI / 2) <= snd (lune M mid m) <= PI / 2.
Proof.
  intros Hs Hlt. unfold lune; cbn [fst snd]. split.
  - assert (H3 : 0 < sqrt 3) by (apply sqrt_lt_R0; lra).
    assert (H33 : sqrt 3 * sqrt 3 = 3) by (apply sqrt_sqrt; lra).
    apply atan2_cone; [nra|].
    unfold Rabs. destruct (Rcase_abs (- M + 2 * mid - m)); nra.
  - pose proof (acos_bound (clip1 (ratio M mid m))). lra.
Qed.

Theorem E_GD_range a b c :
  - (PI / 6) <= fst (E_GD a b c) <= PI / 6 /\ - (PI / 2) <= snd (E_GD a b c) <= PI / 2.
Proof.
  rewrite E_GD_char. pose proof PI_RGT_0 as Hpi. iso_cases a b c H.
  - cbn [fst snd]. split; [lra|].
    unfold sgn. destruct (Rlt_dec 0 a); [lra|]. destruct (Rlt_dec a 0); lra.
  - apply lune_range; [apply md_between | apply not_iso_spread; exact H].
Qed.

(* ---- special sources *)
Theorem double_couple_at_origin l : 0 < l -> E_GD l 0 (- l) = (0, 0).
Proof.
  intros Hl. rewrite E_GD_char. iso_cases l 0 (- l) H; [lra|].
  assert (Hx : mx l 0 (- l) = l) by (unfold mx; rewrite (Rmax_left l 0) by lra; rewrite Rmax_left by lra; reflexivity).
  assert (Hn : mn l 0 (- l) = - l) by (unfold mn; rewrite (Rmin_right l 0) by lra; rewrite Rmin_right by lra; reflexivity).
  unfold md. rewrite Hx, Hn. unfold lune.
  assert (H3 : 0 < sqrt 3) by (apply sqrt_lt_R0; lra).
  f_equal.
  - replace (- l + 2 * (l + 0 + - l - l - - l) - - l) with 0 by ring.
    rewrite atan2_pos_x by nra. unfold Rdiv; rewrite Rmult_0_l. apply atan_0.
  - unfold ratio. replace ((l + (l + 0 + - l - l - - l) + - l)) with 0 by ring.
    unfold Rdiv; rewrite Rmult_0_l. rewrite clip1_id by lra. rewrite acos_0. lra.
Qed.

Theorem isotropic_at_poles l : l <> 0 -> E_GD l l l = (0, sgn l * PI / 2).
Proof.
  intros Hl. rewrite E_GD_char. iso_cases l l l H; [reflexivity|]. destruct H as [H|H]; exfalso; apply H; reflexivity.
Qed.

(* ---- E_GD inverts GD_E on the fundamental lune *)
Lemma sqrt6_split : sqrt 6 = sqrt 2 * sqrt 3.
Proof. rewrite <- sqrt_mult by lra. f_equal; lra. Qed.

Section Inverse.
  Variables g d : R.
  Hypothesis Hg : - (PI / 6) <= g <= PI / 6.
  Hypothesis Hd : - (PI / 2) < d < PI / 2.

  Let b := PI / 2 - d.
  Let s2 := sqrt 2.
  Let s3 := sqrt 3.

  Lemma inv_facts :
    0 < s2 /\ 0 < s3 /\ s2 * s2 = 2 /\ s3 * s3 = 3 /\ 0 < sin b /\ 0 < cos g /\
    sqrt 3 * sin g <= cos g /\ - cos g <= sqrt 3 * sin g /\
    cos g * cos g + sin g * sin g = 1 /\ cos b * cos b + sin b * sin b = 1.
  Proof.
    pose proof PI_RGT_0 as Hpi. unfold s2, s3, b.
    repeat split.
    - apply sqrt_lt_R0; lra.
    - apply sqrt_lt_R0; lra.
    - apply sqrt_sqrt; lra.
    - apply sqrt_sqrt; lra.
    - apply sin_gt_0; lra.
    - apply cos_gt_0; lra.
    - assert (H : 0 <= sin (PI / 6 - g)) by (apply sin_ge_0; lra).
      rewrite sin_minus, sin_PI6, cos_PI6 in H. lra.
    - assert (H : 0 <= sin (PI / 6 + g)) by (apply sin_ge_0; lra).
      rewrite sin_plus, sin_PI6, cos_PI6 in H. lra.
    - pose proof (sin2_cos2 g) as H; unfold Rsqr in H; lra.
    - pose proof (sin2_cos2 (PI / 2 - d)) as H; unfold Rsqr in H; lra.
  Qed.

  Theorem E_GD_GD_E : (let '(e0, e1, e2) := GD_E g d in E_GD e0 e1 e2) = (g, d).
  Proof.
    destruct inv_facts as (P2 & P3 & Q2 & Q3 & Hsb & Hcg & Hup & Hlo & Tg & Tb).
    pose proof PI_RGT_0 as Hpi.
    unfold GD_E. cbv zeta. fold b.
    rewrite sqrt6_split. fold s2 s3.
    set (t := 1 / (s2 * s3)).
    assert (Ht : 0 < t) by (unfold t; apply Rdiv_lt_0_compat; nra).
    assert (Ht1 : t * (s2 * s3) = 1) by (unfold t; field; nra).
    assert (Ht2 : 6 * (t * t) = 1).
    { transitivity ((t * (s2 * s3)) * (t * (s2 * s3))); [|rewrite Ht1; ring].
      replace 6 with ((s2 * s2) * (s3 * s3)) by (rewrite Q2, Q3; ring). ring. }
    set (X := cos g * sin b). set (X1 := sin g * sin b). set (X2 := cos b).
    set (e0 := t * s3 * X + t * - 1 * X1 + t * s2 * X2).
    set (e1 := t * 0 * X + t * 2 * X1 + t * s2 * X2).
    set (e2 := t * - s3 * X + t * - 1 * X1 + t * s2 * X2).
    fold s3 in Hup, Hlo.
    assert (O01 : e1 <= e0).
    { unfold e0, e1, X, X1. assert (0 <= t * sin b * (s3 * cos g - 3 * sin g)); [|nra].
      apply Rmult_le_pos; [nra|]. replace 3 with (s3 * s3) by exact Q3. nra. }
    assert (O12 : e2 <= e1).
    { unfold e1, e2, X, X1. assert (0 <= t * sin b * (s3 * cos g + 3 * sin g)); [|nra].
      apply Rmult_le_pos; [nra|]. replace 3 with (s3 * s3) by exact Q3. nra. }
    assert (O02 : e2 < e0).
    { unfold e0, e2, X. assert (0 < t * s3 * (cos g * sin b)); [|nra].
      apply Rmult_lt_0_compat; nra. }
    rewrite E_GD_char. iso_cases e0 e1 e2 H; [lra|].
    assert (Hmx : mx e0 e1 e2 = e0) by (unfold mx; rewrite (Rmax_left e0 e1) by lra; rewrite Rmax_left by lra; reflexivity).
    assert (Hmn : mn e0 e1 e2 = e2) by (unfold mn; rewrite (Rmin_right e0 e1) by lra; rewrite Rmin_right by lra; reflexivity).
    assert (Hmd : md e0 e1 e2 = e1) by (unfold md; rewrite Hmx, Hmn; ring).
    rewrite Hmx, Hmn, Hmd. unfold lune. f_equal.
    - replace (- e0 + 2 * e1 - e2) with ((6 * t * sin b) * sin g) by (unfold e0, e1, e2, X, X1, X2; ring).
      replace (sqrt 3 * (e0 - e2)) with ((6 * t * sin b) * cos g).
      + apply atan2_polar; [|lra]. apply Rmult_lt_0_compat; nra.
      + fold s3. unfold e0, e2, X, X1, X2. ring_simplify. rewrite !(Rmult_comm _ (s3 ^ 2)).
        replace (s3 ^ 2) with 3 by (simpl; nra). ring.
    - assert (Hn : e0 * e0 + e1 * e1 + e2 * e2 = 1).
      { unfold e0, e1, e2, X, X1, X2.
        transitivity ((6 * (t * t)) * ((cos g * cos g + sin g * sin g) * (sin b * sin b) * (s3 * s3 / 3 * 0 + 1)
                       + cos b * cos b) * 1 + 0); [|rewrite Ht2, Tg; nra].
        assert (E3 : s3 * s3 = 3) by exact Q3. assert (E2 : s2 * s2 = 2) by exact Q2.
        nra. }
      unfold ratio. rewrite Hn, sqrt_1.
      replace ((e0 + e1 + e2) / (sqrt 3 * 1)) with (cos b).
      + rewrite clip1_id by (pose proof (COS_bound b); lra). rewrite acos_cos; unfold b; lra.
      + fold s3. unfold e0, e1, e2, X, X1, X2.
        replace (t * s3 * (cos g * sin b) + t * -1 * (sin g * sin b) + t * s2 * cos b + (t * 0 * (cos g * sin b) + t * 2 * (sin g * sin b) + t * s2 * cos b) + (t * - s3 * (cos g * sin b) + t * -1 * (sin g * sin b) + t * s2 * cos b))
          with (3 * t * s2 * cos b) by ring.
        transitivity (3 * cos b / (s3 * s3)); [rewrite Q3; field | unfold t; field; split; lra].
  Qed.
End Inverse.
