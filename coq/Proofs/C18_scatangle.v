(* Location-uncertainty samples (Model/Scatangle.v): binning conserves weight, merges only close samples, keeps
   original records; the parser inverts the writer. *)
From Coq Require Import ZArith List Bool Lia.
From MTV.Model Require Import Scatangle.
Import ListNotations.
Open Scope Z_scope.

Definition recs (l : list (record * Z)) : list record := map fst l.

(* ---- weight conservation *)
Lemma total_app a b : total (a ++ b) = total a + total b.
Proof.
  induction a as [|x a IH]; [reflexivity|].
  change (total ((x :: a) ++ b)) with (snd x + total (a ++ b)). change (total (x :: a)) with (snd x + total a).
  rewrite IH. lia.
Qed.

Lemma total_absorb b sw bins : total (absorb b sw bins) = total bins + snd sw.
Proof.
  induction bins as [|[r v] bins IH]; [unfold total; cbn; lia|].
  cbn [absorb]. destruct (close b r (fst sw)).
  - change (total ((r, v + snd sw) :: bins)) with (v + snd sw + total bins).
    change (total ((r, v) :: bins)) with (v + total bins). lia.
  - change (total ((r, v) :: absorb b sw bins)) with (v + total (absorb b sw bins)).
    change (total ((r, v) :: bins)) with (v + total bins). rewrite IH. lia.
Qed.

Lemma total_fold b l acc : total (fold_left (fun acc sw => absorb b sw acc) l acc) = total acc + total l.
Proof.
  revert acc; induction l as [|sw l IH]; intros acc; [change (total []) with 0; cbn [fold_left]; lia|].
  cbn [fold_left]. rewrite IH, total_absorb.
  change (total (sw :: l)) with (snd sw + total l). lia.
Qed.

Theorem binning_conserves_weight b l : total (bin_samples b l) = total l.
Proof. unfold bin_samples. destruct (b =? 0); [reflexivity|]. rewrite total_fold. change (total []) with 0. lia. Qed.

Theorem zero_bin_merges_nothing l : bin_samples 0 l = l.
Proof. reflexivity. Qed.

(* ---- which records are kept *)
Lemma recs_absorb b sw bins :
  (exists r, In r (recs bins) /\ close b r (fst sw) = true /\ recs (absorb b sw bins) = recs bins) \/
  ((forall r, In r (recs bins) -> close b r (fst sw) = false) /\ recs (absorb b sw bins) = recs bins ++ [fst sw]).
Proof.
  induction bins as [|[r v] bins IH]; [right; split; [intros r []|reflexivity]|].
  cbn [absorb]. destruct (close b r (fst sw)) eqn:E.
  - left. exists r. split; [left; reflexivity|]. split; [exact E|reflexivity].
  - destruct IH as [[r' [Hin [Hc Hr]]]|[Hall Hr]].
    + left. exists r'. split; [right; exact Hin|]. split; [exact Hc|]. cbn. f_equal. exact Hr.
    + right. split.
      * intros r' [<-|Hin]; [exact E | apply Hall; exact Hin].
      * cbn. f_equal. exact Hr.
Qed.

Lemma recs_absorb_incl b sw bins r : In r (recs bins) -> In r (recs (absorb b sw bins)).
Proof.
  intros H. destruct (recs_absorb b sw bins) as [[_ [_ [_ E]]]|[_ E]]; rewrite E; [exact H | apply in_or_app; left; exact H].
Qed.

(* every kept record is one of the original records, and every input sample is kept or was merged into a kept
   sample from which every station angle differs by less than half the bin size *)
Definition binned b l := fold_left (fun acc sw => absorb b sw acc) l [].

Lemma fold_recs_incl b l acc r :
  In r (recs (fold_left (fun acc sw => absorb b sw acc) l acc)) -> In r (recs acc) \/ In r (recs l).
Proof.
  revert acc; induction l as [|sw l IH]; intros acc H; [left; exact H|].
  cbn [fold_left] in H. apply IH in H. destruct H as [H|H]; [|right; right; exact H].
  destruct (recs_absorb b sw acc) as [[_ [_ [_ E]]]|[_ E]]; rewrite E in H.
  - left; exact H.
  - apply in_app_or in H. destruct H as [H|[<-|[]]]; [left; exact H | right; left; reflexivity].
Qed.

Lemma fold_keeps b l acc r : In r (recs acc) -> In r (recs (fold_left (fun acc sw => absorb b sw acc) l acc)).
Proof.
  revert acc; induction l as [|sw l IH]; intros acc H; [exact H|].
  cbn [fold_left]. apply IH. apply recs_absorb_incl. exact H.
Qed.

Lemma fold_covered b l acc s : In s (recs l) ->
  exists r, In r (recs (fold_left (fun acc sw => absorb b sw acc) l acc)) /\ (r = s \/ close b r s = true).
Proof.
  revert acc; induction l as [|sw l IH]; intros acc H; [destruct H|].
  cbn [fold_left]. destruct H as [<-|H]; [|apply IH; exact H].
  destruct (recs_absorb b sw acc) as [[r [Hin [Hc E]]]|[_ E]].
  - exists r. split; [|right; exact Hc]. apply fold_keeps. rewrite E. exact Hin.
  - exists (fst sw). split; [|left; reflexivity]. apply fold_keeps. rewrite E. apply in_or_app. right. left. reflexivity.
Qed.

Theorem binning_merges_only_close b l : b <> 0 ->
  (forall r, In r (recs (bin_samples b l)) -> In r (recs l)) /\
  (forall s, In s (recs l) -> exists r, In r (recs (bin_samples b l)) /\ (r = s \/ close b r s = true)).
Proof.
  intros Hb. unfold bin_samples. destruct (b =? 0) eqn:E; [apply Z.eqb_eq in E; contradiction|].
  split.
  - intros r H. apply fold_recs_incl in H. destruct H as [[]|H]. exact H.
  - intros s H. apply fold_covered. exact H.
Qed.

(* kept samples are pairwise apart: a later kept sample is not close to any earlier kept one *)
Inductive apart (b : Z) : list record -> Prop :=
| apart_nil : apart b []
| apart_snoc l s : apart b l -> (forall r, In r l -> close b r s = false) -> apart b (l ++ [s]).

Lemma fold_apart b l acc : apart b (recs acc) -> apart b (recs (fold_left (fun acc sw => absorb b sw acc) l acc)).
Proof.
  revert acc; induction l as [|sw l IH]; intros acc H; [exact H|].
  cbn [fold_left]. apply IH.
  destruct (recs_absorb b sw acc) as [[_ [_ [_ E]]]|[Hall E]]; rewrite E; [exact H|].
  apply apart_snoc; assumption.
Qed.

Theorem kept_samples_apart b l : b <> 0 -> apart b (recs (bin_samples b l)).
Proof.
  intros Hb. unfold bin_samples. destruct (b =? 0) eqn:E; [apply Z.eqb_eq in E; contradiction|].
  apply fold_apart. constructor.
Qed.

(* ---- the parser inverts the writer *)
Lemma parse_stations r ls done cur m :
  parse_lines (map Sta r ++ ls) done cur m = parse_lines ls done (rev r ++ cur) m.
Proof.
  revert cur; induction r as [|s r IH]; intros cur; [reflexivity|].
  cbn [map app parse_lines]. rewrite IH. cbn [rev]. rewrite <- app_assoc. reflexivity.
Qed.

Definition well_formed (rs : list (record * Z)) : Prop := forall r w, In (r, w) rs -> r <> [] /\ w <> 0.

Lemma parse_write_from rs done m : well_formed rs ->
  exists m', parse_lines (write rs) done [] m = rev done ++ rs /\ (rs = [] -> m' = m).
Proof.
  revert done m; induction rs as [|[r w] rs IH]; intros done m Hwf.
  - exists m. split; [cbn; rewrite app_nil_r; reflexivity | reflexivity].
  - destruct (Hwf r w (or_introl eq_refl)) as [Hr Hw].
    cbn [write flat_map]. unfold write_one at 1. cbn [fst snd app parse_lines].
    rewrite <- app_assoc, parse_stations. cbn [app parse_lines]. rewrite app_nil_r.
    destruct (rev r) eqn:Er; [apply (f_equal (@rev _)) in Er; rewrite rev_involutive in Er; cbn in Er; contradiction|].
    rewrite <- Er, rev_involutive.
    destruct (w =? 0) eqn:Ew; [apply Z.eqb_eq in Ew; contradiction|].
    destruct (IH ((r, w) :: done) w) as [m' [E _]]; [intros r' w' H; apply Hwf; right; exact H|].
    exists m'. split; [|discriminate].
    transitivity (rev ((r, w) :: done) ++ rs); [exact E|]. cbn [rev]. rewrite <- app_assoc. reflexivity.
Qed.

Theorem parse_inverts_write rs : well_formed rs -> parse (write rs) = rs.
Proof. intros H. unfold parse. destruct (parse_write_from rs [] 1 H) as [m [E _]]. exact E. Qed.

(* a file whose last block is not followed by a blank line gives the same records *)
Theorem parse_without_trailing_blank rs r w : well_formed (rs ++ [(r, w)]) ->
  parse (write rs ++ Weight w :: map Sta r) = rs ++ [(r, w)].
Proof.
  intros Hwf. unfold parse.
  assert (Hwf1 : well_formed rs) by (intros r' w' H; apply Hwf; apply in_or_app; left; exact H).
  destruct (Hwf r w) as [Hr _]; [apply in_or_app; right; left; reflexivity|].
  assert (G : forall rs done m, well_formed rs ->
            parse_lines (write rs ++ Weight w :: map Sta r) done [] m = rev done ++ rs ++ [(r, w)]).
  { clear rs Hwf Hwf1. induction rs as [|[r0 w0] rs IH]; intros done m Hwf.
    - cbn [write flat_map app parse_lines].
      rewrite <- (app_nil_r (map Sta r)), parse_stations. cbn [parse_lines]. rewrite app_nil_r.
      destruct (rev r) eqn:Er; [apply (f_equal (@rev _)) in Er; rewrite rev_involutive in Er; cbn in Er; contradiction|].
      rewrite <- Er, rev_involutive. cbn [rev]. reflexivity.
    - destruct (Hwf r0 w0 (or_introl eq_refl)) as [Hr0 Hw0].
      cbn [write flat_map]. unfold write_one at 1. cbn [fst snd app parse_lines].
      rewrite <- !app_assoc, parse_stations. cbn [app parse_lines]. rewrite app_nil_r.
      destruct (rev r0) eqn:Er; [apply (f_equal (@rev _)) in Er; rewrite rev_involutive in Er; cbn in Er; contradiction|].
      rewrite <- Er, rev_involutive.
      destruct (w0 =? 0) eqn:Ew; [apply Z.eqb_eq in Ew; contradiction|].
      transitivity (rev ((r0, w0) :: done) ++ rs ++ [(r, w)]);
        [apply IH; intros r' w' H; apply Hwf; right; exact H|].
      cbn [rev]. rewrite <- app_assoc. reflexivity. }
  rewrite G by exact Hwf1. reflexivity.
Qed.
