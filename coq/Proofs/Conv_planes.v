(* Strike/dip/rake, principal axes and normal/slip vectors (SDR_TNP, SDR_FP, FP_SDR, ... of Gen/Convert.v) *)
From Coq Require Import Reals Lra Nsatz.
From MTV.Lib Require Import Base Trig Redraw.
From MTV.Gen Require Import Convert.
Open Scope R_scope.

(* the fault-plane frame in north-east-down coordinates (Aki & Richards): slip direction u and normal n *)
Definition slipv (s d r : R) : R * R * R :=
  (cos s * cos r + sin s * cos d * sin r, sin s * cos r - cos s * cos d * sin r, - sin d * sin r).
Definition normv (s d : R) : R * R * R := (- sin s * sin d, cos s * sin d, - cos d).

Definition dot3 (a b : R * R * R) : R :=
  let '(a0, a1, a2) := a in let '(b0, b1, b2) := b in a0 * b0 + a1 * b1 + a2 * b2.

Ltac trig_atoms s d r :=
  let Hs := fresh "Hs" in let Hd := fresh "Hd" in let Hr := fresh "Hr" in
  pose proof (sin2_cos2 s) as Hs; pose proof (sin2_cos2 d) as Hd; pose proof (sin2_cos2 r) as Hr;
  unfold Rsqr in Hs, Hd, Hr;
  generalize dependent (cos s); generalize dependent (sin s);
  generalize dependent (cos d); generalize dependent (sin d);
  generalize dependent (cos r); generalize dependent (sin r); intros.

Lemma frame_orthonormal s d r :
  dot3 (slipv s d r) (slipv s d r) = 1 /\ dot3 (normv s d) (normv s d) = 1 /\ dot3 (slipv s d r) (normv s d) = 0.
Proof. unfold dot3, slipv, normv. trig_atoms s d r. repeat split; nsatz. Qed.

(* sqrt 2 normalisation *)
Lemma inv_sqrt2_sq : / sqrt 2 * / sqrt 2 = 1 / 2.
Proof. rewrite <- Rinv_mult. rewrite sqrt2_sq. lra. Qed.

Lemma inv_sqrt2_sq2 : 2 * (/ sqrt 2 * / sqrt 2) = 1.
Proof. pose proof inv_sqrt2_sq. lra. Qed.

(* polynomial identities in the sines and cosines of the three angles and 1 / sqrt 2 *)
Ltac close_poly s d r :=
  rewrite <- ?Rsqr_pow2; unfold Rsqr, Rdiv; pose proof inv_sqrt2_sq2; generalize dependent (/ sqrt 2); intros; trig_atoms s d r; nsatz.

Ltac norm_with s d r v :=
  repeat match goal with
  | |- context [sqrt ?e] =>
      lazymatch e with
      | 2 => fail
      | 1 => fail
      | _ => replace e with v by close_poly s d r
      end
  end.
Ltac norm_two s d r := norm_with s d r 2.

Theorem SDR_TNP_closed_form s d r :
  SDR_TNP s d r =
  (let '(u0, u1, u2) := slipv s d r in let '(n0, n1, n2) := normv s d in
   let t0 := (u0 + n0) / sqrt 2 in let t1 := (u1 + n1) / sqrt 2 in let t2 := (u2 + n2) / sqrt 2 in
   let p0 := (u0 - n0) / sqrt 2 in let p1 := (u1 - n1) / sqrt 2 in let p2 := (u2 - n2) / sqrt 2 in
   (t0, t1, t2, - (t1 * p2 - t2 * p1), - (t2 * p0 - t0 * p2), - (t0 * p1 - t1 * p0), p0, p1, p2)).
Proof.
  unfold SDR_TNP, slipv, normv. cbv zeta.
  norm_two s d r. reflexivity.
Qed.

(* ---- axes of an orthonormal (slip, normal) pair *)
Section Axes.
  Variables u0 u1 u2 n0 n1 n2 : R.
  Hypothesis Hu : u0 * u0 + u1 * u1 + u2 * u2 = 1.
  Hypothesis Hn : n0 * n0 + n1 * n1 + n2 * n2 = 1.
  Hypothesis Hun : u0 * n0 + u1 * n1 + u2 * n2 = 0.

  Let q := / sqrt 2.
  Let t0 := (u0 + n0) * q. Let t1 := (u1 + n1) * q. Let t2 := (u2 + n2) * q.
  Let p0 := (u0 - n0) * q. Let p1 := (u1 - n1) * q. Let p2 := (u2 - n2) * q.
  Let b0 := - (t1 * p2 - t2 * p1). Let b1 := - (t2 * p0 - t0 * p2). Let b2 := - (t0 * p1 - t1 * p0).

  Lemma axes_orthonormal :
    t0 * t0 + t1 * t1 + t2 * t2 = 1 /\ b0 * b0 + b1 * b1 + b2 * b2 = 1 /\ p0 * p0 + p1 * p1 + p2 * p2 = 1 /\
    t0 * b0 + t1 * b1 + t2 * b2 = 0 /\ t0 * p0 + t1 * p1 + t2 * p2 = 0 /\ b0 * p0 + b1 * p1 + b2 * p2 = 0.
  Proof.
    assert (Hq : 2 * (q * q) = 1) by (pose proof inv_sqrt2_sq as E; fold q in E; lra).
    assert (Ht : t0 * t0 + t1 * t1 + t2 * t2 = 1) by (unfold t0, t1, t2; clearbody q; nsatz).
    assert (Hp : p0 * p0 + p1 * p1 + p2 * p2 = 1) by (unfold p0, p1, p2; clearbody q; nsatz).
    assert (Htp : t0 * p0 + t1 * p1 + t2 * p2 = 0) by (unfold t0, t1, t2, p0, p1, p2; clearbody q; nsatz).
    unfold b0, b1, b2. clearbody t0 t1 t2 p0 p1 p2.
    repeat split; try assumption.
    - (* Lagrange's identity *)
      transitivity ((t0 * t0 + t1 * t1 + t2 * t2) * (p0 * p0 + p1 * p1 + p2 * p2)
                    - (t0 * p0 + t1 * p1 + t2 * p2) * (t0 * p0 + t1 * p1 + t2 * p2)); [ring|].
      rewrite Ht, Hp, Htp. ring.
    - ring.
    - ring.
  Qed.

  (* axes and normal/slip rebuild the same double-couple tensor: T T^t - P P^t = u n^t + n u^t *)
  Lemma axes_tensor :
    t0 * t0 - p0 * p0 = u0 * n0 + n0 * u0 /\ t1 * t1 - p1 * p1 = u1 * n1 + n1 * u1 /\
    t2 * t2 - p2 * p2 = u2 * n2 + n2 * u2 /\ t0 * t1 - p0 * p1 = u0 * n1 + n0 * u1 /\
    t0 * t2 - p0 * p2 = u0 * n2 + n0 * u2 /\ t1 * t2 - p1 * p2 = u1 * n2 + n1 * u2.
  Proof.
    assert (Hq : 2 * (q * q) = 1) by (pose proof inv_sqrt2_sq as E; fold q in E; lra).
    unfold t0, t1, t2, p0, p1, p2. clearbody q.
    repeat split; nsatz.
  Qed.
End Axes.

Theorem SDR_TNP_orthonormal s d r :
  let '(t0, t1, t2, b0, b1, b2, p0, p1, p2) := SDR_TNP s d r in
  t0 * t0 + t1 * t1 + t2 * t2 = 1 /\ b0 * b0 + b1 * b1 + b2 * b2 = 1 /\ p0 * p0 + p1 * p1 + p2 * p2 = 1 /\
  t0 * b0 + t1 * b1 + t2 * b2 = 0 /\ t0 * p0 + t1 * p1 + t2 * p2 = 0 /\ b0 * p0 + b1 * p1 + b2 * p2 = 0.
Proof.
  rewrite SDR_TNP_closed_form.
  destruct (frame_orthonormal s d r) as (Hu & Hn & Hun).
  unfold dot3, slipv, normv in *. cbv zeta.
  exact (axes_orthonormal _ _ _ _ _ _ Hu Hn Hun).
Qed.

(* both the axes and the normal/slip pair rebuild u n^t + n u^t *)
Theorem SDR_TNP_tensor s d r :
  let '(t0, t1, t2, b0, b1, b2, p0, p1, p2) := SDR_TNP s d r in
  let '(u0, u1, u2) := slipv s d r in let '(n0, n1, n2) := normv s d in
  t0 * t0 - p0 * p0 = u0 * n0 + n0 * u0 /\ t1 * t1 - p1 * p1 = u1 * n1 + n1 * u1 /\
  t2 * t2 - p2 * p2 = u2 * n2 + n2 * u2 /\ t0 * t1 - p0 * p1 = u0 * n1 + n0 * u1 /\
  t0 * t2 - p0 * p2 = u0 * n2 + n0 * u2 /\ t1 * t2 - p1 * p2 = u1 * n2 + n1 * u2.
Proof.
  rewrite SDR_TNP_closed_form.
  destruct (frame_orthonormal s d r) as (Hu & Hn & Hun).
  unfold dot3, slipv, normv in *. cbv zeta.
  exact (axes_tensor _ _ _ _ _ _ Hu Hn Hun).
Qed.

(* normal / slip from the angles: exactly the frame (first output: slip direction = normal of the auxiliary plane) *)
Theorem SDR_FP_closed_form s d r :
  SDR_FP s d r = (let '(u0, u1, u2) := slipv s d r in let '(n0, n1, n2) := normv s d in (u0, u1, u2, n0, n1, n2)).
Proof.
  unfold SDR_FP, slipv, normv. cbv zeta.
  norm_two s d r.
  repeat match goal with |- (_, _) = (_, _) => apply f_equal2 end; close_poly s d r.
Qed.

(* ---- numpy.mod with a positive modulus *)
Lemma Int_part_spec r z : IZR z <= r < IZR z + 1 -> z = Int_part r.
Proof.
  intros [H0 H1]. unfold Int_part.
  assert (E : (z + 1)%Z = up r) by (apply tech_up; rewrite plus_IZR; simpl; lra).
  rewrite <- E. ring.
Qed.
Lemma rmod_small x m : 0 < m -> 0 <= x < m -> rmod x m = x.
Proof.
  intros Hm [H0 H1]. unfold rmod, Rfloor.
  assert (E : Int_part (x / m) = 0%Z).
  { symmetry. apply Int_part_spec. simpl.
    assert (0 <= x / m < 1).
    { split; [apply Rmult_le_pos; [lra | left; apply Rinv_0_lt_compat; lra]|].
      apply Rmult_lt_reg_r with m; [lra|]. unfold Rdiv. rewrite Rmult_assoc, Rinv_l by lra. lra. }
    lra. }
  rewrite E. simpl. ring.
Qed.
Lemma rmod_neg x m : 0 < m -> - m <= x < 0 -> rmod x m = x + m.
Proof.
  intros Hm [H0 H1]. unfold rmod, Rfloor.
  assert (E : Int_part (x / m) = (-1)%Z).
  { symmetry. apply Int_part_spec.
    assert (-1 <= x / m < 0).
    { split.
      - apply Rmult_le_reg_r with m; [lra|]. unfold Rdiv. rewrite Rmult_assoc, Rinv_l by lra. lra.
      - apply Rmult_lt_reg_r with m; [lra|]. unfold Rdiv. rewrite Rmult_assoc, Rinv_l by lra. lra. }
    simpl. lra. }
  rewrite E. simpl. ring.
Qed.

(* ---- strike, dip and rake of a normal / slip pair *)
Ltac simp1 := rewrite ?sqrt_1; unfold Rdiv; rewrite ?Rinv_1, ?Rmult_1_r.

Definition sdr_of (n0 n1 n2 u0 u1 u2 : R) : R * R * R :=
  (rmod (atan2 (- n0) n1) (2 * PI),
   atan2 (n1 ^ 2 + n0 ^ 2) (sqrt ((n0 * n2) ^ 2 + (n1 * n2) ^ 2)),
   atan2 (- u2) (u0 * n1 - u1 * n0)).

Lemma dip_quadrant a b c : 0 <= atan2 (a ^ 2 + b ^ 2) (sqrt c) <= PI / 2.
Proof. apply atan2_quadrant1; [simpl; nra | apply sqrt_pos]. Qed.

Lemma FP_SDR_unit n0 n1 n2 u0 u1 u2 :
  n0 * n0 + n1 * n1 + n2 * n2 = 1 -> u0 * u0 + u1 * u1 + u2 * u2 = 1 -> n2 <= 0 ->
  FP_SDR n0 n1 n2 u0 u1 u2 = sdr_of n0 n1 n2 u0 u1 u2.
Proof.
  (* slow (about two minutes): unfolding duplicates every normalisation in each later use *)
  intros Hn Hu Hz. unfold FP_SDR, sdr_of. cbv zeta.
  rewrite Hu, Hn. simp1.
  destruct (Rlt_dec 0 n2) as [F|_]; [lra|].
  rewrite Hn. simp1.
  destruct (Rlt_dec 0 n2) as [F|_]; [lra|].
  pose proof (dip_quadrant n1 n0 ((n0 * n2) ^ 2 + (n1 * n2) ^ 2)) as Hdip.
  pose proof (atan2_range (- u2) (u0 * n1 - u1 * n0)) as Hrake.
  pose proof PI_RGT_0 as Hpi.
  destruct (Rlt_dec (PI * / 2) _) as [F|_]; [lra|].
  destruct (Rlt_dec PI _) as [F|_]; [lra|].
  destruct (Rlt_dec _ (- PI)) as [F|_]; [lra|].
  f_equal. f_equal.
  apply rmod_small; [lra|]. apply rmod_range. lra.
Qed.

Lemma strike_of_polar rho s : 0 < rho -> 0 <= s < 2 * PI -> rmod (atan2 (rho * sin s) (rho * cos s)) (2 * PI) = s.
Proof.
  intros Hr [H0 H1]. pose proof PI_RGT_0 as Hpi.
  destruct (Rle_dec s PI) as [L|L].
  - rewrite atan2_polar by lra. apply rmod_small; lra.
  - assert (Es : sin s = sin (s - 2 * PI)).
    { replace s with ((s - 2 * PI) + 2 * PI) at 1 by ring. rewrite sin_plus, sin_2PI, cos_2PI. ring. }
    assert (Ec : cos s = cos (s - 2 * PI)).
    { replace s with ((s - 2 * PI) + 2 * PI) at 1 by ring. rewrite cos_plus, sin_2PI, cos_2PI. ring. }
    rewrite Es, Ec, atan2_polar by lra. rewrite rmod_neg by lra. ring.
Qed.

Lemma frame_dip_y (s d r : R) : (cos s * sin d) ^ 2 + (- sin s * sin d) ^ 2 = sin d * sin d.
Proof. close_poly s d r. Qed.
Lemma frame_dip_x (s d r : R) :
  (- sin s * sin d * - cos d) ^ 2 + (cos s * sin d * - cos d) ^ 2 = (sin d * cos d) * (sin d * cos d).
Proof. close_poly s d r. Qed.
Lemma frame_rake_x s d r :
  (cos s * cos r + sin s * cos d * sin r) * (cos s * sin d) - (sin s * cos r - cos s * cos d * sin r) * (- sin s * sin d)
  = sin d * cos r.
Proof. close_poly s d r. Qed.

(* the fault normal and the slip direction give back the angles they were built from *)
Theorem FP_SDR_of_frame s d r : 0 <= s < 2 * PI -> 0 < d <= PI / 2 -> - PI < r <= PI ->
  (let '(n0, n1, n2) := normv s d in let '(u0, u1, u2) := slipv s d r in FP_SDR n0 n1 n2 u0 u1 u2) = (s, d, r).
Proof.
  intros Hs Hd Hr. pose proof PI_RGT_0 as Hpi.
  destruct (frame_orthonormal s d r) as (Hu & Hn & _).
  assert (Hcd : 0 <= cos d) by (apply cos_ge_0; lra).
  assert (Hsd : 0 < sin d) by (apply sin_gt_0; lra).
  unfold dot3, slipv, normv in *.
  rewrite FP_SDR_unit; [|exact Hn|exact Hu|lra].
  unfold sdr_of. f_equal; [f_equal|].
  - replace (- (- sin s * sin d)) with (sin d * sin s) by ring.
    replace (cos s * sin d) with (sin d * cos s) by ring.
    apply strike_of_polar; assumption.
  - rewrite (frame_dip_y s d r), (frame_dip_x s d r).
    rewrite sqrt_square by nra. apply atan2_polar; lra.
  - replace (- (- sin d * sin r)) with (sin d * sin r) by ring.
    rewrite (frame_rake_x s d r).
    apply atan2_polar; lra.
Qed.

(* ---- ranges of the angles returned for any pair of vectors *)
Theorem FP_SDR_range n0 n1 n2 u0 u1 u2 :
  let '(s, d, r) := FP_SDR n0 n1 n2 u0 u1 u2 in 0 <= s < 2 * PI /\ 0 <= d <= PI / 2 /\ - PI <= r <= PI.
Proof.
  unfold FP_SDR. cbv zeta. pose proof PI_RGT_0 as Hpi.
  match goal with |- context [Rlt_dec (PI / 2) (atan2 (?a ^ 2 + ?b ^ 2) (sqrt ?c))] =>
    pose proof (dip_quadrant a b c) as Hdip; set (A := atan2 (a ^ 2 + b ^ 2) (sqrt c)) in * end.
  match goal with |- context [Rlt_dec PI (if _ then _ else atan2 ?y ?x)] =>
    pose proof (atan2_range y x) as Hrake; set (B := atan2 y x) in * end.
  split; [apply rmod_range; lra|].
  destruct (Rlt_dec (PI / 2) A) as [F|_]; [lra|].
  split; [lra|].
  destruct (Rlt_dec PI B) as [F|_]; [lra|].
  destruct (Rlt_dec B (- PI)) as [F|_]; lra.
Qed.

(* the axes give back the normal / slip pair (as an unordered pair: the two nodal planes are not distinguished by axes) *)
Theorem TP_FP_of_axes s d r :
  (let '(t0, t1, t2, _, _, _, p0, p1, p2) := SDR_TNP s d r in TP_FP t0 t1 t2 p0 p1 p2) =
  (let '(u0, u1, u2) := slipv s d r in let '(n0, n1, n2) := normv s d in (u0, u1, u2, n0, n1, n2)).
Proof.
  rewrite SDR_TNP_closed_form. unfold TP_FP, slipv, normv. cbv zeta.
  norm_two s d r.
  repeat match goal with |- (_, _) = (_, _) => apply f_equal2 end; close_poly s d r.
Qed.
