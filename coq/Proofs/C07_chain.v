(* C07: bookkeeping invariants of a Markov-chain run (Model/Chain.v), over every history of
   proposals and accept/reject decisions. *)
From Coq Require Import ZArith List Bool Lia.
From MTV.Model Require Import Chain.
Import ListNotations.
Open Scope Z_scope.

(* keep [simpl] from unfolding integer arithmetic and list surgery (term blow-up otherwise) *)
Arguments Z.add : simpl never.
Arguments Z.mul : simpl never.
Arguments Z.sub : simpl never.
Arguments Z.of_nat : simpl never.
Arguments Z.to_nat : simpl never.
Arguments Z.ltb : simpl never.
Arguments Z.leb : simpl never.
Arguments Z.eqb : simpl never.
Arguments lastn : simpl never.
Arguments length : simpl never.
Arguments app : simpl never.
Arguments iterate : simpl never.

Definition count_dc (l : list src) : Z := Z.of_nat (length (filter s_dc l)).

Lemma count_dc_app a b : count_dc (a ++ b) = count_dc a + count_dc b.
Proof. unfold count_dc. rewrite filter_app, app_length. lia. Qed.

(* the three phases of a run *)
Definition in_learning (s : cst) : Prop :=
  n_learn s < learning_length s /\ tried s = -1 /\ accepted s = -1 /\ chain s = [] /\ p_dc s = 0.
Definition before_first (s : cst) : Prop :=
  learning_length s <= n_learn s /\ tried s = -1 /\ accepted s = -1 /\ chain s = [] /\ p_dc s = 0.
Definition in_chain (s : cst) : Prop :=
  learning_length s <= n_learn s /\ 1 <= tried s /\ 0 <= accepted s <= tried s /\
  Z.of_nat (length (chain s)) = tried s + 1 /\ last (chain s) (cur s) = cur s /\
  (exists x r, chain s = x :: x :: r) /\ p_dc s = count_dc (chain s).

Definition Inv (s : cst) : Prop := in_learning s \/ before_first s \/ in_chain s.

Definition finite (x : src) : Prop := s_lnp x <> None.

Lemma learning_true s : learning s = true <-> n_learn s < learning_length s.
Proof. unfold learning. apply Z.ltb_lt. Qed.
Lemma learning_false s : learning s = false <-> learning_length s <= n_learn s.
Proof. unfold learning. apply Z.ltb_ge. Qed.

Ltac lrn :=
  repeat match goal with
  | H : learning _ = true |- _ => apply learning_true in H; simpl in H
  | H : learning _ = false |- _ => apply learning_false in H; simpl in H
  end.

(* the configuration fields never change *)
Definition same_params (s s' : cst) : Prop :=
  learning_length s' = learning_length s /\ window s' = window s /\ chain_length s' = chain_length s.

Lemma add_params s x : same_params s (add s x).
Proof. unfold add, same_params. destruct (learning s); simpl; auto. Qed.
Lemma add_new_params s x : same_params s (add_new s x).
Proof. pose proof (add_params s x) as H. unfold add_new, same_params in *. destruct (learning (add s x)); simpl; exact H. Qed.
Lemma add_old_params s : same_params s (add_old s).
Proof. pose proof (add_params s (cur s)) as H. unfold add_old, same_params in *. destruct (learning (add s (cur s))); simpl; exact H. Qed.
Lemma set_win_params s w d : same_params s (set_win s w d).
Proof. unfold set_win, same_params. simpl. auto. Qed.
Lemma same_params_trans a b c : same_params a b -> same_params b c -> same_params a c.
Proof. unfold same_params. intros [A1 [A2 A3]] [B1 [B2 B3]]. repeat split; congruence. Qed.

Lemma iterate_params s x a : let s' := fst (iterate s x a) in
  learning_length s' = learning_length s /\ window s' = window s /\ chain_length s' = chain_length s.
Proof.
  unfold iterate. cbn [fst].
  assert (H1 : same_params s (stage1 s x a)) by (unfold stage1; destruct a; [apply add_new_params|apply add_old_params]).
  assert (H2 : same_params s (stage2 (stage1 s x a))).
  { unfold stage2. destruct (learning _ && _); [eapply same_params_trans; [exact H1|apply set_win_params]|exact H1]. }
  set (s2 := stage2 (stage1 s x a)) in *. unfold stage3. destruct (learning s2); [exact H2|]. destruct (tried s2 =? 0); [|exact H2].
  eapply same_params_trans; [exact H2|]. cbv zeta.
  destruct (3 * window s2 <? _); [eapply same_params_trans; [apply set_win_params|apply add_new_params]|apply add_new_params].
Qed.

Lemma last_app_single (l : list src) x d : last (l ++ [x]) d = x.
Proof. apply last_last. Qed.

(* explicit forms of the elementary updates, by phase *)
Ltac proj := cbn [learning_length window chain_length n_learn win tried accepted cur chain p_dc adapts].

Lemma add_learning s x : learning s = true ->
  add s x = mkC (learning_length s) (window s) (chain_length s) (n_learn s) (win s) (tried s) (accepted s) x (chain s) (p_dc s) (adapts s).
Proof. intros H. unfold add. rewrite H. reflexivity. Qed.

Lemma add_recording s x : learning s = false ->
  add s x = mkC (learning_length s) (window s) (chain_length s) (n_learn s) (win s) (tried s + 1) (accepted s) x
                (match s_lnp x with Some _ => chain s ++ [x] | None => chain s end)
                (if s_dc x then p_dc s + 1 else p_dc s) (adapts s).
Proof. intros H. unfold add. rewrite H. reflexivity. Qed.

(* the outcome of one iteration, phase by phase, as an explicit record *)
Lemma iterate_in_learning_accept_stays s x : in_learning s -> n_learn s + 1 < learning_length s ->
  fst (iterate s x true) =
  mkC (learning_length s) (window s) (chain_length s) (n_learn s + 1)
      (if window s <=? Z.of_nat (length (win s ++ [true])) then [] else win s ++ [true])
      (tried s) (accepted s) x (chain s) (p_dc s)
      (if window s <=? Z.of_nat (length (win s ++ [true])) then adapts s + 1 else adapts s).
Proof.
  intros [L1 _] L2. assert (HL : learning s = true) by (apply learning_true; exact L1).
  unfold iterate. cbn [fst]. unfold stage1, add_new. rewrite (add_learning s x HL).
  unfold learning at 1. proj. rewrite (proj2 (Z.ltb_lt _ _) L1).
  unfold stage2. unfold learning at 1. proj. rewrite (proj2 (Z.ltb_lt _ _) L2). rewrite andb_true_l.
  destruct (window s <=? Z.of_nat (length (win s ++ [true]))); unfold set_win; proj;
    unfold stage3, learning; proj; rewrite (proj2 (Z.ltb_lt _ _) L2); reflexivity.
Qed.

Lemma iterate_in_learning_accept_ends s x : in_learning s -> learning_length s <= n_learn s + 1 ->
  fst (iterate s x true) =
  mkC (learning_length s) (window s) (chain_length s) (n_learn s + 1) (win s ++ [true]) (tried s) (accepted s) x (chain s) (p_dc s) (adapts s).
Proof.
  intros [L1 [L2 _]] L3. assert (HL : learning s = true) by (apply learning_true; exact L1).
  unfold iterate. cbn [fst]. unfold stage1, add_new. rewrite (add_learning s x HL).
  unfold learning at 1. proj. rewrite (proj2 (Z.ltb_lt _ _) L1).
  unfold stage2. unfold learning at 1. proj. rewrite (proj2 (Z.ltb_ge _ _) L3). rewrite andb_false_l.
  unfold stage3. unfold learning at 1. proj. rewrite (proj2 (Z.ltb_ge _ _) L3).
  rewrite L2. reflexivity.
Qed.

Lemma iterate_in_learning_reject s x : in_learning s ->
  fst (iterate s x false) =
  mkC (learning_length s) (window s) (chain_length s) (n_learn s)
      (if window s <=? Z.of_nat (length (win s ++ [false])) then [] else win s ++ [false])
      (tried s) (accepted s) (cur s) (chain s) (p_dc s)
      (if window s <=? Z.of_nat (length (win s ++ [false])) then adapts s + 1 else adapts s).
Proof.
  intros [L1 _]. assert (HL : learning s = true) by (apply learning_true; exact L1).
  unfold iterate. cbn [fst]. unfold stage1, add_old. rewrite (add_learning s (cur s) HL).
  unfold learning at 1. proj. rewrite (proj2 (Z.ltb_lt _ _) L1).
  unfold stage2. unfold learning at 1. proj. rewrite (proj2 (Z.ltb_lt _ _) L1). rewrite andb_true_l.
  destruct (window s <=? Z.of_nat (length (win s ++ [false]))); unfold set_win; proj;
    unfold stage3, learning; proj; rewrite (proj2 (Z.ltb_lt _ _) L1); reflexivity.
Qed.

(* first proposal after the learning period: y = the state reached (x if accepted, else the current one) *)
Lemma iterate_before_first (s : cst) (x : src) (a : bool) : before_first s ->
  let y := if a then x else cur s in
  exists w' ad', fst (iterate s x a) =
  mkC (learning_length s) (window s) (chain_length s) (n_learn s) w' 1 (if a then 1 else 0) y
      (match s_lnp y with Some _ => (match s_lnp y with Some _ => [] ++ [y] | None => [] end) ++ [y] | None => (match s_lnp y with Some _ => [] ++ [y] | None => [] end) end)
      (if s_dc y then (if s_dc y then 0 + 1 else 0) + 1 else (if s_dc y then 0 + 1 else 0)) ad'.
Proof.
  intros [B1 [B2 [B3 [B4 B5]]]] y. assert (HL : learning s = false) by (apply learning_false; exact B1).
  unfold iterate. cbn [fst].
  assert (E1 : stage1 s x a =
               mkC (learning_length s) (window s) (chain_length s) (n_learn s) (win s) 0 (if a then 0 else -1) y
                   (match s_lnp y with Some _ => [] ++ [y] | None => [] end) (if s_dc y then 0 + 1 else 0) (adapts s)).
  { subst y. unfold stage1. destruct a.
    - unfold add_new. rewrite (add_recording s x HL). unfold learning at 1. proj. rewrite (proj2 (Z.ltb_ge _ _) B1). proj.
      rewrite B2, B3, B4, B5. reflexivity.
    - unfold add_old. rewrite (add_recording s (cur s) HL). unfold learning at 1. proj. rewrite (proj2 (Z.ltb_ge _ _) B1).
      rewrite B2, B3, B4, B5. reflexivity. }
  rewrite E1. clear E1.
  unfold stage2. unfold learning at 1. proj. rewrite (proj2 (Z.ltb_ge _ _) B1). rewrite andb_false_l.
  unfold stage3. unfold learning at 1. proj. rewrite (proj2 (Z.ltb_ge _ _) B1).
  change (0 =? 0) with true. cbv iota zeta.
  match goal with |- context [if ?c then set_win ?s0 ?t 1 else ?s0] => destruct c end.
  - unfold set_win. proj. unfold add_new. rewrite add_recording by (unfold learning; proj; apply Z.ltb_ge; exact B1). proj.
    unfold learning at 1. proj. rewrite (proj2 (Z.ltb_ge _ _) B1). proj. eexists _, _. destruct a; reflexivity.
  - unfold add_new. rewrite add_recording by (unfold learning; proj; apply Z.ltb_ge; exact B1). proj.
    unfold learning at 1. proj. rewrite (proj2 (Z.ltb_ge _ _) B1). proj. eexists _, _. destruct a; reflexivity.
Qed.

Lemma iterate_in_chain (s : cst) (x : src) (a : bool) : in_chain s ->
  let y := if a then x else cur s in
  fst (iterate s x a) =
  mkC (learning_length s) (window s) (chain_length s) (n_learn s) (win s) (tried s + 1) (if a then accepted s + 1 else accepted s) y
      (match s_lnp y with Some _ => chain s ++ [y] | None => chain s end) (if s_dc y then p_dc s + 1 else p_dc s) (adapts s).
Proof.
  intros [C1 [C2 _]] y. assert (HL : learning s = false) by (apply learning_false; exact C1).
  unfold iterate. cbn [fst].
  assert (E1 : stage1 s x a =
               mkC (learning_length s) (window s) (chain_length s) (n_learn s) (win s) (tried s + 1) (if a then accepted s + 1 else accepted s) y
                   (match s_lnp y with Some _ => chain s ++ [y] | None => chain s end) (if s_dc y then p_dc s + 1 else p_dc s) (adapts s)).
  { subst y. unfold stage1. destruct a.
    - unfold add_new. rewrite (add_recording s x HL). unfold learning at 1. proj. rewrite (proj2 (Z.ltb_ge _ _) C1). reflexivity.
    - unfold add_old. rewrite (add_recording s (cur s) HL). unfold learning at 1. proj. rewrite (proj2 (Z.ltb_ge _ _) C1). reflexivity. }
  rewrite E1. clear E1.
  unfold stage2. unfold learning at 1. proj. rewrite (proj2 (Z.ltb_ge _ _) C1). rewrite andb_false_l.
  unfold stage3. unfold learning at 1. proj. rewrite (proj2 (Z.ltb_ge _ _) C1).
  destruct (tried s + 1 =? 0) eqn:E0; [apply Z.eqb_eq in E0; lia|]. reflexivity.
Qed.

Lemma iterate_inv s x a : finite x -> finite (cur s) -> Inv s ->
  Inv (fst (iterate s x a)) /\ finite (cur (fst (iterate s x a))) /\
  In (cur (fst (iterate s x a))) [x; cur s] /\
  (forall e, In e (chain (fst (iterate s x a))) -> In e (chain s) \/ e = x \/ e = cur s).
Proof.
  intros Fx Fc I.
  destruct I as [L|[B|C]].
  - (* learning period: nothing is recorded *)
    pose proof L as [L1 [L2 [L3 [L4 L5]]]].
    destruct a.
    + destruct (Z.lt_ge_cases (n_learn s + 1) (learning_length s)) as [H|H].
      * rewrite (iterate_in_learning_accept_stays s x L H). proj.
        split; [left; unfold in_learning; proj; repeat split; assumption|].
        split; [exact Fx|]. split; [left; reflexivity|]. intros e He. left. exact He.
      * rewrite (iterate_in_learning_accept_ends s x L H). proj.
        split; [right; left; unfold before_first; proj; repeat split; assumption|].
        split; [exact Fx|]. split; [left; reflexivity|]. intros e He. left. exact He.
    + rewrite (iterate_in_learning_reject s x L). proj.
      split; [left; unfold in_learning; proj; repeat split; assumption|].
      split; [exact Fc|]. split; [right; left; reflexivity|]. intros e He. left. exact He.
  - (* first proposal after the learning period: recorded, and held once more *)
    pose proof B as [B1 _].
    destruct (iterate_before_first s x a B) as [w' [ad' E]]. rewrite E. clear E. proj.
    set (y := if a then x else cur s).
    assert (Fy : finite y) by (unfold y; destruct a; assumption).
    destruct (s_lnp y) as [ly|] eqn:Ey; [|exfalso; apply Fy; exact Ey].
    split.
    { right; right. unfold in_chain. proj.
      repeat split;
        first [ exact B1 | lia | (destruct a; lia) | reflexivity | (exists y, []; reflexivity)
              | (change (count_dc (([] ++ [y]) ++ [y])) with (count_dc [y; y]); unfold count_dc, filter; destruct (s_dc y); reflexivity) ]. }
    split; [exact Fy|]. split; [unfold y; destruct a; [left|right; left]; reflexivity|].
    intros e He. simpl in He. unfold y in He. destruct a; destruct He as [He|[He|[]]]; subst; auto.
  - pose proof C as [C1 [C2 [C3 [C4 [C5 [[z [r C6]] C7]]]]]].
    rewrite (iterate_in_chain s x a C). proj.
    set (y := if a then x else cur s).
    assert (Fy : finite y) by (unfold y; destruct a; assumption).
    destruct (s_lnp y) as [ly|] eqn:Ey; [|exfalso; apply Fy; exact Ey].
    split.
    { right; right. unfold in_chain. proj.
      repeat split;
        first [ exact C1 | lia | (destruct a; lia) | (rewrite app_length; change (length [y]) with 1%nat; lia)
              | apply last_app_single | (exists z, (r ++ [y]); rewrite C6; reflexivity)
              | (rewrite count_dc_app, C7; change (count_dc [y]) with (Z.of_nat (length (if s_dc y then [y] else []))); destruct (s_dc y); [change (Z.of_nat (length [y])) with 1|change (Z.of_nat (@length src [])) with 0]; lia) ]. }
    split; [exact Fy|]. split; [unfold y; destruct a; [left|right; left]; reflexivity|].
    intros e He. apply in_app_or in He. destruct He as [He|[He|[]]]; [left; exact He|]. unfold y in He. destruct a; subst; auto.
Qed.

(* how the tried counter moves *)
Lemma iterate_tried s x a : Inv s ->
  (in_learning s -> tried (fst (iterate s x a)) = -1) /\
  (before_first s -> tried (fst (iterate s x a)) = 1) /\
  (in_chain s -> tried (fst (iterate s x a)) = tried s + 1 /\
                 accepted (fst (iterate s x a)) = accepted s + (if a then 1 else 0)).
Proof.
  intros _. repeat split.
  - intros L. pose proof L as [L1 [L2 _]]. destruct a.
    + destruct (Z.lt_ge_cases (n_learn s + 1) (learning_length s)) as [H|H];
        [rewrite (iterate_in_learning_accept_stays s x L H)|rewrite (iterate_in_learning_accept_ends s x L H)]; exact L2.
    + rewrite (iterate_in_learning_reject s x L). exact L2.
  - intros B. destruct (iterate_before_first s x a B) as [w' [ad' E]]. rewrite E. reflexivity.
  - rewrite (iterate_in_chain s x a H). reflexivity.
  - rewrite (iterate_in_chain s x a H). proj. destruct a; lia.
Qed.

Lemma iterate_end s x a : snd (iterate s x a) = (chain_length (fst (iterate s x a)) <=? tried (fst (iterate s x a))).
Proof. reflexivity. Qed.

(* ---- whole runs ------------------------------------------------------------------------------------ *)
Definition all_finite (ops : list (src * bool)) : Prop := forall o, In o ops -> finite (fst o).

Lemma run_cons s x a ops :
  run s ((x, a) :: ops) = (if snd (iterate s x a) then (fst (iterate s x a), true) else run (fst (iterate s x a)) ops).
Proof. cbn [run]. destruct (iterate s x a) as [s1 e]. reflexivity. Qed.

Theorem run_invariant ops : forall s, finite (cur s) -> all_finite ops -> Inv s ->
  let '(s', e) := run s ops in
  Inv s' /\ finite (cur s') /\
  (forall en, In en (chain s') -> In en (chain s) \/ In en (map fst ops) \/ en = cur s) /\
  (e = true -> chain_length s' <= tried s') /\
  (e = false -> tried s' < chain_length s' \/ ops = []) /\
  chain_length s' = chain_length s /\ learning_length s' = learning_length s.
Proof.
  induction ops as [|[x a] ops IH]; intros s Fc Fa I.
  - simpl. split; [exact I|]. split; [exact Fc|]. split; [intros en H; left; exact H|].
    split; [discriminate|]. split; [intros _; right; reflexivity|]. split; reflexivity.
  - rewrite run_cons. cbn [map fst]. destruct (iterate s x a) as [s1 e1] eqn:E. cbn [fst snd].
    assert (Fx : finite x) by (apply (Fa (x, a)); left; reflexivity).
    destruct (iterate_inv s x a Fx Fc I) as [I1 [F1 [Hc1 Hch]]]. rewrite E in I1, F1, Hc1, Hch. cbn [fst] in I1, F1, Hc1, Hch.
    pose proof (iterate_params s x a) as P. rewrite E in P. cbn [fst] in P. destruct P as [P1 [P2 P3]].
    pose proof (iterate_end s x a) as He. rewrite E in He. cbn [fst snd] in He.
    destruct e1; cbv iota beta.
    + split; [exact I1|]. split; [exact F1|].
      split; [intros en Hen; destruct (Hch en Hen) as [H|[H|H]]; [left; exact H|right; left; left; symmetry; exact H|right; right; exact H]|].
      split; [intros _; symmetry in He; apply Z.leb_le in He; exact He|].
      split; [discriminate|]. split; [exact P3|exact P1].
    + assert (Fa' : all_finite ops) by (intros o Ho; apply Fa; right; exact Ho).
      specialize (IH s1 F1 Fa' I1). destruct (run s1 ops) as [s' e'] eqn:R.
      destruct IH as [J1 [J2 [J3 [J4 [J5 [J6 J7]]]]]].
      split; [exact J1|]. split; [exact J2|].
      split.
      { intros en Hen. destruct (J3 en Hen) as [H|[H|H]].
        - destruct (Hch en H) as [H'|[H'|H']]; [left; exact H'|right; left; left; symmetry; exact H'|right; right; exact H'].
        - right; left; right; exact H.
        - subst en. destruct Hc1 as [H'|[H'|[]]]; [right; left; left; exact H'|right; right; symmetry; exact H']. }
      split; [exact J4|].
      split.
      { intros He'. destruct (J5 He') as [H|H]; [left; exact H|].
        subst ops. simpl in R. inversion R; subst. left. symmetry in He. apply Z.leb_gt in He. exact He. }
      split; [rewrite J6; exact P3|rewrite J7; exact P1].
Qed.

(* the initial state satisfies the invariant *)
Lemma init_inv ll w cl x0 : Inv (init ll w cl x0).
Proof.
  unfold Inv, in_learning, before_first, init. simpl.
  destruct (Z.lt_ge_cases 0 ll); [left|right; left]; repeat split; try reflexivity; lia.
Qed.

(* stops exactly when the number of tried proposals reaches the chain length (for chain lengths >= 1) *)
Theorem stops_exactly_at_chain_length ops : forall s, finite (cur s) -> all_finite ops -> Inv s ->
  tried s < chain_length s -> 1 <= chain_length s ->
  let '(s', e) := run s ops in e = true -> tried s' = chain_length s.
Proof.
  induction ops as [|[x a] ops IH]; intros s Fc Fa I Ht Hc; [simpl; discriminate|].
  rewrite run_cons. destruct (iterate s x a) as [s1 e1] eqn:E. cbn [fst snd].
  assert (Fx : finite x) by (apply (Fa (x, a)); left; reflexivity).
  destruct (iterate_inv s x a Fx Fc I) as [I1 [F1 _]]. rewrite E in I1, F1. simpl in I1, F1.
  pose proof (iterate_tried s x a I) as T. rewrite E in T. simpl in T. destruct T as [T1 [T2 T3]].
  pose proof (iterate_params s x a) as P. rewrite E in P. simpl in P. destruct P as [P1 [P2 P3]].
  pose proof (iterate_end s x a) as He. rewrite E in He. simpl in He.
  assert (Ht1 : tried s1 <= chain_length s).
  { destruct I as [I|[I|I]]; [rewrite (T1 I); lia|rewrite (T2 I); lia|destruct (T3 I) as [T _]; rewrite T; lia]. }
  destruct e1.
  - intros _. symmetry in He. apply Z.leb_le in He. lia.
  - symmetry in He. apply Z.leb_gt in He.
    assert (Fa' : all_finite ops) by (intros o Ho; apply Fa; right; exact Ho).
    specialize (IH s1 F1 Fa' I1 ltac:(lia) ltac:(lia)). destruct (run s1 ops) as [s' e']. rewrite P3 in IH. exact IH.
Qed.

(* the accepted counter is the number of accepted proposals of the chain phase *)
Theorem accepted_counts_acceptances s x a : in_chain s ->
  accepted (fst (iterate s x a)) = accepted s + (if a then 1 else 0) /\ tried (fst (iterate s x a)) = tried s + 1.
Proof.
  intros I. destruct (iterate_tried s x a (or_intror (or_intror I))) as [_ [_ T]]. destruct (T I) as [T1 T2]. split; assumption.
Qed.
