(* The worker pool (Model/Pool.v): exactly-once delivery under every schedule; collection terminates and returns
   precisely the outstanding non-status results for every arrival order. *)
From Coq Require Import ZArith List Bool Lia Sorting.Permutation.
From MTV.Model Require Import Pool.
Import ListNotations.
Open Scope Z_scope.

Definition noncode (o : outcome) : bool := negb (is_code o).

(* ---- collection as a function of the arrival order *)
Fixpoint skip_codes (arr : list outcome) : list outcome :=
  match arr with
  | r :: arr' => if is_code r then skip_codes arr' else arr
  | [] => []
  end.

Lemma skip_codes_length arr : (length (skip_codes arr) <= length arr)%nat.
Proof. induction arr as [|r arr IH]; [cbn; lia|]. cbn. destruct (is_code r); cbn; lia. Qed.

Lemma filter_skip arr : filter noncode arr = filter noncode (skip_codes arr).
Proof.
  induction arr as [|r arr IH]; [reflexivity|]. cbn [skip_codes].
  destruct (is_code r) eqn:E; [cbn [filter]; unfold noncode at 1; rewrite E; exact IH | reflexivity].
Qed.

Lemma result_fn_spec arr : arr <> [] ->
  result_fn arr (Z.of_nat (length arr)) =
  match skip_codes arr with
  | r :: rest => Some (Some r, rest, Z.of_nat (length rest))
  | [] => Some (None, [], 0)
  end.
Proof.
  induction arr as [|r arr IH]; [contradiction|]. intros _.
  cbn [result_fn skip_codes length]. rewrite Nat2Z.inj_succ.
  replace (Z.succ (Z.of_nat (length arr)) - 1) with (Z.of_nat (length arr)) by lia.
  destruct (is_code r) eqn:E; [|reflexivity].
  destruct arr as [|r' arr'].
  - cbn. reflexivity.
  - assert (Hpos : (Z.of_nat (length (r' :: arr')) <=? 0) = false) by (apply Z.leb_gt; cbn [length]; lia).
    rewrite Hpos. apply IH. discriminate.
Qed.

Lemma skip_codes_head l y t : skip_codes l = y :: t -> is_code y = false.
Proof.
  induction l as [|a l IH]; intros H; [discriminate|]. cbn in H.
  destruct (is_code a) eqn:Ea; [apply IH; exact H | injection H as -> _; exact Ea].
Qed.

Lemma all_results_fn_done fuel arr acc : (length arr < fuel)%nat ->
  all_results_fn result_fn fuel arr (Z.of_nat (length arr)) acc = Done (acc ++ filter noncode arr).
Proof.
  revert arr acc; induction fuel as [|fuel IH]; intros arr acc Hf; [lia|].
  destruct arr as [|r arr].
  - cbn. rewrite app_nil_r. reflexivity.
  - cbn [all_results_fn].
    assert (Hnz : (Z.of_nat (length (r :: arr)) =? 0) = false) by (apply Z.eqb_neq; cbn [length]; lia).
    rewrite Hnz, result_fn_spec by discriminate.
    rewrite (filter_skip (r :: arr)).
    pose proof (skip_codes_length (r :: arr)) as Hl.
    destruct (skip_codes (r :: arr)) as [|x rest] eqn:Esk.
    + change 0 with (Z.of_nat (length (@nil outcome))).
      rewrite (IH [] acc) by (cbn; lia). reflexivity.
    + pose proof (skip_codes_head _ _ _ Esk) as Hx.
      rewrite IH by (cbn [length] in *; lia).
      cbn [filter]. unfold noncode at 2. rewrite Hx. cbn [negb]. rewrite <- app_assoc. reflexivity.
Qed.

(* collecting all results terminates for every arrival order and returns precisely the outstanding results that are not
   status codes, in arrival order *)
Theorem all_results_returns_outstanding arr : all_results arr = Done (filter noncode arr).
Proof. unfold all_results. rewrite all_results_fn_done by lia. reflexivity. Qed.

(* result() never blocks while something is outstanding *)
Theorem result_never_blocks arr : arr <> [] -> result_fn arr (Z.of_nat (length arr)) <> None.
Proof. intros H. rewrite result_fn_spec by exact H. destruct (skip_codes arr); discriminate. Qed.

(* the code before the repair blocked when the last result to arrive was a status code *)
Theorem all_results_old_refuted : exists arr, all_results_old arr = Blocked [].
Proof. exists [Code 10]. reflexivity. Qed.

(* ---- exactly once, under every schedule *)
(* number of occurrences of an outcome in a list *)
Fixpoint cnt (o : outcome) (l : list outcome) : Z :=
  match l with [] => 0 | x :: l' => (if o_eqb o x then 1 else 0) + cnt o l' end.

Lemma cnt_app o a b : cnt o (a ++ b) = cnt o a + cnt o b.
Proof. induction a as [|x a IH]; [reflexivity|]. cbn [app cnt]. rewrite IH. lia. Qed.

Lemma cnt_remove_nth o k l x : nth_error l k = Some x ->
  cnt o l = (if o_eqb o x then 1 else 0) + cnt o (remove_nth k l).
Proof.
  revert l; induction k as [|k IH]; intros [|y l] H; try discriminate.
  - cbn in H. injection H as ->. reflexivity.
  - cbn in H. cbn [remove_nth cnt]. rewrite (IH l H). lia.
Qed.
Lemma remove_nth_length {A} k (l : list A) x : nth_error l k = Some x -> length l = S (length (remove_nth k l)).
Proof.
  revert l; induction k as [|k IH]; intros [|y l] H; try discriminate; [reflexivity|].
  cbn in H. cbn. f_equal. apply IH. exact H.
Qed.

Definition Inv (s : pool) : Prop :=
  (forall o, cnt o (submitted s) = cnt o (queue s) + cnt o (running s) + cnt o (results s) + cnt o (delivered s) + cnt o (skipped s)) /\
  jobs s = Z.of_nat (length (queue s) + length (running s) + length (results s)) /\
  (forall o, In o (delivered s) -> is_code o = false) /\ (forall o, In o (skipped s) -> is_code o = true).

Lemma Inv_step s o : Inv s -> Inv (step s o).
Proof.
  intros (P & J & D & K). destruct o as [t| |k|]; cbn [step].
  - (* Submit *)
    unfold Inv. cbn. repeat split; auto.
    + intros o. rewrite !cnt_app, P. cbn [cnt]. lia.
    + rewrite J, app_length. cbn [length]. lia.
  - (* Start *)
    destruct (queue s) as [|t q] eqn:Q; [unfold Inv; rewrite Q; auto|].
    unfold Inv. cbn. repeat split; auto.
    + intros o. rewrite P, cnt_app. cbn [cnt]. lia.
    + rewrite J, app_length. cbn [length]. lia.
  - (* Finish *)
    destruct (nth_error (running s) k) as [t|] eqn:E; [|unfold Inv; auto].
    unfold Inv. cbn. repeat split; auto.
    + intros o. rewrite P, cnt_app, (cnt_remove_nth o k (running s) t E). cbn [cnt]. lia.
    + rewrite J, app_length, (remove_nth_length k (running s) t E). cbn [length]. lia.
  - (* Pop *)
    destruct (results s) as [|r rs] eqn:R; [unfold Inv; rewrite R; auto|].
    destruct (is_code r) eqn:C; unfold Inv; cbn; repeat split; auto.
    + intros o. rewrite P, cnt_app. cbn [cnt]. lia.
    + rewrite J. cbn [length]. lia.
    + intros o H. apply in_app_or in H. destruct H as [H|[<-|[]]]; [apply K; exact H | exact C].
    + intros o. rewrite P, cnt_app. cbn [cnt]. lia.
    + rewrite J. cbn [length]. lia.
    + intros o H. apply in_app_or in H. destruct H as [H|[<-|[]]]; [apply D; exact H | exact C].
Qed.

Lemma Inv_run_from ops s : Inv s -> Inv (fold_left step ops s).
Proof. revert s; induction ops as [|o ops IH]; intros s H; [exact H|]. cbn. apply IH, Inv_step, H. Qed.

Theorem every_schedule_accounts_each_task_once ops : Inv (run ops).
Proof. apply Inv_run_from. unfold Inv. cbn. repeat split; auto; intros o []. Qed.

Lemma cnt_noncode_skipped o l : is_code o = false -> (forall x, In x l -> is_code x = true) -> cnt o l = 0.
Proof.
  intros Ho H. induction l as [|x l IH]; [reflexivity|]. cbn [cnt].
  rewrite IH by (intros; apply H; right; assumption).
  destruct (o_eqb o x) eqn:E; [|reflexivity].
  assert (o = x) by (destruct o, x; cbn in E; try discriminate; apply Z.eqb_eq in E; subst; reflexivity).
  subst. rewrite (H x (or_introl eq_refl)) in Ho. discriminate.
Qed.

(* when nothing is outstanding, every submitted task that did not return a status code has been delivered exactly as
   often as it was submitted (no loss, no duplication), and nothing else was delivered *)
Theorem quiescent_exactly_once ops : let s := run ops in
  queue s = [] -> running s = [] -> results s = [] ->
  jobs s = 0 /\ (forall o, is_code o = false -> cnt o (delivered s) = cnt o (submitted s)) /\
  (forall o, In o (delivered s) -> is_code o = false).
Proof.
  cbv zeta. intros Q Rn Rs. destruct (every_schedule_accounts_each_task_once ops) as (P & J & D & K).
  rewrite Q, Rn, Rs in *. split; [exact J|]. split; [|exact D].
  intros o Ho. rewrite P. cbn [cnt]. rewrite (cnt_noncode_skipped o _ Ho K). lia.
Qed.
