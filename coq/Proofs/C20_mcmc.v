(* Source-level equivalence of the scalar acceptance kernels of cmarkov_chain_monte_carlo.pyx (Gen/KernelsMC.v) with the
   acceptance rules, proposal densities and priors of markov_chain_monte_carlo.py (Gen/MCMC.v). *)
From Coq Require Import Reals Lra Sumbool.
From MTV.Lib Require Import Base State.
From MTV.Gen Require Import MCMC KernelsMC.
Open Scope R_scope.

Section MC.
Variables erf Phi : R -> R.
Hypothesis HPhi : forall t, Phi t = (1 + erf (t / sqrt 2)) / 2.

Lemma cdf_Phi x mu s : gaussian_cdf erf x mu s = Phi ((x - mu) / s).
Proof.
  unfold gaussian_cdf. rewrite HPhi.
  replace ((x - mu) / (s * sqrt 2)) with ((x - mu) / s / sqrt 2) by (unfold Rdiv; rewrite Rinv_mult; ring).
  unfold Rdiv. ring.
Qed.

Lemma half_erf a s : (1 / 2) * (1 + erf (a / (s * sqrt 2))) = Phi (a / s).
Proof.
  rewrite HPhi. replace (a / (s * sqrt 2)) with (a / s / sqrt 2) by (unfold Rdiv; rewrite Rinv_mult; ring).
  unfold Rdiv. ring.
Qed.

(* truncation masses of the proposal, as the Python transition_pdf writes them *)
Definition Nhs (h0 hs s0 ss : R) : R :=
  (Phi ((1 - h0) / hs) - Phi ((0 - h0) / hs)) * (Phi ((PI / 2 - s0) / ss) - Phi ((- PI / 2 - s0) / ss)).
Definition Ngd (g0 gs d0 ds : R) : R :=
  (Phi ((PI / 6 - g0) / gs) - Phi ((- PI / 6 - g0) / gs)) * (Phi ((PI / 2 - d0) / ds) - Phi ((- PI / 2 - d0) / ds)).

Lemma transition_dc_mass h0 hs s0 ss : gaussian_transition_dc erf h0 hs s0 ss = 1 / Nhs h0 hs s0 ss.
Proof. unfold gaussian_transition_dc, Nhs. cbv zeta. rewrite !half_erf. reflexivity. Qed.

Lemma transition_mt_mass g0 gs d0 ds h0 hs s0 ss :
  gaussian_transition_mt erf g0 gs d0 ds h0 hs s0 ss = 1 / Nhs h0 hs s0 ss / Ngd g0 gs d0 ds.
Proof. unfold gaussian_transition_mt, Nhs, Ngd. cbv zeta. rewrite !half_erf. reflexivity. Qed.

Lemma transition_ratio_masses g d h s g0 gs d0 ds h0 hs s0 ss :
  gaussian_transition_ratio erf g d h s g0 gs d0 ds h0 hs s0 ss =
  if sumbool_and _ _ _ _ (sumbool_and _ _ _ _ (sumbool_and _ _ _ _ (Req_EM_T g 0) (Req_EM_T d 0)) (Req_EM_T g0 0)) (Req_EM_T d0 0)
  then (1 / Nhs h hs s ss) / (1 / Nhs h0 hs s0 ss)
  else (1 / Nhs h hs s ss / Ngd g gs d ds) / (1 / Nhs h0 hs s0 ss / Ngd g0 gs d0 ds).
Proof. unfold gaussian_transition_ratio, Nhs, Ngd. cbv zeta. rewrite !half_erf. reflexivity. Qed.

(* the Gaussian numerators of the Python density are symmetric in the two states *)
Lemma sq_sym a b s : (a - b) / s * ((a - b) / s) = (b - a) / s * ((b - a) / s).
Proof. unfold Rdiv. ring. Qed.

Lemma q_dc_masses x x0 hs ss :
  q_dc Phi x x0 hs ss =
  (exp (- ((s_h x - s_h x0) / hs * ((s_h x - s_h x0) / hs) / 2)) / (hs * sqrt (2 * PI))) *
  (exp (- ((s_sigma x - s_sigma x0) / ss * ((s_sigma x - s_sigma x0) / ss) / 2)) / (ss * sqrt (2 * PI))) / Nhs (s_h x0) hs (s_sigma x0) ss.
Proof. unfold q_dc, Nhs. cbv zeta. unfold Rdiv. rewrite ?Rinv_mult. ring. Qed.

Lemma q_mt_masses x x0 gs ds hs ss :
  q_mt Phi x x0 gs ds hs ss =
  (exp (- ((s_gamma x - s_gamma x0) / gs * ((s_gamma x - s_gamma x0) / gs) / 2)) / (gs * sqrt (2 * PI))) *
  (exp (- ((s_delta x - s_delta x0) / ds * ((s_delta x - s_delta x0) / ds) / 2)) / (ds * sqrt (2 * PI))) *
  (exp (- ((s_h x - s_h x0) / hs * ((s_h x - s_h x0) / hs) / 2)) / (hs * sqrt (2 * PI))) *
  (exp (- ((s_sigma x - s_sigma x0) / ss * ((s_sigma x - s_sigma x0) / ss) / 2)) / (ss * sqrt (2 * PI))) /
  (Ngd (s_gamma x0) gs (s_delta x0) ds * Nhs (s_h x0) hs (s_sigma x0) ss).
Proof. unfold q_mt, Nhs, Ngd. cbv zeta. unfold Rdiv. rewrite ?Rinv_mult. ring. Qed.

Lemma sqrt2pi_pos : 0 < sqrt (2 * PI).
Proof. apply sqrt_lt_R0. pose proof PI_RGT_0. lra. Qed.

(* the compiled transition ratio is the ratio of the Python proposal densities: double-couple states *)
Theorem transition_ratio_dc h s h0 hs s0 ss k k0 :
  hs <> 0 -> ss <> 0 -> Nhs h hs s ss <> 0 -> Nhs h0 hs s0 ss <> 0 ->
  gaussian_transition_ratio erf 0 0 h s 0 hs 0 ss h0 hs s0 ss =
  q_dc Phi (mkState 0 0 k0 h0 s0) (mkState 0 0 k h s) hs ss / q_dc Phi (mkState 0 0 k h s) (mkState 0 0 k0 h0 s0) hs ss.
Proof.
  intros Hh Hs N1 N0. rewrite transition_ratio_masses.
  destruct (sumbool_and _ _ _ _ _ _) as [_|[C|C]]; [|destruct C as [[C|C]|C]; destruct (C eq_refl)| destruct (C eq_refl)].
  rewrite !q_dc_masses. cbn [s_h s_sigma]. rewrite (sq_sym h0 h hs), (sq_sym s0 s ss).
  pose proof sqrt2pi_pos as P.
  set (e1 := exp _). set (e2 := exp _). assert (E1 : e1 <> 0) by (apply Rgt_not_eq, exp_pos). assert (E2 : e2 <> 0) by (apply Rgt_not_eq, exp_pos).
  clearbody e1 e2. field. repeat split; try assumption; lra.
Qed.

(* full-tensor states (not both on the double-couple point) *)
Theorem transition_ratio_mt g d h s g0 gs d0 ds h0 hs s0 ss k k0 :
  ~ (g = 0 /\ d = 0 /\ g0 = 0 /\ d0 = 0) ->
  gs <> 0 -> ds <> 0 -> hs <> 0 -> ss <> 0 ->
  Nhs h hs s ss <> 0 -> Nhs h0 hs s0 ss <> 0 -> Ngd g gs d ds <> 0 -> Ngd g0 gs d0 ds <> 0 ->
  gaussian_transition_ratio erf g d h s g0 gs d0 ds h0 hs s0 ss =
  q_mt Phi (mkState g0 d0 k0 h0 s0) (mkState g d k h s) gs ds hs ss / q_mt Phi (mkState g d k h s) (mkState g0 d0 k0 h0 s0) gs ds hs ss.
Proof.
  intros ND Hg Hd Hh Hs N1 N0 M1 M0. rewrite transition_ratio_masses.
  destruct (sumbool_and _ _ _ _ _ _) as [[[[A B] C] D]|_]; [destruct ND; auto|].
  rewrite !q_mt_masses. cbn [s_gamma s_delta s_h s_sigma].
  rewrite (sq_sym g0 g gs), (sq_sym d0 d ds), (sq_sym h0 h hs), (sq_sym s0 s ss).
  pose proof sqrt2pi_pos as P.
  set (e1 := exp _). set (e2 := exp _). set (e3 := exp _). set (e4 := exp _).
  assert (E1 : e1 <> 0) by (apply Rgt_not_eq, exp_pos). assert (E2 : e2 <> 0) by (apply Rgt_not_eq, exp_pos).
  assert (E3 : e3 <> 0) by (apply Rgt_not_eq, exp_pos). assert (E4 : e4 <> 0) by (apply Rgt_not_eq, exp_pos).
  clearbody e1 e2 e3 e4. field. repeat split; try assumption; lra.
Qed.
End MC.

(* ---- the acceptance kernel with its three function pointers *)
Section Acceptance.
Variable tr : R -> R -> R -> R -> R -> R -> R -> R -> R -> R -> R -> R -> R.
Variable pr : R -> R -> R -> R -> R.
Variable jp : R -> R -> R -> R -> R -> R.

Lemma acceptance_shift g d h s g0 gs d0 ds h0 hs s0 ss lp lp0 jump qg qd sg sd pn pdc :
  jump <= 0 \/ ~ (g = 0 /\ d = 0) /\ ~ (g0 = 0 /\ d0 = 0) ->
  acceptance tr pr jp g d h s g0 gs d0 ds h0 hs s0 ss lp lp0 jump qg qd sg sd pn pdc =
  Rmin 1 (exp (lp - lp0) * tr g d h s g0 gs d0 ds h0 hs s0 ss * pr g d g0 d0).
Proof.
  intros H. unfold acceptance. cbv zeta. destruct (Rlt_dec 0 jump) as [J|J]; [|reflexivity].
  destruct H as [H|[H1 H2]]; [lra|].
  destruct (sumbool_and _ _ _ _ (Req_EM_T g 0) (Req_EM_T d 0)) as [[A B]|_]; [destruct H1; auto|].
  destruct (sumbool_and _ _ _ _ (Req_EM_T g0 0) (Req_EM_T d0 0)) as [[A B]|_]; [destruct H2; auto|]. reflexivity.
Qed.

Lemma acceptance_jump_down h s g0 gs d0 ds h0 hs s0 ss lp lp0 jump qg qd sg sd pn pdc :
  0 < jump ->
  acceptance tr pr jp 0 0 h s g0 gs d0 ds h0 hs s0 ss lp lp0 jump qg qd sg sd pn pdc =
  Rmin 1 (exp (lp - lp0) * pr 0 0 g0 d0 * jp qg qd sg sd pn * (pdc / (1 - pdc))).
Proof.
  intros J. unfold acceptance. cbv zeta. destruct (Rlt_dec 0 jump) as [_|N]; [|lra].
  destruct (sumbool_and _ _ _ _ (Req_EM_T 0 0) (Req_EM_T 0 0)) as [_|[C|C]]; [reflexivity|destruct (C eq_refl)|destruct (C eq_refl)].
Qed.

Lemma acceptance_jump_up g d h s gs ds h0 hs s0 ss lp lp0 jump qg qd sg sd pn pdc :
  0 < jump -> ~ (g = 0 /\ d = 0) ->
  acceptance tr pr jp g d h s 0 gs 0 ds h0 hs s0 ss lp lp0 jump qg qd sg sd pn pdc =
  Rmin 1 (exp (lp - lp0) * pr g d 0 0 / jp qg qd sg sd pn * ((1 - pdc) / pdc)).
Proof.
  intros J H. unfold acceptance. cbv zeta. destruct (Rlt_dec 0 jump) as [_|N]; [|lra].
  destruct (sumbool_and _ _ _ _ (Req_EM_T g 0) (Req_EM_T d 0)) as [[A B]|_]; [destruct H; auto|].
  destruct (sumbool_and _ _ _ _ (Req_EM_T 0 0) (Req_EM_T 0 0)) as [_|[C|C]]; [reflexivity|destruct (C eq_refl)|destruct (C eq_refl)].
Qed.
End Acceptance.

(* ---- balancing density and priors *)
Lemma jump_prob_qb x sg sd pn : gaussian_jump_prob (s_gamma x) (s_delta x) sg sd pn = qb_gauss x sg sd pn.
Proof.
  unfold gaussian_jump_prob, qb_gauss. cbv zeta.
  rewrite (sqrt_mult 2 PI) by (try lra; pose proof PI_RGT_0; lra).
  replace (- (s_gamma x - 0) * (s_gamma x - 0) / (2 * sg * sg)) with (- (s_gamma x / sg * (s_gamma x / sg) / 2)) by (unfold Rdiv; rewrite ?Rinv_mult; ring).
  replace (- (s_delta x - 0) * (s_delta x - 0) / (2 * sd * sd)) with (- (s_delta x / sd * (s_delta x / sd) / 2)) by (unfold Rdiv; rewrite ?Rinv_mult; ring).
  unfold Rdiv. rewrite ?Rinv_mult. ring.
Qed.

Lemma flat_jump_prob_qb : flat_jump_prob = qb_flat.
Proof. reflexivity. Qed.

Section Prior.
Variable betapdf : R -> R -> R -> R.
Variable ND : R.
(* the compiled code writes the beta density of the latitude prior out (ND = Gamma(2b)/Gamma(b)^2 x the constant 1.1045...) *)
Hypothesis Hbeta : forall u, betapdf u (1149 / 200) (1149 / 200) * (11045219407152909 / 10 ^ 16) = ND * Rpower (u * (1 - u)) (949 / 200).

(* the prior of a state as the Python code evaluates it: 1 on the double-couple point, the full-tensor density elsewhere *)
Definition py_prior (g d : R) : R :=
  if sumbool_and _ _ _ _ (Req_EM_T g 0) (Req_EM_T d 0) then uniform_prior_dc else uniform_prior_mt betapdf (mkState g d 0 0 0).

Lemma prior_mt_form g d : uniform_prior_mt betapdf (mkState g d 0 0 0) = 3 / 2 * cos (3 * g) * (ND * Rpower ((d + PI / 2) / PI * (1 - (d + PI / 2) / PI)) (949 / 200) / PI).
Proof.
  unfold uniform_prior_mt. cbv zeta. cbn [s_gamma s_delta]. pose proof (Hbeta ((d + PI / 2) / PI)) as H.
  transitivity (3 / 2 * cos (3 * g) * (betapdf ((d + PI / 2) / PI) (1149 / 200) (1149 / 200) * (11045219407152909 / 10 ^ 16) / PI)).
  - unfold Rdiv. ring.
  - rewrite H. reflexivity.
Qed.

Theorem uniform_prior_ratio_is_prior_ratio g d g0 d0 :
  py_prior g0 d0 <> 0 ->
  uniform_prior_ratio ND g d g0 d0 = py_prior g d / py_prior g0 d0.
Proof.
  unfold uniform_prior_ratio, py_prior. cbv zeta. intros H0.
  destruct (sumbool_and _ _ _ _ (Req_EM_T g 0) (Req_EM_T d 0)) as [[A B]|NA];
  destruct (sumbool_and _ _ _ _ (Req_EM_T g0 0) (Req_EM_T d0 0)) as [[A0 B0]|NA0].
  - destruct (sumbool_and _ _ _ _ _ _) as [_|C]; [unfold uniform_prior_dc; field|]. destruct C as [[[C|C]|C]|C]; contradiction.
  - destruct (sumbool_and _ _ _ _ _ _) as [[[_ C] D]|_]; [destruct NA0 as [N|N]; contradiction|].
    rewrite prior_mt_form in *. unfold uniform_prior_dc. reflexivity.
  - destruct (sumbool_and _ _ _ _ _ _) as [[[[C D] _] _]|_]; [destruct NA as [N|N]; contradiction|].
    rewrite prior_mt_form. unfold uniform_prior_dc. field. apply PI_neq0.
  - destruct (sumbool_and _ _ _ _ _ _) as [[[[C D] _] _]|_]; [destruct NA as [N|N]; contradiction|].
    rewrite !prior_mt_form in *. set (u := ND * _ / PI) in *. set (v := ND * _ / PI) in *. clearbody u v.
    field. split; [apply PI_neq0|split; intros E; apply H0; rewrite E; ring].
Qed.
End Prior.

(* ---- the compiled shift acceptance of a full-tensor chain with the uniform prior is the Python Metropolis-Hastings acceptance *)
Section Shift.
Variables erf Phi : R -> R.
Hypothesis HPhi : forall t, Phi t = (1 + erf (t / sqrt 2)) / 2.
Variable betapdf : R -> R -> R -> R.
Variable ND : R.
Hypothesis Hbeta : forall u, betapdf u (1149 / 200) (1149 / 200) * (11045219407152909 / 10 ^ 16) = ND * Rpower (u * (1 - u)) (949 / 200).

Theorem acceptance_shift_uniform_mt jp g d h s g0 gs d0 ds h0 hs s0 ss k k0 lp lp0 jump qg qd sg sd pn pdc :
  let x := mkState g d k h s in let x0 := mkState g0 d0 k0 h0 s0 in
  let q := fun a b => q_mt Phi a b gs ds hs ss in
  let prior := fun st => py_prior betapdf (s_gamma st) (s_delta st) in
  jump <= 0 -> ~ (g = 0 /\ d = 0 /\ g0 = 0 /\ d0 = 0) ->
  gs <> 0 -> ds <> 0 -> hs <> 0 -> ss <> 0 ->
  Nhs Phi h hs s ss <> 0 -> Nhs Phi h0 hs s0 ss <> 0 -> Ngd Phi g gs d ds <> 0 -> Ngd Phi g0 gs d0 ds <> 0 ->
  0 < q x x0 * prior x0 ->
  acceptance (gaussian_transition_ratio erf) (uniform_prior_ratio ND) jp g d h s g0 gs d0 ds h0 hs s0 ss lp lp0 jump qg qd sg sd pn pdc =
  mh_acc q prior x lp x0 lp0.
Proof.
  intros x x0 q prior J NDC Hg Hd Hh Hs N1 N0 M1 M0 Hden.
  rewrite acceptance_shift by (left; exact J).
  rewrite (transition_ratio_mt erf Phi HPhi g d h s g0 gs d0 ds h0 hs s0 ss k k0 NDC Hg Hd Hh Hs N1 N0 M1 M0).
  assert (P0 : prior x0 <> 0) by (intros E; rewrite E, Rmult_0_r in Hden; lra).
  assert (Q0 : q x x0 <> 0) by (intros E; rewrite E, Rmult_0_l in Hden; lra).
  rewrite (uniform_prior_ratio_is_prior_ratio betapdf ND Hbeta g d g0 d0 P0).
  unfold mh_acc. cbv zeta. destruct (Rlt_dec 0 (q x x0 * prior x0)) as [_|C]; [|destruct (C Hden)].
  f_equal. fold x x0. change (q_mt Phi x0 x gs ds hs ss) with (q x0 x). change (q_mt Phi x x0 gs ds hs ss) with (q x x0).
  change (py_prior betapdf g d) with (prior x). change (py_prior betapdf g0 d0) with (prior x0).
  field. split; assumption.
Qed.
End Shift.


(* ---- the compiled jump acceptances with the uniform prior and the Gaussian balancing draw are the Python jump acceptances *)
Section Jumps.
Variable tr : R -> R -> R -> R -> R -> R -> R -> R -> R -> R -> R -> R -> R.
Variable betapdf : R -> R -> R -> R.
Variable ND : R.
Hypothesis Hbeta : forall u, betapdf u (1149 / 200) (1149 / 200) * (11045219407152909 / 10 ^ 16) = ND * Rpower (u * (1 - u)) (949 / 200).
Variable mh : state -> R -> R.

Lemma py_prior_dc : py_prior betapdf 0 0 = 1.
Proof.
  unfold py_prior. destruct (sumbool_and _ _ _ _ (Req_EM_T 0 0) (Req_EM_T 0 0)) as [_|[C|C]]; [reflexivity|destruct (C eq_refl)|destruct (C eq_refl)].
Qed.

(* double-couple -> full tensor: the proposal carries the balancing pair (g, d) that the caller passes as (qg, qd) *)
Theorem acceptance_jump_up_uniform_gaussian g d h s gs ds h0 hs s0 ss k lp lp0 jump sg sd pn pdc :
  let x := mkState g d k h s in let xi_reduced := mkState 0 0 k h s in
  let prior := fun st => py_prior betapdf (s_gamma st) (s_delta st) in
  0 < jump -> ~ (g = 0 /\ d = 0) ->
  acceptance tr (uniform_prior_ratio ND) gaussian_jump_prob g d h s 0 gs 0 ds h0 hs s0 ss lp lp0 jump g d sg sd pn pdc =
  jump_up_acc (fun st => qb_gauss st sg sd pn) prior mh x lp xi_reduced lp0 pdc.
Proof.
  intros x xi_reduced prior J H. rewrite acceptance_jump_up by assumption.
  assert (P0 : py_prior betapdf 0 0 <> 0) by (rewrite py_prior_dc; lra).
  rewrite (uniform_prior_ratio_is_prior_ratio betapdf ND Hbeta g d 0 0 P0).
  change g with (s_gamma x) at 2. change d with (s_delta x) at 2. rewrite jump_prob_qb.
  unfold jump_up_acc. cbv zeta. f_equal. unfold prior. cbn [s_gamma s_delta xi_reduced x]. rewrite py_prior_dc.
  unfold Rdiv. rewrite ?Rinv_mult, ?Rinv_1. ring.
Qed.

(* full tensor -> double-couple: the balancing pair is the (g0, d0) of the current state *)
Theorem acceptance_jump_down_uniform_gaussian h s g0 gs d0 ds h0 hs s0 ss k0 lp lp0 jump sg sd pn pdc :
  let xi := mkState g0 d0 k0 h0 s0 in let x_reduced := mkState 0 0 k0 h0 s0 in
  let prior := fun st => py_prior betapdf (s_gamma st) (s_delta st) in
  0 < jump -> prior xi <> 0 ->
  acceptance tr (uniform_prior_ratio ND) gaussian_jump_prob 0 0 h s g0 gs d0 ds h0 hs s0 ss lp lp0 jump g0 d0 sg sd pn pdc =
  jump_down_acc (fun st => qb_gauss st sg sd pn) prior mh x_reduced lp xi lp0 pdc.
Proof.
  intros xi x_reduced prior J P0. rewrite acceptance_jump_down by assumption.
  rewrite (uniform_prior_ratio_is_prior_ratio betapdf ND Hbeta 0 0 g0 d0 P0).
  change g0 with (s_gamma xi) at 2. change d0 with (s_delta xi) at 2. rewrite jump_prob_qb.
  unfold jump_down_acc. cbv zeta. f_equal. unfold prior. cbn [s_gamma s_delta x_reduced xi]. rewrite py_prior_dc.
  unfold Rdiv. rewrite ?Rinv_mult, ?Rinv_1. ring.
Qed.
End Jumps.

(* ---- the flat prior across a model jump: the compiled ratio is 1, the Python priors give 3/pi^2 *)
Lemma flat_prior_ratio_on_jumps_refuted betapdf : flat_prior_ratio <> flat_prior_mt betapdf / 1.
Proof.
  unfold flat_prior_ratio, flat_prior_mt. cbv zeta. pose proof PI_RGT_0 as P. pose proof PI2_3_2 as Q.
  intros E. assert (H : PI * PI = 3) by (apply (Rmult_eq_reg_l (1 / (PI * PI))); [field_simplify_eq; [|lra]; field_simplify_eq in E; [|lra]; lra|apply Rgt_not_eq; apply Rdiv_lt_0_compat; nra]).
  nra.
Qed.
