(* C05: detailed balance of the acceptance rules translated from
   MarginalisedMetropolisHastings.acceptance and IterativeTransD...acceptance, and the form of
   the proposal density translated from transition_pdf. *)
From Coq Require Import Reals Lra Psatz Sumbool.
From Coquelicot Require Import Coquelicot.
From MTV.Lib Require Import Base Rlist State.
From MTV.Gen Require Import MCMC.
Open Scope R_scope.

(* the algebraic core of Metropolis-Hastings *)
Lemma mh_core p p' : 0 < p -> 0 < p' -> p * Rmin 1 (p' / p) = p' * Rmin 1 (p / p').
Proof.
  intros Hp Hp'. unfold Rmin.
  destruct (Rle_dec 1 (p' / p)) as [H1|H1], (Rle_dec 1 (p / p')) as [H2|H2].
  - assert (p <= p') by (apply (Rmult_le_reg_r (/ p)); [apply Rinv_0_lt_compat; lra|]; rewrite Rinv_r by lra; exact H1).
    assert (p' <= p) by (apply (Rmult_le_reg_r (/ p')); [apply Rinv_0_lt_compat; lra|]; rewrite Rinv_r by lra; exact H2).
    lra.
  - field. lra.
  - field. lra.
  - exfalso. apply Rnot_le_lt in H1. apply Rnot_le_lt in H2.
    assert (p' < p) by (apply (Rmult_lt_reg_r (/ p)); [apply Rinv_0_lt_compat; lra|]; rewrite Rinv_r by lra; exact H1).
    assert (p < p') by (apply (Rmult_lt_reg_r (/ p')); [apply Rinv_0_lt_compat; lra|]; rewrite Rinv_r by lra; exact H2).
    lra.
Qed.

Lemma exp_minus' a b : exp (a - b) = exp a / exp b.
Proof. unfold Rminus, Rdiv. rewrite exp_plus, exp_Ropp. reflexivity. Qed.

Lemma Rmin_1_0 : Rmin 1 0 = 0.
Proof. unfold Rmin. destruct (Rle_dec 1 0); lra. Qed.

Section MH.
(* q a b : density of proposing a when the chain is at b (the code's transition_pdf(a, b)) *)
Variable q : state -> state -> R.
Variable prior : state -> R.
Hypothesis q_pos : forall a b, 0 < q a b.
Hypothesis prior_nonneg : forall a, 0 <= prior a.

(* mh_acc q prior x' L' x L : probability of accepting x' (log-likelihood L') from x (L) *)
Lemma mh_acc_range x' L' x L : 0 <= mh_acc q prior x' L' x L <= 1.
Proof.
  unfold mh_acc. cbv zeta.
  destruct (Rlt_dec 0 (q x' x * prior x)) as [Hd|H]; [|lra].
  split; [|apply Rmin_l].
  apply Rmin_glb; [lra|].
  apply Rmult_le_pos; [|left; apply exp_pos].
  apply Rmult_le_pos; [apply Rmult_le_pos; [left; apply q_pos|apply prior_nonneg]|].
  left. apply Rinv_0_lt_compat. exact Hd.
Qed.

Theorem mh_balance x x' L L' :
  prior x * exp L * q x' x * mh_acc q prior x' L' x L =
  prior x' * exp L' * q x x' * mh_acc q prior x L x' L'.
Proof.
  pose proof (q_pos x' x) as Hq1. pose proof (q_pos x x') as Hq2.
  pose proof (exp_pos L) as HeL. pose proof (exp_pos L') as HeL'.
  destruct (prior_nonneg x) as [Hx|Hx]; destruct (prior_nonneg x') as [Hx'|Hx'].
  - (* both priors positive: the Metropolis-Hastings identity *)
    unfold mh_acc. cbv zeta.
    destruct (Rlt_dec 0 (q x' x * prior x)) as [_|H]; [|exfalso; apply H; apply Rmult_lt_0_compat; assumption].
    destruct (Rlt_dec 0 (q x x' * prior x')) as [_|H]; [|exfalso; apply H; apply Rmult_lt_0_compat; assumption].
    set (p := prior x * exp L * q x' x). set (p' := prior x' * exp L' * q x x').
    assert (Hp : 0 < p) by (unfold p; repeat apply Rmult_lt_0_compat; assumption).
    assert (Hp' : 0 < p') by (unfold p'; repeat apply Rmult_lt_0_compat; assumption).
    replace (q x x' * prior x' / (q x' x * prior x) * exp (L' - L)) with (p' / p).
    2:{ unfold p, p'. rewrite (exp_minus' L' L). field. repeat split; lra. }
    replace (q x' x * prior x / (q x x' * prior x') * exp (L - L')) with (p / p').
    2:{ unfold p, p'. rewrite (exp_minus' L L'). field. repeat split; lra. }
    apply mh_core; assumption.
  - (* proposal has zero prior: never accepted; the reverse move starts from a zero-prior state *)
    rewrite <- Hx'. unfold mh_acc. cbv zeta.
    destruct (Rlt_dec 0 (q x' x * prior x)) as [_|H]; [|exfalso; apply H; apply Rmult_lt_0_compat; assumption].
    rewrite <- Hx'.
    replace (q x x' * 0 / (q x' x * prior x) * exp (L' - L)) with 0 by (field; split; lra).
    rewrite Rmin_1_0. ring.
  - rewrite <- Hx. unfold mh_acc at 2. cbv zeta.
    destruct (Rlt_dec 0 (q x x' * prior x')) as [_|H]; [|exfalso; apply H; apply Rmult_lt_0_compat; assumption].
    rewrite <- Hx.
    replace (q x' x * 0 / (q x x' * prior x') * exp (L - L')) with 0 by (field; split; lra).
    rewrite Rmin_1_0. ring.
  - rewrite <- Hx, <- Hx'. ring.
Qed.

(* zero-likelihood rules (the translated function with one log-likelihood fixed at -infinity) *)
Lemma zero_likelihood_proposal_never_accepted : mh_acc_zero_proposal q prior = 0.
Proof. reflexivity. Qed.
Lemma zero_likelihood_start_always_moves : mh_acc_zero_start q prior = 1.
Proof. reflexivity. Qed.

End MH.

(* joint multi-event states: the ratio is the product over events, so balance follows from the
   single-event identity applied to the product densities *)
Lemma mh_core_product p1 p1' p2 p2' : 0 < p1 -> 0 < p1' -> 0 < p2 -> 0 < p2' ->
  (p1 * p2) * Rmin 1 ((p1' / p1) * (p2' / p2)) = (p1' * p2') * Rmin 1 ((p1 / p1') * (p2 / p2')).
Proof.
  intros. replace (p1' / p1 * (p2' / p2)) with ((p1' * p2') / (p1 * p2)) by (field; lra).
  replace (p1 / p1' * (p2 / p2')) with ((p1 * p2) / (p1' * p2')) by (field; lra).
  apply mh_core; apply Rmult_lt_0_compat; assumption.
Qed.

(* ---- reversible jumps -------------------------------------------------------------------------- *)
Section Jump.
Variable qb : state -> R.          (* density used for the dimension-balancing pair (gamma, delta) *)
Variable prior : state -> R.
Variable mh : state -> R -> R.
Hypothesis qb_pos : forall a, 0 < qb a.
Hypothesis prior_pos : forall a, 0 < prior a.

(* s : the double-couple state (orientation only); x : the full-tensor state with the same
   orientation and the drawn (gamma, delta); pdc : prior probability of the double-couple model *)
Theorem jump_balance s x Ls Lx pdc : 0 < pdc < 1 ->
  pdc * prior s * exp Ls * qb x * jump_up_acc qb prior mh x Lx s Ls pdc =
  (1 - pdc) * prior x * exp Lx * jump_down_acc qb prior mh s Ls x Lx pdc.
Proof.
  intros Hp. unfold jump_up_acc, jump_down_acc. cbv zeta.
  pose proof (qb_pos x). pose proof (prior_pos s). pose proof (prior_pos x).
  pose proof (exp_pos Ls). pose proof (exp_pos Lx).
  set (p := pdc * prior s * exp Ls * qb x). set (p' := (1 - pdc) * prior x * exp Lx).
  assert (Hp1 : 0 < p) by (unfold p; repeat apply Rmult_lt_0_compat; lra).
  assert (Hp2 : 0 < p') by (unfold p'; repeat apply Rmult_lt_0_compat; lra).
  replace (prior x / (qb x * prior s) * ((1 - pdc) / pdc) * exp (Lx - Ls)) with (p' / p).
  2:{ unfold p, p'. rewrite (exp_minus' Lx Ls). field. repeat split; lra. }
  replace (qb x * prior s / prior x * (pdc / (1 - pdc)) * exp (Ls - Lx)) with (p / p').
  2:{ unfold p, p'. rewrite (exp_minus' Ls Lx). field. repeat split; lra. }
  apply mh_core; assumption.
Qed.

Lemma no_jump_uses_mh x L : nojump_acc qb prior mh x L = mh x L.
Proof. reflexivity. Qed.
End Jump.

(* ---- the proposal density ------------------------------------------------------------------------ *)
Definition phi_n (x mu a : R) : R := exp (- ((x - mu) / a * ((x - mu) / a) / 2)) / (a * sqrt (2 * PI)).

(* one truncated-Gaussian factor: normal density about the current value, normalised over [lo, hi] *)
Definition tg (Phi : R -> R) (x mu a lo hi : R) : R :=
  phi_n x mu a / (Phi ((hi - mu) / a) - Phi ((lo - mu) / a)).

Lemma q_mt_is_truncated_gaussian Phi x x1 ag ad ah asg :
  q_mt Phi x x1 ag ad ah asg =
  tg Phi (s_gamma x) (s_gamma x1) ag (- PI / 6) (PI / 6) *
  tg Phi (s_delta x) (s_delta x1) ad (- PI / 2) (PI / 2) *
  tg Phi (s_h x) (s_h x1) ah 0 1 *
  tg Phi (s_sigma x) (s_sigma x1) asg (- PI / 2) (PI / 2).
Proof. unfold q_mt, tg, phi_n. cbv zeta. ring. Qed.

Lemma q_dc_is_truncated_gaussian Phi x x1 ah asg :
  q_dc Phi x x1 ah asg =
  tg Phi (s_h x) (s_h x1) ah 0 1 * tg Phi (s_sigma x) (s_sigma x1) asg (- PI / 2) (PI / 2).
Proof. unfold q_dc, tg, phi_n. cbv zeta. ring. Qed.

(* each factor is a probability density on its interval: it integrates to one (Phi is the
   standard normal distribution function: its derivative is the standard normal density) *)
Section Normalised.
Variable Phi : R -> R.
Hypothesis Phi_derive : forall t, is_derive Phi t (exp (- (t * t / 2)) / sqrt (2 * PI)).

Lemma phi_n_integral mu a lo hi : 0 < a ->
  is_RInt (fun x => phi_n x mu a) lo hi (Phi ((hi - mu) / a) - Phi ((lo - mu) / a)).
Proof.
  intros Ha.
  apply (is_RInt_derive (fun x => Phi ((x - mu) / a)) (fun x => phi_n x mu a)).
  - intros x _. unfold phi_n.
    evar_last.
    + apply (is_derive_comp Phi (fun y => (y - mu) / a)).
      * apply Phi_derive.
      * auto_derive; [exact I|reflexivity].
    + unfold scal; simpl; unfold mult; simpl. field. split; [|lra].
      apply Rgt_not_eq. apply sqrt_lt_R0. apply Rmult_lt_0_compat; [lra|apply PI_RGT_0].
  - intros x _. apply (ex_derive_continuous (fun y => phi_n y mu a)). unfold phi_n. auto_derive.
    assert (Hs : 0 < a * sqrt (2 * PI)).
    { apply Rmult_lt_0_compat; [exact Ha|]. apply sqrt_lt_R0. apply Rmult_lt_0_compat; [lra|apply PI_RGT_0]. }
    repeat split; try exact I; try (apply Rgt_not_eq; exact Hs); try lra.
Qed.

Lemma tg_integrates_to_one mu a lo hi : 0 < a -> Phi ((hi - mu) / a) - Phi ((lo - mu) / a) <> 0 ->
  is_RInt (fun x => tg Phi x mu a lo hi) lo hi 1.
Proof.
  intros Ha Hz. unfold tg.
  replace 1 with (/ (Phi ((hi - mu) / a) - Phi ((lo - mu) / a)) * (Phi ((hi - mu) / a) - Phi ((lo - mu) / a))) by (field; exact Hz).
  apply (is_RInt_ext (fun x => scal (/ (Phi ((hi - mu) / a) - Phi ((lo - mu) / a))) (phi_n x mu a))).
  - intros x _. unfold scal; simpl; unfold mult; simpl. unfold Rdiv. ring.
  - apply (is_RInt_scal (fun x => phi_n x mu a)). apply phi_n_integral. exact Ha.
Qed.
End Normalised.

(* ---- the balancing density of the code vs the density of its draw -------------------------------- *)
(* the dimension-balancing pair is drawn from two independent Gaussians about 0, each redrawn until
   in range: its density is tg x tg; the code's qb_gauss is that product exactly when the stored
   normalisation equals the product of the two truncation masses *)
Lemma qb_gauss_is_density_iff Phi x ag ad pn : 0 < ag -> 0 < ad -> pn <> 0 ->
  let Zg := Phi ((PI / 6 - 0) / ag) - Phi ((- PI / 6 - 0) / ag) in
  let Zd := Phi ((PI / 2 - 0) / ad) - Phi ((- PI / 2 - 0) / ad) in
  Zg <> 0 -> Zd <> 0 ->
  (qb_gauss x ag ad pn = tg Phi (s_gamma x) 0 ag (- PI / 6) (PI / 6) * tg Phi (s_delta x) 0 ad (- PI / 2) (PI / 2)
   <-> pn = Zg * Zd).
Proof.
  intros Hag Had Hpn Zg Zd HZg HZd. unfold qb_gauss, tg, phi_n. cbv zeta. fold Zg Zd.
  rewrite !Rminus_0_r.
  set (A := exp (- (s_gamma x / ag * (s_gamma x / ag) / 2)) / (ag * sqrt (2 * PI))).
  set (B := exp (- (s_delta x / ad * (s_delta x / ad) / 2)) / (ad * sqrt (2 * PI))).
  assert (Hs : 0 < sqrt (2 * PI)) by (apply sqrt_lt_R0, Rmult_lt_0_compat; [lra|apply PI_RGT_0]).
  assert (HA : 0 < A) by (unfold A; apply Rdiv_lt_0_compat; [apply exp_pos|apply Rmult_lt_0_compat; assumption]).
  assert (HB : 0 < B) by (unfold B; apply Rdiv_lt_0_compat; [apply exp_pos|apply Rmult_lt_0_compat; assumption]).
  split.
  - intros E.
    assert (E2 : A * B * (Zg * Zd) = A * B * pn).
    { assert (E' : A * B / pn * (pn * (Zg * Zd)) = A / Zg * (B / Zd) * (pn * (Zg * Zd))) by (rewrite E; reflexivity).
      replace (A * B / pn * (pn * (Zg * Zd))) with (A * B * (Zg * Zd)) in E' by (field; assumption).
      replace (A / Zg * (B / Zd) * (pn * (Zg * Zd))) with (A * B * pn) in E' by (field; split; assumption).
      exact E'. }
    apply (Rmult_eq_reg_l (A * B)); [symmetry; exact E2|]. apply Rgt_not_eq. apply Rmult_lt_0_compat; assumption.
  - intros ->. field. repeat split; assumption.
Qed.

Lemma qb_flat_value : qb_flat = 3 / (2 * PI).
Proof. reflexivity. Qed.

(* the uniform draw of (gamma, delta) over [-pi/6, pi/6] x [-pi/2, pi/2] has density 3/pi^2, not the
   3/(2 pi) the code uses: the two differ for every value of pi *)
Lemma qb_flat_is_not_the_uniform_density : qb_flat <> 1 / ((PI / 3) * PI).
Proof.
  rewrite qb_flat_value. pose proof PI_RGT_0 as Hp. pose proof PI_4 as H4. intros E.
  assert (E2 : 3 * (PI / 3 * PI) = 2 * PI) by (apply (f_equal (fun t => t * (2 * PI) * (PI / 3 * PI))) in E; field_simplify in E; nra).
  assert (PI = 2) by nra. pose proof PI2_3_2. unfold PI2 in *. lra.
Qed.

(* Numerical witness for the Gaussian balancing density (default widths 0.2): the normalisation
   the code stores is a quadrature of  int cos(d) phi(d) dd * int_{-pi/6}^{pi/6} phi(g) dg ; the
   density of the redraw-until-in-range Gaussians needs  int phi(d) dd * int phi(g) dg .  The two
   differ (certified by interval arithmetic). *)
From Interval Require Import Tactic.

Definition phi02 (t : R) : R := exp (- (t / (2/10) * (t / (2/10)) / 2)) / ((2/10) * sqrt (2 * PI)).

Lemma code_normalisation_differs_from_truncation_mass :
  RInt (fun d => cos d * phi02 d) (- PI / 2) (PI / 2) * RInt phi02 (- PI / 6) (PI / 6)
  < RInt phi02 (- PI / 2) (PI / 2) * RInt phi02 (- PI / 6) (PI / 6).
Proof.
  assert (A : RInt (fun d => cos d * phi02 d) (- PI / 2) (PI / 2) <= 981/1000) by (unfold phi02; integral).
  assert (B : 999/1000 <= RInt phi02 (- PI / 2) (PI / 2)) by (unfold phi02; integral).
  assert (C : 990/1000 <= RInt phi02 (- PI / 6) (PI / 6) <= 992/1000) by (unfold phi02; integral).
  nra.
Qed.
