(* C06: along every sequence of learning-window acceptance rates, every proposal width stays
   positive, present, and is never raised above its configured maximum (real-number instance of
   Model/Adapt.v). *)
From Coq Require Import Reals List Bool Lra Psatz.
From MTV.Model Require Import Adapt.
Import ListNotations.
Open Scope R_scope.

Definition Rltb (a b : R) : bool := if Rlt_dec a b then true else false.
Definition Ris0 (a : R) : bool := if Req_EM_T a 0 then true else false.

Notation cfgR := (@cfg R).
Notation stR := (@st R).

Definition stepR := @step R Rmult Rdiv sqrt Rltb Ris0 1 (1 / 10).
Definition runR (c : cfgR) (s : stR) (rates : list R) : stR := fold_left (stepR c) rates s.

Lemma Rltb_true a b : Rltb a b = true <-> a < b.
Proof. unfold Rltb. destruct (Rlt_dec a b); split; intros; try discriminate; try reflexivity; try assumption; contradiction. Qed.
Lemma Rltb_false a b : Rltb a b = false <-> ~ a < b.
Proof. unfold Rltb. destruct (Rlt_dec a b); split; intros; try discriminate; try reflexivity; try assumption; contradiction. Qed.

(* widths are positive and at most the larger of their initial value and their maximum *)
Definition ok_widths (bound a : list R) : Prop :=
  length a = length bound /\ Forall (fun x => 0 < x) a /\ Forall2 (fun x b => x <= b) a bound.

Definition bounds (a0 maxs : list R) : list R := map (fun p => Rmax (fst p) (snd p)) (combine a0 maxs).

Record Inv (c : cfgR) (bound : list R) (s : stR) : Prop := {
  inv_alpha : ok_widths bound (alpha s);
  inv_old : forall a, old_alpha s = Some a -> ok_widths bound a;
  inv_ratio : forall r, old_ratio s = Some r -> 0 < r
}.

Lemma modify_ok maxs : forall bound a ratio, 0 < ratio -> length maxs = length bound ->
  Forall2 (fun m b => m <= b) maxs bound ->
  ok_widths bound a -> ok_widths bound (modify Rmult Rltb a maxs ratio).
Proof.
  induction maxs as [|m ms IH]; intros bound a ratio Hr Hlen Hmb [Hl [Hp Hb]].
  - destruct a; simpl; repeat split; assumption.
  - destruct bound as [|b bs]; [discriminate|]. destruct a as [|x a]; [discriminate|].
    inversion Hp as [|? ? Hx Hp']; subst. inversion Hb as [|? ? ? ? Hxb Hb']; subst.
    inversion Hmb as [|? ? ? ? Hm Hmb']; subst.
    simpl in Hl, Hlen. injection Hl as Hl. injection Hlen as Hlen.
    destruct (IH bs a ratio Hr Hlen Hmb' (conj Hl (conj Hp' Hb'))) as [L1 [L2 L3]].
    simpl. repeat split.
    + simpl. rewrite L1. reflexivity.
    + constructor; [|exact L2]. destruct (Rltb m (x * ratio)); [exact Hx|nra].
    + constructor; [|exact L3]. destruct (Rltb m (x * ratio)) eqn:E; [exact Hxb|].
      apply Rltb_false in E. lra.
Qed.

Section Step.
Variable c : cfgR.
Variable bound : list R.
Hypothesis maxr_pos : 0 < maxr c.
Hypothesis minr_pos : 0 < minr c.
Hypothesis Hlen : length (maxa c) = length bound.
Hypothesis Hmb : Forall2 (fun m b => m <= b) (maxa c) bound.

Lemma revert_inv s upd fb : Inv c bound s -> (forall r, 0 < r -> 0 < upd r) -> 0 < fb ->
  let '(s1, ratio) := revert s upd fb in Inv c bound s1 /\ 0 < ratio.
Proof.
  intros I Hupd Hfb. unfold revert.
  destruct (old_alpha s) as [a|] eqn:Ea.
  - destruct (old_ratio s) as [r|] eqn:Er.
    + pose proof (inv_ratio _ _ _ I r Er) as Hr. split; [|apply Hupd; exact Hr].
      constructor; simpl.
      * apply (inv_old _ _ _ I a Ea).
      * intros a' E. inversion E. subst. apply (inv_old _ _ _ I a' Ea).
      * intros r' E. inversion E. apply Hupd. exact Hr.
    + split; [|exact Hfb]. constructor; simpl.
      * apply (inv_old _ _ _ I a Ea).
      * intros a' E. inversion E. subst. apply (inv_old _ _ _ I a' Ea).
      * intros r' E. inversion E. subst. exact Hfb.
  - split; [|exact Hfb]. constructor; simpl.
    + apply (inv_alpha _ _ _ I).
    + intros a' E. discriminate.
    + intros r' E. inversion E. subst. exact Hfb.
Qed.

Lemma step_inv s rate : Inv c bound s -> Inv c bound (stepR c s rate).
Proof.
  intros I. unfold stepR, step.
  assert (Hup : let '(s1, ratio) := revert s sqrt (1 / maxr c) in Inv c bound s1 /\ 0 < ratio).
  { apply revert_inv; [exact I| |apply Rdiv_lt_0_compat; lra]. intros r Hr. apply sqrt_lt_R0. exact Hr. }
  assert (Hdown : let '(s1, ratio) := revert s (fun r => r * r) (1 / 10) in Inv c bound s1 /\ 0 < ratio).
  { apply revert_inv; [exact I| |lra]. intros r Hr. nra. }
  assert (Fin : forall s1 ratio, Inv c bound s1 -> 0 < ratio ->
                Inv c bound (mkSt (modify Rmult Rltb (alpha s1) (maxa c) ratio) (old_rate s1) (old_ratio s1) (old_alpha s1))).
  { intros s1 ratio I1 Hr. constructor; simpl.
    - apply modify_ok; [exact Hr|exact Hlen|exact Hmb|apply (inv_alpha _ _ _ I1)].
    - apply (inv_old _ _ _ I1).
    - apply (inv_ratio _ _ _ I1). }
  destruct (Ris0 rate).
  - destruct (revert s (fun r => r * r) (1 / 10)) as [s1 ratio]. destruct Hdown. apply Fin; assumption.
  - destruct (Rltb rate 1); [|destruct (revert s sqrt (1 / maxr c)) as [s1 ratio]; destruct Hup; apply Fin; assumption].
    (* 0 < rate < 1: the candidate ratio is max(_, 1/10) > 0 *)
    assert (Hpos : forall x, 0 < tmax Rltb x (1 / 10)).
    { intros x. unfold tmax. destruct (Rltb x (1 / 10)) eqn:E; [lra|]. apply Rltb_false in E. lra. }
    assert (Mid : forall r ratio0,
              Inv c bound (let '(s1, ratio) := (if Rltb r 1 then (mkSt (alpha s) r (Some (tmax Rltb ratio0 (1 / 10))) (Some (alpha s)), tmax Rltb ratio0 (1 / 10))
                                                else revert s sqrt (1 / maxr c)) in
                           mkSt (modify Rmult Rltb (alpha s1) (maxa c) ratio) (old_rate s1) (old_ratio s1) (old_alpha s1))).
    { intros r ratio0. destruct (Rltb r 1).
      - apply Fin; [|apply Hpos]. constructor; simpl.
        + apply (inv_alpha _ _ _ I).
        + intros a E. inversion E. subst. apply (inv_alpha _ _ _ I).
        + intros r' E. inversion E. subst. apply Hpos.
      - destruct (revert s sqrt (1 / maxr c)) as [s1 ratio]. destruct Hup. apply Fin; assumption. }
    destruct (Rltb rate (minr c)); [apply Mid|]. destruct (Rltb (maxr c) rate); apply Mid.
Qed.

Theorem run_inv rates : forall s, Inv c bound s -> Inv c bound (runR c s rates).
Proof.
  induction rates as [|r rs IH]; intros s I; simpl; [exact I|]. apply IH. apply step_inv. exact I.
Qed.
End Step.

(* the initial state of a chain satisfies the invariant with bound = max(initial width, maximum) *)
Lemma init_inv (c : cfgR) a0 r0 : length a0 = length (maxa c) -> Forall (fun x => 0 < x) a0 ->
  Inv c (bounds a0 (maxa c)) (mkSt a0 r0 None None).
Proof.
  intros Hl Hp. constructor; simpl; try (intros ? E; discriminate).
  unfold ok_widths, bounds. split; [rewrite map_length, combine_length, Hl, Nat.min_id; reflexivity|]. split; [exact Hp|].
  clear Hp. revert Hl. generalize (maxa c). induction a0 as [|x a IH]; intros [|m ms] Hl; simpl; try discriminate; constructor.
  - apply Rmax_l.
  - apply IH. simpl in Hl. injection Hl as Hl. exact Hl.
Qed.

Lemma bounds_cover a0 maxs : length a0 = length maxs ->
  length maxs = length (bounds a0 maxs) /\ Forall2 (fun m b => m <= b) maxs (bounds a0 maxs).
Proof.
  revert maxs. induction a0 as [|x a IH]; intros [|m ms] Hl; simpl; try discriminate.
  - split; [reflexivity|constructor].
  - simpl in Hl. injection Hl as Hl. destruct (IH ms Hl) as [L F]. split; [simpl; f_equal; exact L|].
    constructor; [apply Rmax_r|exact F].
Qed.

(* every history of window rates: widths positive, all present, none above max(initial, maximum) *)
Theorem adapt_positive_bounded (c : cfgR) a0 r0 rates :
  0 < minr c -> 0 < maxr c -> length a0 = length (maxa c) -> Forall (fun x => 0 < x) a0 ->
  let s := runR c (mkSt a0 r0 None None) rates in
  length (alpha s) = length a0 /\ Forall (fun x => 0 < x) (alpha s) /\
  Forall2 (fun x b => x <= b) (alpha s) (bounds a0 (maxa c)).
Proof.
  intros Hmin Hmax Hl Hp s.
  destruct (bounds_cover a0 (maxa c) Hl) as [L F].
  pose proof (run_inv c (bounds a0 (maxa c)) Hmax L F rates _ (init_inv c a0 r0 Hl Hp)) as I.
  destruct (inv_alpha _ _ _ I) as [A [B C]]. fold s in A, B, C.
  split; [rewrite A, <- L; symmetry; exact Hl|].
  split; assumption.
Qed.

(* non-vacuity: the default configuration *)
Example adapt_example : 0 < 3 / 10 /\ 0 < 1 / 2 /\ length [PI / 5; 1 / 5] = length [PI / 2; 1 / 2].
Proof. repeat split; lra. Qed.
