(* Zero-noise behaviour of the per-station scale-factor estimate of probability.scale_estimator (regenerated: Gen/Kernels.v,
   py_scale_mu): an exact expression of its distance from the noise-free ratio mu_y z / mu_x and an explicit bound that tends
   to zero with the fractional errors. *)
From Coq Require Import Reals Lra Lia.
From MTV.Lib Require Import Base.
From MTV.Gen Require Import Kernels.
Open Scope R_scope.

Section Scale.
Variables z mx my px py : R.
Hypothesis Hz : 0 < z.
Hypothesis Hmx : 0 < mx.
Hypothesis Hmy : 0 < my.
Hypothesis Hpx : 0 < px.
Hypothesis Hpy : 0 < py.

(* the quantities of the code *)
Definition sx := px * mx.
Definition sy := py * my.
Definition mu1 := my * z / mx.
Definition s12 := (sy * sy * z * z + sx * sx) / (mx * mx).
Definition cA := mx * z * (sy * sy) / (mx * mx * mx).
Definition cB := my * (sx * sx) / (mx * mx * mx).
Definition cC := sqrt (2 / PI) * (sx * sx * sy * exp (- (1 / 2) * (my * my / (sy * sy))) / (mx * mx * mx * s12)).
Definition cN := cA * mu1 + cB + cC.

Lemma s12_pos : 0 < s12.
Proof.
  unfold s12. assert (0 < py * my) by (apply Rmult_lt_0_compat; assumption). assert (0 < px * mx) by (apply Rmult_lt_0_compat; assumption).
  unfold sx, sy. apply Rdiv_lt_0_compat; [|apply Rmult_lt_0_compat; assumption].
  apply Rplus_lt_0_compat; repeat apply Rmult_lt_0_compat; assumption.
Qed.

Lemma sqrt_s12 : sqrt s12 * sqrt s12 = s12.
Proof. apply sqrt_sqrt. pose proof s12_pos. lra. Qed.

Ltac pos := repeat first [assumption | apply Rdiv_lt_0_compat | apply Rinv_0_lt_compat | apply Rmult_lt_0_compat]; try lra.
Lemma sx_pos : 0 < sx. Proof. unfold sx. pos. Qed.
Lemma sy_pos : 0 < sy. Proof. unfold sy. pos. Qed.
Lemma cA_pos : 0 < cA.
Proof. unfold cA. pose proof sy_pos. pos. Qed.
Lemma cB_pos : 0 < cB.
Proof. unfold cB. pose proof sx_pos. pos. Qed.
Lemma mu1_pos : 0 < mu1.
Proof. unfold mu1. apply Rdiv_lt_0_compat; nra. Qed.
Lemma cC_pos : 0 < cC.
Proof.
  unfold cC. pose proof sx_pos. pose proof sy_pos. pose proof s12_pos. pose proof PI_RGT_0.
  apply Rmult_lt_0_compat; [apply sqrt_lt_R0; apply Rdiv_lt_0_compat; [lra|exact H2]|].
  apply Rdiv_lt_0_compat; [|pos].
  apply Rmult_lt_0_compat; [pos|apply exp_pos].
Qed.
Lemma cN_pos : 0 < cN.
Proof. unfold cN. pose proof cA_pos. pose proof cB_pos. pose proof cC_pos. pose proof mu1_pos. nra. Qed.

(* the regenerated estimate, in these names *)
Lemma py_scale_mu_form : py_scale_mu z mx my px py = (cA * (s12 + mu1 * mu1) + cB * mu1) / cN.
Proof.
  unfold py_scale_mu. cbv zeta. fold sx sy.
  change ((sy * sy * z * z + sx * sx) / (mx * mx)) with s12.
  rewrite sqrt_s12. reflexivity.
Qed.

(* exact distance from the noise-free ratio *)
Theorem scale_estimate_error : py_scale_mu z mx my px py - mu1 = (cA * s12 - cC * mu1) / cN.
Proof. rewrite py_scale_mu_form. pose proof cN_pos. unfold cN in *. field. lra. Qed.

Lemma exp_neg_le x : 0 < x -> exp (- x) <= / x.
Proof.
  intros Hx. rewrite exp_Ropp. apply Rinv_le_contravar; [exact Hx|].
  pose proof (exp_ineq1 x (Rgt_not_eq _ _ Hx)). lra.
Qed.

(* explicit bound: tends to zero with the two fractional errors *)
Theorem scale_estimate_converges :
  Rabs (py_scale_mu z mx my px py - mu1) <=
  (py * py * (my * my) * (z * z) + px * px * (mx * mx)) / (mx * my * z) + 2 * sqrt (2 / PI) * py * mx / (my * z).
Proof.
  rewrite scale_estimate_error.
  pose proof cA_pos as PA. pose proof cB_pos as PB. pose proof cC_pos as PC. pose proof mu1_pos as PM.
  pose proof s12_pos as PS. pose proof cN_pos as PN.
  unfold Rdiv at 1. rewrite Rabs_mult, (Rabs_right (/ cN)) by (left; apply Rinv_0_lt_compat; exact PN).
  (* |A s12 - C mu1| <= A s12 + C mu1 and N >= A mu1 + B *)
  assert (E1 : Rabs (cA * s12 - cC * mu1) <= cA * s12 + cC * mu1).
  { apply Rabs_le. split; nra. }
  assert (T1 : cA * s12 * / cN <= s12 / mu1).
  { apply (Rmult_le_reg_r cN); [exact PN|]. rewrite Rmult_assoc, Rinv_l, Rmult_1_r by lra.
    unfold Rdiv. apply (Rmult_le_reg_r mu1); [exact PM|].
    replace (s12 * / mu1 * cN * mu1) with (s12 * cN) by (field; lra). unfold cN. nra. }
  assert (T2 : cC * mu1 * / cN <= cC * mu1 / cB).
  { unfold Rdiv. apply Rmult_le_compat_l; [nra|]. apply Rinv_le_contravar; [exact PB|]. unfold cN. nra. }
  (* closed forms of the two terms *)
  assert (F1 : s12 / mu1 = (py * py * (my * my) * (z * z) + px * px * (mx * mx)) / (mx * my * z)).
  { unfold s12, mu1, sx, sy. field. repeat split; lra. }
  assert (PQ : 0 < sqrt (2 / PI)) by (apply sqrt_lt_R0; apply Rdiv_lt_0_compat; [lra|apply PI_RGT_0]).
  assert (F2 : cC * mu1 / cB <= 2 * sqrt (2 / PI) * py * mx / (my * z)).
  { (* exponent: my^2 / sy^2 = 1 / py^2, and exp(-1/(2 py^2)) <= 2 py^2 *)
    assert (Ex : exp (- (1 / 2) * (my * my / (sy * sy))) <= 2 * (py * py)).
    { replace (- (1 / 2) * (my * my / (sy * sy))) with (- (/ (2 * (py * py)))) by (unfold sy; field; lra).
      eapply Rle_trans; [apply exp_neg_le; apply Rinv_0_lt_compat; nra|]. rewrite Rinv_inv. lra. }
    (* C mu1 / B = sqrt(2/pi) sy e mu1 / (my s12), and s12 >= sy^2 z^2 / mx^2 *)
    assert (G : cC * mu1 / cB = sqrt (2 / PI) * (sy * exp (- (1 / 2) * (my * my / (sy * sy))) * mu1 / (my * s12))).
    { unfold cC, cB. pose proof sx_pos. field. repeat split; lra. }
    rewrite G.
    set (e := exp _) in *. assert (0 < e) by (unfold e; apply exp_pos). clearbody e.
    assert (S : sy * sy * (z * z) / (mx * mx) <= s12).
    { unfold s12. apply Rmult_le_compat_r; [left; pos|]. pose proof sx_pos. assert (0 <= sx * sx) by (left; pos). lra. }
    pose proof sy_pos as Hsy.
    assert (L : 0 < sy * sy * (z * z) / (mx * mx)) by pos.
    (* sy e mu1 / (my s12) <= sy e mu1 / (my * sy^2 z^2 / mx^2) = e mx / (py my z) <= 2 py mx / (my z) *)
    assert (Q : sy * e * mu1 / (my * s12) <= sy * e * mu1 / (my * (sy * sy * (z * z) / (mx * mx)))).
    { unfold Rdiv. apply Rmult_le_compat_l; [left; pos|]. apply Rinv_le_contravar; [pos|]. apply Rmult_le_compat_l; lra. }
    assert (Q2 : sy * e * mu1 / (my * (sy * sy * (z * z) / (mx * mx))) = e * (mx / (py * my * z))).
    { unfold mu1, sy. field. repeat split; lra. }
    assert (Q3 : e * (mx / (py * my * z)) <= 2 * py * mx / (my * z)).
    { replace (2 * py * mx / (my * z)) with (2 * (py * py) * (mx / (py * my * z))) by (field; repeat split; lra).
      apply Rmult_le_compat_r; [left; pos|exact Ex]. }
    replace (2 * sqrt (2 / PI) * py * mx / (my * z)) with (sqrt (2 / PI) * (2 * py * mx / (my * z))) by (field; repeat split; lra).
    apply Rmult_le_compat_l; lra. }
  rewrite <- F1.
  apply Rle_trans with ((cA * s12 + cC * mu1) * / cN).
  - apply Rmult_le_compat_r; [left; apply Rinv_0_lt_compat; exact PN|exact E1].
  - rewrite Rmult_plus_distr_r. lra.
Qed.
End Scale.
