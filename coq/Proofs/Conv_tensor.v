(* Six-vector <-> 3x3 forms and the tensor built from Tape parameters (MT33_MT6, MT6_MT33, GD_E, Tape_MT33). *)
From Coq Require Import Reals Lra Nsatz.
From MTV.Lib Require Import Base Trig Linalg.
From MTV.Gen Require Import Convert.
From MTV.Proofs Require Import Conv_lune Conv_planes.
Open Scope R_scope.

Definition norm6 (v0 v1 v2 v3 v4 v5 : R) : R := sqrt (v0 * v0 + v1 * v1 + v2 * v2 + v3 * v3 + v4 * v4 + v5 * v5).

(* six-vector -> 3x3 -> six-vector: the same vector, normalised *)
Theorem MT6_MT33_MT6 v0 v1 v2 v3 v4 v5 :
  let n := norm6 v0 v1 v2 v3 v4 v5 in
  (let '(a00, a01, a02, a10, a11, a12, a20, a21, a22) := MT6_MT33 v0 v1 v2 v3 v4 v5 in
   MT33_MT6 a00 a01 a02 a11 a12 a22) = (v0 / n, v1 / n, v2 / n, v3 / n, v4 / n, v5 / n).
Proof.
  unfold MT6_MT33, MT33_MT6, norm6. cbv zeta.
  pose proof sqrt2_sq as S. pose proof sqrt2_pos as P.
  assert (E : forall x, sqrt 2 * (1 / sqrt 2 * x) = x) by (intros; field; lra).
  rewrite !E. reflexivity.
Qed.

Theorem MT6_MT33_symmetric v0 v1 v2 v3 v4 v5 :
  let '(a00, a01, a02, a10, a11, a12, a20, a21, a22) := MT6_MT33 v0 v1 v2 v3 v4 v5 in
  a10 = a01 /\ a20 = a02 /\ a21 = a12.
Proof. unfold MT6_MT33. repeat split. Qed.

(* 3x3 -> six-vector -> 3x3: the same symmetric tensor, normalised (Frobenius norm) *)
Theorem MT33_MT6_MT33 m00 m01 m02 m11 m12 m22 :
  let f := sqrt (m00 * m00 + m11 * m11 + m22 * m22 + 2 * (m01 * m01) + 2 * (m02 * m02) + 2 * (m12 * m12)) in
  0 < f ->
  (let '(v0, v1, v2, v3, v4, v5) := MT33_MT6 m00 m01 m02 m11 m12 m22 in MT6_MT33 v0 v1 v2 v3 v4 v5)
  = (m00 / f, m01 / f, m02 / f, m01 / f, m11 / f, m12 / f, m02 / f, m12 / f, m22 / f).
Proof.
  cbv zeta. intros Hf. unfold MT33_MT6, MT6_MT33. cbv zeta.
  pose proof sqrt2_sq as S. pose proof sqrt2_pos as P.
  match goal with |- context [sqrt ?e] =>
    lazymatch e with 2 => fail | _ =>
      replace e with (m00 * m00 + m11 * m11 + m22 * m22 + 2 * (m01 * m01) + 2 * (m02 * m02) + 2 * (m12 * m12)) by nra end end.
  set (f := sqrt _) in *.
  repeat match goal with |- (_, _) = (_, _) => apply f_equal2 end; field; lra.
Qed.

(* a unit six-vector stays unit: norm of the six-vector = Frobenius norm of the tensor *)
Lemma six_norm_is_frobenius m00 m01 m02 m11 m12 m22 :
  let '(v0, v1, v2, v3, v4, v5) := (m00, m11, m22, sqrt 2 * m01, sqrt 2 * m02, sqrt 2 * m12) in
  v0 * v0 + v1 * v1 + v2 * v2 + v3 * v3 + v4 * v4 + v5 * v5 =
  m00 * m00 + m11 * m11 + m22 * m22 + 2 * (m01 * m01) + 2 * (m02 * m02) + 2 * (m12 * m12).
Proof. pose proof sqrt2_sq. nra. Qed.

(* eigenvalues from lune coordinates: unit vector for every gamma, delta *)
Theorem GD_E_unit g d : let '(e0, e1, e2) := GD_E g d in e0 * e0 + e1 * e1 + e2 * e2 = 1.
Proof.
  unfold GD_E. cbv zeta. rewrite sqrt6_split.
  assert (P2 : 0 < sqrt 2) by exact sqrt2_pos.
  assert (P3 : 0 < sqrt 3) by (apply sqrt_lt_R0; lra).
  assert (Q2 : sqrt 2 * sqrt 2 = 2) by exact sqrt2_sq.
  assert (Q3 : sqrt 3 * sqrt 3 = 3) by (apply sqrt_sqrt; lra).
  set (s2 := sqrt 2) in *. set (s3 := sqrt 3) in *.
  set (t := 1 / (s2 * s3)).
  assert (Ht1 : t * (s2 * s3) = 1) by (unfold t; field; nra).
  assert (Ht2 : 6 * (t * t) = 1).
  { transitivity ((t * (s2 * s3)) * (t * (s2 * s3))); [|rewrite Ht1; ring].
    replace 6 with ((s2 * s2) * (s3 * s3)) by (rewrite Q2, Q3; ring). ring. }
  pose proof (sin2_cos2 g) as Tg. pose proof (sin2_cos2 (PI / 2 - d)) as Tb. unfold Rsqr in Tg, Tb.
  clearbody t s2 s3.
  generalize dependent (cos g). generalize dependent (sin g).
  generalize dependent (cos (PI / 2 - d)). generalize dependent (sin (PI / 2 - d)). intros.
  nsatz.
Qed.


(* ---- Tape parameters -> tensor: the generated definition IS the composition of its parts (checked by conversion) *)
Definition rebuild (e : R * R * R) (a : R * R * R * R * R * R * R * R * R) : R * R * R * R * R * R * R * R * R :=
  let '(e0, e1, e2) := e in let '(t0, t1, t2, b0, b1, b2, p0, p1, p2) := a in
  let m := fun tx bx px ty by_ py =>
    (tx * e0 + bx * 0 + px * 0) * ty + (tx * 0 + bx * e1 + px * 0) * by_ + (tx * 0 + bx * 0 + px * e2) * py in
  (m t0 b0 p0 t0 b0 p0, m t0 b0 p0 t1 b1 p1, m t0 b0 p0 t2 b2 p2,
   m t1 b1 p1 t0 b0 p0, m t1 b1 p1 t1 b1 p1, m t1 b1 p1 t2 b2 p2,
   m t2 b2 p2 t0 b0 p0, m t2 b2 p2 t1 b1 p1, m t2 b2 p2 t2 b2 p2).

Lemma Tape_MT33_struct g d k h s : Tape_MT33 g d k h s = rebuild (GD_E g d) (SDR_TNP k (acos h) s).
Proof. reflexivity. Qed.

Lemma Tape_MT6_struct g d k h s :
  Tape_MT6 g d k h s =
  (let '(m00, m01, m02, m10, m11, m12, m20, m21, m22) := Tape_MT33 g d k h s in MT33_MT6 m00 m01 m02 m11 m12 m22).
Proof. reflexivity. Qed.

(* symmetric, unit Frobenius norm, for ALL parameter values (no range restriction is needed) *)
Theorem Tape_MT33_symmetric_unit g d k h s :
  let '(m00, m01, m02, m10, m11, m12, m20, m21, m22) := Tape_MT33 g d k h s in
  m10 = m01 /\ m20 = m02 /\ m21 = m12 /\
  m00 * m00 + m11 * m11 + m22 * m22 + 2 * (m01 * m01) + 2 * (m02 * m02) + 2 * (m12 * m12) = 1.
Proof.
  rewrite Tape_MT33_struct.
  pose proof (GD_E_unit g d) as HE. pose proof (SDR_TNP_orthonormal k (acos h) s) as HO.
  destruct (GD_E g d) as [[e0 e1] e2].
  destruct (SDR_TNP k (acos h) s) as [[[[[[[[t0 t1] t2] b0] b1] b2] p0] p1] p2].
  destruct HO as (Ht & Hb & Hp & Htb & Htp & Hbp).
  unfold rebuild. repeat split; try ring.
  rewrite <- HE, <- (rebuilt_frobenius t0 t1 t2 b0 b1 b2 p0 p1 p2 e0 e1 e2 Ht Hb Hp Htb Htp Hbp).
  ring.
Qed.

Theorem Tape_MT6_unit g d k h s :
  let '(v0, v1, v2, v3, v4, v5) := Tape_MT6 g d k h s in v0 * v0 + v1 * v1 + v2 * v2 + v3 * v3 + v4 * v4 + v5 * v5 = 1.
Proof.
  rewrite Tape_MT6_struct. pose proof (Tape_MT33_symmetric_unit g d k h s) as H.
  destruct (Tape_MT33 g d k h s) as [[[[[[[[m00 m01] m02] m10] m11] m12] m20] m21] m22].
  destruct H as (_ & _ & _ & HF).
  unfold MT33_MT6. cbv zeta. pose proof sqrt2_sq as S.
  match goal with |- context [sqrt ?e] =>
    lazymatch e with 2 => fail | _ => replace e with 1 by (rewrite <- HF; nra) end end.
  rewrite sqrt_1. unfold Rdiv. rewrite Rinv_1, !Rmult_1_r. rewrite <- HF. nra.
Qed.
