(* Focal-sphere projections at the reals (Model/Projection.v instantiated with real arithmetic; nan never arises). *)
From Coq Require Import Reals Lra Bool.
From MTV.Lib Require Import Base.
From MTV.Model Require Import Projection.
Open Scope R_scope.

Definition rltb (a b : R) : bool := if Rlt_dec a b then true else false.
Definition rproject := @project R Rplus Rmult Rdiv Ropp sqrt rltb (fun _ => false) (fun _ => false) 0 1 2.

Lemma half_angle_area t : 0 <= t < PI -> sin t * sqrt (2 / (1 + cos t)) = 2 * sin (t / 2).
Proof.
  intros [H0 H1]. pose proof PI_RGT_0.
  assert (Hc : 0 < cos (t / 2)) by (apply cos_gt_0; lra).
  assert (E1 : 1 + cos t = 2 * (cos (t / 2) * cos (t / 2))).
  { replace t with (2 * (t / 2)) at 1 by field. rewrite cos_2a_cos. ring. }
  assert (E2 : sin t = 2 * sin (t / 2) * cos (t / 2)).
  { replace t with (2 * (t / 2)) at 1 by field. apply sin_2a. }
  rewrite E1, E2.
  replace (2 / (2 * (cos (t / 2) * cos (t / 2)))) with ((/ cos (t / 2)) * (/ cos (t / 2))) by (field; lra).
  rewrite sqrt_square by (left; apply Rinv_0_lt_compat; exact Hc).
  field. lra.
Qed.

Lemma half_angle_stereo t : 0 <= t < PI -> sin t * (1 / (1 + cos t)) = tan (t / 2).
Proof.
  intros [H0 H1]. pose proof PI_RGT_0.
  assert (Hc : 0 < cos (t / 2)) by (apply cos_gt_0; lra).
  assert (E1 : 1 + cos t = 2 * (cos (t / 2) * cos (t / 2))).
  { replace t with (2 * (t / 2)) at 1 by field. rewrite cos_2a_cos. ring. }
  assert (E2 : sin t = 2 * sin (t / 2) * cos (t / 2)).
  { replace t with (2 * (t / 2)) at 1 by field. apply sin_2a. }
  rewrite E1, E2. unfold tan. field. lra.
Qed.

Definition radius (area : bool) (t : R) : R := if area then 2 * sin (t / 2) else tan (t / 2).

(* a unit vector at angle t from the downward (z) axis and azimuth a, in the shown hemisphere or on the full sphere:
   same azimuth, radius 2 sin(t/2) (equal area) or tan(t/2) (equal angle) *)
Theorem lower_hemisphere_law area full back t a :
  0 <= t < PI -> (full = true \/ t <= PI / 2) ->
  rproject area true full back (sin t * cos a) (sin t * sin a) (cos t)
  = (Some (radius area t * cos a), Some (radius area t * sin a)).
Proof.
  intros Ht Hv. pose proof PI_RGT_0 as Hpi.
  unfold rproject, project, corr, finite_or_nan. cbv zeta.
  assert (Hh : (if full then false else rltb (cos t) 0) = false).
  { destruct full; [reflexivity|]. destruct Hv as [F|Hv]; [discriminate|].
    unfold rltb. destruct (Rlt_dec (cos t) 0) as [L|_]; [|reflexivity].
    exfalso. assert (0 <= cos t) by (apply cos_ge_0; lra). lra. }
  rewrite Hh. cbn [orb].
  destruct area; cbn [radius].
  - f_equal; f_equal.
    + rewrite <- half_angle_area by exact Ht. ring.
    + rewrite <- half_angle_area by exact Ht. ring.
  - f_equal; f_equal.
    + rewrite <- half_angle_stereo by exact Ht. ring.
    + rewrite <- half_angle_stereo by exact Ht. ring.
Qed.

(* a vector of the hidden hemisphere is not shown, or (back projection) shown at its antipode *)
Theorem hidden_hemisphere area x y z : z < 0 ->
  rproject area true false false x y z = (None, None) /\
  rproject area true false true x y z = rproject area true false false (- x) (- y) (- z).
Proof.
  intros Hz. unfold rproject, project, finite_or_nan, rltb. cbv zeta.
  destruct (Rlt_dec z 0) as [_|N]; [|contradiction].
  destruct (Rlt_dec (- z) 0) as [F|_]; [lra|].
  cbn [orb]. split; reflexivity.
Qed.

(* the upper-hemisphere option is the lower-hemisphere projection of the mirror image in the horizontal plane *)
Theorem upper_option_is_mirror area full back x y z :
  rproject area false full back x y z = rproject area true full back x y (- z).
Proof.
  unfold rproject, project, corr, finite_or_nan, rltb. cbv zeta.
  rewrite Ropp_involutive.
  assert (E : (if Rlt_dec 0 z then true else false) = (if Rlt_dec (- z) 0 then true else false)).
  { destruct (Rlt_dec 0 z); destruct (Rlt_dec (- z) 0); try reflexivity; lra. }
  rewrite E. reflexivity.
Qed.
