(* C02: the polarity likelihood kernels translated from polarity_ln_pdf /
   polarity_probability_ln_pdf are valid two-outcome probability models. *)
From Coq Require Import Reals Lra Psatz.
From MTV.Lib Require Import Base.
From MTV.Gen Require Import Polarity.
Open Scope R_scope.

Definition small : R := 1 / 10 ^ 24.
Lemma small_pos : 0 < small.
Proof. unfold small. apply Rdiv_lt_0_compat; [lra|]. apply pow_lt; lra. Qed.

(* the replacement of a zero uncertainty that the code performs *)
Definition sigma0 (s : R) : R := if Req_EM_T s 0 then small else s.
Lemma sigma0_pos s : 0 <= s -> 0 < sigma0 s.
Proof. intros H. unfold sigma0. destruct (Req_EM_T s 0); [apply small_pos|lra]. Qed.

Section Erf.
Variable erf : R -> R.
Hypothesis erf_odd : forall x, erf (- x) = - erf x.
Hypothesis erf_mono : forall x y, x <= y -> erf x <= erf y.
Hypothesis erf_bound : forall x, -1 <= erf x <= 1.

(* the documented formula *)
Definition pol_doc (yA s w : R) : R :=
  1 / 2 * (1 + erf (yA / (sqrt 2 * s))) * (1 - w) + 1 / 2 * (1 + erf (- yA / (sqrt 2 * s))) * w.

Lemma pol_p_is_documented X s w : pol_p erf X s w = pol_doc X (sigma0 s) w.
Proof. reflexivity. Qed.

Lemma neg_div a b : - a / b = - (a / b).
Proof. unfold Rdiv. ring. Qed.

Lemma pol_doc_alt yA s w : pol_doc yA s w = 1 / 2 + 1 / 2 * erf (yA / (sqrt 2 * s)) * (1 - 2 * w).
Proof. unfold pol_doc. rewrite neg_div, erf_odd. ring. Qed.

Lemma pol_p_range X s w : 0 <= w <= 1 -> 0 <= pol_p erf X s w <= 1.
Proof.
  intros Hw. rewrite pol_p_is_documented, pol_doc_alt.
  pose proof (erf_bound (X / (sqrt 2 * sigma0 s))) as He. nra.
Qed.

Lemma pol_p_complement X s w : pol_p erf X s w + pol_p erf (- X) s w = 1.
Proof.
  rewrite !pol_p_is_documented, !pol_doc_alt, neg_div, erf_odd. field.
Qed.

Lemma pol_p_monotone X X' s w : 0 <= s -> w < 1 / 2 -> X <= X' -> pol_p erf X s w <= pol_p erf X' s w.
Proof.
  intros Hs Hw HX. rewrite !pol_p_is_documented, !pol_doc_alt.
  pose proof (sigma0_pos s Hs) as Hp. pose proof sqrt2_pos as H2.
  assert (Hd : 0 < sqrt 2 * sigma0 s) by (apply Rmult_lt_0_compat; assumption).
  assert (Hle : X / (sqrt 2 * sigma0 s) <= X' / (sqrt 2 * sigma0 s)).
  { unfold Rdiv. apply Rmult_le_compat_r; [left; apply Rinv_0_lt_compat; exact Hd|exact HX]. }
  pose proof (erf_mono _ _ Hle). nra.
Qed.

(* w > 1/2 reverses the direction, w = 1/2 makes the observation uninformative *)
Lemma pol_p_half X s : pol_p erf X s (1 / 2) = 1 / 2.
Proof. rewrite pol_p_is_documented, pol_doc_alt. field. Qed.

(* zero uncertainty: the hard 0/1 limit.  Needs the saturation of the binary64 erf
   (erf t = 1 for t >= 6), stated as a hypothesis and named in the trusted base. *)
Hypothesis erf_sat : forall t, 6 <= t -> erf t = 1.

Lemma hard_arg X : 1 / 10 ^ 22 <= X -> 6 <= X / (sqrt 2 * small).
Proof.
  intros HX. unfold small.
  assert (H2 : sqrt 2 <= 2).
  { rewrite <- (sqrt_square 2) at 2 by lra. apply sqrt_le_1_alt. lra. }
  pose proof sqrt2_pos as Hp.
  assert (E : X / (sqrt 2 * (1 / 10 ^ 24)) = X * 10 ^ 24 / sqrt 2).
  { field. repeat split; try (apply pow_nonzero; lra); lra. }
  rewrite E.
  assert (H100 : 100 <= X * 10 ^ 24).
  { replace (10 ^ 24) with (10 ^ 22 * 100) by (simpl; ring).
    assert (0 < 10 ^ 22) by (apply pow_lt; lra).
    assert (HX' : 1 <= X * 10 ^ 22).
    { apply (Rmult_le_compat_r (10 ^ 22)) in HX; [|lra].
      replace (1 / 10 ^ 22 * 10 ^ 22) with 1 in HX by (field; lra). exact HX. }
    nra. }
  apply (Rmult_le_reg_r (sqrt 2)); [exact Hp|].
  replace (X * 10 ^ 24 / sqrt 2 * sqrt 2) with (X * 10 ^ 24) by (field; lra).
  nra.
Qed.

Lemma pol_p_hard_limit_pos X w : 1 / 10 ^ 22 <= X -> pol_p erf X 0 w = 1 - w.
Proof.
  intros HX. rewrite pol_p_is_documented, pol_doc_alt.
  unfold sigma0. destruct (Req_EM_T 0 0) as [_|n]; [|contradiction].
  rewrite (erf_sat _ (hard_arg X HX)). field.
Qed.

Lemma pol_p_hard_limit_neg X w : X <= - (1 / 10 ^ 22) -> pol_p erf X 0 w = w.
Proof.
  intros HX. pose proof (pol_p_complement (- X) 0 w) as Hc. rewrite Ropp_involutive in Hc.
  rewrite (pol_p_hard_limit_pos (- X) w) in Hc by lra. lra.
Qed.

End Erf.

(* ---- polarity probabilities ------------------------------------------------------------------ *)

(* the documented step-function mixture *)
Definition polprob_doc (X pp pn w : R) : R :=
  (heaviside X * pp + heaviside (- X) * pn) * (1 - w) + (heaviside X * pn + heaviside (- X) * pp) * w.

Lemma polprob_p_is_documented X pp pn w : polprob_p X pp pn w = polprob_doc X pp pn w.
Proof. reflexivity. Qed.

Lemma heaviside_pos x : 0 < x -> heaviside x = 1.
Proof. intros H; unfold heaviside; rewrite sgn_pos by exact H; lra. Qed.
Lemma heaviside_neg x : x < 0 -> heaviside x = 0.
Proof. intros H; unfold heaviside; rewrite sgn_neg by exact H; lra. Qed.
Lemma heaviside_0 : heaviside 0 = 1 / 2.
Proof. unfold heaviside; rewrite sgn_0; lra. Qed.
Lemma heaviside_sum x : heaviside x + heaviside (- x) = 1.
Proof. unfold heaviside. rewrite sgn_opp. lra. Qed.
Lemma heaviside_range x : 0 <= heaviside x <= 1.
Proof.
  destruct (Rtotal_order x 0) as [H|[H|H]].
  - rewrite heaviside_neg by exact H; lra.
  - subst; rewrite heaviside_0; lra.
  - rewrite heaviside_pos by exact H; lra.
Qed.

Lemma polprob_pos X pp pn w : 0 < X -> polprob_p X pp pn w = pp * (1 - w) + pn * w.
Proof.
  intros H. rewrite polprob_p_is_documented. unfold polprob_doc.
  rewrite (heaviside_pos X H), (heaviside_neg (- X)) by lra. ring.
Qed.
Lemma polprob_neg X pp pn w : X < 0 -> polprob_p X pp pn w = pn * (1 - w) + pp * w.
Proof.
  intros H. rewrite polprob_p_is_documented. unfold polprob_doc.
  rewrite (heaviside_neg X H), (heaviside_pos (- X)) by lra. ring.
Qed.
Lemma polprob_zero pp pn w : polprob_p 0 pp pn w = (pp + pn) / 2.
Proof.
  rewrite polprob_p_is_documented. unfold polprob_doc. rewrite Ropp_0, heaviside_0. field.
Qed.

Lemma polprob_range X pp pn w :
  0 <= pp <= 1 -> 0 <= pn <= 1 -> 0 <= w <= 1 -> 0 <= polprob_p X pp pn w <= 1.
Proof.
  intros Hp Hn Hw.
  destruct (Rtotal_order X 0) as [H|[H|H]].
  - rewrite polprob_neg by exact H.
    assert (0 <= pn * (1 - w) <= 1 - w) by (split; nra). assert (0 <= pp * w <= w) by (split; nra). lra.
  - subst. rewrite polprob_zero. lra.
  - rewrite polprob_pos by exact H.
    assert (0 <= pp * (1 - w) <= 1 - w) by (split; nra). assert (0 <= pn * w <= w) by (split; nra). lra.
Qed.

(* the two polarities of a pick (pp, pn swapped) are complementary when pp + pn = 1 *)
Lemma polprob_complement X pp pn w : pp + pn = 1 -> polprob_p X pp pn w + polprob_p X pn pp w = 1.
Proof.
  intros Hs. rewrite (polprob_p_is_documented X pp pn w), (polprob_p_is_documented X pn pp w).
  unfold polprob_doc.
  pose proof (heaviside_sum X) as H.
  generalize dependent (heaviside X). generalize dependent (heaviside (- X)). intros h' h H.
  replace ((h * pp + h' * pn) * (1 - w) + (h * pn + h' * pp) * w +
           ((h * pn + h' * pp) * (1 - w) + (h * pp + h' * pn) * w))
    with ((h + h') * (pp + pn)) by ring.
  rewrite H, Hs. ring.
Qed.

(* impossible sources: the value passed to the logarithm is exactly 0 (so the log is -infinity,
   not NaN) precisely in the documented situations *)
Lemma polprob_zero_probability X pp : 0 < X -> polprob_p X pp 1 0 = pp /\ polprob_p X 0 1 0 = 0.
Proof. intros H. rewrite !polprob_pos by exact H. split; ring. Qed.
