(* C10 -- the divergence between two sampled PDFs, as defined (sum p ln(p/q) dV for the two PDFs normalised so that
   sum p dV = sum q dV = 1), is non-negative and vanishes for identical inputs.  This is a theorem about the DEFINITION
   (the function dkl(p, q) takes two arrays element by element, which the translator does not handle); the
   implementation is compared with this definition, evaluated to 40 digits, by the two-PDF oracle of the C10 check. *)
From Coq Require Import Reals List Lra.
From MTV.Lib Require Import Base Rlist.
Import ListNotations.
Open Scope R_scope.

Definition ln_norm (ls : list R) (dV : R) : R := ln (dV * sumexp ls).
Definition dkl_def (pq : list (R * R)) (dV : R) : R :=
  let cp := ln_norm (map fst pq) dV in let cq := ln_norm (map snd pq) dV in
  Rlist_sum (map (fun ab => exp (fst ab - cp) * ((fst ab - cp) - (snd ab - cq))) pq) * dV.

Lemma gibbs_term u v : exp u - exp v <= exp u * (u - v).
Proof.
  pose proof (ln_le_sub1 (exp (v - u)) (exp_pos _)) as H. rewrite ln_exp in H.
  pose proof (exp_pos u) as Hu.
  assert (E : exp u * exp (v - u) = exp v) by (rewrite <- exp_plus; f_equal; ring).
  assert (H2 : exp u * (v - u) <= exp u * (exp (v - u) - 1)) by (apply Rmult_le_compat_l; lra).
  assert (H3 : exp u * (exp (v - u) - 1) = exp v - exp u) by (rewrite <- E; ring).
  rewrite H3 in H2. replace (exp u * (u - v)) with (- (exp u * (v - u))) by ring. lra.
Qed.

Lemma gibbs_sum (pq : list (R * R)) c d :
  Rlist_sum (map (fun ab => exp (fst ab - c)) pq) - Rlist_sum (map (fun ab => exp (snd ab - d)) pq)
  <= Rlist_sum (map (fun ab => exp (fst ab - c) * ((fst ab - c) - (snd ab - d))) pq).
Proof.
  induction pq as [|[a b] pq IH]; simpl; [lra|].
  pose proof (gibbs_term (a - c) (b - d)). lra.
Qed.

Lemma normalised_total (ls : list R) dV : ls <> [] -> 0 < dV ->
  Rlist_sum (map (fun x => exp (x - ln_norm ls dV)) ls) * dV = 1.
Proof.
  intros Hne HdV. unfold ln_norm.
  rewrite (Rlist_sum_map_ext R _ (fun x => exp (x + - ln (dV * sumexp ls)) * 1)).
  2:{ intros x _. rewrite Rmult_1_r. reflexivity. }
  rewrite shifted_sum, exp_Ropp, exp_ln.
  - field. pose proof (sumexp_pos ls Hne). split; lra.
  - apply Rmult_lt_0_compat; [exact HdV|apply sumexp_pos; exact Hne].
Qed.

Lemma sum_map_fst (pq : list (R * R)) (f : R -> R) :
  Rlist_sum (map (fun ab => f (fst ab)) pq) = Rlist_sum (map f (map fst pq)).
Proof. rewrite map_map. reflexivity. Qed.
Lemma sum_map_snd (pq : list (R * R)) (f : R -> R) :
  Rlist_sum (map (fun ab => f (snd ab)) pq) = Rlist_sum (map f (map snd pq)).
Proof. rewrite map_map. reflexivity. Qed.

Theorem dkl_def_nonneg pq dV : pq <> [] -> 0 < dV -> 0 <= dkl_def pq dV.
Proof.
  intros Hne HdV. unfold dkl_def. cbv zeta.
  set (cp := ln_norm (map fst pq) dV). set (cq := ln_norm (map snd pq) dV).
  pose proof (gibbs_sum pq cp cq) as G.
  assert (Hp : map fst pq <> []) by (destruct pq; [contradiction|discriminate]).
  assert (Hq : map snd pq <> []) by (destruct pq; [contradiction|discriminate]).
  pose proof (normalised_total (map fst pq) dV Hp HdV) as Np.
  pose proof (normalised_total (map snd pq) dV Hq HdV) as Nq.
  rewrite <- (sum_map_fst pq (fun x => exp (x - ln_norm (map fst pq) dV))) in Np.
  rewrite <- (sum_map_snd pq (fun x => exp (x - ln_norm (map snd pq) dV))) in Nq.
  fold cp in Np. fold cq in Nq.
  set (A := Rlist_sum (map (fun ab => exp (fst ab - cp)) pq)) in *.
  set (B := Rlist_sum (map (fun ab => exp (snd ab - cq)) pq)) in *.
  set (S := Rlist_sum (map (fun ab => exp (fst ab - cp) * (fst ab - cp - (snd ab - cq))) pq)) in *.
  assert (A = B) by (apply (Rmult_eq_reg_r dV); lra).
  assert (0 <= S) by lra.
  apply Rmult_le_pos; lra.
Qed.

Theorem dkl_def_identical ls dV : dkl_def (map (fun x => (x, x)) ls) dV = 0.
Proof.
  unfold dkl_def. cbv zeta. rewrite !map_map. cbn [fst snd].
  rewrite (Rlist_sum_map_ext R _ (fun _ => 0)).
  - rewrite Rlist_sum_map_const. ring.
  - intros x _. ring.
Qed.
