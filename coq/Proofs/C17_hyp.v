(* C17 -- NonLinLoc hypocentre files: the polarity picks of every event come back with their stations, angles and
   errors, grouped by phase type, row for row in file order; lines outside the PHASE section carry nothing;
   splitting at END_NLLOC recovers the events. *)
From Coq Require Import ZArith List Bool Lia.
From MTV.Model Require Import Hyp.
Import ListNotations.
Open Scope Z_scope.

Lemma hlookup_hadd k k' o d :
  hlookup k (hadd k' o d) = if k' =? k then hlookup k d ++ [o] else hlookup k d.
Proof.
  unfold hlookup. induction d as [|[k0 os] d IH]; cbn [hadd find fst snd].
  - destruct (k' =? k) eqn:E; reflexivity.
  - destruct (k' =? k0) eqn:E0; cbn [find fst snd].
    + apply Z.eqb_eq in E0. subst k0. destruct (k' =? k) eqn:E; reflexivity.
    + destruct (k0 =? k) eqn:E1; [|exact IH].
      apply Z.eqb_eq in E1. subst k0. rewrite E0. reflexivity.
Qed.

Definition wanted (k : Z) (p : pick) : bool := (p_pha p =? k) && negb (pol_value (p_pol p) =? 0).

(* inside the PHASE section every well-formed pick line is read *)
Lemma fold_picks ps : forall d, Forall (fun np => (25 <= fst np)%nat) ps ->
  exists d', fold_left hstep (map (fun np => HLine (fst np) (snd np)) ps) (true, d) = (true, d') /\
             forall k, hlookup k d' = hlookup k d ++ map obs_of (filter (wanted k) (map snd ps)).
Proof.
  induction ps as [|[n p] ps IH]; intros d Hn.
  - exists d. split; [reflexivity|]. intros k. cbn. rewrite app_nil_r. reflexivity.
  - inversion Hn as [|x l Hx Hl]; subst. cbn [fst] in Hx.
    cbn [map fold_left fst snd hstep].
    assert (E24 : (24 <=? n)%nat = true) by (apply Nat.leb_le; lia).
    rewrite E24. cbn [andb].
    destruct (pol_value (p_pol p) =? 0) eqn:E0.
    + destruct (IH d Hl) as (d' & F & L). exists d'. split; [exact F|].
      intros k. rewrite L. cbn [filter]. unfold wanted at 2. rewrite E0, andb_false_r. reflexivity.
    + destruct (IH (hadd (p_pha p) (obs_of p) d) Hl) as (d' & F & L). exists d'. split; [exact F|].
      intros k. rewrite L, hlookup_hadd. cbn [filter]. unfold wanted at 2. rewrite E0. cbn [negb].
      rewrite andb_true_r. destruct (p_pha p =? k); cbn [map]; [rewrite <- app_assoc; reflexivity|reflexivity].
Qed.

Definition not_phase (l : hline) : Prop := l <> HPhase.

(* outside the PHASE section nothing is read, whatever the lines hold (also lines of 24 and more tokens) *)
Lemma fold_outside ls : forall d, Forall not_phase ls -> fold_left hstep ls (false, d) = (false, d).
Proof.
  induction ls as [|l ls IH]; intros d H; [reflexivity|].
  inversion H as [|x y Hx Hy]; subst. cbn [fold_left].
  destruct l as [| | |n p]; cbn [hstep andb]; try (apply IH; exact Hy).
  exfalso. apply Hx. reflexivity.
Qed.

Definition render_hyp_event (pre : list hline) (ps : list (nat * pick)) (post : list hline) : list hline :=
  pre ++ [HPhase] ++ map (fun np => HLine (fst np) (snd np)) ps ++ [HEndPhase] ++ post.

Theorem hyp_event_picks pre ps post k :
  Forall not_phase pre -> Forall not_phase post -> Forall (fun np => (25 <= fst np)%nat) ps ->
  hlookup k (parse_hyp_event (render_hyp_event pre ps post)) = map obs_of (filter (wanted k) (map snd ps)).
Proof.
  intros Hpre Hpost Hps. unfold parse_hyp_event, render_hyp_event.
  rewrite fold_left_app, (fold_outside pre [] Hpre).
  cbn [app fold_left hstep]. rewrite fold_left_app.
  destruct (fold_picks ps [] Hps) as (d' & F & L). rewrite F.
  cbn [app fold_left hstep]. rewrite (fold_outside post d' Hpost). cbn [snd].
  rewrite L. reflexivity.
Qed.

(* the parsed dictionary never holds two entries for one phase type, nor an empty entry *)
Definition hkeys (d : hdict) : list Z := map fst d.
Lemma hadd_keys k o d : NoDup (hkeys d) -> NoDup (hkeys (hadd k o d)) /\ (forall x, In x (hkeys (hadd k o d)) <-> x = k \/ In x (hkeys d)).
Proof.
  induction d as [|[k0 os] d IH]; intros ND; cbn [hadd hkeys map fst].
  - split; [constructor; [intros []|constructor]|]. intros x. cbn. intuition.
  - inversion ND as [|a b Ha Hb]; subst. destruct (k =? k0) eqn:E.
    + apply Z.eqb_eq in E. subst k0. cbn [map fst]. split; [constructor; assumption|]. intros x. cbn. intuition.
    + destruct (IH Hb) as [N I]. cbn [map fst]. fold (hkeys (hadd k o d)). split.
      * constructor; [|exact N]. intros Hin. apply I in Hin. destruct Hin as [->|Hin]; [rewrite Z.eqb_refl in E; discriminate|].
        apply Ha. exact Hin.
      * intros x. cbn. rewrite I. fold (hkeys d). intuition.
Qed.

Lemma hstep_keys s l : NoDup (hkeys (snd s)) -> NoDup (hkeys (snd (hstep s l))).
Proof.
  destruct s as [ph d]. intros ND. destruct l as [| | |n p]; cbn [hstep snd]; try exact ND.
  destruct (ph && (24 <=? n)%nat); [|exact ND].
  destruct (pol_value (p_pol p) =? 0); [exact ND|]. cbn [snd]. apply hadd_keys. exact ND.
Qed.

Theorem hyp_event_keys_distinct ls : NoDup (hkeys (parse_hyp_event ls)).
Proof.
  unfold parse_hyp_event.
  assert (G : forall s, NoDup (hkeys (snd s)) -> NoDup (hkeys (snd (fold_left hstep ls s)))).
  { induction ls as [|l ls IH]; intros s H; [exact H|]. cbn [fold_left]. apply IH, hstep_keys, H. }
  apply G. constructor.
Qed.

(* splitting at END_NLLOC recovers the events, for any number of events; a last event may lack its END_NLLOC *)
Definition no_endloc (e : list hline) : Prop := Forall (fun l => l <> HEndLoc) e.

Lemma split_body e : forall cur rest, no_endloc e ->
  split_events (e ++ HEndLoc :: rest) cur = (rev cur ++ e ++ [HEndLoc]) :: split_events rest [].
Proof.
  induction e as [|l e IH]; intros cur rest H.
  - cbn [app split_events rev]. reflexivity.
  - inversion H as [|x y Hx Hy]; subst. cbn [app].
    destruct l as [| | |n p]; try (exfalso; apply Hx; reflexivity);
      cbn [split_events]; rewrite (IH _ rest Hy); cbn [rev]; rewrite <- !app_assoc; reflexivity.
Qed.

Lemma split_tail e : forall cur, no_endloc e -> (cur <> [] \/ e <> []) -> split_events e cur = [rev cur ++ e].
Proof.
  induction e as [|l e IH]; intros cur H Hne.
  - cbn [split_events]. destruct cur; [destruct Hne as [Hc|Hc]; contradiction|]. rewrite app_nil_r. reflexivity.
  - inversion H as [|x y Hx Hy]; subst.
    destruct l as [| | |n p]; try (exfalso; apply Hx; reflexivity);
      cbn [split_events]; rewrite (IH _ Hy) by (left; discriminate); cbn [rev]; rewrite <- app_assoc; reflexivity.
Qed.

Theorem hyp_split_recovers_events events tail :
  Forall no_endloc events -> no_endloc tail ->
  split_events (concat (map (fun e => e ++ [HEndLoc]) events) ++ tail) [] =
  map (fun e => e ++ [HEndLoc]) events ++ (match tail with [] => [] | _ => [tail] end).
Proof.
  intros He Ht. induction events as [|e events IH].
  - cbn [map concat app]. destruct tail as [|l t]; [reflexivity|]. rewrite split_tail; [reflexivity|exact Ht|right; discriminate].
  - inversion He as [|x y Hx Hy]; subst. cbn [map concat]. rewrite <- !app_assoc. cbn [app].
    rewrite (split_body e [] _ Hx). cbn [rev app]. rewrite (IH Hy). reflexivity.
Qed.

(* the trailing END_NLLOC line of an event, like every line outside the PHASE section, changes nothing *)
Theorem hyp_parse_file events k :
  Forall no_endloc events ->
  map (hlookup k) (parse_hyp (concat (map (fun e => e ++ [HEndLoc]) events))) =
  map (fun e => hlookup k (parse_hyp_event (e ++ [HEndLoc]))) events.
Proof.
  intros He. unfold parse_hyp.
  pose proof (hyp_split_recovers_events events [] He (Forall_nil _)) as S. rewrite !app_nil_r in S. rewrite S.
  rewrite !map_map. reflexivity.
Qed.
