(* C08 -- uniform orientation of the double-couple / CLVD axes.
   The axes built by random_orthogonal_eigenvectors (Model/Sampling.v, [triad]) commute with every proper rotation of
   the two vector draws, and the joint density of those two draws (six independent standard normals) is unchanged by a
   rotation applied to both.  Hence the law of the triad is invariant under every rotation of space: the orientation is
   uniformly distributed (the uniqueness of the invariant measure on SO(3) is the measure-theoretic step that is not
   formalised, as for the full tensor).  The composed statement for one whole sample closes the two per-stage theorems
   of C08_sampling.v into one about [random_type]. *)
From Coq Require Import Reals Lra Nsatz.
From MTV.Lib Require Import Base.
From MTV.Model Require Import Sampling.
From MTV.Proofs Require Import C08_sampling.
Open Scope R_scope.

(* a rotation given by its three rows *)
Definition rot := ((R * R * R) * (R * R * R) * (R * R * R))%type.
Definition rapply (Q : rot) (v : R * R * R) : R * R * R :=
  let '(r1, r2, r3) := Q in (dot r1 v, dot r2 v, dot r3 v).
Definition det3 (Q : rot) : R := let '(r1, r2, r3) := Q in dot r1 (r_cross r2 r3).
Definition is_rotation (Q : rot) : Prop :=
  let '(r1, r2, r3) := Q in
  r_sumsq3 r1 = 1 /\ r_sumsq3 r2 = 1 /\ r_sumsq3 r3 = 1 /\ dot r1 r2 = 0 /\ dot r1 r3 = 0 /\ dot r2 r3 = 0 /\ det3 Q = 1.

Ltac rot_open Q H :=
  destruct Q as [[[[q11 q12] q13] [[q21 q22] q23]] [[q31 q32] q33]];
  unfold is_rotation, det3, r_sumsq3, sumsq3, dot, r_cross, cross in H;
  destruct H as (H1 & H2 & H3 & H12 & H13 & H23 & HD).

Lemma rot_dot Q a b : is_rotation Q -> dot (rapply Q a) (rapply Q b) = dot a b.
Proof.
  intros H. rot_open Q H. destruct a as [[a0 a1] a2], b as [[b0 b1] b2].
  unfold rapply, dot. nsatz.
Qed.

Lemma sumsq3_dot v : r_sumsq3 v = dot v v.
Proof. destruct v as [[v0 v1] v2]. reflexivity. Qed.

Lemma rot_sumsq Q v : is_rotation Q -> r_sumsq3 (rapply Q v) = r_sumsq3 v.
Proof. intros H. rewrite !sumsq3_dot. apply rot_dot, H. Qed.

Lemma rot_cross Q a b : is_rotation Q -> r_cross (rapply Q a) (rapply Q b) = rapply Q (r_cross a b).
Proof.
  intros H. rot_open Q H. destruct a as [[a0 a1] a2], b as [[b0 b1] b2].
  unfold rapply, r_cross, cross, dot.
  f_equal; [f_equal|]; nsatz.
Qed.

Lemma rot_scale Q v n : rapply Q (@scale3 R Rdiv v n) = @scale3 R Rdiv (rapply Q v) n.
Proof.
  destruct Q as [[[[q11 q12] q13] [[q21 q22] q23]] [[q31 q32] q33]], v as [[v0 v1] v2].
  unfold rapply, scale3, dot, Rdiv. f_equal; [f_equal|]; ring.
Qed.

Lemma rot_normalise Q v : is_rotation Q -> r_normalise3 (rapply Q v) = rapply Q (r_normalise3 v).
Proof.
  intros H. unfold r_normalise3, normalise3. fold r_sumsq3. rewrite (rot_sumsq Q v H). symmetry. apply rot_scale.
Qed.

(* the axes commute with rotations of the draws: no hypothesis on the draws is needed *)
Theorem triad_equivariant Q ar x : is_rotation Q ->
  r_triad (rapply Q ar) (rapply Q x) =
  let '(a, b, c) := r_triad ar x in (rapply Q a, rapply Q b, rapply Q c).
Proof.
  intros H.
  change (r_triad (rapply Q ar) (rapply Q x)) with
    (let a := r_normalise3 (rapply Q ar) in let b := r_normalise3 (r_cross a (rapply Q x)) in
     let c := r_normalise3 (r_cross a b) in (a, b, c)).
  change (r_triad ar x) with
    (let a := r_normalise3 ar in let b := r_normalise3 (r_cross a x) in
     let c := r_normalise3 (r_cross a b) in (a, b, c)).
  cbv zeta.
  rewrite (rot_normalise Q ar H).
  rewrite (rot_cross Q _ x H), (rot_normalise Q _ H).
  rewrite (rot_cross Q _ _ H), (rot_normalise Q _ H).
  reflexivity.
Qed.

(* joint density of the two vector draws *)
Definition density3 (v : R * R * R) : R := let '(v0, v1, v2) := v in phi v0 * phi v1 * phi v2.
Definition axis_draw_density (ar x : R * R * R) : R := density3 ar * density3 x.

Lemma density3_spherical v : density3 v = exp (- r_sumsq3 v / 2) / (sqrt (2 * PI)) ^ 3.
Proof.
  destruct v as [[v0 v1] v2]. unfold density3, phi, r_sumsq3, sumsq3.
  assert (Hp : sqrt (2 * PI) <> 0).
  { apply Rgt_not_eq, sqrt_lt_R0. pose proof PI_RGT_0. lra. }
  replace (- (v0 * v0 + v1 * v1 + v2 * v2) / 2) with (- (v0 * v0) / 2 + (- (v1 * v1) / 2 + - (v2 * v2) / 2)) by field.
  rewrite !exp_plus. field. exact Hp.
Qed.

Theorem axis_draw_density_rotation_invariant Q ar x : is_rotation Q ->
  axis_draw_density (rapply Q ar) (rapply Q x) = axis_draw_density ar x.
Proof.
  intros H. unfold axis_draw_density. rewrite !density3_spherical, !(rot_sumsq Q _ H). reflexivity.
Qed.

(* one whole sample: for every pair of non-parallel draws the six-vector is unit and has the eigenvalue pattern on the
   axes the construction made *)
Theorem random_type_sample l ar x :
  0 < r_sumsq3 ar -> 0 < r_sumsq3 (r_cross (r_normalise3 ar) x) -> 0 < r_sumsq3 l ->
  let m := r_random_type l ar x in let '(a, b, c) := r_triad ar x in
  let '(l0, l1, l2) := l in let n := sqrt (r_sumsq3 l) in
  r_sumsq6 m = 1 /\ apply33 m a = smul (l0 / n) a /\ apply33 m b = smul (l1 / n) b /\ apply33 m c = smul (l2 / n) c.
Proof.
  intros Ha Hb Hl. pose proof (triad_orthonormal ar x Ha Hb) as T.
  unfold r_random_type, random_type. fold r_triad. fold r_assemble.
  destruct (r_triad ar x) as [[a b] c]. destruct T as (Ua & Ub & Uc & Oab & Oac & Obc).
  exact (assembled_tensor l a b c Ua Ub Uc Oab Oac Obc Hl).
Qed.

(* non-vacuity: a quarter turn about the third axis is a rotation *)
Example quarter_turn_is_rotation : is_rotation ((0, -1, 0), (1, 0, 0), (0, 0, 1)).
Proof. unfold is_rotation, det3, r_sumsq3, sumsq3, dot, r_cross, cross. repeat split; ring. Qed.

(* ---- joint draws: every event receives one sample per column of its own block of draws, and its samples are a
   function of that block alone (replacing the draws of the other events changes nothing) *)
From Coq Require Import List.
Theorem joint_draw_counts (D S : Type) (f : D -> S) blocks :
  length (joint_draw f blocks) = length blocks /\
  forall e, length (nth e (joint_draw f blocks) nil) = length (nth e blocks nil).
Proof.
  unfold joint_draw. split; [apply map_length|]. intros e.
  change (@nil S) with (map f nil). rewrite map_nth. apply map_length.
Qed.

Theorem joint_draw_own_block (D S : Type) (f : D -> S) blocks blocks' e :
  nth e blocks nil = nth e blocks' nil -> nth e (joint_draw f blocks) nil = nth e (joint_draw f blocks') nil.
Proof.
  unfold joint_draw. intros H. change (@nil S) with (map f nil). rewrite !map_nth, H. reflexivity.
Qed.
