(* Random source generators (Model/Sampling.v) at the reals: unit norm, rotation-invariant law of the Gaussian draw,
   orthonormal triad, eigenvalue pattern of the assembled tensor. *)
From Coq Require Import Reals Lra.
From MTV.Lib Require Import Base Linalg.
From MTV.Model Require Import Sampling.
Open Scope R_scope.

Definition r_sumsq3 := @sumsq3 R Rplus Rmult.
Definition r_normalise3 := @normalise3 R Rplus Rmult Rdiv sqrt.
Definition r_cross := @cross R Rminus Rmult.
Definition r_triad := @triad R Rplus Rminus Rmult Rdiv sqrt.
Definition r_assemble := @assemble R Rplus Rmult Rdiv sqrt (sqrt 2).
Definition r_random_type := @random_type R Rplus Rminus Rmult Rdiv sqrt (sqrt 2).
Definition r_random_mt := @random_mt R Rplus Rmult Rdiv sqrt.
Definition r_sumsq6 := @sumsq6 R Rplus Rmult.

Definition dot (a b : R * R * R) : R :=
  let '(a0, a1, a2) := a in let '(b0, b1, b2) := b in a0 * b0 + a1 * b1 + a2 * b2.

(* ---- normalised Gaussian six-vector *)
Theorem random_mt_unit m : 0 < r_sumsq6 m -> r_sumsq6 (r_random_mt m) = 1.
Proof.
  destruct m as [[[[[m0 m1] m2] m3] m4] m5]. unfold r_sumsq6, r_random_mt, random_mt, normalise6, scale6, sumsq6.
  intros H. set (q := m0 * m0 + m1 * m1 + m2 * m2 + m3 * m3 + m4 * m4 + m5 * m5) in *.
  assert (Hs : 0 < sqrt q) by (apply sqrt_lt_R0; exact H).
  assert (Hq : sqrt q * sqrt q = q) by (apply sqrt_sqrt; lra).
  replace (m0 / sqrt q * (m0 / sqrt q) + m1 / sqrt q * (m1 / sqrt q) + m2 / sqrt q * (m2 / sqrt q) +
           m3 / sqrt q * (m3 / sqrt q) + m4 / sqrt q * (m4 / sqrt q) + m5 / sqrt q * (m5 / sqrt q))
    with ((m0 * m0 + m1 * m1 + m2 * m2 + m3 * m3 + m4 * m4 + m5 * m5) / (sqrt q * sqrt q)) by (field; lra).
  rewrite Hq. unfold q in *. field. lra.
Qed.

(* the joint density of six independent standard normal draws depends on the draws only through their sum of squares:
   it is the same at any two points related by a rotation (or any map preserving the norm), so the direction of the
   draw -- the normalised vector returned -- has a rotation-invariant law, i.e. is uniform on the 6-sphere *)
Definition phi (x : R) : R := exp (- (x * x) / 2) / sqrt (2 * PI).
Definition density6 (m : R * R * R * R * R * R) : R :=
  let '(m0, m1, m2, m3, m4, m5) := m in phi m0 * phi m1 * phi m2 * phi m3 * phi m4 * phi m5.

Theorem gaussian_density_is_spherical m : density6 m = exp (- r_sumsq6 m / 2) / (sqrt (2 * PI)) ^ 6.
Proof.
  destruct m as [[[[[m0 m1] m2] m3] m4] m5]. unfold density6, phi, r_sumsq6, sumsq6.
  assert (Hp : 0 < sqrt (2 * PI)) by (apply sqrt_lt_R0; pose proof PI_RGT_0; lra).
  replace (- (m0 * m0 + m1 * m1 + m2 * m2 + m3 * m3 + m4 * m4 + m5 * m5) / 2)
    with (- (m0 * m0) / 2 + (- (m1 * m1) / 2 + (- (m2 * m2) / 2 + (- (m3 * m3) / 2 + (- (m4 * m4) / 2 + - (m5 * m5) / 2))))) by field.
  rewrite !exp_plus. field. lra.
Qed.

Theorem gaussian_density_rotation_invariant m m' : r_sumsq6 m = r_sumsq6 m' -> density6 m = density6 m'.
Proof. intros H. rewrite !gaussian_density_is_spherical, H. reflexivity. Qed.

(* ---- orthonormal triad *)
Lemma normalise3_unit v : 0 < r_sumsq3 v -> r_sumsq3 (r_normalise3 v) = 1.
Proof.
  destruct v as [[x y] z]. unfold r_sumsq3, r_normalise3, normalise3, scale3, sumsq3. intros H.
  set (q := x * x + y * y + z * z) in *.
  assert (Hs : 0 < sqrt q) by (apply sqrt_lt_R0; exact H).
  assert (Hq : sqrt q * sqrt q = q) by (apply sqrt_sqrt; lra).
  replace (x / sqrt q * (x / sqrt q) + y / sqrt q * (y / sqrt q) + z / sqrt q * (z / sqrt q))
    with ((x * x + y * y + z * z) / (sqrt q * sqrt q)) by (field; lra).
  rewrite Hq. unfold q in *. field. lra.
Qed.

Lemma normalise3_dot v w : 0 < r_sumsq3 v -> dot v w = 0 -> dot (r_normalise3 v) w = 0.
Proof.
  destruct v as [[x y] z], w as [[p q] r]. unfold r_sumsq3, r_normalise3, normalise3, scale3, sumsq3, dot. intros H D.
  assert (Hs : 0 < sqrt (x * x + y * y + z * z)) by (apply sqrt_lt_R0; exact H).
  replace (x / sqrt (x * x + y * y + z * z) * p + y / sqrt (x * x + y * y + z * z) * q + z / sqrt (x * x + y * y + z * z) * r)
    with ((x * p + y * q + z * r) / sqrt (x * x + y * y + z * z)) by (field; lra).
  rewrite D. field. lra.
Qed.

Lemma cross_orth_l a x : dot (r_cross a x) a = 0.
Proof. destruct a as [[a0 a1] a2], x as [[x0 x1] x2]. unfold dot, r_cross, cross. ring. Qed.
Lemma cross_orth_r a x : dot (r_cross a x) x = 0.
Proof. destruct a as [[a0 a1] a2], x as [[x0 x1] x2]. unfold dot, r_cross, cross. ring. Qed.
Lemma dot_sym a b : dot a b = dot b a.
Proof. destruct a as [[a0 a1] a2], b as [[b0 b1] b2]. unfold dot. ring. Qed.
Lemma lagrange a b : r_sumsq3 (r_cross a b) = r_sumsq3 a * r_sumsq3 b - dot a b * dot a b.
Proof. destruct a as [[a0 a1] a2], b as [[b0 b1] b2]. unfold r_sumsq3, sumsq3, r_cross, cross, dot. ring. Qed.

(* for every pair of draws whose vectors are not parallel (probability one), the three axes are orthonormal *)
Theorem triad_orthonormal ar x : 0 < r_sumsq3 ar -> 0 < r_sumsq3 (r_cross (r_normalise3 ar) x) ->
  let '(a, b, c) := r_triad ar x in
  r_sumsq3 a = 1 /\ r_sumsq3 b = 1 /\ r_sumsq3 c = 1 /\ dot a b = 0 /\ dot a c = 0 /\ dot b c = 0.
Proof.
  intros Ha Hb. unfold r_triad, triad.
  fold r_normalise3. fold r_cross.
  set (a := r_normalise3 ar) in *.
  set (b := r_normalise3 (r_cross a x)).
  assert (Ua : r_sumsq3 a = 1) by (apply normalise3_unit; exact Ha).
  assert (Ub : r_sumsq3 b = 1) by (apply normalise3_unit; exact Hb).
  assert (Oab : dot a b = 0).
  { rewrite dot_sym. apply normalise3_dot; [exact Hb | apply cross_orth_l]. }
  assert (Lc : r_sumsq3 (r_cross a b) = 1) by (rewrite lagrange, Ua, Ub, Oab; ring).
  assert (Pc : 0 < r_sumsq3 (r_cross a b)) by lra.
  assert (Uc : r_sumsq3 (r_normalise3 (r_cross a b)) = 1) by (apply normalise3_unit; exact Pc).
  assert (Oac : dot a (r_normalise3 (r_cross a b)) = 0).
  { rewrite dot_sym. apply normalise3_dot; [exact Pc | apply cross_orth_l]. }
  assert (Obc : dot b (r_normalise3 (r_cross a b)) = 0).
  { rewrite dot_sym. apply normalise3_dot; [exact Pc | apply cross_orth_r]. }
  repeat split; [exact Ua | exact Ub | exact Uc | exact Oab | exact Oac | exact Obc].
Qed.

(* ---- the assembled tensor: unit six-vector with the prescribed eigenvalue pattern on the axes *)
Definition mt33 (m : R * R * R * R * R * R) (i j : nat) : R :=
  let '(m0, m1, m2, m3, m4, m5) := m in
  match i, j with
  | 0, 0 => m0 | 1, 1 => m1 | 2, 2 => m2
  | 0, 1 | 1, 0 => (m3 / sqrt 2)%R | 0, 2 | 2, 0 => (m4 / sqrt 2)%R | 1, 2 | 2, 1 => (m5 / sqrt 2)%R
  | _, _ => 0%R
  end%nat.
Definition apply33 (m : R * R * R * R * R * R) (v : R * R * R) : R * R * R :=
  let '(v0, v1, v2) := v in
  (mt33 m 0%nat 0%nat * v0 + mt33 m 0%nat 1%nat * v1 + mt33 m 0%nat 2%nat * v2,
   mt33 m 1%nat 0%nat * v0 + mt33 m 1%nat 1%nat * v1 + mt33 m 1%nat 2%nat * v2,
   mt33 m 2%nat 0%nat * v0 + mt33 m 2%nat 1%nat * v1 + mt33 m 2%nat 2%nat * v2).
Definition smul (k : R) (v : R * R * R) : R * R * R := let '(v0, v1, v2) := v in (k * v0, k * v1, k * v2).

Theorem assembled_tensor l a b c :
  r_sumsq3 a = 1 -> r_sumsq3 b = 1 -> r_sumsq3 c = 1 -> dot a b = 0 -> dot a c = 0 -> dot b c = 0 -> 0 < r_sumsq3 l ->
  let m := r_assemble l (a, b, c) in let '(l0, l1, l2) := l in let n := sqrt (r_sumsq3 l) in
  r_sumsq6 m = 1 /\ apply33 m a = smul (l0 / n) a /\ apply33 m b = smul (l1 / n) b /\ apply33 m c = smul (l2 / n) c.
Proof.
  destruct l as [[l0 l1] l2], a as [[a0 a1] a2], b as [[b0 b1] b2], c as [[c0 c1] c2].
  unfold r_sumsq3, sumsq3, dot. intros Ua Ub Uc Oab Oac Obc Hl. cbv zeta.
  unfold r_assemble, assemble, normalise6, scale6, wsum.
  pose proof sqrt2_sq as S2. pose proof sqrt2_pos as P2.
  (* Frobenius norm of sum_k l_k e_k e_k^t is the norm of the eigenvalues *)
  pose proof (rebuilt_frobenius a0 a1 a2 b0 b1 b2 c0 c1 c2 l0 l1 l2 Ua Ub Uc Oab Oac Obc) as F.
  set (M00 := a0 * a0 * l0 + b0 * b0 * l1 + c0 * c0 * l2) in *.
  set (M11 := a1 * a1 * l0 + b1 * b1 * l1 + c1 * c1 * l2) in *.
  set (M22 := a2 * a2 * l0 + b2 * b2 * l1 + c2 * c2 * l2) in *.
  set (M01 := a0 * a1 * l0 + b0 * b1 * l1 + c0 * c1 * l2) in *.
  set (M02 := a0 * a2 * l0 + b0 * b2 * l1 + c0 * c2 * l2) in *.
  set (M12 := a1 * a2 * l0 + b1 * b2 * l1 + c1 * c2 * l2) in *.
  assert (Q' : M00 * M00 + M11 * M11 + M22 * M22 + 2 * (M01 * M01) + 2 * (M02 * M02) + 2 * (M12 * M12) = l0 * l0 + l1 * l1 + l2 * l2).
  { rewrite <- F. unfold M00, M11, M22, M01, M02, M12. ring. }
  assert (Q : sumsq6 Rplus Rmult (M00, M11, M22, sqrt 2 * M01, sqrt 2 * M02, sqrt 2 * M12) = l0 * l0 + l1 * l1 + l2 * l2).
  { unfold sumsq6. rewrite <- Q'.
    replace (sqrt 2 * M01 * (sqrt 2 * M01)) with ((sqrt 2 * sqrt 2) * (M01 * M01)) by ring.
    replace (sqrt 2 * M02 * (sqrt 2 * M02)) with ((sqrt 2 * sqrt 2) * (M02 * M02)) by ring.
    replace (sqrt 2 * M12 * (sqrt 2 * M12)) with ((sqrt 2 * sqrt 2) * (M12 * M12)) by ring.
    rewrite S2. ring. }
  rewrite Q. set (q := l0 * l0 + l1 * l1 + l2 * l2) in *.
  assert (Hs : 0 < sqrt q) by (apply sqrt_lt_R0; exact Hl).
  assert (Hq : sqrt q * sqrt q = q) by (apply sqrt_sqrt; lra).
  split.
  - unfold r_sumsq6, sumsq6.
    replace (M00 / sqrt q * (M00 / sqrt q) + M11 / sqrt q * (M11 / sqrt q) + M22 / sqrt q * (M22 / sqrt q) +
             sqrt 2 * M01 / sqrt q * (sqrt 2 * M01 / sqrt q) + sqrt 2 * M02 / sqrt q * (sqrt 2 * M02 / sqrt q) +
             sqrt 2 * M12 / sqrt q * (sqrt 2 * M12 / sqrt q))
      with ((M00 * M00 + M11 * M11 + M22 * M22 + (sqrt 2 * sqrt 2) * (M01 * M01) + (sqrt 2 * sqrt 2) * (M02 * M02) +
             (sqrt 2 * sqrt 2) * (M12 * M12)) / (sqrt q * sqrt q)) by (field; lra).
    rewrite Hq, S2, Q'. fold q. field. lra.
  - unfold apply33, mt33, smul.
    assert (D : forall x, sqrt 2 * x / sqrt q / sqrt 2 = x / sqrt q) by (intros; field; lra).
    rewrite !D.
    (* M e_k = l_k e_k for the un-normalised tensor: expand M = sum_k l_k e_k e_k^t and use orthonormality *)
    assert (EA : forall i0 i1 i2 ai bi ci, i0 = ai * a0 * l0 + bi * b0 * l1 + ci * c0 * l2 -> i1 = ai * a1 * l0 + bi * b1 * l1 + ci * c1 * l2 ->
                 i2 = ai * a2 * l0 + bi * b2 * l1 + ci * c2 * l2 -> i0 * a0 + i1 * a1 + i2 * a2 = l0 * ai).
    { intros i0 i1 i2 ai bi ci -> -> ->.
      transitivity (l0 * ai * (a0 * a0 + a1 * a1 + a2 * a2) + l1 * bi * (a0 * b0 + a1 * b1 + a2 * b2) + l2 * ci * (a0 * c0 + a1 * c1 + a2 * c2)); [ring|].
      rewrite Ua, Oab, Oac. ring. }
    assert (EB : forall i0 i1 i2 ai bi ci, i0 = ai * a0 * l0 + bi * b0 * l1 + ci * c0 * l2 -> i1 = ai * a1 * l0 + bi * b1 * l1 + ci * c1 * l2 ->
                 i2 = ai * a2 * l0 + bi * b2 * l1 + ci * c2 * l2 -> i0 * b0 + i1 * b1 + i2 * b2 = l1 * bi).
    { intros i0 i1 i2 ai bi ci -> -> ->.
      transitivity (l0 * ai * (a0 * b0 + a1 * b1 + a2 * b2) + l1 * bi * (b0 * b0 + b1 * b1 + b2 * b2) + l2 * ci * (b0 * c0 + b1 * c1 + b2 * c2)); [ring|].
      rewrite Ub, Oab, Obc. ring. }
    assert (EC : forall i0 i1 i2 ai bi ci, i0 = ai * a0 * l0 + bi * b0 * l1 + ci * c0 * l2 -> i1 = ai * a1 * l0 + bi * b1 * l1 + ci * c1 * l2 ->
                 i2 = ai * a2 * l0 + bi * b2 * l1 + ci * c2 * l2 -> i0 * c0 + i1 * c1 + i2 * c2 = l2 * ci).
    { intros i0 i1 i2 ai bi ci -> -> ->.
      transitivity (l0 * ai * (a0 * c0 + a1 * c1 + a2 * c2) + l1 * bi * (b0 * c0 + b1 * c1 + b2 * c2) + l2 * ci * (c0 * c0 + c1 * c1 + c2 * c2)); [ring|].
      rewrite Uc, Oac, Obc. ring. }
    assert (R0 : M00 = a0 * a0 * l0 + b0 * b0 * l1 + c0 * c0 * l2) by reflexivity.
    assert (R01 : M01 = a0 * a1 * l0 + b0 * b1 * l1 + c0 * c1 * l2) by reflexivity.
    assert (R02 : M02 = a0 * a2 * l0 + b0 * b2 * l1 + c0 * c2 * l2) by reflexivity.
    assert (R10 : M01 = a1 * a0 * l0 + b1 * b0 * l1 + c1 * c0 * l2) by (unfold M01; ring).
    assert (R1 : M11 = a1 * a1 * l0 + b1 * b1 * l1 + c1 * c1 * l2) by reflexivity.
    assert (R12 : M12 = a1 * a2 * l0 + b1 * b2 * l1 + c1 * c2 * l2) by reflexivity.
    assert (R20 : M02 = a2 * a0 * l0 + b2 * b0 * l1 + c2 * c0 * l2) by (unfold M02; ring).
    assert (R21 : M12 = a2 * a1 * l0 + b2 * b1 * l1 + c2 * c1 * l2) by (unfold M12; ring).
    assert (R2 : M22 = a2 * a2 * l0 + b2 * b2 * l1 + c2 * c2 * l2) by reflexivity.
    pose proof (EA _ _ _ _ _ _ R0 R01 R02) as A0. pose proof (EA _ _ _ _ _ _ R10 R1 R12) as A1. pose proof (EA _ _ _ _ _ _ R20 R21 R2) as A2.
    pose proof (EB _ _ _ _ _ _ R0 R01 R02) as B0. pose proof (EB _ _ _ _ _ _ R10 R1 R12) as B1. pose proof (EB _ _ _ _ _ _ R20 R21 R2) as B2.
    pose proof (EC _ _ _ _ _ _ R0 R01 R02) as C0. pose proof (EC _ _ _ _ _ _ R10 R1 R12) as C1. pose proof (EC _ _ _ _ _ _ R20 R21 R2) as C2.
    clearbody M00 M11 M22 M01 M02 M12.
    assert (G : forall x y z u v w k ai, x * u + y * v + z * w = k * ai -> x / sqrt q * u + y / sqrt q * v + z / sqrt q * w = k / sqrt q * ai).
    { intros x y z u v w k ai E.
      transitivity ((x * u + y * v + z * w) / sqrt q); [field; lra|]. rewrite E. field. lra. }
    repeat split; repeat (apply f_equal2); apply G; assumption.
Qed.
