(* The front end composed with the forward task: the value of a tensor at a location record is the product, over the supplied
   observations whose station the location records list, of that observation's probability at its own station's ray. *)
From Coq Require Import ZArith List Bool Lia Permutation Sorting.Sorted Ring_theory Ring.
From MTV.Model Require Import Matrices Forward FrontEnd.
From MTV.Proofs Require Import C11_rows C01_forward.
Import ListNotations.

Section FE.
Context {T : Type} (zero one : T) (add mul : T -> T -> T).
Hypothesis SR : semi_ring_theory zero one add mul (@eq T).
Add Ring Tring2 : SR.
Variable atom : nat -> obs -> Z * Z -> nat -> T.

Notation prodl := (prodl one mul).
Notation prodv := (prodv one mul).
Notation term_of_row := (term_of_row atom).
Notation factor := (factor atom).

Lemma prodl_values ts k m : prodl ts k m = prodv (map (fun t => t k m) ts).
Proof. induction ts as [|t ts IH]; simpl; [reflexivity|]. rewrite IH. reflexivity. Qed.

Lemma prodv_perm a b : Permutation a b -> prodv a = prodv b.
Proof.
  induction 1 as [|x l l' _ IH|x y l|l l' l'' _ IH1 _ IH2]; simpl.
  - reflexivity.
  - rewrite IH. reflexivity.
  - ring.
  - rewrite IH1. exact IH2.
Qed.

Lemma prodv_app a b : prodv (a ++ b) = mul (prodv a) (prodv b).
Proof. induction a as [|x a IH]; simpl; [ring|]. rewrite IH. ring. Qed.

Lemma sorted_NoDup l : StronglySorted Z.lt l -> NoDup l.
Proof.
  induction 1 as [|x l Hs IH Hall]; constructor; [|exact IH].
  intros Hin. rewrite Forall_forall in Hall. specialize (Hall x Hin). lia.
Qed.

Lemma map_NoDup_in {A B} (f : A -> B) l :
  (forall a b, In a l -> In b l -> f a = f b -> a = b) -> NoDup l -> NoDup (map f l).
Proof.
  induction l as [|x l IH]; intros Hinj Hnd; simpl; [constructor|].
  inversion Hnd as [|? ? Hx Hl]; subst. constructor.
  - intros Hin. apply in_map_iff in Hin. destruct Hin as [y [Hy Hyl]].
    assert (y = x) by (apply Hinj; [right; exact Hyl|left; reflexivity|exact Hy]). subst. contradiction.
  - apply IH; [|exact Hl]. intros a b Ha Hb. apply Hinj; right; assumption.
Qed.

(* one data type, no location records: data order, the data's own angles *)
Lemma plain_type ty d k m :
  prodl (map (term_of_row ty) (rows_plain d)) 0 m = prodv (map (factor ty [] k m) d).
Proof.
  rewrite prodl_values. unfold rows_plain. rewrite !map_map. reflexivity.
Qed.

(* one data type with location records *)
Lemma loc_type ty d s0 rest k m :
  let samples := s0 :: rest in
  NoDup (map FrontEnd.dname d) ->
  (k < length samples)%nat -> map s_name (nth k samples []) = map s_name s0 ->
  prodl (map (term_of_row ty) (rows_loc d samples)) k m = prodv (map (factor ty samples k m) (taking_part d samples)).
Proof.
  intros samples ND Hk Hnames.
  rewrite prodl_values, map_map.
  set (names0 := map s_name s0). set (dnames := map FrontEnd.dname d).
  set (look := fun n => nth (index n dnames) d dummy_obs).
  (* the rows, as values, are the factors of the looked-up observations *)
  assert (E : map (fun r => term_of_row ty r k m) (rows_loc d samples) =
              map (factor ty samples k m) (map look (selected names0 dnames))).
  { unfold rows_loc. cbn [hd samples]. fold names0. change (map (fun o => s_name (o_st o)) d) with dnames.
    rewrite !map_map. apply map_ext_in. intros n Hn. unfold FrontEnd.term_of_row, FrontEnd.factor. cbn [r_obs r_angles samples].
    apply (selected_In names0 dnames) in Hn. destruct Hn as [Hn0 Hnd].
    destruct (index_found FrontEnd.dname dummy_obs n d Hnd) as [Hname _]. fold dnames in Hname. fold (look n) in Hname.
    f_equal.
    change (s0 :: rest) with samples.
    rewrite (nth_indep _ (0, 0)%Z (angles_of (nth (index n names0) [] dummy_st)))
      by (rewrite map_length; exact Hk).
    rewrite (map_nth (fun s => angles_of (nth (index n names0) s dummy_st)) samples [] k).
    unfold FrontEnd.ray_of. rewrite Hname, Hnames. reflexivity. }
  rewrite E. apply prodv_perm. apply Permutation_map.
  (* the looked-up observations are exactly the observations taking part *)
  apply NoDup_Permutation.
  - (* no duplicates: the names are strictly sorted and the lookup is injective on them *)
    apply map_NoDup_in.
    + intros a b Ha Hb Hab.
      apply (selected_In names0 dnames) in Ha. apply (selected_In names0 dnames) in Hb.
      destruct (index_found FrontEnd.dname dummy_obs a d (proj2 Ha)) as [H1 _].
      destruct (index_found FrontEnd.dname dummy_obs b d (proj2 Hb)) as [H2 _].
      fold dnames in H1, H2. fold (look a) in H1. fold (look b) in H2. rewrite <- H1, <- H2, Hab. reflexivity.
    + apply sorted_NoDup. apply selected_sorted.
  - unfold taking_part. cbn [samples]. apply NoDup_filter.
    apply (NoDup_map_inv FrontEnd.dname). exact ND.
  - intros o. unfold taking_part. cbn [samples]. rewrite filter_In, in_map_iff. fold names0. split.
    + intros [n [Hl Hn]]. apply (selected_In names0 dnames) in Hn. destruct Hn as [Hn0 Hnd].
      destruct (index_found FrontEnd.dname dummy_obs n d Hnd) as [H1 H2]. fold dnames in H1, H2. fold (look n) in H1, H2.
      rewrite Hl in H1, H2. split; [exact H2|]. apply mem_In. rewrite H1. exact Hn0.
    + intros [Hin Hmem]. apply mem_In in Hmem. exists (FrontEnd.dname o). split.
      * unfold look. apply (index_unique FrontEnd.dname dummy_obs); [exact ND|exact Hin|reflexivity].
      * apply (selected_In names0 dnames). split; [exact Hmem|]. unfold dnames. apply in_map. exact Hin.
Qed.

(* a family of data types *)
Lemma family ty types samples k m :
  (forall d, In d types -> NoDup (map FrontEnd.dname d)) ->
  (samples = [] /\ k = 0%nat \/ exists s0 rest, samples = s0 :: rest /\ (k < length samples)%nat /\ map s_name (nth k samples []) = map s_name s0) ->
  prodl (terms_from atom ty types samples) k m = spec_from one mul atom ty types samples k m.
Proof.
  intros ND HS. revert ty. induction types as [|d rest IH]; intros ty; simpl; [reflexivity|].
  rewrite (prodl_app zero one add mul SR). rewrite IH by (intros d' Hd'; apply ND; right; exact Hd'). f_equal.
  destruct HS as [[-> ->]|[s0 [rs [-> [Hk Hn]]]]].
  - cbn [rows_of taking_part]. apply plain_type.
  - cbn [rows_of]. apply loc_type; [apply ND; left; reflexivity|exact Hk|exact Hn].
Qed.

(* the whole front end: polarity family (manual polarities, else polarity probabilities) times the amplitude-ratio family *)
Definition records_consistent (samples : list (list station)) (k : nat) : Prop :=
  samples = [] /\ k = 0%nat \/
  exists s0 rest, samples = s0 :: rest /\ (k < length samples)%nat /\ map s_name (nth k samples []) = map s_name s0.

Theorem front_end_posterior pol prob ar samples k m :
  (forall d, In d (pol ++ prob ++ ar) -> NoDup (map FrontEnd.dname d)) ->
  records_consistent samples k ->
  likelihood one mul (front atom pol prob ar samples) k m =
  mul (match pol with [] => spec_from one mul atom 100 prob samples k m | _ => spec_from one mul atom 0 pol samples k m end)
      (spec_from one mul atom 200 ar samples k m).
Proof.
  intros ND HS.
  assert (Np : forall d, In d pol -> NoDup (map FrontEnd.dname d)) by (intros d H; apply ND; apply in_or_app; left; exact H).
  assert (Nq : forall d, In d prob -> NoDup (map FrontEnd.dname d)) by (intros d H; apply ND; apply in_or_app; right; apply in_or_app; left; exact H).
  assert (Nr : forall d, In d ar -> NoDup (map FrontEnd.dname d)) by (intros d H; apply ND; apply in_or_app; right; apply in_or_app; right; exact H).
  pose proof (family 0 pol samples k m Np HS) as Fp.
  pose proof (family 100 prob samples k m Nq HS) as Fq.
  pose proof (family 200 ar samples k m Nr HS) as Fr.
  unfold likelihood, front, opt_terms. cbn [d_pol d_prob d_ar].
  destruct pol as [|p0 pol']; destruct prob as [|q0 prob']; destruct ar as [|r0 ar'];
    rewrite ?Fp, ?Fq, ?Fr; cbn [FrontEnd.spec_from]; ring.
Qed.
End FE.
