(* C10: evidence, model probabilities and the divergence estimate, as translated from
   ln_bayesian_evidence (sampling.py), model_probabilities and dkl_estimate (probability.py). *)
From Coq Require Import Reals List Lra Psatz Sorting.Permutation.
From MTV.Lib Require Import Base Rlist.
From MTV.Gen Require Import Evidence.
Import ListNotations.
Open Scope R_scope.

(* ---- evidence -------------------------------------------------------------------------------- *)

Lemma sum_exp_shifted ls a :
  Rlist_sum (map (fun l => exp (l + a)) ls) = exp a * sumexp ls.
Proof. unfold sumexp. induction ls as [|x ls IH]; simpl; [ring|]. rewrite IH, exp_plus. ring. Qed.

Lemma evidence_is_log_mean ls p n : ls <> [] -> 0 < p -> 0 < n ->
  ln_evidence ls p n = ln (p * sumexp ls / n).
Proof.
  intros Hne Hp Hn. unfold ln_evidence.
  rewrite (Rlist_sum_map_ext R _ (fun l => exp (l + (ln p - Rlist_max ls)))).
  2:{ intros x _. f_equal. ring. }
  rewrite sum_exp_shifted.
  pose proof (sumexp_pos ls Hne) as Hs. pose proof (exp_pos (ln p - Rlist_max ls)) as He.
  rewrite ln_mult by assumption. rewrite ln_exp.
  unfold Rdiv. rewrite ln_mult; [|apply Rmult_lt_0_compat; assumption|apply Rinv_0_lt_compat; exact Hn].
  rewrite ln_mult by assumption. rewrite ln_Rinv by exact Hn. ring.
Qed.

Lemma evidence_shift ls p n c : ls <> [] -> 0 < p -> 0 < n ->
  ln_evidence (map (fun l => l + c) ls) p n = ln_evidence ls p n + c.
Proof.
  intros Hne Hp Hn.
  assert (Hne' : map (fun l => l + c) ls <> []) by (destruct ls; [contradiction|discriminate]).
  rewrite !evidence_is_log_mean by assumption. rewrite sumexp_shift.
  pose proof (sumexp_pos ls Hne) as Hs. pose proof (exp_pos c) as He.
  replace (p * (exp c * sumexp ls) / n) with (exp c * (p * sumexp ls / n)) by (field; lra).
  assert (Hq : 0 < p * sumexp ls / n) by (apply Rdiv_lt_0_compat; [apply Rmult_lt_0_compat; assumption|exact Hn]).
  rewrite ln_mult by assumption. rewrite ln_exp. ring.
Qed.

Lemma sumexp_perm ls ls' : Permutation ls ls' -> sumexp ls = sumexp ls'.
Proof.
  unfold sumexp. induction 1 as [|x l l' _ IH|x y l|l l' l'' _ IH1 _ IH2]; simpl; lra.
Qed.

Lemma evidence_perm ls ls' p n : ls <> [] -> 0 < p -> 0 < n -> Permutation ls ls' ->
  ln_evidence ls p n = ln_evidence ls' p n.
Proof.
  intros Hne Hp Hn Hperm.
  assert (Hne' : ls' <> []).
  { intros E. subst. apply Permutation_sym, Permutation_nil in Hperm. contradiction. }
  rewrite !evidence_is_log_mean by assumption. rewrite (sumexp_perm _ _ Hperm). reflexivity.
Qed.

(* zero-probability samples (log = -inf) add nothing to the sum but count in n: the mean over all
   tried samples.  In the model they are the entries that are absent from ls while n counts them. *)
Lemma evidence_counts_all_tried ls p n k : ls <> [] -> 0 < p -> 0 < n -> 0 <= k ->
  ln_evidence ls p (n + k) = ln (p * (sumexp ls + k * 0) / (n + k)).
Proof. intros. rewrite evidence_is_log_mean by (try assumption; lra). f_equal. f_equal. ring. Qed.

(* stability: the arguments of exp are at most ln p (0 for the uniform prior p = 1) *)
Lemma evidence_safe ls p l : In l ls -> l + ln p - Rlist_max ls <= ln p.
Proof. intros H. pose proof (Rlist_max_ge ls l H). lra. Qed.

(* ---- model probabilities (2..5 models) ------------------------------------------------------- *)

Lemma exp_minus x y : exp (x - y) = exp x / exp y.
Proof. unfold Rminus, Rdiv. rewrite exp_plus, exp_Ropp. reflexivity. Qed.

Ltac mp_setup :=
  repeat match goal with |- context [exp ?a] =>
    let He := fresh "He" in
    pose proof (exp_pos a) as He; revert He; generalize (exp a); intros ? ? end.

Lemma mp2_sum a b : let '(p, q) := model_probs_2 a b in p + q = 1 /\ 0 < p /\ 0 < q.
Proof.
  unfold model_probs_2. cbv beta iota zeta. mp_setup.
  split; [field; lra|]. split; apply Rdiv_lt_0_compat; lra.
Qed.

Lemma mp2_ratio a b : let '(p, q) := model_probs_2 a b in p / q = exp (a - b).
Proof.
  unfold model_probs_2. cbv beta iota zeta. set (m := Rmax a b).
  replace (a - b) with ((a - m) - (b - m)) by ring. rewrite (exp_minus (a - m) (b - m)).
  pose proof (exp_pos (a - m)). pose proof (exp_pos (b - m)). field. lra.
Qed.

Lemma Rmax_plus a b c : Rmax (a + c) (b + c) = Rmax a b + c.
Proof. unfold Rmax. destruct (Rle_dec (a + c) (b + c)), (Rle_dec a b); lra. Qed.

Lemma mp2_shift a b c : model_probs_2 (a + c) (b + c) = model_probs_2 a b.
Proof.
  unfold model_probs_2. cbv beta iota zeta. rewrite Rmax_plus.
  replace (a + c - (Rmax a b + c)) with (a - Rmax a b) by ring.
  replace (b + c - (Rmax a b + c)) with (b - Rmax a b) by ring. reflexivity.
Qed.

Lemma mp3_sum a b c : let '(p, q, r) := model_probs_3 a b c in p + q + r = 1 /\ 0 < p /\ 0 < q /\ 0 < r.
Proof.
  unfold model_probs_3. cbv beta iota zeta. mp_setup.
  split; [field; lra|]. repeat split; apply Rdiv_lt_0_compat; lra.
Qed.

Lemma mp3_ratio a b c : let '(p, q, r) := model_probs_3 a b c in p / q = exp (a - b) /\ q / r = exp (b - c).
Proof.
  unfold model_probs_3. cbv beta iota zeta. set (m := Rmax (Rmax a b) c).
  replace (a - b) with ((a - m) - (b - m)) by ring. replace (b - c) with ((b - m) - (c - m)) by ring.
  rewrite (exp_minus (a - m) (b - m)), (exp_minus (b - m) (c - m)).
  pose proof (exp_pos (a - m)). pose proof (exp_pos (b - m)). pose proof (exp_pos (c - m)).
  split; field; lra.
Qed.

Lemma mp3_shift a b c k : model_probs_3 (a + k) (b + k) (c + k) = model_probs_3 a b c.
Proof.
  unfold model_probs_3. cbv beta iota zeta. rewrite !Rmax_plus.
  set (m := Rmax (Rmax a b) c).
  replace (a + k - (m + k)) with (a - m) by ring.
  replace (b + k - (m + k)) with (b - m) by ring.
  replace (c + k - (m + k)) with (c - m) by ring. reflexivity.
Qed.

Lemma mp4_sum a b c d : let '(p, q, r, s) := model_probs_4 a b c d in
  p + q + r + s = 1 /\ 0 < p /\ 0 < q /\ 0 < r /\ 0 < s.
Proof.
  unfold model_probs_4. cbv beta iota zeta. mp_setup.
  split; [field; lra|]. repeat split; apply Rdiv_lt_0_compat; lra.
Qed.

Lemma mp4_ratio a b c d : let '(p, q, r, s) := model_probs_4 a b c d in
  p / q = exp (a - b) /\ q / r = exp (b - c) /\ r / s = exp (c - d).
Proof.
  unfold model_probs_4. cbv beta iota zeta. set (m := Rmax (Rmax (Rmax a b) c) d).
  replace (a - b) with ((a - m) - (b - m)) by ring. replace (b - c) with ((b - m) - (c - m)) by ring.
  replace (c - d) with ((c - m) - (d - m)) by ring.
  rewrite (exp_minus (a - m) (b - m)), (exp_minus (b - m) (c - m)), (exp_minus (c - m) (d - m)).
  pose proof (exp_pos (a - m)). pose proof (exp_pos (b - m)). pose proof (exp_pos (c - m)). pose proof (exp_pos (d - m)).
  repeat split; field; lra.
Qed.

Lemma mp5_sum a b c d e : let '(p, q, r, s, t) := model_probs_5 a b c d e in
  p + q + r + s + t = 1 /\ 0 < p /\ 0 < q /\ 0 < r /\ 0 < s /\ 0 < t.
Proof.
  unfold model_probs_5. cbv beta iota zeta. mp_setup.
  split; [field; lra|]. repeat split; apply Rdiv_lt_0_compat; lra.
Qed.

Lemma mp5_ratio a b c d e : let '(p, q, r, s, t) := model_probs_5 a b c d e in
  p / q = exp (a - b) /\ q / r = exp (b - c) /\ r / s = exp (c - d) /\ s / t = exp (d - e).
Proof.
  unfold model_probs_5. cbv beta iota zeta. set (m := Rmax (Rmax (Rmax (Rmax a b) c) d) e).
  replace (a - b) with ((a - m) - (b - m)) by ring. replace (b - c) with ((b - m) - (c - m)) by ring.
  replace (c - d) with ((c - m) - (d - m)) by ring. replace (d - e) with ((d - m) - (e - m)) by ring.
  rewrite (exp_minus (a - m) (b - m)), (exp_minus (b - m) (c - m)), (exp_minus (c - m) (d - m)), (exp_minus (d - m) (e - m)).
  pose proof (exp_pos (a - m)). pose proof (exp_pos (b - m)). pose proof (exp_pos (c - m)).
  pose proof (exp_pos (d - m)). pose proof (exp_pos (e - m)).
  repeat split; field; lra.
Qed.

(* stability: every exponent is <= 0 (no overflow for evidences of any size) *)
Lemma mp_exponents_nonpos a b c : a - Rmax (Rmax a b) c <= 0 /\ b - Rmax (Rmax a b) c <= 0 /\ c - Rmax (Rmax a b) c <= 0.
Proof.
  pose proof (Rmax_l (Rmax a b) c). pose proof (Rmax_r (Rmax a b) c).
  pose proof (Rmax_l a b). pose proof (Rmax_r a b). repeat split; lra.
Qed.

(* ---- divergence of the sampled posterior from the uniform prior ------------------------------ *)

(* normalised sample weights *)
Definition weight (ls : list R) (l : R) : R := exp (l - Rlist_max ls) / Rlist_sum (map (fun x => exp (x - Rlist_max ls)) ls).

Lemma shifted_pos ls : ls <> [] -> 0 < Rlist_sum (map (fun x => exp (x - Rlist_max ls)) ls).
Proof. intros H. apply Rlist_sum_pos; [exact H|]. intros x _. apply exp_pos. Qed.

Lemma weight_pos ls l : ls <> [] -> 0 < weight ls l.
Proof. intros H. unfold weight. apply Rdiv_lt_0_compat; [apply exp_pos|apply shifted_pos; exact H]. Qed.

Lemma weights_sum_one ls : ls <> [] -> Rlist_sum (map (weight ls) ls) = 1.
Proof.
  intros H. unfold weight. pose proof (shifted_pos ls H) as Hs.
  set (S := Rlist_sum (map (fun x => exp (x - Rlist_max ls)) ls)) in *.
  rewrite (Rlist_sum_map_ext R _ (fun l => / S * exp (l - Rlist_max ls))) by (intros; unfold Rdiv; ring).
  rewrite Rlist_sum_map_scal. fold S. field. lra.
Qed.

Lemma weight_le_1 ls l : ls <> [] -> In l ls -> weight ls l <= 1.
Proof.
  intros H Hin. unfold weight. pose proof (shifted_pos ls H) as Hs.
  apply (Rmult_le_reg_r (Rlist_sum (map (fun x => exp (x - Rlist_max ls)) ls))); [exact Hs|].
  unfold Rdiv. rewrite Rmult_assoc, Rinv_l, Rmult_1_r, Rmult_1_l by lra.
  apply (Rlist_sum_ge_member R (fun x => exp (x - Rlist_max ls)) ls l); [|exact Hin].
  intros x _. left. apply exp_pos.
Qed.

(* the estimate is ln N minus the entropy of the normalised weights: V cancels *)
Lemma dkl_est_formula ls V N : ls <> [] -> 0 < V -> 0 < N ->
  dkl_est ls V N = ln N + Rlist_sum (map (fun l => weight ls l * ln (weight ls l)) ls).
Proof.
  intros Hne HV HN. unfold dkl_est. cbv beta iota zeta.
  pose proof (shifted_pos ls Hne) as Hs.
  set (m := Rlist_max ls) in *.
  set (S := Rlist_sum (map (fun x => exp (x - m)) ls)) in *.
  assert (HdV : 0 < V / N) by (apply Rdiv_lt_0_compat; assumption).
  rewrite (Rlist_sum_map_ext R _ (fun l => / (V / N) * (weight ls l * ln (weight ls l) + weight ls l * ln N))).
  2:{ intros l _. unfold weight. fold m. fold S.
      assert (He : 0 < exp (l - m)) by apply exp_pos.
      assert (Hw : 0 < exp (l - m) / S) by (apply Rdiv_lt_0_compat; assumption).
      assert (E1 : ln (S * (V / N)) = ln S + ln V - ln N).
      { rewrite ln_mult by assumption. unfold Rdiv. rewrite ln_mult by (try assumption; apply Rinv_0_lt_compat; exact HN).
        rewrite ln_Rinv by exact HN. ring. }
      assert (E2 : ln (exp (l - m) / S) = (l - m) - ln S).
      { unfold Rdiv. rewrite ln_mult by (try assumption; apply Rinv_0_lt_compat; exact Hs).
        rewrite ln_exp, ln_Rinv by exact Hs. ring. }
      rewrite E1, E2.
      field. repeat split; lra. }
  rewrite Rlist_sum_map_scal, Rlist_sum_map_plus.
  rewrite (Rlist_sum_map_ext R (fun l => weight ls l * ln N) (fun l => ln N * weight ls l)) by (intros; ring).
  rewrite Rlist_sum_map_scal, (weights_sum_one ls Hne).
  field. lra.
Qed.

Lemma dkl_est_upper ls V N : ls <> [] -> 0 < V -> 0 < N -> dkl_est ls V N <= ln N.
Proof.
  intros Hne HV HN. rewrite dkl_est_formula by assumption.
  assert (Rlist_sum (map (fun l => weight ls l * ln (weight ls l)) ls) <= Rlist_sum (map (fun _ => 0) ls)).
  { apply Rlist_sum_map_le. intros l Hl. pose proof (weight_pos ls l Hne) as Hp. pose proof (weight_le_1 ls l Hne Hl) as H1.
    assert (ln (weight ls l) <= 0).
    { rewrite <- ln_1. destruct H1 as [H1|H1]; [left; apply ln_increasing; assumption|rewrite H1; lra]. }
    nra. }
  rewrite Rlist_sum_map_const in H. lra.
Qed.

Lemma dkl_est_lower ls V N : ls <> [] -> 0 < V -> INR (length ls) <= N -> 0 <= dkl_est ls V N.
Proof.
  intros Hne HV HN.
  assert (Hk : 0 < INR (length ls)).
  { destruct ls; [contradiction|]. apply lt_0_INR. simpl. apply Nat.lt_0_succ. }
  rewrite dkl_est_formula by (try assumption; lra).
  pose proof (gibbs_uniform (map (weight ls) ls)) as G.
  rewrite map_length, map_map in G.
  assert (Hg : - ln (INR (length ls)) <= Rlist_sum (map (fun x => weight ls x * ln (weight ls x)) ls)).
  { apply G.
    - destruct ls; [contradiction|discriminate].
    - intros w Hw. apply in_map_iff in Hw. destruct Hw as [l [<- _]]. apply weight_pos. exact Hne.
    - apply weights_sum_one. exact Hne. }
  assert (ln (INR (length ls)) <= ln N).
  { destruct HN as [HN|HN]; [left; apply ln_increasing; assumption|rewrite HN; lra]. }
  lra.
Qed.

(* non-vacuity: a two-sample posterior *)
Example dkl_example : [0; -1] <> [] /\ 0 < PI /\ INR (length [0; -1]) <= 10.
Proof. split; [discriminate|]. split; [apply PI_RGT_0|simpl; lra]. Qed.
