(* C11: the station coefficient rows translated from station_angles reproduce P/SH/SV radiation. *)
From Coq Require Import Reals Lra Nsatz.
From MTV.Lib Require Import Base.
From MTV.Gen Require Import StationAngles.
Open Scope R_scope.

(* six-vector of a symmetric tensor in the sqrt2-weighted convention of the code *)
Definition six (mxx myy mzz mxy mxz myz : R) : R * R * R * R * R * R :=
  (mxx, myy, mzz, sqrt 2 * mxy, sqrt 2 * mxz, sqrt 2 * myz).

Definition dot6 (a b : R * R * R * R * R * R) : R :=
  let '(a1, a2, a3, a4, a5, a6) := a in
  let '(b1, b2, b3, b4, b5, b6) := b in
  a1 * b1 + a2 * b2 + a3 * b3 + a4 * b4 + a5 * b5 + a6 * b6.

(* bilinear form u.M.v of the symmetric tensor *)
Definition bil (mxx myy mzz mxy mxz myz : R) (u v : R * R * R) : R :=
  let '(u1, u2, u3) := u in
  let '(v1, v2, v3) := v in
  u1 * (mxx * v1 + mxy * v2 + mxz * v3) +
  u2 * (mxy * v1 + myy * v2 + myz * v3) +
  u3 * (mxz * v1 + myz * v2 + mzz * v3).

(* north-east-down unit vectors for azimuth az and take-off angle toa (from down), radians *)
Definition ray (az toa : R) : R * R * R := (cos az * sin toa, sin az * sin toa, cos toa).
Definition e_phi (az toa : R) : R * R * R := (- sin az, cos az, 0).
Definition e_theta (az toa : R) : R * R * R := (cos az * cos toa, sin az * cos toa, - sin toa).

Definition rad (deg : R) : R := deg * PI / 180.

Ltac trig_setup az toa :=
  pose proof (sin2_cos2 az) as Haz; pose proof (sin2_cos2 toa) as Htoa;
  unfold Rsqr in Haz, Htoa;
  pose proof sqrt2_sq as H2;
  generalize dependent (sqrt 2); intros s2 H2;
  generalize dependent (cos az); intros ca;
  generalize dependent (sin az); intros sa;
  generalize dependent (cos toa); intros ct;
  generalize dependent (sin toa); intros st.

Lemma coeff_P_rad_correct az toa mxx myy mzz mxy mxz myz :
  dot6 (coeff_P_rad az toa) (six mxx myy mzz mxy mxz myz)
  = bil mxx myy mzz mxy mxz myz (ray az toa) (ray az toa).
Proof.
  unfold coeff_P_rad, six, dot6, bil, ray.
  trig_setup az toa. intros. nsatz.
Qed.

Lemma coeff_SH_rad_correct az toa mxx myy mzz mxy mxz myz :
  dot6 (coeff_SH_rad az toa) (six mxx myy mzz mxy mxz myz)
  = bil mxx myy mzz mxy mxz myz (e_phi az toa) (ray az toa).
Proof.
  unfold coeff_SH_rad, six, dot6, bil, ray, e_phi.
  rewrite cos_2a.
  assert (Hinv : 1 / sqrt 2 * sqrt 2 = 1) by (field; apply sqrt2_neq0).
  generalize dependent (1 / sqrt 2); intros is2 Hinv.
  trig_setup az toa. intros. nsatz.
Qed.

Lemma coeff_SV_rad_correct az toa mxx myy mzz mxy mxz myz :
  dot6 (coeff_SV_rad az toa) (six mxx myy mzz mxy mxz myz)
  = bil mxx myy mzz mxy mxz myz (e_theta az toa) (ray az toa).
Proof.
  unfold coeff_SV_rad, six, dot6, bil, ray, e_theta.
  rewrite cos_2a.
  assert (Hinv : 1 / sqrt 2 * sqrt 2 = 1) by (field; apply sqrt2_neq0).
  generalize dependent (1 / sqrt 2); intros is2 Hinv.
  trig_setup az toa. intros. nsatz.
Qed.

(* the default (degrees) entry points convert and then use the same rows *)
Lemma coeff_P_degrees az toa : coeff_P az toa = coeff_P_rad (rad az) (rad toa).
Proof. reflexivity. Qed.
Lemma coeff_SH_degrees az toa : coeff_SH az toa = coeff_SH_rad (rad az) (rad toa).
Proof. reflexivity. Qed.
Lemma coeff_SV_degrees az toa : coeff_SV az toa = coeff_SV_rad (rad az) (rad toa).
Proof. reflexivity. Qed.

Lemma rad_180 : rad 180 = PI.
Proof. unfold rad; field. Qed.
Lemma rad_add a b : rad (a + b) = rad a + rad b.
Proof. unfold rad; field. Qed.

(* Rotation of the tensor about the vertical (z, down) axis by psi: M' = Rz M Rz^T *)
Definition rotz_xx psi mxx myy mxy := cos psi * cos psi * mxx - 2 * sin psi * cos psi * mxy + sin psi * sin psi * myy.
Definition rotz_yy psi mxx myy mxy := sin psi * sin psi * mxx + 2 * sin psi * cos psi * mxy + cos psi * cos psi * myy.
Definition rotz_xy psi mxx myy mxy := sin psi * cos psi * (mxx - myy) + (cos psi * cos psi - sin psi * sin psi) * mxy.
Definition rotz_xz psi mxz myz := cos psi * mxz - sin psi * myz.
Definition rotz_yz psi mxz myz := sin psi * mxz + cos psi * myz.

Section Rotation.
Variables (az toa psi mxx myy mzz mxy mxz myz : R).
Let M' := six (rotz_xx psi mxx myy mxy) (rotz_yy psi mxx myy mxy) mzz
              (rotz_xy psi mxx myy mxy) (rotz_xz psi mxz myz) (rotz_yz psi mxz myz).
Let M := six mxx myy mzz mxy mxz myz.

Ltac rot_setup :=
  subst M M'; unfold six, dot6, rotz_xx, rotz_yy, rotz_xy, rotz_xz, rotz_yz;
  rewrite ?cos_2a, ?cos_plus, ?sin_plus;
  pose proof (sin2_cos2 az) as Haz; pose proof (sin2_cos2 toa) as Htoa;
  pose proof (sin2_cos2 psi) as Hpsi;
  unfold Rsqr in Haz, Htoa, Hpsi.

Lemma rotation_P : dot6 (coeff_P_rad (az + psi) toa) M' = dot6 (coeff_P_rad az toa) M.
Proof.
  unfold coeff_P_rad. rot_setup.
  pose proof sqrt2_sq as H2.
  generalize dependent (sqrt 2); intros s2 H2.
  generalize dependent (cos az); intros ca. generalize dependent (sin az); intros sa.
  generalize dependent (cos toa); intros ct. generalize dependent (sin toa); intros st.
  generalize dependent (cos psi); intros cp. generalize dependent (sin psi); intros sp.
  intros. nsatz.
Qed.

Lemma rotation_SH : dot6 (coeff_SH_rad (az + psi) toa) M' = dot6 (coeff_SH_rad az toa) M.
Proof.
  unfold coeff_SH_rad. rot_setup.
  assert (Hinv : 1 / sqrt 2 * sqrt 2 = 1) by (field; apply sqrt2_neq0).
  generalize dependent (1 / sqrt 2); intros is2 Hinv.
  generalize dependent (sqrt 2); intros s2 Hinv.
  generalize dependent (cos az); intros ca. generalize dependent (sin az); intros sa.
  generalize dependent (cos toa); intros ct. generalize dependent (sin toa); intros st.
  generalize dependent (cos psi); intros cp. generalize dependent (sin psi); intros sp.
  intros. nsatz.
Qed.

Lemma rotation_SV : dot6 (coeff_SV_rad (az + psi) toa) M' = dot6 (coeff_SV_rad az toa) M.
Proof.
  unfold coeff_SV_rad. rot_setup.
  assert (Hinv : 1 / sqrt 2 * sqrt 2 = 1) by (field; apply sqrt2_neq0).
  pose proof sqrt2_sq as H2.
  generalize dependent (1 / sqrt 2); intros is2 Hinv.
  generalize dependent (sqrt 2); intros s2 Hinv H2.
  generalize dependent (cos az); intros ca. generalize dependent (sin az); intros sa.
  generalize dependent (cos toa); intros ct. generalize dependent (sin toa); intros st.
  generalize dependent (cos psi); intros cp. generalize dependent (sin psi); intros sp.
  intros. nsatz.
Qed.
End Rotation.
