(* Source-level equivalence of the scalar likelihood kernels of cprobability.pyx (Gen/Kernels.v) with the per-station
   kernels of probability.py (Gen/Polarity.v, Gen/Ratio.v) and of the scale-combination step (Model/Joint.v). *)
From Coq Require Import Reals Lra.
From MTV.Lib Require Import Base.
From MTV.Gen Require Import Polarity Ratio Kernels.
From MTV.Model Require Joint.
Open Scope R_scope.

(* ---- polarity *)
Theorem pol_pdf_equiv erf x s i : s <> 0 -> pol_pdf erf x s i = pol_p erf x s i.
Proof.
  intros Hs. unfold pol_pdf, pol_p. cbv zeta.
  destruct (Req_EM_T s 0) as [E|_]; [contradiction|]. ring.
Qed.

(* ---- polarity probability: equal away from X = 0, and at X = 0 exactly when the two probabilities sum to one *)
Theorem pol_prob_pdf_equiv x p n i : x <> 0 \/ p + n = 1 -> pol_prob_pdf x p n i = polprob_p x p n i.
Proof.
  intros H. unfold pol_prob_pdf, polprob_p. cbv zeta.
  destruct (Rlt_dec 0 x) as [P|NP].
  - rewrite (sgn_pos x P), (sgn_neg (- x)) by lra. field.
  - destruct (Req_EM_T x 0) as [Z|NZ].
    + subst x. rewrite Ropp_0, sgn_0. destruct H as [H|H]; [contradiction H; reflexivity|].
      replace n with (1 - p) by lra. field.
    + assert (N : x < 0) by lra. rewrite (sgn_neg x N), (sgn_pos (- x)) by lra. field.
Qed.

(* the discrepancy at X = 0 (a station exactly on a nodal plane) when the probabilities do not sum to one *)
Theorem pol_prob_pdf_at_zero_refuted : exists p n i, pol_prob_pdf 0 p n i <> polprob_p 0 p n i.
Proof.
  exists (1 / 4), (1 / 4), 0. unfold pol_prob_pdf, polprob_p. cbv zeta.
  destruct (Rlt_dec 0 0) as [F|_]; [lra|]. destruct (Req_EM_T 0 0) as [_|F]; [|contradiction F; reflexivity].
  rewrite Ropp_0, sgn_0. lra.
Qed.

(* ---- scale combination over stations *)
Theorem combine_equiv mu1 mu2 s1 s2 : 0 < s1 -> 0 < s2 ->
  (Kernels.combine_mu mu1 mu2 s1 s2, combine_s s1 s2) = Joint.combine_step Rplus Rmult Rdiv sqrt (mu1, s1) (mu2, s2).
Proof.
  intros H1 H2. unfold Kernels.combine_mu, combine_s, Joint.combine_step.
  assert (0 < s1 * s1 + s2 * s2) by nra.
  f_equal; f_equal; ring.
Qed.

(* ---- amplitude ratio *)
Section AR.
  Variables erf Phi : R -> R.
  Hypothesis erf_odd : forall t, erf (- t) = - erf t.
  Hypothesis Phi_erf : forall t, Phi t = (1 + erf (t / sqrt 2)) / 2.

  Lemma Phi_diff t : Phi t - Phi (- t) = erf (t / sqrt 2).
  Proof.
    rewrite !Phi_erf. replace (- t / sqrt 2) with (- (t / sqrt 2)) by (field; pose proof sqrt2_pos; lra).
    rewrite erf_odd. field.
  Qed.

  Theorem ar_pdf_equiv z mux muy psx psy : 0 < mux -> 0 < muy -> 0 < psx -> 0 < psy ->
    ar_pdf erf z mux muy psx psy = ar_p Phi z mux muy psx psy.
  Proof.
    intros Hmx Hmy Hpx Hpy. unfold ar_pdf, ar_p. cbv zeta.
    destruct (Rlt_dec psy 0) as [F|_]; [lra|].
    destruct (Req_EM_T psx 0) as [F|_]; [lra|]. destruct (Req_EM_T psy 0) as [F|_]; [lra|].
    rewrite (Rabs_right psx), (Rabs_right psy), (Rabs_right mux), (Rabs_right muy) by lra.
    unfold ratio_pdf. cbv zeta.
    set (sx := psx * mux). set (sy := psy * muy).
    assert (Hsx : 0 < sx) by (unfold sx; nra). assert (Hsy : 0 < sy) by (unfold sy; nra).
    replace (- z * - z) with (z * z) by ring.
    set (a := sqrt (z * z / (sx * sx) + 1 / (sy * sy))).
    assert (Ha : 0 < a).
    { unfold a. apply sqrt_lt_R0. assert (0 <= z * z / (sx * sx)) by (apply Rmult_le_pos; [nra | left; apply Rinv_0_lt_compat; nra]).
      assert (0 < 1 / (sy * sy)) by (apply Rdiv_lt_0_compat; nra). lra. }
    pose proof sqrt2_pos as P2. assert (Ppi : 0 < sqrt PI) by (apply sqrt_lt_R0; apply PI_RGT_0).
    assert (S2pi : sqrt (2 * PI) = sqrt 2 * sqrt PI) by (apply sqrt_mult; [lra | left; apply PI_RGT_0]).
    assert (SPI : sqrt PI * sqrt PI = PI) by (apply sqrt_sqrt; left; apply PI_RGT_0).
    rewrite sqrt_1, S2pi.
    set (c := mux * mux / (sx * sx) + muy * muy / (sy * sy)).
    set (b1 := mux * z / (sx * sx) + muy / (sy * sy)).
    set (b2 := - mux * z / (sx * sx) + muy / (sy * sy)).
    replace (mux * z / (sx * sx) - 0 * (sx * sx / (sx * sy)) + muy / (sy * sy)) with b1 by (unfold b1; field; lra).
    replace (mux * - z / (sx * sx) - 0 * (sx * sx / (sx * sy)) + muy / (sy * sy)) with b2 by (unfold b2; field; lra).
    assert (PD : forall b, Phi (b / (1 * a)) - Phi (- b / (1 * a)) = erf (b / (sqrt 2 * a))).
    { intros b. replace (- b / (1 * a)) with (- (b / (1 * a))) by (field; lra). rewrite Phi_diff. f_equal. field. lra. }
    rewrite !PD.
    replace ((b1 * b1 - c * a * a) / (2 * a * a)) with ((b1 * b1 - c * (a * a)) / (2 * (a * a))) by (field; lra).
    replace ((b2 * b2 - c * a * a) / (2 * a * a)) with ((b2 * b2 - c * (a * a)) / (2 * (a * a))) by (field; lra).
    set (d1 := exp ((b1 * b1 - c * (a * a)) / (2 * (a * a)))).
    set (d2 := exp ((b2 * b2 - c * (a * a)) / (2 * (a * a)))).
    set (E1 := erf (b1 / (sqrt 2 * a))). set (E2 := erf (b2 / (sqrt 2 * a))).
    set (ec := exp (- c / 2)).
    field_simplify_eq; [|repeat split; nra..].
    rewrite <- SPI. ring.
  Qed.

  (* the compiled kernel is called with signed theoretical amplitudes, the Python kernel takes absolute values first:
     the kernel is even in each amplitude *)
  Lemma ar_pdf_even_x z mux muy psx psy : ar_pdf erf z (- mux) muy psx psy = ar_pdf erf z mux muy psx psy.
  Proof.
    unfold ar_pdf. cbv zeta. rewrite !Rabs_Ropp.
    replace (- mux / muy) with (- (mux / muy)) by (unfold Rdiv; ring). rewrite Rabs_Ropp.
    destruct (Rlt_dec psy 0) as [_|_]; [reflexivity|].
    replace (- - mux) with mux by ring.
    replace (- mux * - mux) with (mux * mux) by ring.
    ring.
  Qed.

  Lemma ar_pdf_even_y z mux muy psx psy : ar_pdf erf z mux (- muy) psx psy = ar_pdf erf z mux muy psx psy.
  Proof.
    unfold ar_pdf. cbv zeta. rewrite !Rabs_Ropp.
    replace (mux / - muy) with (- (mux / muy)) by (unfold Rdiv; rewrite Rinv_opp; ring). rewrite Rabs_Ropp.
    destruct (Rlt_dec psy 0) as [_|_]; [reflexivity|].
    set (sx := psx * Rabs mux). set (sy := psy * Rabs muy).
    set (a := sqrt (z * z / (sx * sx) + 1 / (sy * sy))).
    set (B1 := mux * z / (sx * sx) + muy / (sy * sy)).
    set (B2 := - mux * z / (sx * sx) + muy / (sy * sy)).
    replace (mux * z / (sx * sx) + - muy / (sy * sy)) with (- B2) by (unfold B2, Rdiv; ring).
    replace (- mux * z / (sx * sx) + - muy / (sy * sy)) with (- B1) by (unfold B1, Rdiv; ring).
    replace (- muy * - muy) with (muy * muy) by ring.
    replace (- B2 * - B2) with (B2 * B2) by ring. replace (- B1 * - B1) with (B1 * B1) by ring.
    replace (- B2 / (sqrt 2 * a)) with (- (B2 / (sqrt 2 * a))) by (unfold Rdiv; ring).
    replace (- B1 / (sqrt 2 * a)) with (- (B1 / (sqrt 2 * a))) by (unfold Rdiv; ring).
    rewrite !erf_odd.
    assert (Hh : forall e, 2 * (1 / 2 * (1 + e)) - 1 = e) by (intros; field). rewrite !Hh.
    unfold Rdiv. ring.
  Qed.

  (* hence the compiled kernel on the signed amplitudes equals the Python kernel (which takes absolute values) *)
  Theorem ar_pdf_equiv_signed z mux muy psx psy : mux <> 0 -> muy <> 0 -> 0 < psx -> 0 < psy ->
    ar_pdf erf z mux muy psx psy = ar_p Phi z mux muy psx psy.
  Proof.
    intros Hx Hy Hpx Hpy.
    assert (E : ar_p Phi z mux muy psx psy = ar_p Phi z (Rabs mux) (Rabs muy) psx psy).
    { unfold ar_p. cbv zeta. rewrite !Rabs_Rabsolu. reflexivity. }
    rewrite E. rewrite <- ar_pdf_equiv by (try apply Rabs_pos_lt; assumption).
    unfold Rabs. destruct (Rcase_abs mux); destruct (Rcase_abs muy);
      rewrite ?ar_pdf_even_x, ?ar_pdf_even_y; reflexivity.
  Qed.
End AR.

(* ---- the scale-factor kernel of the relative-amplitude likelihood: estimate_scale_mu_s (cprobability.pyx) against the
   per-station formulas of probability.scale_estimator (both regenerated) *)
Theorem estimate_scale_equiv x y mux muy psx psy :
  estimate_scale_mu_s x y mux muy psx psy =
  (py_scale_mu (Rabs (x / y)) (Rabs mux) (Rabs muy) psx psy, py_scale_s (Rabs (x / y)) (Rabs mux) (Rabs muy) psx psy).
Proof.
  unfold estimate_scale_mu_s, py_scale_mu, py_scale_s. cbv zeta.
  set (z := Rabs (x / y)). set (a := Rabs mux). set (b := Rabs muy). clearbody z a b.
  rewrite (sqrt_div 2 PI) by (try lra; apply PI_RGT_0).
  replace ((- b * b) / (2 * (psy * b * (psy * b)))) with (- (1 / 2) * (b * b / (psy * b * (psy * b))))
    by (unfold Rdiv; rewrite ?Rinv_mult; ring).
  set (e := exp _). clearbody e.
  set (s1 := sqrt _). clearbody s1.
  set (q2 := sqrt 2). set (qp := sqrt PI). clearbody q2 qp.
  match goal with |- (_ / (_ * ?Nc), _) = (_ / ?Np, _) =>
    assert (HN : Nc = Np) by (unfold Rdiv; rewrite ?Rinv_mult; ring); rewrite HN; set (N := Np); clearbody N end.
  f_equal; [| f_equal]; unfold Rdiv; rewrite ?Rinv_mult; ring.
Qed.
