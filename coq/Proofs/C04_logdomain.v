(* C04: the per-slice computations translated from ln_marginalise / ln_normalise are the exact
   log-sum-exp and are shift-stable.  -inf entries are exact zeros of the sum; the real-valued
   model ranges over the finite entries of a slice (the correspondence run checks that the
   implementation treats -inf entries as absent). *)
From Coq Require Import Reals List Lra.
From MTV.Lib Require Import Base Rlist.
From MTV.Gen Require Import LogDomain.
Import ListNotations.
Open Scope R_scope.

(* exactness for ANY shift: ln (sum exp(x+s) dV) - s = ln (dV * sum exp x) *)
Lemma lse_exact xs s dV : xs <> [] -> 0 < dV ->
  ln (Rlist_sum (map (fun x => exp (x + s) * dV) xs)) - s = ln (dV * sumexp xs).
Proof.
  intros Hne HdV. rewrite shifted_sum.
  pose proof (sumexp_pos xs Hne) as Hp. pose proof (exp_pos s) as He.
  replace (exp s * dV * sumexp xs) with (exp s * (dV * sumexp xs)) by ring.
  rewrite ln_mult; [|exact He|apply Rmult_lt_0_compat; assumption].
  rewrite ln_exp. ring.
Qed.

Lemma marg_slice_exact xs dV : xs <> [] -> 0 < dV -> marg_slice xs dV = ln (dV * sumexp xs).
Proof. intros Hne HdV. unfold marg_slice. cbv zeta. apply lse_exact; assumption. Qed.

Lemma marg_slice_shift xs dV c : xs <> [] -> 0 < dV ->
  marg_slice (map (fun x => x + c) xs) dV = marg_slice xs dV + c.
Proof.
  intros Hne HdV.
  assert (Hne' : map (fun x => x + c) xs <> []) by (destruct xs; [contradiction|discriminate]).
  rewrite !marg_slice_exact by assumption. rewrite sumexp_shift.
  pose proof (sumexp_pos xs Hne) as Hp. pose proof (exp_pos c) as He.
  replace (dV * (exp c * sumexp xs)) with (exp c * (dV * sumexp xs)) by ring.
  rewrite ln_mult; [|exact He|apply Rmult_lt_0_compat; assumption].
  rewrite ln_exp. ring.
Qed.

(* stability: with the shift the code uses, every argument of exp is <= 0 and one is 0, so the
   sum lies in [dV, n dV]: no overflow and no total underflow, whatever the magnitudes *)
Lemma marg_slice_exp_args xs : xs <> [] ->
  (forall x, In x xs -> x + - Rlist_max xs <= 0) /\ (exists x, In x xs /\ x + - Rlist_max xs = 0).
Proof.
  intros Hne. split.
  - intros x Hx. pose proof (Rlist_max_ge xs x Hx). lra.
  - exists (Rlist_max xs). split; [apply Rlist_max_In; exact Hne|lra].
Qed.

Lemma marg_slice_sum_range xs dV : xs <> [] -> 0 < dV ->
  let S := Rlist_sum (map (fun x => exp (x + - Rlist_max xs) * dV) xs) in
  dV <= S <= INR (length xs) * dV.
Proof.
  intros Hne HdV S. subst S. destruct (marg_slice_exp_args xs Hne) as [Hle [m [Hm Hm0]]]. split.
  - pose proof (Rlist_sum_ge_member R (fun x => exp (x + - Rlist_max xs) * dV) xs m) as H.
    simpl in H. rewrite Hm0, exp_0 in H. rewrite Rmult_1_l in H. apply H; [|exact Hm].
    intros x _. apply Rmult_le_pos; [left; apply exp_pos|lra].
  - apply Rlist_sum_le_len. intros x Hx.
    assert (exp (x + - Rlist_max xs) <= 1).
    { rewrite <- exp_0. destruct (Hle x Hx) as [Hlt|Heq]; [left; apply exp_increasing; exact Hlt|rewrite Heq; lra]. }
    pose proof (exp_pos (x + - Rlist_max xs)). nra.
Qed.

(* the shift that the code applies is minus the slice maximum (this is the statement the code
   failed before the repair: it shifted only when the global maximum was negative) *)
Lemma marg_slice_uses_max_shift xs dV :
  marg_slice xs dV = ln (Rlist_sum (map (fun x => exp (x + - Rlist_max xs) * dV) xs)) - - Rlist_max xs.
Proof. reflexivity. Qed.

(* ---- normalisation ------------------------------------------------------------------------ *)

Lemma norm_elt_exact xs dV x : xs <> [] -> 0 < dV -> norm_elt xs dV x = x - ln (dV * sumexp xs).
Proof.
  intros Hne HdV. unfold norm_elt. cbv zeta. rewrite lse_exact by assumption. reflexivity.
Qed.

Lemma norm_sums_to_one xs dV : xs <> [] -> 0 < dV ->
  Rlist_sum (map (fun x => exp (norm_elt xs dV x) * dV) xs) = 1.
Proof.
  intros Hne HdV.
  rewrite (Rlist_sum_map_ext R _ (fun x => exp (x + - ln (dV * sumexp xs)) * dV)).
  2:{ intros x _. rewrite norm_elt_exact by assumption. reflexivity. }
  rewrite shifted_sum. rewrite exp_Ropp, exp_ln.
  - field. pose proof (sumexp_pos xs Hne). split; lra.
  - apply Rmult_lt_0_compat; [exact HdV|apply sumexp_pos; exact Hne].
Qed.

Lemma norm_shift_invariant xs dV x c : xs <> [] -> 0 < dV ->
  norm_elt (map (fun y => y + c) xs) dV (x + c) = norm_elt xs dV x.
Proof.
  intros Hne HdV.
  assert (Hne' : map (fun x => x + c) xs <> []) by (destruct xs; [contradiction|discriminate]).
  rewrite !norm_elt_exact by assumption. rewrite sumexp_shift.
  pose proof (sumexp_pos xs Hne) as Hp. pose proof (exp_pos c) as He.
  replace (dV * (exp c * sumexp xs)) with (exp c * (dV * sumexp xs)) by ring.
  rewrite ln_mult; [|exact He|apply Rmult_lt_0_compat; assumption].
  rewrite ln_exp. ring.
Qed.

Lemma norm_uses_max_shift xs dV x :
  norm_elt xs dV x = x - (ln (Rlist_sum (map (fun y => exp (y + - Rlist_max xs) * dV) xs)) - - Rlist_max xs).
Proof. reflexivity. Qed.

(* non-vacuity: a concrete slice with a large positive and a large negative entry *)
Example slice_example : [800; -2000; 799] <> [] /\ 0 < 1 / 2 /\ Rlist_max [800; -2000; 799] = 800.
Proof.
  split; [discriminate|]. split; [lra|]. simpl. unfold Rmax.
  destruct (Rle_dec (-2000) 799); [|lra]. destruct (Rle_dec 800 799); lra.
Qed.
