(* C04 -- exactness of the log-domain operations under composition: marginalising in parts, marginalising one axis
   after another, and normalising twice.  All are about the regenerated per-slice definitions of Gen/LogDomain.v. *)
From Coq Require Import Reals List Lra.
From MTV.Lib Require Import Base Rlist.
From MTV.Gen Require Import LogDomain.
From MTV.Proofs Require Import C04_logdomain.
Import ListNotations.
Open Scope R_scope.

Lemma sumexp_app xs ys : sumexp (xs ++ ys) = sumexp xs + sumexp ys.
Proof. unfold sumexp. rewrite map_app. apply Rlist_sum_app. Qed.

Lemma exp_marg_slice xs dV : xs <> [] -> 0 < dV -> exp (marg_slice xs dV) = dV * sumexp xs.
Proof.
  intros Hne HdV. rewrite marg_slice_exact by assumption. apply exp_ln.
  apply Rmult_lt_0_compat; [exact HdV|apply sumexp_pos; exact Hne].
Qed.

(* a slice marginalised in two parts: the parts combine by log-sum-exp, exactly *)
Theorem marg_slice_split xs ys dV : xs <> [] -> ys <> [] -> 0 < dV ->
  marg_slice (xs ++ ys) dV = ln (exp (marg_slice xs dV) + exp (marg_slice ys dV)).
Proof.
  intros Hx Hy HdV. rewrite !exp_marg_slice by assumption.
  rewrite marg_slice_exact; [|destruct xs; [contradiction|discriminate]|exact HdV].
  rewrite sumexp_app. f_equal. ring.
Qed.

Lemma sumexp_concat_margs rows dV : (forall r, In r rows -> r <> []) -> 0 < dV ->
  sumexp (map (fun r => marg_slice r dV) rows) = dV * sumexp (concat rows).
Proof.
  intros Hne HdV. induction rows as [|r rows IH].
  - unfold sumexp. simpl. ring.
  - cbn [map concat]. rewrite sumexp_app.
    change (sumexp (marg_slice r dV :: map (fun r0 => marg_slice r0 dV) rows))
      with (exp (marg_slice r dV) + sumexp (map (fun r0 => marg_slice r0 dV) rows)).
    rewrite IH by (intros r' Hr'; apply Hne; right; exact Hr').
    rewrite exp_marg_slice; [ring|apply Hne; left; reflexivity|exact HdV].
Qed.

(* marginalising one axis (cell size dV1) and then the next (cell size dV2) is marginalising both at once with the
   product cell size: nothing is lost between the two steps, for any number and any lengths of non-empty rows *)
Theorem marg_successive_axes rows dV1 dV2 : rows <> [] -> (forall r, In r rows -> r <> []) -> 0 < dV1 -> 0 < dV2 ->
  marg_slice (map (fun r => marg_slice r dV1) rows) dV2 = marg_slice (concat rows) (dV1 * dV2).
Proof.
  intros Hr Hne H1 H2.
  assert (Hc : concat rows <> []).
  { destruct rows as [|r rows]; [contradiction|]. cbn [concat]. specialize (Hne r (or_introl eq_refl)).
    destruct r; [contradiction|discriminate]. }
  rewrite marg_slice_exact; [|destruct rows; [contradiction|discriminate]|exact H2].
  rewrite (marg_slice_exact (concat rows)); [|exact Hc|apply Rmult_lt_0_compat; assumption].
  rewrite sumexp_concat_margs by assumption. f_equal. ring.
Qed.

(* a normalised slice is a fixed point of normalisation *)
Theorem norm_idempotent xs dV x : xs <> [] -> 0 < dV ->
  norm_elt (map (norm_elt xs dV) xs) dV (norm_elt xs dV x) = norm_elt xs dV x.
Proof.
  intros Hne HdV.
  rewrite (norm_elt_exact (map (norm_elt xs dV) xs)); [|destruct xs; [contradiction|discriminate]|exact HdV].
  assert (E : dV * sumexp (map (norm_elt xs dV) xs) = 1).
  { rewrite <- (norm_sums_to_one xs dV Hne HdV). unfold sumexp. rewrite map_map.
    rewrite Rmult_comm. symmetry. apply (Rlist_sum_map_mult_r R (fun x0 => exp (norm_elt xs dV x0)) dV xs). }
  rewrite E, ln_1. ring.
Qed.
