(* The result container (Model/Results.v): indexing commutes with every field, maximum-probability selection,
   unique-column reduction with counts. *)
From Coq Require Import ZArith List Bool Lia Sorting.Permutation.
From MTV.Model Require Import Results.
Import ListNotations.
Open Scope Z_scope.

(* ---- alignment under indexing: selecting samples of the container = selecting in each array separately *)
Definition take_of {A} (idx : list nat) (l : list A) : list A :=
  flat_map (fun i => match nth_error l i with Some c => [c] | None => [] end) idx.

Lemma take_field {A} (f : col -> A) idx cs : map f (take idx cs) = take_of idx (map f cs).
Proof.
  unfold take, take_of. induction idx as [|i idx IH]; [reflexivity|].
  cbn [flat_map]. rewrite map_app, IH. f_equal.
  rewrite nth_error_map. destruct (nth_error cs i); reflexivity.
Qed.

Fixpoint mask_of {A} (m : list bool) (l : list A) : list A :=
  match m, l with
  | true :: m', c :: l' => c :: mask_of m' l'
  | false :: m', _ :: l' => mask_of m' l'
  | _, _ => []
  end.
Lemma mask_field {A} (f : col -> A) m cs : map f (mask m cs) = mask_of m (map f cs).
Proof.
  revert cs; induction m as [|b m IH]; intros cs; [destruct cs; reflexivity|].
  destruct cs as [|c cs]; [destruct b; reflexivity|].
  destruct b; cbn [mask mask_of map]; rewrite ?IH; reflexivity.
Qed.

Theorem indexing_keeps_alignment idx m cs :
  map mt (take idx cs) = take_of idx (map mt cs) /\ map prob (take idx cs) = take_of idx (map prob cs) /\
  map conv (take idx cs) = take_of idx (map conv cs) /\
  map mt (mask m cs) = mask_of m (map mt cs) /\ map prob (mask m cs) = mask_of m (map prob cs) /\
  map conv (mask m cs) = mask_of m (map conv cs).
Proof. repeat split; first [apply take_field | apply mask_field]. Qed.

(* ---- maximum probability *)
Lemma pmax_ge cs c : In c cs -> prob c <= pmax cs.
Proof.
  induction cs as [|d cs IH]; [intros []|]. intros [E|H]; cbn [pmax fold_right].
  - subst. lia.
  - specialize (IH H). fold (pmax cs). lia.
Qed.

Theorem max_prob_exact cs c :
  In c (max_prob cs) <-> (In c cs /\ prob c = pmax cs).
Proof.
  unfold max_prob. rewrite filter_In. rewrite Z.eqb_eq. reflexivity.
Qed.

Lemma pmax_attained cs : cs <> [] -> (forall c, In c cs -> 0 <= prob c) -> exists c, In c cs /\ prob c = pmax cs.
Proof.
  induction cs as [|d cs IH]; [contradiction|]. intros _ Hpos.
  destruct cs as [|e cs'].
  - exists d. split; [left; reflexivity|]. cbn. specialize (Hpos d (or_introl eq_refl)). lia.
  - destruct IH as [c [Hin Hc]]; [discriminate | intros; apply Hpos; right; assumption |].
    change (pmax (d :: e :: cs')) with (Z.max (prob d) (pmax (e :: cs'))).
    destruct (Z.max_spec (prob d) (pmax (e :: cs'))) as [[_ E]|[_ E]]; rewrite E.
    + exists c. split; [right; exact Hin | exact Hc].
    + exists d. split; [left; reflexivity | reflexivity].
Qed.

Theorem max_prob_nonempty cs : cs <> [] -> (forall c, In c cs -> 0 <= prob c) -> max_prob cs <> [].
Proof.
  intros Hne Hpos. destruct (pmax_attained cs Hne Hpos) as [c Hc].
  apply (proj2 (max_prob_exact cs c)) in Hc. intros E. rewrite E in Hc. exact Hc.
Qed.

(* order is preserved: the selection is a sub-sequence of the samples *)
Theorem max_prob_order cs : exists m, max_prob cs = mask m cs.
Proof.
  unfold max_prob. generalize (fun c => prob c =? pmax cs) as f. intros f.
  induction cs as [|c cs [m IH]]; [exists []; reflexivity|].
  cbn [filter]. destruct (f c); [exists (true :: m) | exists (false :: m)]; cbn [mask]; rewrite IH; reflexivity.
Qed.

(* ---- unique columns with counts *)
Lemma veqb_eq a b : veqb a b = true <-> a = b.
Proof.
  revert b; induction a as [|x a IH]; intros [|y b]; cbn; try (split; [discriminate|discriminate]); [tauto|].
  rewrite andb_true_iff, Z.eqb_eq, IH. split; [intros [-> ->]; reflexivity | intros E; injection E; auto].
Qed.

Lemma ucount_uinsert v i l : ucount (uinsert v i l) = ucount l + 1.
Proof.
  induction l as [|[[w n] j] l IH]; [reflexivity|].
  cbn [uinsert]. destruct (veqb v w).
  - unfold ucount. cbn [fold_right fst snd]. lia.
  - change (ucount ((w, n, j) :: uinsert v i l)) with (n + ucount (uinsert v i l)).
    change (ucount ((w, n, j) :: l)) with (n + ucount l). rewrite IH. lia.
Qed.

Lemma ucount_uniq_from vs i acc : ucount (uniq_from vs i acc) = ucount acc + Z.of_nat (length vs).
Proof.
  revert i acc; induction vs as [|v vs IH]; intros i acc; [cbn [uniq_from length]; change (Z.of_nat 0) with 0; lia|].
  cbn [uniq_from length]. rewrite IH, ucount_uinsert, Nat2Z.inj_succ. lia.
Qed.

(* the counts add up to the chain length *)
Theorem unique_counts_sum vs : ucount (unique_columns vs) = Z.of_nat (length vs).
Proof. unfold unique_columns. rewrite ucount_uniq_from. reflexivity. Qed.

(* keys: every input column is a key, every key is an input column *)
Definition keys (l : list (list Z * Z * nat)) : list (list Z) := map (fun e => fst (fst e)) l.

Lemma keys_uinsert v i l x : In x (keys (uinsert v i l)) <-> x = v \/ In x (keys l).
Proof.
  induction l as [|[[w n] j] l IH]; [cbn; intuition congruence|].
  cbn [uinsert]. destruct (veqb v w) eqn:E.
  - apply veqb_eq in E. subst. cbn. intuition congruence.
  - cbn [keys map fst In] in *. rewrite IH. intuition congruence.
Qed.

Lemma keys_uniq_from vs i acc x : In x (keys (uniq_from vs i acc)) <-> In x vs \/ In x (keys acc).
Proof.
  revert i acc; induction vs as [|v vs IH]; intros i acc; [cbn; tauto|].
  cbn [uniq_from]. rewrite IH, keys_uinsert. cbn. intuition (subst; auto).
Qed.

Theorem unique_keys_are_the_columns vs x : In x (keys (unique_columns vs)) <-> In x vs.
Proof. unfold unique_columns. rewrite keys_uniq_from. cbn. tauto. Qed.

(* each distinct column once: the keys are pairwise different *)
Lemma keys_nodup_uinsert v i l : NoDup (keys l) -> NoDup (keys (uinsert v i l)).
Proof.
  induction l as [|[[w n] j] l IH]; intros H; [cbn; constructor; [intros []|constructor]|].
  cbn [uinsert]. destruct (veqb v w) eqn:E; [exact H|].
  assert (Hvw : v <> w) by (intros F; apply veqb_eq in F; congruence).
  inversion H as [|? ? Hn Hd]; subst.
  cbn. constructor; [|apply IH; exact Hd].
  intros F. apply keys_uinsert in F. destruct F as [F|F]; [congruence|contradiction].
Qed.

Lemma keys_nodup_uniq_from vs i acc : NoDup (keys acc) -> NoDup (keys (uniq_from vs i acc)).
Proof.
  revert i acc; induction vs as [|v vs IH]; intros i acc H; [exact H|].
  cbn [uniq_from]. apply IH. apply keys_nodup_uinsert. exact H.
Qed.

Theorem unique_keys_distinct vs : NoDup (keys (unique_columns vs)).
Proof. unfold unique_columns. apply keys_nodup_uniq_from. constructor. Qed.
