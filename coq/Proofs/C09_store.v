(* C09: invariants of the sample store model over every history of batches. *)
From Coq Require Import ZArith List Bool Lia.
From MTV.Model Require Import Store.
Import ListNotations.
Open Scope Z_scope.

Definition hist := list (list cand * Z).

Record Inv (st : store) (h : hist) : Prop := {
  inv_len : length (mts st) = cap st;
  inv_cap : (used st <= cap st)%nat;
  inv_ids : exposed st = spec_ids h;
  inv_lnps : lnps st = spec_lnps h;
  inv_scales : scales st = spec_scales h;
  inv_tried : tried st = spec_tried h;
  inv_used : used st = length (spec_ids h);
  inv_inc : (0 < inc st)%nat
}.

Lemma grow_ok fuel : forall cap inc used k,
  (0 < inc)%nat -> (used <= cap)%nat -> (k < cap + fuel * inc - used)%nat ->
  exists cap', grow fuel cap inc used k = Some cap' /\ (cap <= cap')%nat /\ (k < cap' - used)%nat.
Proof.
  induction fuel as [|f IH]; intros cap inc used k Hinc Hu Hk; simpl.
  - destruct (Nat.ltb_spec k (cap - used)); [exists cap; repeat split; lia|lia].
  - destruct (Nat.ltb_spec k (cap - used)); [exists cap; repeat split; lia|].
    destruct (IH (cap + inc)%nat inc used k Hinc ltac:(lia) ltac:(lia)) as [c [E [H1 H2]]].
    exists c. repeat split; [exact E|lia|exact H2].
Qed.

Lemma spec_ids_snoc h b n : spec_ids (h ++ [(b, n)]) = spec_ids h ++ map c_id (filter nonzero b).
Proof. unfold spec_ids. rewrite map_app, concat_app. simpl. rewrite app_nil_r. reflexivity. Qed.
Lemma spec_lnps_snoc h b n : spec_lnps (h ++ [(b, n)]) = spec_lnps h ++ map c_lnp (filter nonzero b).
Proof. unfold spec_lnps. rewrite map_app, concat_app. simpl. rewrite app_nil_r. reflexivity. Qed.
Lemma spec_scales_snoc h b n : spec_scales (h ++ [(b, n)]) = spec_scales h ++ map c_scale (filter nonzero b).
Proof. unfold spec_scales. rewrite map_app, concat_app. simpl. rewrite app_nil_r. reflexivity. Qed.
Lemma spec_tried_snoc h b n : spec_tried (h ++ [(b, n)]) = spec_tried h + n.
Proof. unfold spec_tried. induction h as [|x h IH]; simpl; [lia|]. rewrite IH. lia. Qed.

Lemma set_slice_length l i ids : (i + length ids <= length l)%nat -> length (set_slice l i ids) = length l.
Proof.
  intros H. unfold set_slice. rewrite !app_length, firstn_length, skipn_length. lia.
Qed.

Lemma set_slice_prefix l i ids : (i + length ids <= length l)%nat ->
  firstn (i + length ids) (set_slice l i ids) = firstn i l ++ ids.
Proof.
  intros H. unfold set_slice.
  rewrite app_assoc.
  assert (E : length (firstn i l ++ ids) = (i + length ids)%nat).
  { rewrite app_length, firstn_length. lia. }
  rewrite <- E. rewrite firstn_app, Nat.sub_diag, firstn_O, app_nil_r. apply firstn_all.
Qed.

Lemma firstn_app_le {A} (l1 l2 : list A) n : (n <= length l1)%nat -> firstn n (l1 ++ l2) = firstn n l1.
Proof.
  intros H. rewrite firstn_app. replace (n - length l1)%nat with 0%nat by lia. rewrite firstn_O, app_nil_r. reflexivity.
Qed.

Lemma append_inv st h b n : Inv st h -> exists st', append st b n = Some st' /\ Inv st' (h ++ [(b, n)]).
Proof.
  intros I. unfold append.
  set (nz := filter nonzero b). set (k := length nz).
  destruct (Nat.eqb_spec k 0) as [Ek|Ek].
  - assert (nz = []) by (destruct nz; [reflexivity|discriminate]).
    eexists. split; [reflexivity|].
    constructor; simpl.
    + apply (inv_len _ _ I).
    + apply (inv_cap _ _ I).
    + rewrite spec_ids_snoc. fold nz. rewrite H. simpl. rewrite app_nil_r. apply (inv_ids _ _ I).
    + rewrite spec_lnps_snoc. fold nz. rewrite H. simpl. rewrite app_nil_r. apply (inv_lnps _ _ I).
    + rewrite spec_scales_snoc. fold nz. rewrite H. simpl. rewrite app_nil_r. apply (inv_scales _ _ I).
    + rewrite spec_tried_snoc, (inv_tried _ _ I). reflexivity.
    + rewrite spec_ids_snoc. fold nz. rewrite H. simpl. rewrite app_nil_r. apply (inv_used _ _ I).
    + apply (inv_inc _ _ I).
  - pose proof (inv_inc _ _ I) as Hinc. pose proof (inv_cap _ _ I) as Hcap. pose proof (inv_len _ _ I) as Hlen.
    destruct (grow_ok (S k) (cap st) (inc st) (used st) k Hinc Hcap) as [c [E [Hc1 Hc2]]].
    { simpl. nia. }
    rewrite E. eexists. split; [reflexivity|].
    assert (Hgl : length (mts st ++ repeat 0 (c - cap st)) = c) by (rewrite app_length, repeat_length; lia).
    assert (Hk : length (map c_id nz) = k) by (rewrite map_length; reflexivity).
    constructor; simpl.
    + rewrite set_slice_length; [exact Hgl|]. rewrite Hk, Hgl. lia.
    + lia.
    + unfold exposed. simpl. rewrite <- Hk at 1. rewrite set_slice_prefix by (rewrite Hk, Hgl; lia).
      rewrite firstn_app_le by lia. rewrite spec_ids_snoc. fold nz. f_equal. apply (inv_ids _ _ I).
    + rewrite spec_lnps_snoc, (inv_lnps _ _ I). reflexivity.
    + rewrite spec_scales_snoc, (inv_scales _ _ I). reflexivity.
    + rewrite spec_tried_snoc, (inv_tried _ _ I). reflexivity.
    + rewrite spec_ids_snoc, app_length, <- (inv_used _ _ I). fold nz. rewrite Hk. reflexivity.
    + exact Hinc.
Qed.

Lemma run_inv ops : forall st h, Inv st h -> exists st', run st ops = Some st' /\ Inv st' (h ++ ops).
Proof.
  induction ops as [|[b n] ops IH]; intros st h I; simpl.
  - exists st. split; [reflexivity|]. rewrite app_nil_r. exact I.
  - destruct (append_inv st h b n I) as [st1 [E I1]]. rewrite E.
    destruct (IH st1 (h ++ [(b, n)]) I1) as [st2 [E2 I2]].
    exists st2. split; [exact E2|]. rewrite <- app_assoc in I2. exact I2.
Qed.

Lemma init_inv k : (0 < k)%nat -> Inv (init k) [].
Proof.
  intros Hk. constructor; simpl; try reflexivity; try lia.
  apply repeat_length.
Qed.

(* every history: the run never fails, and the store is exactly the non-zero candidates *)
Theorem store_is_concat_nonzero k ops : (0 < k)%nat ->
  exists st, run (init k) ops = Some st /\
    exposed st = spec_ids ops /\ lnps st = spec_lnps ops /\ scales st = spec_scales ops /\
    tried st = spec_tried ops /\ used st = length (spec_ids ops) /\ (used st <= cap st)%nat /\
    length (mts st) = cap st.
Proof.
  intros Hk. destruct (run_inv ops (init k) [] (init_inv k Hk)) as [st [E I]]. simpl in I.
  exists st. split; [exact E|]. destruct I. repeat split; assumption.
Qed.

(* growth preserves what was stored before: the earlier content is a prefix of the later one *)
Theorem growth_preserves_prefix k ops1 ops2 : (0 < k)%nat ->
  forall st1 st2, run (init k) ops1 = Some st1 -> run (init k) (ops1 ++ ops2) = Some st2 ->
  exists rest, exposed st2 = exposed st1 ++ rest /\ lnps st2 = lnps st1 ++ map c_lnp (flat_map (fun o => filter nonzero (fst o)) ops2).
Proof.
  intros Hk st1 st2 E1 E2.
  destruct (store_is_concat_nonzero k ops1 Hk) as [s1 [F1 [A1 [B1 _]]]].
  destruct (store_is_concat_nonzero k (ops1 ++ ops2) Hk) as [s2 [F2 [A2 [B2 _]]]].
  rewrite E1 in F1. rewrite E2 in F2. inversion F1; inversion F2; subst s1 s2.
  exists (spec_ids ops2). split.
  - rewrite A1, A2. unfold spec_ids. rewrite map_app, concat_app. reflexivity.
  - rewrite B1, B2. unfold spec_lnps. rewrite map_app, concat_app. f_equal.
    clear. induction ops2 as [|o r IH]; simpl; [reflexivity|]. rewrite map_app, IH. reflexivity.
Qed.

(* a batch that exactly fills the spare capacity still leaves one spare column afterwards *)
Theorem spare_column_kept k ops b n : (0 < k)%nat -> filter nonzero b <> [] ->
  forall st, run (init k) (ops ++ [(b, n)]) = Some st -> (used st < cap st)%nat.
Proof.
  intros Hk Hb st E.
  destruct (run_inv ops (init k) [] (init_inv k Hk)) as [s1 [E1 I1]]. simpl in I1.
  assert (E' : run (init k) (ops ++ [(b, n)]) = match append s1 b n with Some s => Some s | None => None end).
  { clear -E1. revert E1. generalize (init k). induction ops as [|[b0 n0] ops IH]; intros s0 E1; simpl in *.
    - inversion E1. destruct (append s1 b n); reflexivity.
    - destruct (append s0 b0 n0); [apply IH; exact E1|discriminate]. }
  rewrite E' in E. unfold append in E.
  set (nz := filter nonzero b) in *. destruct (Nat.eqb_spec (length nz) 0) as [Ek|Ek].
  - destruct nz; [contradiction|discriminate].
  - destruct (grow_ok (S (length nz)) (cap s1) (inc s1) (used s1) (length nz) (inv_inc _ _ I1) (inv_cap _ _ I1)) as [c [G [_ Hc]]].
    { simpl. pose proof (inv_inc _ _ I1). pose proof (inv_cap _ _ I1). nia. }
    rewrite G in E. inversion E. subst st. simpl. lia.
Qed.

(* all-zero histories: nothing stored, everything counted *)
Lemma spec_all_zero ops : (forall o, In o ops -> filter nonzero (fst o) = []) -> spec_ids ops = [] /\ spec_lnps ops = [].
Proof.
  intros Hz. unfold spec_ids, spec_lnps. induction ops as [|o r IH]; simpl; [split; reflexivity|].
  rewrite (Hz o) by (left; reflexivity). simpl. apply IH. intros o' Ho'. apply Hz. right. exact Ho'.
Qed.

Theorem all_zero_is_empty k ops : (0 < k)%nat -> (forall o, In o ops -> filter nonzero (fst o) = []) ->
  exists st, run (init k) ops = Some st /\ exposed st = [] /\ lnps st = [] /\ used st = 0%nat /\ tried st = spec_tried ops.
Proof.
  intros Hk Hz. destruct (spec_all_zero ops Hz) as [Z1 Z2].
  destruct (store_is_concat_nonzero k ops Hk) as [st [E [A [B [_ [T [U _]]]]]]].
  exists st. rewrite Z1 in *. rewrite Z2 in *. repeat split; assumption.
Qed.

(* output selection *)
Lemma select_length_le {A} mask (l : list A) : (length (select mask l) <= length l)%nat.
Proof.
  revert l. induction mask as [|b m IH]; intros [|x l]; simpl; try lia.
  destruct b; simpl; specialize (IH l); lia.
Qed.

Lemma zmax_ge l z : In z l -> z <= zmax l.
Proof.
  unfold zmax. generalize (hd 0 l). induction l as [|x l IH]; intros d H; [contradiction|]. simpl.
  destruct H as [->|H]; [lia|]. specialize (IH d H). lia.
Qed.

(* the discard only removes samples further than t below the maximum, and keeps all others *)
Theorem discard_only_below t vals i z :
  nth_error vals i = Some (Some z) ->
  let m := zmax (flat_map (fun v => match v with Some z => [z] | None => [] end) vals) in
  nth_error (keep (Some t) vals) i = Some (m - z <=? t) /\ z <= m.
Proof.
  intros H m. split.
  - unfold keep. rewrite nth_error_map, H. reflexivity.
  - apply zmax_ge. apply in_flat_map. exists (Some z). split; [eapply nth_error_In; exact H|left; reflexivity].
Qed.

Theorem no_discard_keeps_all_finite vals i : 
  nth_error (keep None vals) i = option_map (fun v => match v with Some _ => true | None => false end) (nth_error vals i).
Proof. unfold keep. rewrite nth_error_map. destruct (nth_error vals i) as [[z|]|]; reflexivity. Qed.

(* sample-count-limited sampling stops at the first batch that reaches the limit *)
Theorem mc_stops_first_reaching maxs sizes :
  forall acc j, mc_stop maxs acc sizes = Some (S j) ->
  maxs <= acc + fold_right Z.add 0 (firstn (S j) sizes) /\
  (forall i, (i <= j)%nat -> (0 < i)%nat -> acc + fold_right Z.add 0 (firstn i sizes) < maxs).
Proof.
  induction sizes as [|s r IH]; intros acc j E; [discriminate|].
  simpl in E. destruct (Z.leb_spec maxs (acc + s)) as [Hle|Hgt].
  - inversion E. subst j. cbn [firstn fold_right]. split; [lia|]. intros i Hi1 Hi2. lia.
  - destruct (mc_stop maxs (acc + s) r) as [m|] eqn:Em; [|discriminate]. simpl in E. inversion E. subst m.
    destruct j as [|j].
    + exfalso. destruct r; simpl in Em; [discriminate|].
      destruct (maxs <=? acc + s + z); [discriminate|]. destruct (mc_stop maxs (acc + s + z) r); discriminate.
    + destruct (IH (acc + s) j Em) as [H1 H2]. split.
      * change (firstn (S (S j)) (s :: r)) with (s :: firstn (S j) r).
        remember (firstn (S j) r) as l1. cbn [fold_right]. lia.
      * intros i Hi1 Hi2. destruct i as [|i]; [lia|]. change (firstn (S i) (s :: r)) with (s :: firstn i r).
        destruct i as [|i]; [cbn [firstn fold_right]; lia|]. specialize (H2 (S i) ltac:(lia) ltac:(lia)).
        remember (firstn (S i) r) as l1. cbn [fold_right]. lia.
Qed.

Theorem mc_never_zero maxs acc sizes : mc_stop maxs acc sizes <> Some 0%nat.
Proof.
  revert acc. induction sizes as [|s r IH]; intros acc; simpl; [discriminate|].
  destruct (maxs <=? acc + s); [discriminate|]. destruct (mc_stop maxs (acc + s) r); discriminate.
Qed.

Example store_example :
  check_store 2 [([mkCand 11 [Some 1] 5; mkCand 12 [None] 6; mkCand 13 [Some 3] 7], 3); ([mkCand 14 [Some (-2)] 8], 1)]
              4 3 [11; 13; 14; 0] [[Some 1]; [Some 3]; [Some (-2)]] [5; 7; 8] 4 = true.
Proof. vm_compute. reflexivity. Qed.
