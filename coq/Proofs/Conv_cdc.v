(* crack + double-couple parameters: the opening angle is recovered from the lune longitude (the Poisson-ratio
   component of the round trip is covered by the oracle run only: see DESIGN.md) *)
From Coq Require Import Reals Lra.
From MTV.Lib Require Import Base Trig.
From MTV.Gen Require Import Convert.
Open Scope R_scope.

Theorem cdc_opening_angle_roundtrip alpha nu : 0 <= alpha <= PI ->
  fst (let '(g, d) := basic_cdc_GD alpha nu in GD_basic_cdc g d) = alpha.
Proof.
  intros Ha. unfold basic_cdc_GD, GD_basic_cdc. cbv zeta. cbn [fst].
  rewrite tan_atan.
  assert (H3 : 0 < sqrt 3) by (apply sqrt_lt_R0; lra).
  replace (- sqrt 3 * (-1 / sqrt 3 * cos alpha)) with (cos alpha) by (field; lra).
  apply acos_cos. exact Ha.
Qed.

(* the longitude produced always lies in the left half of the lune *)
Theorem cdc_gamma_range alpha nu : 0 <= alpha <= PI / 2 ->
  - (PI / 6) <= fst (basic_cdc_GD alpha nu) <= 0.
Proof.
  intros Ha. unfold basic_cdc_GD. cbv zeta. cbn [fst].
  assert (H3 : 0 < sqrt 3) by (apply sqrt_lt_R0; lra).
  assert (Hc : 0 <= cos alpha <= 1) by (split; [apply cos_ge_0; lra | apply COS_bound]).
  pose proof PI_RGT_0.
  assert (E : -1 / sqrt 3 * cos alpha = - (cos alpha / sqrt 3)) by (field; lra).
  rewrite E, atan_opp.
  assert (0 <= atan (cos alpha / sqrt 3) <= PI / 6); [|lra].
  rewrite <- atan_PI6, <- atan_0. split.
  - destruct (Req_dec (cos alpha) 0) as [Z|Z]; [rewrite Z; unfold Rdiv; rewrite Rmult_0_l; lra|].
    left. apply atan_increasing. apply Rdiv_lt_0_compat; lra.
  - destruct (Req_dec (cos alpha) 1) as [Z|Z]; [rewrite Z; lra|].
    left. apply atan_increasing. unfold Rdiv. apply Rmult_lt_compat_r; [apply Rinv_0_lt_compat; lra|lra].
Qed.
