(* C11: row alignment of the observation-matrix builders (model in Model/Matrices.v). *)
From Coq Require Import ZArith List Bool Lia Sorting.Permutation Sorting.Sorted.
From MTV.Model Require Import Matrices.
Import ListNotations.
Open Scope Z_scope.

Lemma mem_In n l : mem n l = true <-> In n l.
Proof.
  unfold mem. rewrite existsb_exists. split.
  - intros [x [Hx He]]. apply Z.eqb_eq in He. subst. exact Hx.
  - intros H. exists n. split; [exact H|apply Z.eqb_refl].
Qed.

Lemma insert_In n m l : In m (insert n l) <-> m = n \/ In m l.
Proof.
  induction l as [|x r IH]; simpl.
  - intuition.
  - destruct (n <? x) eqn:E1; simpl; [intuition|].
    destruct (n =? x) eqn:E2; simpl.
    + apply Z.eqb_eq in E2. subst. intuition.
    + rewrite IH. intuition.
Qed.

Lemma insert_sorted n l : StronglySorted Z.lt l -> StronglySorted Z.lt (insert n l).
Proof.
  induction l as [|x r IH]; intros Hs; simpl.
  - constructor; constructor.
  - inversion Hs as [|? ? Hr Hall]; subst.
    destruct (n <? x) eqn:E1.
    + apply Z.ltb_lt in E1. constructor; [exact Hs|].
      constructor; [exact E1|]. rewrite Forall_forall in *. intros y Hy. specialize (Hall y Hy). lia.
    + destruct (n =? x) eqn:E2; [exact Hs|].
      apply Z.ltb_ge in E1. apply Z.eqb_neq in E2.
      constructor; [apply IH; exact Hr|].
      rewrite Forall_forall in *. intros y Hy. apply insert_In in Hy. destruct Hy as [->|Hy]; [lia|auto].
Qed.

Lemma selected_In a b n : In n (selected a b) <-> In n a /\ In n b.
Proof.
  unfold selected.
  assert (G : forall l, In n (fold_right insert [] l) <-> In n l).
  { induction l as [|x r IH]; simpl; [tauto|]. rewrite insert_In, IH. intuition. }
  rewrite G, filter_In, mem_In. tauto.
Qed.

Lemma selected_sorted a b : StronglySorted Z.lt (selected a b).
Proof.
  unfold selected. induction (filter (fun n => mem n b) a) as [|x r IH]; simpl.
  - constructor.
  - apply insert_sorted, IH.
Qed.

Section Lookup.
Context {A : Type} (f : A -> Z) (d : A).

Lemma index_found n l : In n (map f l) -> f (nth (index n (map f l)) l d) = n /\ In (nth (index n (map f l)) l d) l.
Proof.
  induction l as [|x r IH]; simpl; [tauto|].
  intros H. destruct (f x =? n) eqn:E.
  - apply Z.eqb_eq in E. split; [exact E|left; reflexivity].
  - apply Z.eqb_neq in E. destruct H as [H|H]; [contradiction|].
    destruct (IH H) as [H1 H2]. split; [exact H1|right; exact H2].
Qed.

Lemma index_unique n l o : NoDup (map f l) -> In o l -> f o = n -> nth (index n (map f l)) l d = o.
Proof.
  induction l as [|x r IH]; simpl; [tauto|].
  intros Hnd Hin Hf. inversion Hnd as [|? ? Hnotin Hnd']; subst.
  destruct (f x =? f o) eqn:E.
  - apply Z.eqb_eq in E. destruct Hin as [->|Hin]; [reflexivity|].
    exfalso. apply Hnotin. rewrite E. apply in_map. exact Hin.
  - apply Z.eqb_neq in E. destruct Hin as [->|Hin]; [congruence|].
    apply IH; auto.
Qed.
End Lookup.

(* --- alignment with location samples ------------------------------------------------------- *)

Definition dname (o : obs) : Z := s_name (o_st o).

Lemma rows_loc_aligned data samples r :
  In r (rows_loc data samples) ->
  (* the row carries an observation of the data, and it is the one named like the row *)
  In (r_obs r) data /\ dname (r_obs r) = r_name r /\
  (* the row's name is shared by data and location records *)
  In (r_name r) (map s_name (hd [] samples)) /\
  (* one angle pair per location sample ... *)
  length (r_angles r) = length samples /\
  (* ... and in every sample that lists the stations in the order of the first one, the pair is
     the one of the station with the row's name *)
  (forall k s, nth_error samples k = Some s -> map s_name s = map s_name (hd [] samples) ->
     exists st, In st s /\ s_name st = r_name r /\ nth_error (r_angles r) k = Some (angles_of st)).
Proof.
  unfold rows_loc. intros H. apply in_map_iff in H. destruct H as [n [Hr Hn]]. subst r. simpl.
  apply selected_In in Hn. destruct Hn as [Hn0 Hnd].
  destruct (index_found dname dummy_obs n data Hnd) as [H1 H2].
  split; [exact H2|]. split; [exact H1|]. split; [exact Hn0|]. split; [apply map_length|].
  intros k s Hk Hs.
  assert (Hns : In n (map s_name s)) by (rewrite Hs; exact Hn0).
  destruct (index_found s_name dummy_st n s Hns) as [G1 G2].
  exists (nth (index n (map s_name s)) s dummy_st). split; [exact G2|]. split; [exact G1|].
  rewrite nth_error_map, Hk. simpl. rewrite Hs. reflexivity.
Qed.

(* the rows are exactly the shared stations, in ascending name order, each once *)
Lemma rows_loc_names data samples :
  map r_name (rows_loc data samples) =
  selected (map s_name (hd [] samples)) (map dname data).
Proof. unfold rows_loc. rewrite map_map. simpl. apply map_id. Qed.

(* the order of the data does not matter (station matching is by name) *)
Lemma selected_perm a b b' : Permutation b b' -> selected a b = selected a b'.
Proof.
  intros Hp. unfold selected. f_equal. apply filter_ext. intros n.
  destruct (mem n b) eqn:E1, (mem n b') eqn:E2; try reflexivity.
  - apply mem_In in E1. apply (Permutation_in _ Hp) in E1. apply mem_In in E1. congruence.
  - apply mem_In in E2. apply (Permutation_in _ (Permutation_sym Hp)) in E2. apply mem_In in E2. congruence.
Qed.

Lemma rows_loc_data_perm data data' samples :
  NoDup (map dname data) -> Permutation data data' ->
  rows_loc data samples = rows_loc data' samples.
Proof.
  intros Hnd Hp. unfold rows_loc.
  assert (Hp' : Permutation (map dname data) (map dname data')) by (apply Permutation_map; exact Hp).
  fold dname. rewrite <- (selected_perm _ _ _ Hp').
  apply map_ext_in. intros n Hn. apply selected_In in Hn. destruct Hn as [_ Hn].
  f_equal.
  destruct (index_found dname dummy_obs n data Hn) as [H1 H2].
  symmetry. apply index_unique.
  - eapply Permutation_NoDup; eauto.
  - eapply Permutation_in; eauto.
  - exact H1.
Qed.

(* a superset of stations in the location records changes nothing either: stations that are
   not in the data are never selected *)
Lemma rows_loc_superset data samples r :
  In r (rows_loc data samples) -> In (r_name r) (map dname data).
Proof.
  intros H. apply (in_map r_name) in H. rewrite rows_loc_names in H. apply selected_In in H. tauto.
Qed.

(* --- without location samples --------------------------------------------------------------- *)
Lemma rows_plain_aligned data k o :
  nth_error data k = Some o ->
  nth_error (rows_plain data) k = Some (mkRow (dname o) [angles_of (o_st o)] o).
Proof. intros H. unfold rows_plain. rewrite nth_error_map, H. reflexivity. Qed.

(* --- several types ---------------------------------------------------------------------------- *)
Lemma build_lengths types samples :
  length (fst (build types samples)) = length (snd (build types samples)).
Proof.
  unfold build. simpl. induction types as [|t r IH]; simpl; [reflexivity|].
  rewrite !app_length, IH. unfold mispick_of. rewrite map_length. reflexivity.
Qed.

Lemma build_app t types samples :
  fst (build (t :: types) samples) = rows_of (snd t) samples ++ fst (build types samples) /\
  snd (build (t :: types) samples) = mispick_of (fst t) (rows_of (snd t) samples) ++ snd (build types samples).
Proof. split; reflexivity. Qed.

(* the mispick value of a row is that row's own observation's value *)
Lemma build_mispick_aligned types samples k r :
  nth_error (fst (build types samples)) k = Some r ->
  exists w, nth_error (snd (build types samples)) k = Some w /\ (w = o_w (r_obs r) \/ w = 0).
Proof.
  revert k. induction types as [|t ts IH]; intros k H.
  - destruct k; discriminate.
  - destruct (build_app t ts samples) as [E1 E2]. rewrite E1 in H. rewrite E2.
    set (rs := rows_of (snd t) samples) in *.
    destruct (Nat.lt_ge_cases k (length rs)) as [Hk|Hk].
    + rewrite nth_error_app1 in H by exact Hk.
      rewrite nth_error_app1 by (unfold mispick_of; rewrite map_length; exact Hk).
      unfold mispick_of. rewrite nth_error_map, H. simpl. eexists; split; [reflexivity|].
      destruct (fst t); auto.
    + rewrite nth_error_app2 in H by exact Hk.
      rewrite nth_error_app2 by (unfold mispick_of; rewrite map_length; exact Hk).
      unfold mispick_of at 1. rewrite map_length. apply IH. exact H.
Qed.

(* polarity folded into the coefficients, ratio rows: by definition of the encodings; the
   non-vacuity example below exercises them on a concrete permuted configuration *)
Example rows_example :
  let d := [mkObs (mkSt 3 30 31) 1 0 5 0 7; mkObs (mkSt 1 10 11) (-1) 0 6 0 8] in
  let s := [[mkSt 1 100 101; mkSt 2 200 201; mkSt 3 300 301]; [mkSt 1 110 111; mkSt 2 210 211; mkSt 3 310 311]] in
  map enc_row_pol (fst (build [(true, d)] s)) = [[-100; -101; -110; -111; 6]; [300; 301; 310; 311; 5]]
  /\ snd (build [(true, d)] s) = [8; 7].
Proof. vm_compute. split; reflexivity. Qed.
