(* C03: the closed form equals the defining improper integral: the explicit tail of
   closed_form_is_window_plus_tail vanishes as the window grows. *)
From Coq Require Import Reals Lra Psatz.
From Coquelicot Require Import Coquelicot.
From MTV.Lib Require Import Base Rlist State.
From MTV.Gen Require Import Ratio.
From MTV.Proofs Require Import C03_ratio.
Open Scope R_scope.

Lemma Rbar_mult_neg_p (r : R) : r < 0 -> Rbar_mult r p_infty = m_infty.
Proof.
  intros H. unfold Rbar_mult, Rbar_mult'.
  destruct (Rle_dec 0 r) as [H0|H0]; [exfalso; lra|reflexivity].
Qed.
Lemma Rbar_mult_pos_p (r : R) : 0 < r -> Rbar_mult r p_infty = p_infty.
Proof.
  intros H. unfold Rbar_mult, Rbar_mult'.
  destruct (Rle_dec 0 r) as [H0|H0]; [|exfalso; lra].
  destruct (Rle_lt_or_eq_dec 0 r H0); [reflexivity|exfalso; lra].
Qed.
Lemma lin_lim (k m : R) : k < 0 -> is_lim (fun y => k * y + m) p_infty m_infty.
Proof.
  intros Hk.
  apply (is_lim_plus (fun y => k * y) (fun _ => m) p_infty m_infty m).
  - rewrite <- (Rbar_mult_neg_p k Hk). apply is_lim_scal_l. apply is_lim_id.
  - apply is_lim_const.
  - reflexivity.
Qed.
Lemma quad_lim (k m c : R) : k < 0 -> is_lim (fun y => y * (k * y + m) + c) p_infty m_infty.
Proof.
  intros Hk.
  apply (is_lim_plus (fun y => y * (k * y + m)) (fun _ => c) p_infty m_infty c).
  - replace m_infty with (Rbar_mult p_infty m_infty) by reflexivity.
    apply is_lim_mult; [apply is_lim_id|apply lin_lim; exact Hk|exact I].
  - apply is_lim_const.
  - reflexivity.
Qed.
Lemma exp_quad_lim (k m c : R) : k < 0 -> is_lim (fun y => exp (y * (k * y + m) + c)) p_infty 0.
Proof.
  intros Hk. apply (is_lim_comp exp (fun y => y * (k * y + m) + c) p_infty 0 m_infty).
  - apply is_lim_exp_m.
  - apply quad_lim. exact Hk.
  - exists 0. intros y _. discriminate.
Qed.

Lemma lim_plus_fin f g x (lf lg : R) : is_lim f x lf -> is_lim g x lg -> is_lim (fun y => f y + g y) x (lf + lg).
Proof. intros Hf Hg. apply (is_lim_plus f g x lf lg (lf + lg) Hf Hg). reflexivity. Qed.
Lemma lim_minus_fin f g x (lf lg : R) : is_lim f x lf -> is_lim g x lg -> is_lim (fun y => f y - g y) x (lf - lg).
Proof. intros Hf Hg. apply (is_lim_minus f g x lf lg (lf - lg) Hf Hg). reflexivity. Qed.
Lemma lim_scal_fin k f x (l : R) : is_lim f x l -> is_lim (fun y => k * f y) x (k * l).
Proof. intros Hf. apply (is_lim_scal_l f k x l Hf). Qed.

Section Limit.
Variable Phi : R -> R.
Hypothesis Phi_derive : forall t, is_derive Phi t (exp (- (t * t / 2)) / sqrt (2 * PI)).
Hypothesis Phi_sym : forall t, Phi (- t) = 1 - Phi t.
Hypothesis Phi_p : is_lim Phi p_infty 1.
Hypothesis Phi_m : is_lim Phi m_infty 0.
Variables z mx my sx sy : R.
Hypothesis Hsx : 0 < sx.
Hypothesis Hsy : 0 < sy.

Let a := sqrt (cf_a2 z sx sy).
Let b := cf_b z mx my sx sy.
Let c := cf_c mx my sx sy.
Let gg := g z mx my sx sy.

Lemma a_pos' : 0 < a. Proof. apply (a_pos z sx sy Hsx Hsy). Qed.

Lemma g_lim_p : is_lim gg p_infty 0.
Proof.
  pose proof a_pos' as Ha.
  apply (is_lim_ext (fun y => exp (y * (- (a * a / 2) * y + b) + - c / 2))).
  - intros y. unfold gg, g. fold a b c. f_equal. field.
  - apply exp_quad_lim. nra.
Qed.

Lemma g_lim_m : is_lim (fun y => gg (- y)) p_infty 0.
Proof.
  pose proof a_pos' as Ha.
  apply (is_lim_ext (fun y => exp (y * (- (a * a / 2) * y + - b) + - c / 2))).
  - intros y. unfold gg, g. fold a b c. f_equal. field.
  - apply exp_quad_lim. nra.
Qed.

Lemma Phi_up : is_lim (fun y => Phi (a * y - b / a)) p_infty 1.
Proof.
  pose proof a_pos' as Ha.
  apply (is_lim_ext (fun y => Phi (a * y + - (b / a)))); [intros y; f_equal; ring|].
  apply (is_lim_comp_lin Phi a (- (b / a)) p_infty 1); [|lra].
  rewrite (Rbar_mult_pos_p a Ha). exact Phi_p.
Qed.

Lemma Phi_down : is_lim (fun y => Phi (a * - y - b / a)) p_infty 0.
Proof.
  pose proof a_pos' as Ha.
  apply (is_lim_ext (fun y => Phi (- a * y + - (b / a)))); [intros y; f_equal; ring|].
  apply (is_lim_comp_lin Phi (- a) (- (b / a)) p_infty 0); [|lra].
  rewrite (Rbar_mult_neg_p (- a)) by lra. exact Phi_m.
Qed.

(* the explicit tail of the window identity tends to 0 *)
Definition tail (Y : R) : R :=
  1 / (2 * PI * sx * sy) *
  ((1 / (a * a)) * (gg Y + gg (- Y))
   + b * exp ((b * b - c * (a * a)) / (2 * (a * a))) * sqrt (2 * PI) / (a * (a * a)) *
     ((1 - Phi (a * Y - b / a)) - Phi (a * (- Y) - b / a))).

Lemma tail_vanishes : is_lim tail p_infty 0.
Proof.
  unfold tail.
  set (K := 1 / (2 * PI * sx * sy)). set (C := b * exp ((b * b - c * (a * a)) / (2 * (a * a))) * sqrt (2 * PI) / (a * (a * a))).
  replace 0 with (K * (1 / (a * a) * (0 + 0) + C * ((1 - 1) - 0))) by ring.
  apply lim_scal_fin. apply lim_plus_fin.
  - apply lim_scal_fin. apply (lim_plus_fin gg (fun y => gg (- y))); [exact g_lim_p|exact g_lim_m].
  - apply lim_scal_fin.
    apply (lim_minus_fin (fun y => 1 - Phi (a * y - b / a)) (fun y => Phi (a * - y - b / a))); [|exact Phi_down].
    apply (lim_minus_fin (fun _ => 1) (fun y => Phi (a * y - b / a))); [apply is_lim_const|exact Phi_up].
Qed.

(* the closed form is the limit of the symmetric windows of the defining integral *)
Theorem closed_form_is_the_improper_integral :
  is_lim (fun Y => RInt (integrand z mx my sx sy) (- Y) Y) p_infty (ratio_pdf Phi z mx my sx sy).
Proof.
  apply (is_lim_ext_loc (fun Y => ratio_pdf Phi z mx my sx sy - tail Y)).
  - exists 0. intros Y HY.
    rewrite (closed_form_is_window_plus_tail Phi Phi_sym z mx my sx sy Hsx Hsy Y).
    symmetry. rewrite (is_RInt_unique _ _ _ _ (window_integral Phi Phi_derive z mx my sx sy Hsx Hsy Y (Rlt_le _ _ HY))).
    unfold tail, gg. fold a b c. ring.
  - pose proof (lim_minus_fin (fun _ => ratio_pdf Phi z mx my sx sy) tail p_infty _ 0
                  (is_lim_const (ratio_pdf Phi z mx my sx sy) p_infty) tail_vanishes) as H.
    rewrite Rminus_0_r in H. exact H.
Qed.
End Limit.
