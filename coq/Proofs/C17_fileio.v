(* File formats (Model/FileIO.v): header-driven CSV parsing inverts rendering for every column order; binary records
   decode to what was encoded, also when several records are concatenated. *)
From Coq Require Import ZArith List Bool Lia.
From MTV.Model Require Import FileIO.
Import ListNotations.
Open Scope Z_scope.

(* ================= (A) CSV ================= *)
Lemma col_eqb_eq a b : col_eqb a b = true -> a = b.
Proof. destruct a, b; cbn; try discriminate; try reflexivity. intros H; apply Z.eqb_eq in H; subst; reflexivity. Qed.
Lemma col_eqb_refl a : col_eqb a a = true.
Proof. destruct a; cbn; try reflexivity. apply Z.eqb_refl. Qed.

Lemma nth_index {A} (f : col -> A) d c h : In c h -> nth (index_of c h) (map f h) d = f c.
Proof.
  induction h as [|x h IH]; [intros []|]. intros H. cbn [index_of map].
  destruct (col_eqb c x) eqn:E.
  - apply col_eqb_eq in E. subst. reflexivity.
  - cbn [nth]. apply IH. destruct H as [->|H]; [rewrite col_eqb_refl in E; discriminate | exact H].
Qed.

(* whatever the order (and number) of the columns, a row is read back as it was written *)
Theorem row_roundtrip h r : complete_header h -> read_row (idx_of_header h) (map (render_field r) h) = r.
Proof.
  intros (H1 & H2 & H3 & H4 & H5). unfold read_row, idx_of_header, pick. cbn [i_name i_toa i_az i_meas i_err].
  rewrite !nth_index by assumption. destruct r; reflexivity.
Qed.

Lemma fold_rows h rows s : complete_header h -> ix s = idx_of_header h ->
  fold_left cstep (map (fun r => CRow (map (render_field r) h)) rows) s
  = mkC (ix s) (key s) (rev rows ++ cur s) (done s) (uid s).
Proof.
  intros Hh. revert s; induction rows as [|r rows IH]; intros s Hix; [destruct s; reflexivity|].
  cbn [map fold_left]. rewrite IH by (cbn; exact Hix). cbn [cstep ix key cur done uid].
  rewrite Hix, row_roundtrip by exact Hh. cbn [rev]. rewrite <- app_assoc. reflexivity.
Qed.

Definition good_type (t : Z * list col * list row) : Prop :=
  let '(_, h, rows) := t in complete_header h /\ rows <> [].
Definition data_of (t : Z * list col * list row) : Z * list row := let '(k, _, rows) := t in (k, rows).

Lemma fold_types ts s : Forall good_type ts ->
  let s' := fold_left cstep (flat_map render_type ts) s in
  rev (flush s') = rev (flush s) ++ map data_of ts /\ uid s' = uid s.
Proof.
  revert s; induction ts as [|[[k h] rows] ts IH]; intros s Hg; cbv zeta.
  - cbn. rewrite app_nil_r. auto.
  - inversion Hg as [|? ? Hgt Hg']; subst. cbn in Hgt. destruct Hgt as [Hh Hr].
    cbn [flat_map render_type]. rewrite <- app_comm_cons, <- app_comm_cons. cbn [fold_left].
    rewrite fold_left_app.
    rewrite fold_rows; [|exact Hh|reflexivity].
    cbn [cstep ix key cur done uid]. rewrite app_nil_r.
    specialize (IH (mkC (idx_of_header h) k (rev rows) (flush s) (uid s)) Hg'). cbv zeta in IH.
    destruct IH as [IH1 IH2]. rewrite IH1, IH2. split; [|reflexivity].
    change (match cur s with [] => done s | _ :: _ => (key s, rev (cur s)) :: done s end) with (flush s).
    unfold flush at 1. cbn [cur key done].
    destruct (rev rows) as [|x l] eqn:E; [apply (f_equal (@rev _)) in E; rewrite rev_involutive in E; cbn in E; contradiction|].
    rewrite <- E, rev_involutive. cbn [rev map data_of]. rewrite <- app_assoc. reflexivity.
Qed.

(* an event is parsed back to its UID and its data types with their rows, row for row, whatever the column order of
   each header and however many types it holds *)
Theorem event_roundtrip ix0 key0 u ts : Forall good_type ts ->
  let '(u', types, _, _) := parse_event ix0 key0 (render_event u ts) in u' = u /\ types = map data_of ts.
Proof.
  intros Hg. unfold parse_event, render_event. rewrite fold_left_app.
  set (s0 := fold_left cstep (match u with Some x => [CUid x] | None => [] end) (mkC ix0 key0 [] [] None)).
  pose proof (fold_types ts s0 Hg) as H. cbv zeta in H. destruct H as [H1 H2].
  split.
  - rewrite H2. unfold s0. destruct u; reflexivity.
  - rewrite H1. unfold s0. destruct u; reflexivity.
Qed.

(* ================= (B) binary records ================= *)
Lemma take_f64_app s rest : take_f64 (length s) (map F64 s ++ rest) = Some (s, rest).
Proof. induction s as [|w s IH]; [reflexivity|]. cbn. rewrite IH. reflexivity. Qed.

Lemma take_samples_app ss wd rest : (forall s, In s ss -> length s = wd) ->
  take_samples (length ss) wd (flat_map (fun s => map F64 s) ss ++ rest) = Some (ss, rest).
Proof.
  induction ss as [|s ss IH]; intros H; [reflexivity|].
  assert (Hs : length s = wd) by (apply H; left; reflexivity).
  replace (flat_map (fun s0 => map F64 s0) (s :: ss) ++ rest)
    with (map F64 s ++ (flat_map (fun s0 => map F64 s0) ss ++ rest)) by (cbn [flat_map]; rewrite app_assoc; reflexivity).
  cbn [length take_samples]. rewrite <- Hs, take_f64_app.
  rewrite Hs, IH by (intros; apply H; right; assumption). reflexivity.
Qed.

Theorem decode_encode r rest : well_shaped r -> decode_one (encode r ++ rest) = Some (r, rest).
Proof.
  intros H. unfold encode. cbn [app decode_one]. rewrite Nat2Z.id.
  rewrite take_samples_app by exact H. destruct r; reflexivity.
Qed.

(* several concatenated records are read back one by one, in order *)
Theorem decode_concatenated rs fuel : Forall well_shaped rs -> (length rs <= fuel)%nat ->
  decode_all fuel (flat_map encode rs) = Some rs.
Proof.
  revert fuel; induction rs as [|r rs IH]; intros fuel Hw Hf; [destruct fuel; reflexivity|].
  inversion Hw as [|? ? Hr Hw']; subst. destruct fuel as [|fuel]; [cbn in Hf; lia|].
  cbn [flat_map]. unfold decode_all; fold decode_all.
  destruct (encode r ++ flat_map encode rs) eqn:E; [unfold encode in E; discriminate|]. rewrite <- E.
  rewrite decode_encode by exact Hr. rewrite IH by (try assumption; cbn in Hf; lia). reflexivity.
Qed.

(* the item stream of a record occupies exactly byte_size bytes: 8 per word, 1 for the flag *)
Definition item_bytes (i : item) : Z := match i with Flag _ => 1 | _ => 8 end.
Definition stream_bytes (l : list item) : Z := fold_right (fun i acc => item_bytes i + acc) 0 l.

Lemma stream_bytes_app a b : stream_bytes (a ++ b) = stream_bytes a + stream_bytes b.
Proof.
  induction a as [|x a IH]; [reflexivity|].
  change (stream_bytes ((x :: a) ++ b)) with (item_bytes x + stream_bytes (a ++ b)).
  change (stream_bytes (x :: a)) with (item_bytes x + stream_bytes a). rewrite IH. lia.
Qed.
Lemma stream_bytes_words s : stream_bytes (map F64 s) = 8 * Z.of_nat (length s).
Proof.
  induction s as [|w s IH]; [reflexivity|].
  change (stream_bytes (map F64 (w :: s))) with (8 + stream_bytes (map F64 s)). rewrite IH. cbn [length]. lia.
Qed.

Theorem record_size r : well_shaped r -> stream_bytes (encode r) = byte_size r.
Proof.
  intros H. unfold encode, byte_size. rewrite stream_bytes_app.
  change (stream_bytes [U64 2; U64 (total r); U64 (Z.of_nat (length (samples r))); Flag (converted r); F64 (evidence r); F64 (dkl r)]) with 41.
  assert (G : forall ss, (forall s, In s ss -> length s = width (converted r)) ->
              stream_bytes (flat_map (fun s => map F64 s) ss) = Z.of_nat (length ss) * (8 * Z.of_nat (width (converted r)))).
  { induction ss as [|s ss IH]; intros Hs; [reflexivity|].
    cbn [flat_map length]. rewrite stream_bytes_app, stream_bytes_words, IH by (intros; apply Hs; right; assumption).
    rewrite (Hs s (or_introl eq_refl)). lia. }
  rewrite G by exact H. destruct (converted r); cbn [width]; lia.
Qed.
