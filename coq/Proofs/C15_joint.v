(* Joint multi-event posterior (Model/Joint.v): additivity, station-intersection rule, independence without relative
   data; inverse-variance combination of per-station scale estimates. *)
From Coq Require Import ZArith List Bool Lia Sorting.Permutation.
From MTV.Model Require Import Joint.
Import ListNotations.
Open Scope Z_scope.

Definition sum_own (l : list event) : Z := fold_right (fun e acc => own e + acc) 0 l.

Section J.
  Variable term : nat -> nat -> list Z -> Z.
  Variable minimum : Z.

  (* without relative data the events are independent: the joint log-probability is the sum of the events' own *)
  Lemma joint_from_independent seen todo : joint_from term minimum false seen todo = sum_own todo.
  Proof.
    revert seen; induction todo as [|e rest IH]; intros seen; [reflexivity|].
    cbn [joint_from sum_own fold_right]. rewrite IH. fold (sum_own rest). lia.
  Qed.
  Theorem joint_independent events : joint term minimum false events = sum_own events.
  Proof. apply joint_from_independent. Qed.

  (* adding one more event adds its own term and one term per earlier event *)
  Lemma joint_from_app rel seen todo e :
    joint_from term minimum rel seen (todo ++ [e]) =
    joint_from term minimum rel seen todo + own e +
    (if rel then with_earlier term minimum (length (seen ++ todo)) e 0%nat (seen ++ todo) else 0).
  Proof.
    revert seen; induction todo as [|d rest IH]; intros seen.
    - cbn [app joint_from]. rewrite app_nil_r. lia.
    - cbn [app joint_from]. rewrite IH. rewrite <- app_assoc. cbn [app]. lia.
  Qed.
  Theorem joint_add_event rel events e :
    joint term minimum rel (events ++ [e]) =
    joint term minimum rel events + own e +
    (if rel then with_earlier term minimum (length events) e 0%nat events else 0).
  Proof. unfold joint. rewrite joint_from_app. reflexivity. Qed.

  (* a pair with fewer shared stations than the configured minimum contributes nothing *)
  Theorem below_minimum_contributes_nothing i j ei ej :
    Z.of_nat (length (shared (stations ei) (stations ej))) < minimum -> pair_term term minimum i j ei ej = 0.
  Proof.
    intros H. unfold pair_term. destruct (minimum <=? _) eqn:E; [apply Z.leb_le in E; lia|reflexivity].
  Qed.
  Theorem at_least_minimum_contributes_its_term i j ei ej :
    minimum <= Z.of_nat (length (shared (stations ei) (stations ej))) ->
    pair_term term minimum i j ei ej = term i j (shared (stations ei) (stations ej)).
  Proof.
    intros H. unfold pair_term. destruct (minimum <=? _) eqn:E; [reflexivity|apply Z.leb_gt in E; lia].
  Qed.

  Lemma with_earlier_zero i e j earlier :
    (forall ej, In ej earlier -> Z.of_nat (length (shared (stations e) (stations ej))) < minimum) ->
    with_earlier term minimum i e j earlier = 0.
  Proof.
    revert j; induction earlier as [|ej rest IH]; intros j H; [reflexivity|].
    cbn [with_earlier]. rewrite below_minimum_contributes_nothing by (apply H; left; reflexivity).
    rewrite IH by (intros; apply H; right; assumption). reflexivity.
  Qed.

  (* if no pair of events shares enough stations, relative data change nothing *)
  Lemma joint_from_no_overlap seen todo :
    (forall e1 e2, In e1 (seen ++ todo) -> In e2 (seen ++ todo) ->
                   Z.of_nat (length (shared (stations e1) (stations e2))) < minimum) ->
    joint_from term minimum true seen todo = sum_own todo.
  Proof.
    revert seen; induction todo as [|e rest IH]; intros seen H; [reflexivity|].
    cbn [joint_from sum_own fold_right]. fold (sum_own rest).
    rewrite with_earlier_zero.
    - rewrite IH; [lia|]. intros e1 e2 H1 H2. rewrite <- app_assoc in H1, H2. apply H; assumption.
    - intros ej Hin. apply H; apply in_or_app; [right; left; reflexivity | left; exact Hin].
  Qed.
  Theorem joint_no_overlap events :
    (forall e1 e2, In e1 events -> In e2 events -> Z.of_nat (length (shared (stations e1) (stations e2))) < minimum) ->
    joint term minimum true events = sum_own events.
  Proof. intros H. apply joint_from_no_overlap. exact H. Qed.
End J.

(* the shared stations depend on the other event's stations only as a set (its station order is irrelevant), and are
   listed in the order of the first event *)
Lemma memb_In x l : memb x l = true <-> In x l.
Proof.
  unfold memb. rewrite existsb_exists. split.
  - intros [y [Hy E]]. apply Z.eqb_eq in E. subst. exact Hy.
  - intros H. exists x. split; [exact H | apply Z.eqb_refl].
Qed.

Theorem shared_order_independent si sj sj' : Permutation sj sj' -> shared si sj = shared si sj'.
Proof.
  intros P. unfold shared. apply filter_ext_in. intros x _.
  destruct (memb x sj) eqn:E.
  - symmetry. apply memb_In. apply (Permutation_in _ P). apply memb_In. exact E.
  - destruct (memb x sj') eqn:E'; [|reflexivity].
    apply memb_In in E'. apply (Permutation_in _ (Permutation_sym P)) in E'. apply memb_In in E'. congruence.
Qed.

Theorem shared_exactly_the_common_stations si sj x : In x (shared si sj) <-> In x si /\ In x sj.
Proof. unfold shared. rewrite filter_In, memb_In. reflexivity. Qed.

(* ---- inverse-variance combination at the reals *)
From Coq Require Import Reals Lra.
Open Scope R_scope.

Definition rcombine := @combine_mu R Rplus Rmult Rdiv sqrt.
Definition rstep := @combine_step R Rplus Rmult Rdiv sqrt.

(* sum of inverse variances and inverse-variance weighted sum of the means *)
Fixpoint wsum (l : list (R * R)) : R := match l with [] => 0 | (m, s) :: r => / (s * s) + wsum r end.
Fixpoint msum (l : list (R * R)) : R := match l with [] => 0 | (m, s) :: r => m / (s * s) + msum r end.

Definition positive (l : list (R * R)) : Prop := forall m s, In (m, s) l -> 0 < s.

Lemma step_invariant cm cs m s W M : 0 < cs -> 0 < s -> / (cs * cs) = W -> cm = M / W ->
  let '(cm', cs') := rstep (cm, cs) (m, s) in
  0 < cs' /\ / (cs' * cs') = W + / (s * s) /\ cm' = (M + m / (s * s)) / (W + / (s * s)).
Proof.
  intros Hcs Hs HW HM. unfold rstep, combine_step.
  set (q := cs * cs + s * s). assert (Hq : 0 < q) by (unfold q; nra).
  assert (Hsq : 0 < sqrt q) by (apply sqrt_lt_R0; exact Hq).
  assert (Hqq : sqrt q * sqrt q = q) by (apply sqrt_sqrt; lra).
  split; [|split].
  - apply Rdiv_lt_0_compat; [nra | exact Hsq].
  - rewrite <- HW.
    replace (cs * s / sqrt q * (cs * s / sqrt q)) with ((cs * cs) * (s * s) / (sqrt q * sqrt q)) by (field; lra).
    rewrite Hqq. unfold q. field. repeat split; nra.
  - rewrite HM, <- HW. unfold q. field. repeat split; nra.
Qed.

Lemma fold_invariant rest cm cs W M : positive rest -> 0 < cs -> / (cs * cs) = W -> cm = M / W ->
  let '(fm, fs) := fold_left rstep rest (cm, cs) in
  0 < fs /\ / (fs * fs) = W + wsum rest /\ fm = (M + msum rest) / (W + wsum rest).
Proof.
  revert cm cs W M; induction rest as [|[m s] rest IH]; intros cm cs W M Hp Hcs HW HM.
  - cbn. rewrite !Rplus_0_r. auto.
  - cbn [fold_left wsum msum].
    assert (Hs : 0 < s) by (apply (Hp m s); left; reflexivity).
    pose proof (step_invariant cm cs m s W M Hcs Hs HW HM) as St.
    destruct (rstep (cm, cs) (m, s)) as [cm' cs']. destruct St as (P1 & P2 & P3).
    specialize (IH cm' cs' (W + / (s * s)) (M + m / (s * s))).
    assert (Hp' : positive rest) by (intros m' s' H; apply (Hp m' s'); right; exact H).
    specialize (IH Hp' P1 P2 P3).
    destruct (fold_left rstep rest (cm', cs')) as [fm fs].
    destruct IH as (Q1 & Q2 & Q3). split; [exact Q1|]. split.
    + rewrite Q2. ring.
    + rewrite Q3. f_equal; ring.
Qed.

(* the combined estimate is the inverse-variance weighted mean, its variance the harmonic combination *)
Theorem combine_is_inverse_variance_weighting l : l <> [] -> positive l ->
  exists fm fs, rcombine l = Some (fm, fs) /\ 0 < fs /\ / (fs * fs) = wsum l /\ fm = msum l / wsum l.
Proof.
  intros Hne Hp. destruct l as [|[m s] rest]; [contradiction|].
  unfold rcombine, combine_mu.
  assert (Hs : 0 < s) by (apply (Hp m s); left; reflexivity).
  assert (Hp' : positive rest) by (intros m' s' H; apply (Hp m' s'); right; exact H).
  pose proof (fold_invariant rest m s (/ (s * s)) (m / (s * s)) Hp' Hs eq_refl) as F.
  assert (E : m = m / (s * s) / / (s * s)) by (field; lra).
  specialize (F E). fold rstep.
  destruct (fold_left rstep rest (m, s)) as [fm fs]. destruct F as (Q1 & Q2 & Q3).
  exists fm, fs. cbn [wsum msum]. auto.
Qed.

Lemma wsum_perm l l' : Permutation l l' -> wsum l = wsum l'.
Proof. induction 1 as [|[m s] l l' _ IH|[m s] [m' s'] l|l l' l'' _ IH1 _ IH2]; cbn; try lra; congruence. Qed.
Lemma msum_perm l l' : Permutation l l' -> msum l = msum l'.
Proof. induction 1 as [|[m s] l l' _ IH|[m s] [m' s'] l|l l' l'' _ IH1 _ IH2]; cbn; try lra; congruence. Qed.

(* hence the estimate does not depend on the order of the stations *)
Theorem combine_station_order_independent l l' : l <> [] -> positive l -> Permutation l l' ->
  exists fm fs fs', rcombine l = Some (fm, fs) /\ rcombine l' = Some (fm, fs') /\ fs * fs = fs' * fs'.
Proof.
  intros Hne Hp P.
  assert (Hne' : l' <> []) by (intros E; subst; apply Permutation_sym, Permutation_nil in P; contradiction).
  assert (Hp' : positive l') by (intros m s H; apply (Hp m s); apply (Permutation_in _ (Permutation_sym P)); exact H).
  destruct (combine_is_inverse_variance_weighting l Hne Hp) as (fm & fs & E1 & P1 & V1 & M1).
  destruct (combine_is_inverse_variance_weighting l' Hne' Hp') as (fm' & fs' & E2 & P2 & V2 & M2).
  exists fm, fs, fs'. split; [exact E1|]. split.
  - rewrite E2. f_equal. f_equal. rewrite M1, M2, (wsum_perm _ _ P), (msum_perm _ _ P). reflexivity.
  - rewrite (wsum_perm _ _ P) in V1. rewrite <- V2 in V1.
    assert (A : 0 < fs * fs) by nra. assert (B : 0 < fs' * fs') by nra.
    apply (f_equal Rinv) in V1. rewrite !Rinv_inv in V1. exact V1.
Qed.
