(* Hudson source-type coordinates (E_tk, tk_uv of Gen/Convert.v): independence of eigenvalue order and of positive
   scale, the (tau, k) diamond, the (u, v) bounds and the special sources. *)
From Coq Require Import Reals Lra Lia Sumbool.
From MTV.Lib Require Import Base Trig.
From MTV.Gen Require Import Convert.
From MTV.Proofs Require Import Conv_lune.
Open Scope R_scope.

(* the sorted view: Hudson's ordering takes (largest, smallest, middle) *)
Definition hud (M mid m : R) : R * R :=
  let iso := (M + m + mid) / 3 in
  let dev0 := M - iso in
  let dev1 := m - iso in
  let dev2 := mid - iso in
  let k := if Rlt_dec 0 dev2 then iso / (Rabs iso - dev1) else iso / (Rabs iso + dev0) in
  let T := if Rlt_dec 0 dev2 then (- 2 * dev2) / dev1 else if Rlt_dec dev2 0 then (2 * dev2) / dev0 else 0 in
  (T * (1 - Rabs k), k).

Lemma E_tk_char a b c : E_tk a b c = hud (mx a b c) (md a b c) (mn a b c).
Proof.
  unfold E_tk, hud, md, mx, mn. cbv zeta.
  repeat (match goal with |- context [Rlt_dec ?x ?y] => destruct (Rlt_dec x y) end); reflexivity.
Qed.

Theorem E_tk_permutation_invariant a b c :
  E_tk a c b = E_tk a b c /\ E_tk b a c = E_tk a b c /\ E_tk b c a = E_tk a b c /\
  E_tk c a b = E_tk a b c /\ E_tk c b a = E_tk a b c.
Proof.
  rewrite !E_tk_char. repeat split.
  - rewrite mx_perm2, md_perm2, mn_perm2; reflexivity.
  - rewrite mx_perm1, md_perm1, mn_perm1; reflexivity.
  - rewrite mx_perm2, md_perm2, mn_perm2, mx_perm1, md_perm1, mn_perm1; reflexivity.
  - rewrite mx_perm1, md_perm1, mn_perm1, mx_perm2, md_perm2, mn_perm2; reflexivity.
  - rewrite mx_perm1, md_perm1, mn_perm1, mx_perm2, md_perm2, mn_perm2, mx_perm1, md_perm1, mn_perm1; reflexivity.
Qed.

Lemma Rabs_scale k x : 0 < k -> Rabs (k * x) = k * Rabs x.
Proof. intros; rewrite Rabs_mult, (Rabs_right k) by lra; reflexivity. Qed.

Lemma hud_scale k M mid m : 0 < k -> m <= mid <= M -> 0 < M * M + mid * mid + m * m ->
  hud (k * M) (k * mid) (k * m) = hud M mid m.
Proof.
  intros Hk Hs Hq. unfold hud. cbv zeta.
  set (iso := (M + m + mid) / 3).
  replace ((k * M + k * m + k * mid) / 3) with (k * iso) by (unfold iso; field).
  replace (k * M - k * iso) with (k * (M - iso)) by ring.
  replace (k * m - k * iso) with (k * (m - iso)) by ring.
  replace (k * mid - k * iso) with (k * (mid - iso)) by ring.
  set (d0 := M - iso). set (d1 := m - iso). set (d2 := mid - iso).
  assert (Hsum : d0 + d1 + d2 = 0) by (unfold d0, d1, d2, iso; field).
  assert (Ho : d1 <= d2 <= d0) by (unfold d0, d1, d2; lra).
  rewrite Rabs_scale by exact Hk.
  assert (Ek : (if Rlt_dec 0 (k * d2) then k * iso / (k * Rabs iso - k * d1) else k * iso / (k * Rabs iso + k * d0))
             = (if Rlt_dec 0 d2 then iso / (Rabs iso - d1) else iso / (Rabs iso + d0))).
  { pose proof (Rabs_pos iso) as Ha.
    destruct (Rlt_dec 0 (k * d2)) as [P|P]; destruct (Rlt_dec 0 d2) as [P'|P']; try (exfalso; nra).
    - assert (d1 < 0) by lra. field. repeat split; nra.
    - assert (Hden : Rabs iso + d0 <> 0).
      { intros Z. assert (Rabs iso = 0) by lra. assert (d0 = 0) by lra.
        assert (iso = 0) by (unfold Rabs in *; destruct (Rcase_abs iso); lra).
        assert (d1 = 0) by lra. assert (d2 = 0) by lra.
        unfold d0, d1, d2 in *. assert (M = 0) by lra. assert (m = 0) by lra. assert (mid = 0) by lra. subst. lra. }
      assert (0 < Rabs iso + d0) by lra. field. repeat split; nra. }
  rewrite Ek. f_equal. f_equal.
  destruct (Rlt_dec 0 (k * d2)) as [P|P]; destruct (Rlt_dec 0 d2) as [P'|P']; try (exfalso; nra).
  - field. lra.
  - destruct (Rlt_dec (k * d2) 0) as [Q|Q]; destruct (Rlt_dec d2 0) as [Q'|Q']; try (exfalso; nra); [|reflexivity].
    field. lra.
Qed.

Theorem E_tk_scale_invariant k a b c : 0 < k -> 0 < a * a + b * b + c * c ->
  E_tk (k * a) (k * b) (k * c) = E_tk a b c.
Proof.
  intros Hk Hq. rewrite !E_tk_char, mx_scale, md_scale, mn_scale by exact Hk.
  apply hud_scale; [exact Hk | apply md_between |].
  pose proof (mx_ge a b c) as [? [? ?]]. pose proof (mn_le a b c) as [? [? ?]].
  destruct (Req_dec (mx a b c) 0) as [Z1|Z1]; destruct (Req_dec (mn a b c) 0) as [Z2|Z2]; try nra.
  all: exfalso; assert (a = 0) by lra; assert (b = 0) by lra; assert (c = 0) by lra; subst; lra.
Qed.

(* ---- the diamond |tau| + |k| <= 1 *)
Lemma Rabs_div_pos x d : 0 < d -> Rabs (x / d) = Rabs x / d.
Proof. intros; unfold Rdiv; rewrite Rabs_mult, Rabs_inv, (Rabs_right d) by lra; reflexivity. Qed.

Lemma div_unit x y : 0 < y -> 0 <= x <= y -> 0 <= x / y <= 1.
Proof.
  intros Hy [H0 H1]. split.
  - unfold Rdiv; apply Rmult_le_pos; [lra | left; apply Rinv_0_lt_compat; exact Hy].
  - apply Rmult_le_reg_r with y; [exact Hy|]. unfold Rdiv; rewrite Rmult_assoc, Rinv_l by lra. lra.
Qed.

Lemma hud_diamond M mid m : m <= mid <= M -> 0 < M * M + mid * mid + m * m ->
  Rabs (fst (hud M mid m)) + Rabs (snd (hud M mid m)) <= 1.
Proof.
  intros Hs Hq. unfold hud. cbv zeta. cbn [fst snd].
  set (iso := (M + m + mid) / 3).
  set (d0 := M - iso). set (d1 := m - iso). set (d2 := mid - iso).
  assert (Hsum : d0 + d1 + d2 = 0) by (unfold d0, d1, d2, iso; field).
  assert (Ho : d1 <= d2 <= d0) by (unfold d0, d1, d2; lra).
  pose proof (Rabs_pos iso) as Ha.
  assert (Hnz : Rabs iso + d0 <> 0 \/ 0 < d2).
  { destruct (Rlt_dec 0 d2); [right; assumption|left]. intros Z.
    assert (Rabs iso = 0) by lra. assert (d0 = 0) by lra.
    assert (iso = 0) by (unfold Rabs in *; destruct (Rcase_abs iso); lra).
    unfold d0, d1, d2 in *. assert (M = 0) by lra. assert (m = 0) by lra. assert (mid = 0) by lra. subst. lra. }
  (* a general closing step: |T (1 - |k|)| + |k| <= 1 when 0 <= T <= 1 and |k| <= 1 *)
  assert (close : forall T k, 0 <= T <= 1 -> Rabs k <= 1 -> Rabs (T * (1 - Rabs k)) + Rabs k <= 1).
  { intros T k HT Hk. pose proof (Rabs_pos k). rewrite Rabs_right by nra. nra. }
  assert (closeN : forall T k, -1 <= T <= 0 -> Rabs k <= 1 -> Rabs (T * (1 - Rabs k)) + Rabs k <= 1).
  { intros T k HT Hk. pose proof (Rabs_pos k). rewrite Rabs_left1 by nra. nra. }
  destruct (Rlt_dec 0 d2) as [P|P].
  - assert (D : 0 < Rabs iso - d1) by lra.
    apply close.
    + assert (Hd1 : d1 < 0) by lra.
      replace (- 2 * d2 / d1) with ((2 * d2) / (- d1)) by (field; lra).
      apply div_unit; lra.
    + rewrite Rabs_div_pos by exact D. apply Rmult_le_reg_r with (Rabs iso - d1); [exact D|].
      unfold Rdiv. rewrite Rmult_assoc, Rinv_l by lra. lra.
  - assert (D : 0 < Rabs iso + d0) by (destruct Hnz; lra).
    assert (K : Rabs (iso / (Rabs iso + d0)) <= 1).
    { rewrite Rabs_div_pos by exact D. apply Rmult_le_reg_r with (Rabs iso + d0); [exact D|].
      unfold Rdiv. rewrite Rmult_assoc, Rinv_l by lra. lra. }
    destruct (Rlt_dec d2 0) as [Q|Q].
    + apply closeN; [|exact K]. assert (Hd0 : 0 < d0) by lra.
      replace (2 * d2 / d0) with (- ((- 2 * d2) / d0)) by (field; lra).
      assert (0 <= (- 2 * d2) / d0 <= 1) by (apply div_unit; lra). lra.
    + apply close; [lra | exact K].
Qed.

Theorem E_tk_diamond a b c : 0 < a * a + b * b + c * c ->
  Rabs (fst (E_tk a b c)) + Rabs (snd (E_tk a b c)) <= 1.
Proof.
  intros Hq. rewrite E_tk_char. apply hud_diamond; [apply md_between|].
  pose proof (mx_ge a b c) as [? [? ?]]. pose proof (mn_le a b c) as [? [? ?]].
  destruct (Req_dec (mx a b c) 0) as [Z1|Z1]; destruct (Req_dec (mn a b c) 0) as [Z2|Z2]; try nra.
  all: exfalso; assert (a = 0) by lra; assert (b = 0) by lra; assert (c = 0) by lra; subst; lra.
Qed.

(* ---- (u, v) bounds on the diamond *)
Lemma div_bounds x d lo hi : 0 < d -> lo * d <= x <= hi * d -> lo <= x / d <= hi.
Proof.
  intros Hd [H0 H1]. split.
  - apply Rmult_le_reg_r with d; [exact Hd|]. unfold Rdiv; rewrite Rmult_assoc, Rinv_l by lra. lra.
  - apply Rmult_le_reg_r with d; [exact Hd|]. unfold Rdiv; rewrite Rmult_assoc, Rinv_l by lra. lra.
Qed.

Theorem tk_uv_bounds tau k : Rabs tau + Rabs k <= 1 ->
  Rabs (fst (tk_uv tau k)) <= 4 / 3 /\ Rabs (snd (tk_uv tau k)) <= 1.
Proof.
  intros H.
  assert (Ht : - Rabs tau <= tau <= Rabs tau) by (unfold Rabs; destruct (Rcase_abs tau); lra).
  assert (Hk : - Rabs k <= k <= Rabs k) by (unfold Rabs; destruct (Rcase_abs k); lra).
  pose proof (Rabs_pos tau). pose proof (Rabs_pos k).
  unfold tk_uv. cbv zeta. cbn [fst snd].
  destruct (sumbool_and _ _ _ _ (Rlt_dec 0 tau) (Rlt_dec 0 k)) as [[P1 P2]|N1].
  - assert (Rabs tau = tau) by (apply Rabs_right; lra). assert (Rabs k = k) by (apply Rabs_right; lra).
    destruct (Rlt_dec tau (4 * k)) as [Q|Q].
    + assert (D : 0 < 1 - tau / 2) by lra.
      split; apply Rabs_le; apply div_bounds; try exact D; lra.
    + assert (D : 0 < 1 - 2 * k) by lra.
      split; apply Rabs_le; apply div_bounds; try exact D; lra.
  - destruct (sumbool_and _ _ _ _ (Rlt_dec tau 0) (Rlt_dec k 0)) as [[P1 P2]|N2].
    + assert (Rabs tau = - tau) by (apply Rabs_left; lra). assert (Rabs k = - k) by (apply Rabs_left; lra).
      destruct (Rlt_dec (4 * k) tau) as [Q|Q].
      * assert (D : 0 < 1 + tau / 2) by lra.
        split; apply Rabs_le; apply div_bounds; try exact D; lra.
      * assert (D : 0 < 1 + 2 * k) by lra.
        split; apply Rabs_le; apply div_bounds; try exact D; lra.
    + split; lra.
Qed.

(* ---- the composition used for results: eigenvalues -> (u, v) *)
Definition E_uv (a b c : R) : R * R := let '(t, k) := E_tk a b c in tk_uv t k.

Theorem E_uv_bounds a b c : 0 < a * a + b * b + c * c ->
  Rabs (fst (E_uv a b c)) <= 4 / 3 /\ Rabs (snd (E_uv a b c)) <= 1.
Proof.
  intros Hq. unfold E_uv. pose proof (E_tk_diamond a b c Hq) as D.
  destruct (E_tk a b c) as [t k]. apply tk_uv_bounds. exact D.
Qed.

Theorem E_uv_permutation_invariant a b c :
  E_uv a c b = E_uv a b c /\ E_uv b a c = E_uv a b c /\ E_uv b c a = E_uv a b c /\
  E_uv c a b = E_uv a b c /\ E_uv c b a = E_uv a b c.
Proof.
  unfold E_uv. destruct (E_tk_permutation_invariant a b c) as (H1 & H2 & H3 & H4 & H5).
  rewrite H1, H2, H3, H4, H5. repeat split.
Qed.

Theorem E_uv_scale_invariant k a b c : 0 < k -> 0 < a * a + b * b + c * c ->
  E_uv (k * a) (k * b) (k * c) = E_uv a b c.
Proof. intros Hk Hq. unfold E_uv. rewrite E_tk_scale_invariant by assumption. reflexivity. Qed.

(* ---- special sources *)
Lemma hud_sorted a b c : c <= b <= a -> E_tk a b c = hud a b c.
Proof.
  intros H. rewrite E_tk_char.
  assert (Hx : mx a b c = a) by (unfold mx; rewrite (Rmax_left a b) by lra; rewrite Rmax_left by lra; reflexivity).
  assert (Hn : mn a b c = c) by (unfold mn; rewrite (Rmin_right a b) by lra; rewrite Rmin_right by lra; reflexivity).
  unfold md. rewrite Hx, Hn. f_equal. ring.
Qed.

Ltac decide_ifs := repeat (match goal with
  | |- context [Rlt_dec ?x ?y] => destruct (Rlt_dec x y); try lra
  | |- context [sumbool_and _ _ _ _ ?p ?q] => destruct (sumbool_and _ _ _ _ p q) as [[? ?]|[?|?]]; try lra
  end).

Lemma tk_uv_axis_u t : tk_uv t 0 = (t, 0).
Proof. unfold tk_uv. cbv zeta. decide_ifs; reflexivity. Qed.
Lemma tk_uv_axis_v k : tk_uv 0 k = (0, k).
Proof. unfold tk_uv. cbv zeta. decide_ifs; reflexivity. Qed.

Theorem hudson_double_couple l : 0 < l -> E_uv l 0 (- l) = (0, 0).
Proof.
  intros Hl. unfold E_uv. rewrite hud_sorted by lra. unfold hud. cbv zeta.
  replace ((l + - l + 0) / 3) with 0 by field.
  decide_ifs.
  replace (0 / (Rabs 0 + (l - 0))) with 0 by (unfold Rdiv; ring).
  rewrite Rmult_0_l. apply tk_uv_axis_u.
Qed.

Theorem hudson_isotropic l : l <> 0 -> E_uv l l l = (0, sgn l).
Proof.
  intros Hl. unfold E_uv. rewrite hud_sorted by lra. unfold hud. cbv zeta.
  replace ((l + l + l) / 3) with l by field.
  decide_ifs. rewrite Rmult_0_l, tk_uv_axis_v. f_equal.
  replace (l - l) with 0 by ring. rewrite Rplus_0_r.
  destruct (Rtotal_order l 0) as [N|[Z|P]]; [|contradiction|].
  - rewrite (Rabs_left l N), (sgn_neg l N). field; lra.
  - rewrite (Rabs_right l) by lra. rewrite (sgn_pos l P). field; lra.
Qed.

Theorem hudson_clvd l : 0 < l -> E_uv (2 * l) (- l) (- l) = (-1, 0) /\ E_uv l l (- (2 * l)) = (1, 0).
Proof.
  intros Hl. unfold E_uv. split.
  - rewrite hud_sorted by lra. unfold hud. cbv zeta.
    replace ((2 * l + - l + - l) / 3) with 0 by field.
    decide_ifs.
    replace (0 / (Rabs 0 + (2 * l - 0))) with 0 by (unfold Rdiv; ring).
    rewrite Rabs_R0. replace (2 * (- l - 0) / (2 * l - 0) * (1 - 0)) with (-1) by (field; lra).
    apply tk_uv_axis_u.
  - rewrite hud_sorted by lra. unfold hud. cbv zeta.
    replace ((l + - (2 * l) + l) / 3) with 0 by field.
    decide_ifs.
    replace (0 / (Rabs 0 - (- (2 * l) - 0))) with 0 by (unfold Rdiv; ring).
    rewrite Rabs_R0. replace (-2 * (l - 0) / (- (2 * l) - 0) * (1 - 0)) with 1 by (field; lra).
    apply tk_uv_axis_u.
Qed.
