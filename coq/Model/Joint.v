(* Hand-written model of the joint multi-event posterior (MTfit/inversion.py MultipleEventsForwardTask.__call__ with
   combine=True, and _intersect_stations) and of the inverse-variance combination of per-station scale estimates
   (MTfit/probability/probability.py combine_mu). *)
From Coq Require Import ZArith List Bool Lia.
Import ListNotations.
Open Scope Z_scope.

(* an event: its own log-probability (integer-coded) and the names of its relative-amplitude stations *)
Record event := mkEv { own : Z; stations : list Z }.

Definition memb (x : Z) (l : list Z) : bool := existsb (Z.eqb x) l.
(* the stations two events share, in the order of the first event *)
Definition shared (si sj : list Z) : list Z := filter (fun x => memb x sj) si.

Section Joint.
  (* the relative-amplitude likelihood term of a pair, as a function of the pair and the shared stations *)
  Variable term : nat -> nat -> list Z -> Z.
  Variable minimum : Z.

  Definition pair_term (i j : nat) (ei ej : event) : Z :=
    let sh := shared (stations ei) (stations ej) in
    if minimum <=? Z.of_nat (length sh) then term i j sh else 0.

  (* terms of event number i (ei) with every earlier event, earlier events listed first *)
  Fixpoint with_earlier (i : nat) (ei : event) (j : nat) (earlier : list event) : Z :=
    match earlier with
    | [] => 0
    | ej :: rest => pair_term i j ei ej + with_earlier i ei (S j) rest
    end.

  (* events are processed in order; [seen] holds the earlier ones *)
  Fixpoint joint_from (relative : bool) (seen todo : list event) : Z :=
    match todo with
    | [] => 0
    | e :: rest =>
        own e + (if relative then with_earlier (length seen) e 0%nat seen else 0) + joint_from relative (seen ++ [e]) rest
    end.
  Definition joint (relative : bool) (events : list event) : Z := joint_from relative [] events.
End Joint.

(* ---- executable check: coded pair term used by the correspondence run *)
Definition coded_term (i j : nat) (sh : list Z) : Z :=
  1000003 * (Z.of_nat i + 1) + 1009 * (Z.of_nat j + 1) +
  snd (fold_left (fun acc x => (fst acc + 1, snd acc + fst acc * x)) sh (1, 0)).
Definition check_joint (minimum : Z) (relative : bool) (events : list event) (expected : Z) : bool :=
  joint coded_term minimum relative events =? expected.

(* ---- combination of per-station scale estimates, over abstract arithmetic *)
Section Combine.
  Context {T : Type}.
  Variables (add mul div : T -> T -> T) (sqrtT : T -> T).
  Definition combine_step (acc : T * T) (ms : T * T) : T * T :=
    let '(cm, cs) := acc in let '(m, s) := ms in
    let si2 := mul s s in
    let s2 := mul cs cs in
    (div (add (mul cm si2) (mul m s2)) (add s2 si2), div (mul cs s) (sqrtT (add s2 si2))).
  Definition combine_mu (l : list (T * T)) : option (T * T) :=
    match l with
    | [] => None
    | first :: rest => Some (fold_left combine_step rest first)
    end.
End Combine.

From Coq Require Import PrimFloat.
Definition fcombine := @combine_mu float PrimFloat.add PrimFloat.mul PrimFloat.div PrimFloat.sqrt.
Definition check_combine (l : list (float * float)) (em es : float) : bool :=
  match fcombine l with
  | Some (m, s) => PrimFloat.eqb m em && PrimFloat.eqb s es
  | None => false
  end.
