(* Hand-written model of MTfit/extensions/scatangle.py: block parser (parse_scatangle), writer (_output_scatangle) and
   the greedy binning loop.  Angles and weights are integer-coded (tenths of a degree / integer weights) so that the
   correspondence run is exact; bin sizes are given in the same unit. *)
From Coq Require Import ZArith List Bool Lia.
Import ListNotations.
Open Scope Z_scope.

(* one station line: name code, azimuth, take-off angle *)
Definition station := (Z * Z * Z)%type.
Definition record := list station.

(* ---- the file as a list of lines *)
Inductive line := Blank | Weight (w : Z) | Bad | Sta (s : station).
(* [Bad]: a one-token line that is not a number (the code then resets the multiplier to 1) *)

(* parser state: finished (record, weight) pairs in reverse, current record in reverse, current multiplier *)
Fixpoint parse_lines (ls : list line) (done : list (record * Z)) (cur : record) (mult : Z) : list (record * Z) :=
  match ls with
  | [] => rev (match cur with [] => done | _ => (rev cur, mult) :: done end)
  | Blank :: ls' =>
      let done' := match cur with [] => done | _ => if mult =? 0 then done else (rev cur, mult) :: done end in
      parse_lines ls' done' [] mult
  | Weight w :: ls' => parse_lines ls' done cur w
  | Bad :: ls' => parse_lines ls' done cur 1
  | Sta s :: ls' => parse_lines ls' done (s :: cur) mult
  end.
Definition parse (ls : list line) : list (record * Z) := parse_lines ls [] [] 1.

(* writer: weight line, station lines, empty line, for every sample ('\n'.join: no newline after the last '') *)
Definition write_one (rw : record * Z) : list line := Weight (snd rw) :: map Sta (fst rw) ++ [Blank].
Definition write (rs : list (record * Z)) : list line := flat_map write_one rs.

(* ---- binning *)
Definition sta_close (b : Z) (s t : station) : bool :=
  let '(_, az1, toa1) := s in let '(_, az2, toa2) := t in
  (2 * Z.abs (toa2 - toa1) <? b) && (2 * Z.abs (az2 - az1) <? b).
(* max over stations < bin/2  <->  every station within bin/2 (records of one file list the same stations) *)
Fixpoint close (b : Z) (r s : record) : bool :=
  match r, s with
  | x :: r', y :: s' => sta_close b x y && close b r' s'
  | _, _ => true
  end.

(* a sample joins the first retained sample it is close to, otherwise it is retained itself *)
Fixpoint absorb (b : Z) (sw : record * Z) (bins : list (record * Z)) : list (record * Z) :=
  match bins with
  | [] => [sw]
  | (r, v) :: bins' => if close b r (fst sw) then (r, v + snd sw) :: bins' else (r, v) :: absorb b sw bins'
  end.
Definition bin_samples (b : Z) (l : list (record * Z)) : list (record * Z) :=
  if b =? 0 then l else fold_left (fun acc sw => absorb b sw acc) l [].

Definition total (l : list (record * Z)) : Z := fold_right (fun rw acc => snd rw + acc) 0 l.

(* ---- executable checks for the correspondence run *)
Definition sta_eqb (a b : station) : bool :=
  let '(n1, a1, t1) := a in let '(n2, a2, t2) := b in (n1 =? n2) && (a1 =? a2) && (t1 =? t2).
Fixpoint rec_eqb (a b : record) : bool :=
  match a, b with
  | x :: a', y :: b' => sta_eqb x y && rec_eqb a' b'
  | [], [] => true
  | _, _ => false
  end.
Fixpoint rws_eqb (a b : list (record * Z)) : bool :=
  match a, b with
  | (r, w) :: a', (s, v) :: b' => rec_eqb r s && (w =? v) && rws_eqb a' b'
  | [], [] => true
  | _, _ => false
  end.
Definition check_parse (ls : list line) (expected : list (record * Z)) : bool := rws_eqb (parse ls) expected.
Definition check_bin (b : Z) (ls : list line) (expected : list (record * Z)) : bool := rws_eqb (bin_samples b (parse ls)) expected.
