(* Hand-written model of MTfit/plot/spherical_projection.py (equal_area, equal_angle, __project without a projection
   axis), per input vector.  Written once over abstract arithmetic; proved at the reals (Proofs/C19_projection.v),
   executed bit-exactly at binary64 (PrimFloat) in the correspondence run.  [None] stands for numpy.nan (not shown). *)
From Coq Require Import Bool.

Section Projection.
Context {T : Type}.
Variables (add mul div : T -> T -> T) (neg sqrtT : T -> T) (ltb : T -> T -> bool) (isnan isinf : T -> bool) (zero one two : T).

(* equal_area_correction / equal_angle_correction *)
Definition corr (area lower : bool) (z : T) : T :=
  let d := if lower then add one z else add one (neg z) in
  if area then sqrtT (div two d) else div one d.

Definition finite_or_nan (v : option T) : option T :=
  match v with
  | Some x => if isnan x || isinf x then None else Some x
  | None => None
  end.

Definition project (area lower full back : bool) (x y z : T) : option T * option T :=
  let c := corr area lower z in
  let X := mul x c in
  let Y := mul y c in
  let hidden := if full then false else if lower then ltb z zero else ltb zero z in
  let nX := hidden || isnan X in
  let nY := hidden || isnan Y in
  let cb := corr area lower (neg z) in
  let Xb := mul (neg x) cb in
  let Yb := mul (neg y) cb in
  let X2 := if nX then (if back then Some Xb else None) else Some X in
  let Y2 := if nY then (if back then Some Yb else None) else Some Y in
  (finite_or_nan X2, finite_or_nan Y2).
End Projection.

(* ---- binary64 execution *)
From Coq Require Import PrimFloat.

Definition fisnan (x : float) : bool := negb (PrimFloat.eqb x x).
Definition fisinf (x : float) : bool := PrimFloat.eqb x infinity || PrimFloat.eqb x neg_infinity.
Definition fproject := @project float PrimFloat.add PrimFloat.mul PrimFloat.div PrimFloat.opp PrimFloat.sqrt
                                PrimFloat.ltb fisnan fisinf 0%float 1%float 2%float.

(* bit-level equality (distinguishes -0 from +0 through the sign of 1/x) *)
Definition fsame (a b : float) : bool :=
  (PrimFloat.eqb a b && PrimFloat.eqb (PrimFloat.div 1 a) (PrimFloat.div 1 b)).
Definition osame (a : option float) (b : option float) : bool :=
  match a, b with
  | None, None => true
  | Some x, Some y => fsame x y
  | _, _ => false
  end.
Definition check_project (area lower full back : bool) (x y z : float) (ex ey : option float) : bool :=
  let '(px, py) := fproject area lower full back x y z in osame px ex && osame py ey.
