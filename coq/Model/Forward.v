(* Hand-written executable model of the pure-Python branch of MTfit/inversion.py:
   ForwardTask.__call__ -- how per-station likelihoods of the data types are combined, weighted by
   the location-sample multipliers, marginalised and filtered.
   Written once over an abstract commutative semiring (T, 0, 1, +, x): the laws are proved from the
   semiring axioms (hence for the reals); the same definitions are executed at Q in the
   correspondence run, where the atoms are the implementation's own per-station probabilities. *)
From Coq Require Import List Bool Arith.
Import ListNotations.

Section Forward.
Context {T : Type} (zero one : T) (add mul : T -> T -> T) (is_zero : T -> bool).

(* per-station probability of one observation, as a function of location sample and tensor *)
Definition term := nat -> nat -> T.

Record data := mkData {
  d_pol : option (list term);       (* manual polarities *)
  d_prob : option (list term);      (* polarity probabilities (used only without manual polarities) *)
  d_ar : option (list term)         (* amplitude ratios *)
}.

Definition prodl (ts : list term) (k m : nat) : T := fold_right (fun t acc => mul (t k m) acc) one ts.
Definition suml (l : list T) : T := fold_right add zero l.

(* the running product exactly as the code accumulates it: polarity, else polarity probability,
   then amplitude ratio multiplied in *)
Definition likelihood (d : data) (k m : nat) : T :=
  let p1 := match d_pol d with
            | Some ts => prodl ts k m
            | None => match d_prob d with Some ts => prodl ts k m | None => one end
            end in
  match d_ar d with Some ts => mul p1 (prodl ts k m) | None => p1 end.

(* rows: one per location sample, weighted *)
Definition row (d : data) (w : T) (k : nat) (batch : list nat) : list T :=
  map (fun m => mul w (likelihood d k m)) batch.

Definition rows (d : data) (ws : list T) (batch : list nat) : list (list T) :=
  map (fun kw => row d (snd kw) (fst kw) batch) (combine (seq 0 (length ws)) ws).

(* marginal over the location samples of one tensor *)
Definition marginal (d : data) (ws : list T) (m : nat) : T :=
  suml (map (fun kw => mul (snd kw) (likelihood d (fst kw) m)) (combine (seq 0 (length ws)) ws)).

Definition forward_marginalised (d : data) (ws : list T) (batch : list nat) : list T :=
  map (marginal d ws) batch.

(* zero filtering: the columns whose marginal is non-zero, tensor identifier paired with value *)
Definition filtered (d : data) (ws : list T) (batch : list nat) : list (nat * T) :=
  filter (fun mp => negb (is_zero (snd mp))) (map (fun m => (m, marginal d ws m)) batch).

(* un-marginalised result with zero filtering: rows restricted to the kept columns *)
Definition kept_columns (d : data) (ws : list T) (batch : list nat) : list nat :=
  map fst (filtered d ws batch).

End Forward.

(* ---- execution at Q ---------------------------------------------------------------------- *)
From Coq Require Import QArith Qabs.

Definition qterm (tbl : list (list Q)) : nat -> nat -> Q :=
  fun k m => nth m (nth k tbl []) 0%Q.

Definition qdata (pol prob ar : option (list (list (list Q)))) : data (T := Q) :=
  mkData (option_map (map qterm) pol) (option_map (map qterm) prob) (option_map (map qterm) ar).

Definition q_is_zero (q : Q) : bool := Qeq_bool q 0.

(* |a - b| <= tol * b, for non-negative b *)
Definition q_close (tol a b : Q) : bool := Qle_bool (Qabs (a - b)) (tol * Qabs b).

Fixpoint all2 {A B} (f : A -> B -> bool) (l1 : list A) (l2 : list B) : bool :=
  match l1, l2 with
  | [], [] => true
  | x :: r1, y :: r2 => f x y && all2 f r1 r2
  | _, _ => false
  end.

(* the implementation's marginalised, unfiltered result (probabilities) against the model *)
Definition check_marginalised (tol : Q) (d : data (T := Q)) (ws : list Q) (n_mt : nat) (impl : list Q) : bool :=
  all2 (fun a b => if q_is_zero a then q_is_zero b else q_close tol b a)
       (forward_marginalised 0 1 Qplus Qmult d ws (seq 0 n_mt)) impl.

Definition check_rows (tol : Q) (d : data (T := Q)) (ws : list Q) (n_mt : nat) (impl : list (list Q)) : bool :=
  all2 (all2 (fun a b => if q_is_zero a then q_is_zero b else q_close tol b a))
       (rows 1 Qmult d ws (seq 0 n_mt)) impl.

Definition check_filtered (tol : Q) (d : data (T := Q)) (ws : list Q) (n_mt : nat) (impl : list (nat * Q)) : bool :=
  all2 (fun a b => Nat.eqb (fst a) (fst b) && q_close tol (snd b) (snd a))
       (filtered 0 1 Qplus Qmult q_is_zero d ws (seq 0 n_mt)) impl.
