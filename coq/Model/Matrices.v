(* Hand-written executable model of the observation-matrix builders of MTfit/inversion.py
   (polarity_matrix, polarity_probability_matrix, amplitude_ratio_matrix): which station's
   angles, measurement, error and mispick value end up in which output row.
   Names, angles and measurements are integers (the harness feeds the implementation integer-coded
   data and a coefficient stub that returns the angles themselves, so the comparison is exact). *)
From Coq Require Import ZArith List Bool Lia.
Import ListNotations.
Open Scope Z_scope.

Record station := mkSt { s_name : Z; s_az : Z; s_toa : Z }.
(* one observation of a data type: station, two measured values, two errors, mispick value *)
Record obs := mkObs { o_st : station; o_m1 : Z; o_m2 : Z; o_e1 : Z; o_e2 : Z; o_w : Z }.
Notation sample := (list station) (only parsing).

Record row := mkRow { r_name : Z; r_angles : list (Z * Z); r_obs : obs }.

Fixpoint index (n : Z) (l : list Z) : nat :=
  match l with [] => 0%nat | x :: r => if x =? n then 0%nat else S (index n r) end.
Definition mem (n : Z) (l : list Z) : bool := existsb (Z.eqb n) l.

Fixpoint insert (n : Z) (l : list Z) : list Z :=
  match l with
  | [] => [n]
  | x :: r => if n <? x then n :: l else if n =? x then l else x :: insert n r
  end.
(* sorted(list(set(a) & set(b))) *)
Definition selected (names0 dnames : list Z) : list Z :=
  fold_right insert [] (filter (fun n => mem n dnames) names0).

Definition dummy_st := mkSt 0 0 0.
Definition dummy_obs := mkObs dummy_st 0 0 0 0 0.

Definition angles_of (s : station) : Z * Z := (s_az s, s_toa s).

(* rows of one data type, no location samples: data order, the data's own angles *)
Definition rows_plain (data : list obs) : list row :=
  map (fun o => mkRow (s_name (o_st o)) [angles_of (o_st o)] o) data.

(* rows of one data type with location samples: the code computes the positions of the selected
   names in the FIRST sample and applies them to every sample; measurements are looked up by name
   in the data *)
Definition rows_loc (data : list obs) (samples : list sample) : list row :=
  let names0 := map s_name (hd [] samples) in
  let dnames := map (fun o => s_name (o_st o)) data in
  map (fun n =>
         let i := index n names0 in
         let j := index n dnames in
         mkRow n (map (fun s => angles_of (nth i s dummy_st)) samples) (nth j data dummy_obs))
      (selected names0 dnames).

Definition rows_of (data : list obs) (samples : list sample) : list row :=
  match samples with [] => rows_plain data | _ => rows_loc data samples end.

(* mispick vector of one type: the per-station values if given, else zeros of the same length *)
Definition mispick_of (has_w : bool) (rows : list row) : list Z :=
  map (fun r => if has_w then o_w (r_obs r) else 0) rows.

(* several data types: keys are processed in sorted order and concatenated *)
Definition build (types : list (bool * list obs)) (samples : list sample) : list row * list Z :=
  let per := map (fun t => let rs := rows_of (snd t) samples in (rs, mispick_of (fst t) rs)) types in
  (concat (map fst per), concat (map snd per)).

(* flat encodings compared with the implementation *)
Definition enc_row_pol (r : row) : list Z :=
  (* polarity folded into the coefficients: each angle entry is multiplied by the measured sign *)
  concat (map (fun a => [fst a * o_m1 (r_obs r); snd a * o_m1 (r_obs r)]) (r_angles r)) ++ [o_e1 (r_obs r)].
Definition enc_row_prob (r : row) : list Z :=
  concat (map (fun a => [fst a; snd a]) (r_angles r)) ++ [o_m1 (r_obs r); o_m2 (r_obs r)].
Definition enc_row_ar (r : row) : list Z :=
  (* ratio |m1/m2| (scaled by 4; the harness picks values that divide exactly) and the two
     fractional errors e/|m| *)
  concat (map (fun a => [fst a; snd a]) (r_angles r)) ++
  [Z.abs (o_m1 (r_obs r)) * 4 / Z.abs (o_m2 (r_obs r)); o_e1 (r_obs r) / Z.abs (o_m1 (r_obs r)); o_e2 (r_obs r) / Z.abs (o_m2 (r_obs r))].

Definition zl_eqb (a b : list Z) : bool := if list_eq_dec Z.eq_dec a b then true else false.
Definition zll_eqb (a b : list (list Z)) : bool := if list_eq_dec (list_eq_dec Z.eq_dec) a b then true else false.

Definition check (enc : row -> list Z) (types : list (bool * list obs)) (samples : list sample)
           (rows : list (list Z)) (w : list Z) : bool :=
  let '(rs, ws) := build types samples in
  zll_eqb (map enc rs) rows && zl_eqb ws w.
