(* Hand-written model of the result container used for plotting (MTfit/plot/plot_classes.py MTData: indexing,
   get_mean, get_max_probability, get_unique_McMC) and of MTfit/utilities/file_io.py unique_columns.
   Columns are integer-coded (tensor components scaled to integers, probabilities as integer numerators over a
   common power of two), so the correspondence run is exact. *)
From Coq Require Import ZArith List Bool Lia Sorting.Permutation.
Import ListNotations.
Open Scope Z_scope.

(* one sample: tensor six-vector, probability numerator, one converted parameter carried along *)
Record col := mkCol { mt : list Z; prob : Z; conv : Z }.

(* ---- indexing / slicing: MTData[:, idx] with an index list or a boolean mask *)
Definition take (idx : list nat) (cs : list col) : list col :=
  flat_map (fun i => match nth_error cs i with Some c => [c] | None => [] end) idx.
Fixpoint mask (m : list bool) (cs : list col) : list col :=
  match m, cs with
  | true :: m', c :: cs' => c :: mask m' cs'
  | false :: m', _ :: cs' => mask m' cs'
  | _, _ => []
  end.

(* ---- weighted mean: numerators sum_i p_i m_i (per component) and denominator sum_i p_i *)
Fixpoint vadd (a b : list Z) : list Z :=
  match a, b with
  | x :: a', y :: b' => (x + y) :: vadd a' b'
  | _, _ => []
  end.
Definition vscale (k : Z) (a : list Z) : list Z := map (Z.mul k) a.
Definition wsum (cs : list col) : list Z :=
  fold_right (fun c acc => vadd (vscale (prob c) (mt c)) acc) [0; 0; 0; 0; 0; 0] cs.
Definition psum (cs : list col) : Z := fold_right (fun c acc => prob c + acc) 0 cs.

(* ---- maximum-probability selection: exactly the samples attaining the maximum *)
Definition pmax (cs : list col) : Z := fold_right (fun c acc => Z.max (prob c) acc) 0 cs.
Definition max_prob (cs : list col) : list col := filter (fun c => prob c =? pmax cs) cs.

(* ---- unique columns with counts (numpy.unique(axis=1)) *)
Fixpoint lex_ltb (a b : list Z) : bool :=
  match a, b with
  | x :: a', y :: b' => (x <? y) || ((x =? y) && lex_ltb a' b')
  | [], _ :: _ => true
  | _, _ => false
  end.
Fixpoint veqb (a b : list Z) : bool :=
  match a, b with
  | x :: a', y :: b' => (x =? y) && veqb a' b'
  | [], [] => true
  | _, _ => false
  end.
(* insertion into an association list of (column, count, first index), in order of first occurrence (numpy.unique
   returns the distinct columns sorted; the order is not part of the property and the correspondence run sorts both) *)
Fixpoint uinsert (v : list Z) (i : nat) (l : list (list Z * Z * nat)) : list (list Z * Z * nat) :=
  match l with
  | [] => [(v, 1, i)]
  | (w, n, j) :: l' =>
      if veqb v w then (w, n + 1, j) :: l'
      else (w, n, j) :: uinsert v i l'
  end.
Fixpoint uniq_from (vs : list (list Z)) (i : nat) (acc : list (list Z * Z * nat)) : list (list Z * Z * nat) :=
  match vs with
  | [] => acc
  | v :: vs' => uniq_from vs' (S i) (uinsert v i acc)
  end.
Definition unique_columns (vs : list (list Z)) : list (list Z * Z * nat) := uniq_from vs 0%nat [].
Definition ucount (l : list (list Z * Z * nat)) : Z := fold_right (fun e acc => snd (fst e) + acc) 0 l.

(* get_unique_McMC: the first occurrence of each distinct tensor, probability := its count *)
Definition unique_mcmc (cs : list col) : list col :=
  flat_map (fun e => match nth_error cs (snd e) with
                     | Some c => [mkCol (mt c) (snd (fst e)) (conv c)]
                     | None => [] end) (unique_columns (map mt cs)).

(* ---- executable checks for the correspondence run *)
Definition col_eqb (a b : col) : bool := veqb (mt a) (mt b) && (prob a =? prob b) && (conv a =? conv b).
Fixpoint cols_eqb (a b : list col) : bool :=
  match a, b with
  | x :: a', y :: b' => col_eqb x y && cols_eqb a' b'
  | [], [] => true
  | _, _ => false
  end.
Definition check_take (cs : list col) (idx : list nat) (expected : list col) : bool := cols_eqb (take idx cs) expected.
Definition check_mask (cs : list col) (m : list bool) (expected : list col) : bool := cols_eqb (mask m cs) expected.
Definition check_max (cs expected : list col) : bool := cols_eqb (max_prob cs) expected.
Definition check_unique (cs expected : list col) : bool := cols_eqb (unique_mcmc cs) expected.
(* mean: implementation value m (scaled numerators) must satisfy m * psum = wsum exactly *)
Definition check_mean (cs : list col) (num : list Z) (den : Z) : bool :=
  veqb (vscale (psum cs) num) (vscale den (wsum cs)) && negb (den =? 0).
