(* Hand-written model of the input parsing and binary result format of MTfit/utilities/file_io.py:
   (A) CSV events with header-driven column lookup (_parse_csv_events), on tokenised lines;
   (B) the binary moment-tensor record format (_convert_mt_space_to_struct / read_binary_output), on a stream of items
       (64-bit unsigned, flag byte, 64-bit float words), including concatenated records. *)
From Coq Require Import ZArith List Bool Lia.
Import ListNotations.
Open Scope Z_scope.

(* ================= (A) CSV ================= *)
(* column kinds of the header *)
Inductive col := CName | CAz | CToa | CMeas | CErr | COther (k : Z).
Definition col_eqb (a b : col) : bool :=
  match a, b with
  | CName, CName | CAz, CAz | CToa, CToa | CMeas, CMeas | CErr, CErr => true
  | COther x, COther y => x =? y
  | _, _ => false
  end.

(* a data row after splitting at commas: each field is a list of numbers (a name is one code; the measurement and
   error fields hold one or two values) *)
Definition field := list Z.
Inductive cline := CUid (u : Z) | CType (k : Z) | CHeader (h : list col) | CRow (fs : list field).

Record row := mkRow { r_name : field; r_toa : field; r_az : field; r_meas : field; r_err : field }.

Fixpoint index_of (c : col) (h : list col) : nat :=
  match h with
  | [] => 0
  | x :: h' => if col_eqb c x then 0%nat else S (index_of c h')
  end.
Record indices := mkIdx { i_name : nat; i_meas : nat; i_az : nat; i_toa : nat; i_err : nat }.
Definition default_idx := mkIdx 0 3 1 2 4.
Definition idx_of_header (h : list col) : indices :=
  mkIdx (index_of CName h) (index_of CMeas h) (index_of CAz h) (index_of CToa h) (index_of CErr h).
Definition pick (fs : list field) (i : nat) : field := nth i fs [].
Definition read_row (ix : indices) (fs : list field) : row :=
  mkRow (pick fs (i_name ix)) (pick fs (i_toa ix)) (pick fs (i_az ix)) (pick fs (i_meas ix)) (pick fs (i_err ix)).

(* parser state within one event: column indices (they persist), current type key, rows of the current type (reversed),
   finished types (reversed), UID *)
Record cstate := mkC { ix : indices; key : Z; cur : list row; done : list (Z * list row); uid : option Z }.

Definition flush (s : cstate) : list (Z * list row) :=
  match cur s with [] => done s | _ => (key s, rev (cur s)) :: done s end.

Definition cstep (s : cstate) (l : cline) : cstate :=
  match l with
  | CUid u => mkC (ix s) (key s) (cur s) (done s) (Some u)
  | CType k => mkC (ix s) k [] (flush s) (uid s)
  | CHeader h => mkC (idx_of_header h) (key s) (cur s) (done s) (uid s)
  | CRow fs => mkC (ix s) (key s) (read_row (ix s) fs :: cur s) (done s) (uid s)
  end.

(* one event: returns its UID (if given), its data types in file order, and the state carried into the next event *)
Definition parse_event (ix0 : indices) (key0 : Z) (ls : list cline) : option Z * list (Z * list row) * indices * Z :=
  let s := fold_left cstep ls (mkC ix0 key0 [] [] None) in
  (uid s, rev (flush s), ix s, key s).

(* rendering of abstract data with a chosen header per type *)
Definition render_field (r : row) (c : col) : field :=
  match c with CName => r_name r | CAz => r_az r | CToa => r_toa r | CMeas => r_meas r | CErr => r_err r | COther _ => [] end.
Definition render_type (t : Z * list col * list row) : list cline :=
  let '(k, h, rows) := t in CType k :: CHeader h :: map (fun r => CRow (map (render_field r) h)) rows.
Definition render_event (u : option Z) (ts : list (Z * list col * list row)) : list cline :=
  (match u with Some x => [CUid x] | None => [] end) ++ flat_map render_type ts.

Definition complete_header (h : list col) : Prop :=
  In CName h /\ In CAz h /\ In CToa h /\ In CMeas h /\ In CErr h.

(* ================= (B) binary records ================= *)
Inductive item := U64 (z : Z) | Flag (b : bool) | F64 (w : Z).   (* w: the 64-bit pattern of the double *)

Record mtrec := mkRec { total : Z; converted : bool; evidence : Z; dkl : Z; samples : list (list Z) }.

Definition width (conv : bool) : nat := if conv then 21%nat else 8%nat.
Definition encode (r : mtrec) : list item :=
  [U64 2; U64 (total r); U64 (Z.of_nat (length (samples r))); Flag (converted r); F64 (evidence r); F64 (dkl r)]
  ++ flat_map (fun s => map F64 s) (samples r).

Fixpoint take_f64 (n : nat) (l : list item) : option (list Z * list item) :=
  match n with
  | O => Some ([], l)
  | S n' => match l with
            | F64 w :: l' => match take_f64 n' l' with Some (ws, rest) => Some (w :: ws, rest) | None => None end
            | _ => None
            end
  end.
Fixpoint take_samples (n : nat) (wd : nat) (l : list item) : option (list (list Z) * list item) :=
  match n with
  | O => Some ([], l)
  | S n' => match take_f64 wd l with
            | Some (s, rest) => match take_samples n' wd rest with Some (ss, rest') => Some (s :: ss, rest') | None => None end
            | None => None
            end
  end.
Definition decode_one (l : list item) : option (mtrec * list item) :=
  match l with
  | U64 v :: U64 tot :: U64 n :: Flag c :: F64 ev :: F64 dk :: l' =>
      if v =? 2 then
        match take_samples (Z.to_nat n) (width c) l' with
        | Some (ss, rest) => Some (mkRec tot c ev dk ss, rest)
        | None => None
        end
      else None
  | _ => None
  end.
(* while f.tell() < nmax: read a record (fuel: a record has at least six items) *)
Fixpoint decode_all (fuel : nat) (l : list item) : option (list mtrec) :=
  match l with
  | [] => Some []
  | _ => match fuel with
         | O => None
         | S fuel' => match decode_one l with
                      | Some (r, rest) => match decode_all fuel' rest with Some rs => Some (r :: rs) | None => None end
                      | None => None
                      end
         end
  end.

Definition well_shaped (r : mtrec) : Prop := forall s, In s (samples r) -> length s = width (converted r).

(* byte size of a record: 25 header bytes, two doubles, 64 (+104) bytes per sample *)
Definition byte_size (r : mtrec) : Z := 41 + Z.of_nat (length (samples r)) * (if converted r then 168 else 64).

(* ================= executable checks for the correspondence runs ================= *)
(* a whole CSV file: events in order, parser state (column indices, type key) threaded from one event to the next *)
Fixpoint parse_events (ix0 : indices) (key0 : Z) (evs : list (list cline)) : list (option Z * list (Z * list row)) :=
  match evs with
  | [] => []
  | ls :: evs' => let '(u, types, ix1, key1) := parse_event ix0 key0 ls in (u, types) :: parse_events ix1 key1 evs'
  end.
Definition parse_file (evs : list (list cline)) := parse_events default_idx 0 evs.

Fixpoint zl_eqb (a b : list Z) : bool :=
  match a, b with x :: a', y :: b' => (x =? y) && zl_eqb a' b' | [], [] => true | _, _ => false end.
Definition row_eqb (a b : row) : bool :=
  zl_eqb (r_name a) (r_name b) && zl_eqb (r_toa a) (r_toa b) && zl_eqb (r_az a) (r_az b) &&
  zl_eqb (r_meas a) (r_meas b) && zl_eqb (r_err a) (r_err b).
Fixpoint rows_eqb (a b : list row) : bool :=
  match a, b with x :: a', y :: b' => row_eqb x y && rows_eqb a' b' | [], [] => true | _, _ => false end.
Fixpoint types_eqb (a b : list (Z * list row)) : bool :=
  match a, b with (k, r) :: a', (k', r') :: b' => (k =? k') && rows_eqb r r' && types_eqb a' b' | [], [] => true | _, _ => false end.
Definition ouid_eqb (a b : option Z) : bool :=
  match a, b with Some x, Some y => x =? y | None, None => true | _, _ => false end.
Fixpoint events_eqb (a b : list (option Z * list (Z * list row))) : bool :=
  match a, b with (u, t) :: a', (u', t') :: b' => ouid_eqb u u' && types_eqb t t' && events_eqb a' b' | [], [] => true | _, _ => false end.
Definition check_csv (evs : list (list cline)) (expected : list (option Z * list (Z * list row))) : bool :=
  events_eqb (parse_file evs) expected.

Fixpoint zll_eqb (a b : list (list Z)) : bool :=
  match a, b with x :: a', y :: b' => zl_eqb x y && zll_eqb a' b' | [], [] => true | _, _ => false end.
Definition rec_eqb (a b : mtrec) : bool :=
  (total a =? total b) && Bool.eqb (converted a) (converted b) && (evidence a =? evidence b) && (dkl a =? dkl b) &&
  zll_eqb (samples a) (samples b).
Fixpoint recs_eqb (a b : list mtrec) : bool :=
  match a, b with x :: a', y :: b' => rec_eqb x y && recs_eqb a' b' | [], [] => true | _, _ => false end.
Definition check_binary (stream : list item) (expected : list mtrec) : bool :=
  match decode_all (S (length stream)) stream with Some rs => recs_eqb rs expected | None => false end.
