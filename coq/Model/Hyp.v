(* Hand-written model of the NonLinLoc hypocentre-file parser of MTfit/utilities/file_io.py (parse_hyp and
   _parse_hyp_events) on tokenised lines: event splitting at END_NLLOC, the PHASE ... END_PHASE section flag, the
   positional fields of a phase line (station 0, phase 4, first motion 5, time error 10, ray azimuth 23, ray dip 24),
   the first-motion letter table and the per-phase-type accumulation in order of first appearance. *)
From Coq Require Import ZArith List Bool Lia.
Import ListNotations.
Open Scope Z_scope.

Record pick := mkPick { p_sta : Z; p_pha : Z; p_pol : Z; p_unc : Z; p_az : Z; p_toa : Z }.
(* a non-empty line: the three keywords, or any other line with its number of tokens and the positional fields *)
Inductive hline := HPhase | HEndPhase | HEndLoc | HLine (ntok : nat) (p : pick).

(* nlloc_polarity_dict on letter codes 0 'u' 1 '?' 2 'd' 3 '+' 4 'c' 5 '-' 6 '.' 7 'p' 8 'n' *)
Definition pol_value (c : Z) : Z :=
  match c with 0 | 3 | 4 | 7 => 1 | 2 | 5 | 8 => -1 | _ => 0 end.

Record obs := mkObs { o_sta : Z; o_pol : Z; o_err : Z; o_az : Z; o_toa : Z }.
Definition obs_of (p : pick) : obs := mkObs (p_sta p) (pol_value (p_pol p)) (3 * p_unc p) (p_az p) (p_toa p).
Notation hdict := (list (Z * list obs)).

Fixpoint hadd (k : Z) (o : obs) (d : hdict) : hdict :=
  match d with
  | [] => [(k, [o])]
  | (k', os) :: d' => if k =? k' then (k', os ++ [o]) :: d' else (k', os) :: hadd k o d'
  end.

Definition hstep (s : bool * hdict) (l : hline) : bool * hdict :=
  let '(ph, d) := s in
  match l with
  | HPhase => (true, d)
  | HEndPhase => (false, d)
  | HEndLoc => (ph, d)
  | HLine n p =>
      if ph && (24 <=? n)%nat
      then (if pol_value (p_pol p) =? 0 then (ph, d) else (ph, hadd (p_pha p) (obs_of p) d))
      else (ph, d)
  end.

Definition parse_hyp_event (ls : list hline) : hdict := snd (fold_left hstep ls (false, [])).

(* parse_hyp: an event ends with its END_NLLOC line; an unterminated tail is an event too *)
Fixpoint split_events (ls cur : list hline) : list (list hline) :=
  match ls with
  | [] => match cur with [] => [] | _ => [rev cur] end
  | HEndLoc :: ls' => rev (HEndLoc :: cur) :: split_events ls' []
  | l :: ls' => split_events ls' (l :: cur)
  end.

Definition parse_hyp (ls : list hline) : list hdict := map parse_hyp_event (split_events ls []).

Definition hlookup (k : Z) (d : hdict) : list obs :=
  match find (fun e => fst e =? k) d with Some e => snd e | None => [] end.

(* ---- correspondence run *)
Definition obs_eqb (a b : obs) : bool :=
  (o_sta a =? o_sta b) && (o_pol a =? o_pol b) && (o_err a =? o_err b) && (o_az a =? o_az b) && (o_toa a =? o_toa b).
Fixpoint list_eqb {A} (e : A -> A -> bool) (a b : list A) : bool :=
  match a, b with
  | [], [] => true
  | x :: a', y :: b' => e x y && list_eqb e a' b'
  | _, _ => false
  end.
Definition entry_eqb (a b : Z * list obs) : bool := (fst a =? fst b) && list_eqb obs_eqb (snd a) (snd b).
(* events that carry no polarity data are dropped on both sides (whether the parser lists them is immaterial) *)
Definition nonempty (d : hdict) : bool := match d with [] => false | _ => true end.
Definition check_hyp (ls : list hline) (expected : list hdict) : bool :=
  list_eqb (list_eqb entry_eqb) (filter nonempty (parse_hyp ls)) expected.
