(* Composition of the two hand-written models: the observation-matrix builders (Model/Matrices.v) feeding the forward task
   (Model/Forward.v).  An event is a list of data types (each a list of observations); the per-observation probability given
   the ray of its station and a tensor is the abstract [atom] (the kernels of C02/C03 at the coefficients of C11). *)
From Coq Require Import ZArith List Bool.
From MTV.Model Require Import Matrices Forward.
Import ListNotations.

Section FrontEnd.
Context {T : Type} (one : T) (mul : T -> T -> T).
(* data-type tag, observation, (azimuth, take-off) of its station in one location record, tensor index *)
Variable atom : nat -> obs -> Z * Z -> nat -> T.

Definition term_of_row (ty : nat) (r : Matrices.row) : term (T := T) :=
  fun k m => atom ty (r_obs r) (nth k (r_angles r) (0, 0)%Z) m.

(* the terms of a family of data types (keys processed in order and concatenated, as build does) *)
Fixpoint terms_from (ty : nat) (types : list (list obs)) (samples : list (list station)) : list (term (T := T)) :=
  match types with
  | [] => []
  | d :: rest => map (term_of_row ty) (rows_of d samples) ++ terms_from (S ty) rest samples
  end.

Definition opt_terms (ty : nat) (types : list (list obs)) samples : option (list (term (T := T))) :=
  match types with [] => None | _ => Some (terms_from ty types samples) end.

(* what ForwardTask receives from Inversion._station_angles: polarity, polarity-probability and amplitude-ratio families *)
Definition front (pol prob ar : list (list obs)) (samples : list (list station)) : data (T := T) :=
  mkData (opt_terms 0 pol samples) (opt_terms 100 prob samples) (opt_terms 200 ar samples).

(* ---- the statement side: one factor per supplied observation, at its own station's ray in location record k *)
Definition dname (o : obs) : Z := s_name (o_st o).
Definition ray_of (n : Z) (s : list station) : Z * Z := angles_of (nth (index n (map s_name s)) s dummy_st).

Definition prodv (l : list T) : T := fold_right mul one l.

(* observations of one data type that take part: all of them without location records, else those whose station the records list *)
Definition taking_part (d : list obs) (samples : list (list station)) : list obs :=
  match samples with [] => d | s0 :: _ => filter (fun o => mem (dname o) (map s_name s0)) d end.

Definition factor (ty : nat) (samples : list (list station)) (k m : nat) (o : obs) : T :=
  match samples with
  | [] => atom ty o (angles_of (o_st o)) m
  | _ => atom ty o (ray_of (dname o) (nth k samples [])) m
  end.

Fixpoint spec_from (ty : nat) (types : list (list obs)) samples (k m : nat) : T :=
  match types with
  | [] => one
  | d :: rest => mul (prodv (map (factor ty samples k m) (taking_part d samples))) (spec_from (S ty) rest samples k m)
  end.
End FrontEnd.

(* ---- execution at Q: the atoms are a table of the implementation's own per-observation probabilities -------------------- *)
From Coq Require Import QArith.

(* key: data-type tag, station name, azimuth, take-off, tensor index *)
Definition akey := (nat * Z * Z * Z * nat)%type.
Definition akey_eqb (a b : akey) : bool :=
  let '(t1, n1, a1, o1, m1) := a in let '(t2, n2, a2, o2, m2) := b in
  Nat.eqb t1 t2 && Z.eqb n1 n2 && Z.eqb a1 a2 && Z.eqb o1 o2 && Nat.eqb m1 m2.

Fixpoint alookup (k : akey) (tbl : list (akey * Q)) : Q :=
  match tbl with [] => 0%Q | (k', v) :: r => if akey_eqb k k' then v else alookup k r end.

Definition atom_of (tbl : list (akey * Q)) (ty : nat) (o : obs) (ang : Z * Z) (m : nat) : Q :=
  alookup (ty, s_name (o_st o), fst ang, snd ang, m) tbl.

(* an observation is identified by its station here (measurements are inside the atoms) *)
Definition ob (n az toa : Z) : obs := mkObs (mkSt n az toa) 0 0 0 0 0.

Definition check_front (tol : Q) (tbl : list (akey * Q)) (pol prob ar : list (list obs)) (samples : list (list station))
           (ws : list Q) (n_mt : nat) (impl : list Q) : bool :=
  check_marginalised tol (front (atom_of tbl) pol prob ar samples) ws n_mt impl.
