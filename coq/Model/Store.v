(* Hand-written executable model of MTfit/sampling.py:Sample (append / storage growth / output
   selection), LnPDF.nonzero and the sample-count termination of IterationSample.
   Columns carry an integer identifier; a log-probability is [Some z] or [None] (= -infinity);
   an un-marginalised log-PDF has one such value per location row. *)
From Coq Require Import ZArith List Bool Lia.
Import ListNotations.
Open Scope Z_scope.

Definition lnp := list (option Z).                    (* one value per row of the log-PDF *)
Record cand := mkCand { c_id : Z; c_lnp : lnp; c_scale : Z }.

(* LnPDF.nonzero without discard: the column marginal is > -inf iff some row is *)
Definition nonzero (c : cand) : bool := existsb (fun v => match v with Some _ => true | None => false end) (c_lnp c).

Record store := mkStore {
  cap : nat;              (* allocated columns *)
  inc : nat;              (* storage increment (initial_sample_size) *)
  used : nat;             (* _i *)
  mts : list Z;           (* the allocated column identifiers, 0 = never written *)
  lnps : list lnp;        (* appended log-probabilities *)
  scales : list Z;        (* appended scale factors *)
  tried : Z               (* n *)
}.

Definition init (k : nat) : store := mkStore k k 0 (repeat 0 k) [] [] 0.

(* while not (cap - used > k): cap += inc -- on fuel *)
Fixpoint grow (fuel cap inc used k : nat) : option nat :=
  if Nat.ltb k (cap - used) then Some cap
  else match fuel with O => None | S f => grow f (cap + inc) inc used k end.

(* a[:, i:i+len ids] = ids *)
Definition set_slice (l : list Z) (i : nat) (ids : list Z) : list Z :=
  firstn i l ++ ids ++ skipn (i + length ids) l.

Definition append (st : store) (batch : list cand) (n : Z) : option store :=
  let nz := filter nonzero batch in
  let k := length nz in
  if Nat.eqb k 0 then Some (mkStore (cap st) (inc st) (used st) (mts st) (lnps st) (scales st) (tried st + n))
  else match grow (S k) (cap st) (inc st) (used st) k with
       | None => None
       | Some cap' =>
           let grown := mts st ++ repeat 0 (cap' - cap st) in
           Some (mkStore cap' (inc st) (used st + k) (set_slice grown (used st) (map c_id nz))
                         (lnps st ++ map c_lnp nz) (scales st ++ map c_scale nz) (tried st + n))
       end.

Fixpoint run (st : store) (ops : list (list cand * Z)) : option store :=
  match ops with
  | [] => Some st
  | (b, n) :: r => match append st b n with Some st' => run st' r | None => None end
  end.

(* what the property says the store must hold: the non-zero candidates in order *)
Definition spec_ids (ops : list (list cand * Z)) : list Z := concat (map (fun o => map c_id (filter nonzero (fst o))) ops).
Definition spec_lnps (ops : list (list cand * Z)) : list lnp := concat (map (fun o => map c_lnp (filter nonzero (fst o))) ops).
Definition spec_scales (ops : list (list cand * Z)) : list Z := concat (map (fun o => map c_scale (filter nonzero (fst o))) ops).
Definition spec_tried (ops : list (list cand * Z)) : Z := fold_right Z.add 0 (map snd ops).

(* exposed content *)
Definition exposed (st : store) : list Z := firstn (used st) (mts st).

(* output selection: indices kept by LnPDF.nonzero(discard, n) on marginalised integer values:
   keep iff max - v <= t, where t = floor (ln (discard * n)) (computed by the harness; the log is
   not an integer).  [None] never survives. *)
Definition zmax (l : list Z) : Z := fold_right Z.max (hd 0 l) l.
Definition keep (t : option Z) (vals : list (option Z)) : list bool :=
  let fin := flat_map (fun v => match v with Some z => [z] | None => [] end) vals in
  let m := zmax fin in
  map (fun v => match v with
                | None => false
                | Some z => match t with None => true | Some t => m - z <=? t end
                end) vals.

Fixpoint select {A} (mask : list bool) (l : list A) : list A :=
  match mask, l with
  | b :: m, x :: r => if b then x :: select m r else select m r
  | _, _ => []
  end.

(* sample-count-limited random sampling: iterate until tried >= max_samples; returns the number
   of batches consumed *)
Fixpoint mc_stop (maxs : Z) (acc : Z) (sizes : list Z) : option nat :=
  match sizes with
  | [] => None
  | s :: r => if maxs <=? acc + s then Some 1%nat else option_map S (mc_stop maxs (acc + s) r)
  end.

(* comparison helpers for the correspondence run *)
Definition optz_eqb (a b : option Z) : bool :=
  match a, b with Some x, Some y => x =? y | None, None => true | _, _ => false end.
Fixpoint list_eqb {A} (eqb : A -> A -> bool) (a b : list A) : bool :=
  match a, b with
  | [], [] => true
  | x :: a', y :: b' => eqb x y && list_eqb eqb a' b'
  | _, _ => false
  end.
Definition check_store (k : nat) (ops : list (list cand * Z))
           (e_cap e_used : nat) (e_mts : list Z) (e_lnps : list lnp) (e_scales : list Z) (e_tried : Z) : bool :=
  match run (init k) ops with
  | None => false
  | Some st =>
      Nat.eqb (cap st) e_cap && Nat.eqb (used st) e_used && list_eqb Z.eqb (mts st) e_mts &&
      list_eqb (list_eqb optz_eqb) (lnps st) e_lnps && list_eqb Z.eqb (scales st) e_scales && (tried st =? e_tried)
  end.
