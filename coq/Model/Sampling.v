(* Hand-written model of the random source generators of MTfit/algorithms/base.py, per sample, as functions of the
   standard normal draws they consume: _6sphere_random_mt (six draws), random_orthogonal_eigenvectors (three draws for the
   first axis, three for the auxiliary vector) and eigenvectors_mt_2_mt6.  Written over abstract arithmetic: theorems at
   the reals (Proofs/C08_sampling.v), bit-exact binary64 execution in the correspondence run. *)
From Coq Require Import List.
Import ListNotations.

Section Sampling.
Context {T : Type}.
Variables (add sub mul div : T -> T -> T) (sqrtT : T -> T) (sqrt2 : T).

Definition v3 := (T * T * T)%type.
Definition sumsq3 (v : v3) : T := let '(x, y, z) := v in add (add (mul x x) (mul y y)) (mul z z).
Definition scale3 (v : v3) (n : T) : v3 := let '(x, y, z) := v in (div x n, div y n, div z n).
Definition normalise3 (v : v3) : v3 := scale3 v (sqrtT (sumsq3 v)).
(* numpy.cross *)
Definition cross (a b : v3) : v3 :=
  let '(a0, a1, a2) := a in let '(b0, b1, b2) := b in
  (sub (mul a1 b2) (mul a2 b1), sub (mul a2 b0) (mul a0 b2), sub (mul a0 b1) (mul a1 b0)).

(* random_orthogonal_eigenvectors for one sample: draws ar (first vector) and x (auxiliary vector) *)
Definition triad (ar x : v3) : v3 * v3 * v3 :=
  let a := normalise3 ar in
  let b := normalise3 (cross a x) in
  let c := normalise3 (cross a b) in
  (a, b, c).

(* eigenvectors_mt_2_mt6 for one sample *)
Definition wsum (p q : T * T * T) (l : v3) : T :=
  let '(p0, p1, p2) := p in let '(q0, q1, q2) := q in let '(l0, l1, l2) := l in
  add (add (mul (mul p0 q0) l0) (mul (mul p1 q1) l1)) (mul (mul p2 q2) l2).
Definition sumsq6 (m : T * T * T * T * T * T) : T :=
  let '(m0, m1, m2, m3, m4, m5) := m in
  add (add (add (add (add (mul m0 m0) (mul m1 m1)) (mul m2 m2)) (mul m3 m3)) (mul m4 m4)) (mul m5 m5).
Definition scale6 (m : T * T * T * T * T * T) (n : T) : T * T * T * T * T * T :=
  let '(m0, m1, m2, m3, m4, m5) := m in (div m0 n, div m1 n, div m2 n, div m3 n, div m4 n, div m5 n).
Definition normalise6 (m : T * T * T * T * T * T) := scale6 m (sqrtT (sumsq6 m)).

Definition assemble (l : v3) (t : v3 * v3 * v3) : T * T * T * T * T * T :=
  let '(a, b, c) := t in
  let '(a0, a1, a2) := a in let '(b0, b1, b2) := b in let '(c0, c1, c2) := c in
  let r1 := (a0, b0, c0) in let r2 := (a1, b1, c1) in let r3 := (a2, b2, c2) in
  normalise6 (wsum r1 r1 l, wsum r2 r2 l, wsum r3 r3 l,
              mul sqrt2 (wsum r1 r2 l), mul sqrt2 (wsum r1 r3 l), mul sqrt2 (wsum r2 r3 l)).

(* random_type / random_dc / random_clvd for one sample *)
Definition random_type (l : v3) (ar x : v3) := assemble l (triad ar x).
(* _6sphere_random_mt for one sample *)
Definition random_mt (m : T * T * T * T * T * T) := normalise6 m.
End Sampling.

(* random_sample of MTfit/algorithms/monte_carlo.py for several events: one block of draws per event, every event's
   samples made from its own block by the single-event generator *)
Definition joint_draw {D S : Type} (sampler : D -> S) (blocks : list (list D)) : list (list S) := map (map sampler) blocks.

(* ---- binary64 execution *)
From Coq Require Import PrimFloat Bool.
Definition f_random_type := @random_type float PrimFloat.add PrimFloat.sub PrimFloat.mul PrimFloat.div PrimFloat.sqrt.
Definition f_random_mt := @random_mt float PrimFloat.add PrimFloat.mul PrimFloat.div PrimFloat.sqrt.

Definition feq6 (a b : float * float * float * float * float * float) : bool :=
  let '(a0, a1, a2, a3, a4, a5) := a in let '(b0, b1, b2, b3, b4, b5) := b in
  PrimFloat.eqb a0 b0 && PrimFloat.eqb a1 b1 && PrimFloat.eqb a2 b2 && PrimFloat.eqb a3 b3 && PrimFloat.eqb a4 b4 && PrimFloat.eqb a5 b5.
Definition check_type (s2 : float) (l ar x : float * float * float) (expected : float * float * float * float * float * float) : bool :=
  feq6 (f_random_type s2 l ar x) expected.
Definition check_mt (m expected : float * float * float * float * float * float) : bool := feq6 (f_random_mt m) expected.

(* joint draws in the correspondence run: the per-event structure is applied inside Coq *)
Fixpoint forall2b {A B} (e : A -> B -> bool) (a : list A) (b : list B) : bool :=
  match a, b with
  | nil, nil => true
  | cons x a', cons y b' => e x y && forall2b e a' b'
  | _, _ => false
  end.
Definition check_joint_mt (blocks expected : list (list (float * float * float * float * float * float))) : bool :=
  forall2b (forall2b feq6) (joint_draw f_random_mt blocks) expected.
Definition check_joint_type (s2 : float) (l : float * float * float)
  (blocks : list (list ((float * float * float) * (float * float * float))))
  (expected : list (list (float * float * float * float * float * float))) : bool :=
  forall2b (forall2b feq6) (joint_draw (fun d => f_random_type s2 l (fst d) (snd d)) blocks) expected.
